(* C02 end to end (props/C02_e2e.v): the back half of the type checker is invariant under a bijective renaming of the
   type variables, so -- with the registration / inference theorems of props/C02_register.v -- the layout does not depend
   on the order in which the lifted values are registered, on the order of the rule set, on the hash orders of
   unification, nor on the order of the layout loop, on the fragment `order_fragment`.

   The renaming is NOT pushed through `unify` operationally (no pulled-back iteration order is constructed).  On the
   fragment the result of `unify` is characterised semantically by UnifyOrderProofs.v, whatever the orders: the classes
   are the congruence closure CC st, a class whose evidence is words resolves to the join of ANY list with the same
   members (`a_unify_words_join`), a class with constructed evidence resolves to a constructed type whose components
   are CC-related to the evidence's.  All of that is invariant under `ren rho rho' st1 st2` ("st2 is st1 renamed, each
   judgement set up to order"): `CC_ren`, `frag_ren` (order_free, seen_safe, wf_b transfer), `two_envs_related_ren`.
   AbiRename.v then gives the same AbiValue for corresponding slots. *)
From Coq Require Import String Permutation.
From SLX Require Import Base gen.Constants gen.ValueSig gen.WordUseTable gen.RulesSig gen.LayoutKey SymVal TypeExpr Merge VectorMap
  DisjointSet Register Rules Unify UnifyOrder AbiT Layout Abi NoPanic Pipeline PipelineOrderDefs.
From SLX.proofs Require Import VecMapProofs DsuProofs MergeEquivProofs UnifyProofs UnifyOrderProofs UnifyTotal LayoutProofs
  AbiOrder AbiRename RegisterProofs RulesProofs RuleOrderProofs RegisterOrderProofs InferOrderProofs PipelinePolls PipelineProofs
  PipelineOrder.
Open Scope N_scope.

(* ========================================================================================== *)
(* 1. renaming type expressions                                                                *)

Lemma rename_span_cancel f g s : (forall x, f (g x) = x) -> rename_span f (rename_span g s) = s.
Proof. intros H. destruct s. unfold rename_span. cbn. rewrite H. reflexivity. Qed.

Lemma rename_te_cancel f g e : (forall x, f (g x) = x) -> rename_te f (rename_te g e) = e.
Proof.
  intros H. destruct e; cbn [rename_te]; rewrite ?H; try reflexivity.
  f_equal. rewrite map_map. rewrite <- (map_id types) at 2. apply map_ext. intros s. apply rename_span_cancel, H.
Qed.

Lemma rename_te_id e : rename_te (fun x => x) e = e.
Proof.
  destruct e; cbn [rename_te]; try reflexivity. f_equal. rewrite <- (map_id types) at 2. apply map_ext. intros []. reflexivity.
Qed.

Lemma rename_is_equal f e : is_equal (rename_te f e) = is_equal e. Proof. destruct e; reflexivity. Qed.
Lemma rename_is_ctor f e : is_ctor (rename_te f e) = is_ctor e. Proof. destruct e; reflexivity. Qed.
Lemma rename_wordlike_b f e : wordlike_b (rename_te f e) = wordlike_b e. Proof. destruct e; reflexivity. Qed.
Lemma rename_no_packed f e : no_packed (rename_te f e) = no_packed e. Proof. destruct e; reflexivity. Qed.
Lemma rename_kind_ok f e1 e2 : kind_ok (rename_te f e1) (rename_te f e2) = kind_ok e1 e2.
Proof. destruct e1, e2; reflexivity. Qed.
Lemma rename_wordlike_id f e : wordlike_b e = true -> rename_te f e = e.
Proof. destruct e; try discriminate; reflexivity. Qed.
Lemma rename_comp_pairs f e1 e2 :
  comp_pairs (rename_te f e1) (rename_te f e2) = map (fun p => (f (fst p), f (snd p))) (comp_pairs e1 e2).
Proof. destruct e1, e2; cbn [rename_te comp_pairs map fst snd]; try reflexivity. destruct (length =? length0); reflexivity. Qed.
Lemma rename_te_vars f e : te_vars (rename_te f e) = map f (te_vars e).
Proof. destruct e; cbn [rename_te te_vars map]; try reflexivity. rewrite !map_map. reflexivity. Qed.

(* ========================================================================================== *)
(* 2. one judgement set is the other renamed                                                   *)

Record ren (rho rho' : tyvar -> tyvar) (st1 st2 : tstate) : Prop := {
  r_l : forall x, rho' (rho x) = x;
  r_r : forall y, rho (rho' y) = y;
  r_next : ts_next st2 = ts_next st1;
  r_lt : forall x, rho x < ts_next st1 <-> x < ts_next st1;
  r_vars : forall x, In (rho x) (ts_vars st2) <-> In x (ts_vars st1);
  r_j : forall w e, In (rename_te rho e) (ts_get st2 (rho w)) <-> In e (ts_get st1 w)
}.

Lemma ren_sym rho rho' st1 st2 : ren rho rho' st1 st2 -> ren rho' rho st2 st1.
Proof.
  intros [L Rr N Lt V J]. constructor.
  - exact Rr.
  - exact L.
  - symmetry. exact N.
  - intros y. rewrite N. rewrite <- (Lt (rho' y)), Rr. reflexivity.
  - intros y. rewrite <- (V (rho' y)), Rr. reflexivity.
  - intros w e. rewrite <- (J (rho' w) (rename_te rho' e)), Rr, (rename_te_cancel rho rho' e Rr). reflexivity.
Qed.

Lemma ren_refl st : ren (fun x => x) (fun x => x) st st.
Proof.
  constructor; try reflexivity. intros w e. rewrite rename_te_id. reflexivity.
Qed.

Lemma decl_in st x y : In (x, y) (decl_eqs st) <-> In x (ts_vars st) /\ In (Equal y) (ts_get st x).
Proof.
  unfold decl_eqs, pairs_of_eq. rewrite in_flat_map. split.
  - intros (v & Hv & Hin). apply in_flat_map in Hin as (e & He & Hin). destruct e; try (destruct Hin; fail).
    destruct Hin as [[= -> ->]|[]]. auto.
  - intros [Hx He]. exists x. split; [exact Hx|]. apply in_flat_map. exists (Equal y). split; [exact He|left; reflexivity].
Qed.

Lemma ev_in_iff st x e : In (x, e) (ev_list st) <-> In x (ts_vars st) /\ In e (ts_get st x) /\ is_equal e = false.
Proof. rewrite <- orig_ev. reflexivity. Qed.

Section Ren.
  Variables rho rho' : tyvar -> tyvar.
  Variables st1 st2 : tstate.
  Hypothesis Rn : ren rho rho' st1 st2.

  Lemma decl_ren x y : In (x, y) (decl_eqs st1) -> In (rho x, rho y) (decl_eqs st2).
  Proof.
    rewrite !decl_in. intros [Hx He]. split; [apply (r_vars _ _ _ _ Rn), Hx|].
    change (Equal (rho y)) with (rename_te rho (Equal y)). apply (r_j _ _ _ _ Rn), He.
  Qed.

  Lemma ev_ren x e : In (x, e) (ev_list st1) -> In (rho x, rename_te rho e) (ev_list st2).
  Proof.
    rewrite !ev_in_iff. intros (Hx & He & Hn). split; [apply (r_vars _ _ _ _ Rn), Hx|].
    split; [apply (r_j _ _ _ _ Rn), He|]. rewrite rename_is_equal. exact Hn.
  Qed.

  Lemma ctor_ev_ren x e : In (x, e) (ctor_ev st1) -> In (rho x, rename_te rho e) (ctor_ev st2).
  Proof.
    unfold ctor_ev. rewrite !filter_In. cbn [snd]. intros [H C]. split; [apply ev_ren, H|]. rewrite rename_is_ctor. exact C.
  Qed.

  Lemma comp_ren e1 e2 p : In p (comp_pairs e1 e2) -> In (rho (fst p), rho (snd p)) (comp_pairs (rename_te rho e1) (rename_te rho e2)).
  Proof. intros H. rewrite rename_comp_pairs. apply in_map_iff. exists p. auto. Qed.

  Lemma CC_ren x y : CC st1 x y -> CC st2 (rho x) (rho y).
  Proof.
    induction 1 as [x y Hd|x e1 y e2 p H1 H2 _ IH Hp|x|x y _ IH|x y z _ IH1 _ IH2].
    - apply cc_decl, decl_ren, Hd.
    - apply (cc_comp st2 (rho x) (rename_te rho e1) (rho y) (rename_te rho e2) (rho (fst p), rho (snd p)));
        [apply ev_ren, H1|apply ev_ren, H2|exact IH|apply comp_ren, Hp].
    - apply cc_refl.
    - apply cc_sym, IH.
    - eapply cc_trans; eassumption.
  Qed.

  (* connectivity of pair lists *)
  Definition Fw (ps1 ps2 : list (tyvar * tyvar)) : Prop := forall x y, Conn ps1 x y -> Conn ps2 (rho x) (rho y).

  Lemma conn_map ps1 ps2 : (forall p, In p ps1 -> Conn ps2 (rho (fst p)) (rho (snd p))) -> Fw ps1 ps2.
  Proof.
    intros Hp x y H. induction H.
    - apply ConnRefl.
    - apply (Hp (x, y)). assumption.
    - apply ConnSym. assumption.
    - eapply ConnTrans; eassumption.
  Qed.

  Lemma step_fw ps1 ps2 : Fw ps1 ps2 -> Fw (cc_step st1 ps1) (cc_step st2 ps2).
  Proof.
    intros F. apply conn_map. intros p Hp. unfold cc_step in *. apply in_app_or in Hp as [Hd|Hj].
    - apply ConnPair. apply in_or_app. left. destruct p as [a b]. apply decl_ren, Hd.
    - apply just_pairs_in in Hj as (x & e1 & y & e2 & H1 & H2 & Hs & Hq).
      apply ConnPair. apply in_or_app. right. apply just_pairs_in.
      exists (rho x), (rename_te rho e1), (rho y), (rename_te rho e2).
      split; [apply ev_ren, H1|]. split; [apply ev_ren, H2|]. split; [|apply comp_ren, Hq].
      apply same_in_spec, F, same_in_spec, Hs.
  Qed.

  Lemma decl_fw : Fw (decl_eqs st1) (decl_eqs st2).
  Proof. apply conn_map. intros [a b] Hp. apply ConnPair, decl_ren, Hp. Qed.
End Ren.

(* closed_b, semantically *)
Definition closed_sem (st : tstate) (ps : list (tyvar * tyvar)) : Prop :=
  forall x e1 y e2 p, In (x, e1) (ev_list st) -> In (y, e2) (ev_list st) -> Conn ps x y -> In p (comp_pairs e1 e2) ->
    Conn ps (fst p) (snd p).

Lemma closed_b_sem st ps : closed_b st ps = true <-> closed_sem st ps.
Proof.
  unfold closed_b, closed_sem. rewrite forallb_forall. split.
  - intros H x e1 y e2 p H1 H2 Hc Hp. apply same_in_spec. apply H. apply just_pairs_in.
    exists x, e1, y, e2. repeat split; auto. apply same_in_spec, Hc.
  - intros H p Hp. apply just_pairs_in in Hp as (x & e1 & y & e2 & H1 & H2 & Hs & Hq).
    apply same_in_spec. apply (H x e1 y e2 p H1 H2); [apply same_in_spec, Hs|exact Hq].
Qed.

Section Ren2.
  Variables rho rho' : tyvar -> tyvar.
  Variables st1 st2 : tstate.
  Hypothesis Rn : ren rho rho' st1 st2.
  Let Rs := ren_sym _ _ _ _ Rn.

  (* both directions *)
  Definition FB (ps1 ps2 : list (tyvar * tyvar)) : Prop := Fw rho ps1 ps2 /\ Fw rho' ps2 ps1.

  Lemma fb_iff ps1 ps2 x y : FB ps1 ps2 -> (Conn ps1 x y <-> Conn ps2 (rho x) (rho y)).
  Proof.
    intros [F B]. split; [apply F|]. intros H. apply B in H. rewrite !(r_l _ _ _ _ Rn) in H. exact H.
  Qed.

  Lemma closed_sem_fw ps1 ps2 : FB ps1 ps2 -> closed_sem st1 ps1 -> closed_sem st2 ps2.
  Proof.
    intros HF H x e1 y e2 p H1 H2 Hc Hp. destruct HF as [F B].
    pose proof (ev_ren _ _ _ _ Rs _ _ H1) as G1. pose proof (ev_ren _ _ _ _ Rs _ _ H2) as G2.
    pose proof (B _ _ Hc) as Gc. pose proof (comp_ren rho' _ _ _ Hp) as Gp.
    pose proof (H _ _ _ _ _ G1 G2 Gc Gp) as G. cbn [fst snd] in G. apply F in G. rewrite !(r_r _ _ _ _ Rn) in G. exact G.
  Qed.
End Ren2.

Lemma fb_sym rho rho' ps1 ps2 : FB rho rho' ps1 ps2 -> FB rho' rho ps2 ps1.
Proof. intros [F B]. split; assumption. Qed.

Section Ren3.
  Variables rho rho' : tyvar -> tyvar.
  Variables st1 st2 : tstate.
  Hypothesis Rn : ren rho rho' st1 st2.
  Let Rs := ren_sym _ _ _ _ Rn.

  Lemma closed_b_ren ps1 ps2 : FB rho rho' ps1 ps2 -> closed_b st1 ps1 = closed_b st2 ps2.
  Proof.
    intros HF. apply eq_true_iff_eq. rewrite !closed_b_sem. split.
    - apply (closed_sem_fw rho rho' st1 st2 Rn ps1 ps2 HF).
    - apply (closed_sem_fw rho' rho st2 st1 Rs ps2 ps1 (fb_sym _ _ _ _ HF)).
  Qed.

  Lemma step_fb ps1 ps2 : FB rho rho' ps1 ps2 -> FB rho rho' (cc_step st1 ps1) (cc_step st2 ps2).
  Proof. intros [F B]. split; [apply (step_fw rho rho' st1 st2 Rn), F|apply (step_fw rho' rho st2 st1 Rs), B]. Qed.

  Lemma iter_fb k : forall ps1 ps2, FB rho rho' ps1 ps2 -> FB rho rho' (cc_iter st1 k ps1) (cc_iter st2 k ps2).
  Proof.
    induction k as [|k IH]; intros ps1 ps2 HF; cbn [cc_iter]; rewrite <- (closed_b_ren ps1 ps2 HF);
      destruct (closed_b st1 ps1); try exact HF. apply IH, step_fb, HF.
  Qed.

  Hypothesis Nd1 : NoDup (ts_vars st1).
  Hypothesis Nd2 : NoDup (ts_vars st2).

  Lemma vars_length : length (ts_vars st2) = length (ts_vars st1).
  Proof.
    assert (P : Permutation (map rho (ts_vars st1)) (ts_vars st2)).
    { apply NoDup_Permutation; [|exact Nd2|].
      - apply FinFun.Injective_map_NoDup; [|exact Nd1]. intros a b E. rewrite <- (r_l _ _ _ _ Rn a), E. apply (r_l _ _ _ _ Rn).
      - intros y. rewrite in_map_iff. split.
        + intros (x & <- & Hx). apply (r_vars _ _ _ _ Rn), Hx.
        + intros Hy. exists (rho' y). split; [apply (r_r _ _ _ _ Rn)|]. apply (r_vars _ _ _ _ Rn). rewrite (r_r _ _ _ _ Rn). exact Hy. }
    rewrite <- (Permutation_length P), map_length. reflexivity.
  Qed.

  Lemma cc_fb : FB rho rho' (cc st1) (cc st2).
  Proof.
    unfold cc. rewrite vars_length. apply iter_fb. split; [apply (decl_fw rho rho' st1 st2 Rn)|apply (decl_fw rho' rho st2 st1 Rs)].
  Qed.

  Lemma same_in_ren x y : same_in (part_of (cc st2)) (rho x) (rho y) = same_in (part_of (cc st1)) x y.
  Proof. apply eq_true_iff_eq. rewrite !same_in_spec. symmetry. apply (fb_iff rho rho' st1 st2 Rn), cc_fb. Qed.

  Lemma comps_same_ren e1 e2 :
    comps_same (part_of (cc st2)) (rename_te rho e1) (rename_te rho e2) = comps_same (part_of (cc st1)) e1 e2.
  Proof. destruct e1, e2; cbn [rename_te comps_same]; rewrite ?same_in_ren; reflexivity. Qed.

  (* every entry of the second judgement set is visible through ts_get *)
  Lemma nodup_vis st p : NoDup (ts_vars st) -> In p (ts_inf st) -> ts_get st (fst p) = snd p.
  Proof.
    unfold ts_vars, ts_get. induction (ts_inf st) as [|q l IH]; intros Nd Hin; [destruct Hin|].
    cbn [map] in Nd. inversion Nd as [|? ? Hq Nd']; subst. cbn [find]. cbv beta. destruct Hin as [->|Hin].
    - rewrite N.eqb_refl. reflexivity.
    - destruct (_ =? _) eqn:E; [|apply IH; assumption].
      apply N.eqb_eq in E. exfalso. apply Hq.
      apply (eq_ind_r (fun k => In k (map fst l)) (in_map fst l p Hin) E).
  Qed.

  Lemma pull_entry p e : In p (ts_inf st2) -> In e (snd p) ->
    exists q, In q (ts_inf st1) /\ In (rename_te rho' e) (snd q).
  Proof.
    intros Hp He. rewrite <- (nodup_vis st2 p Nd2 Hp) in He.
    apply (r_j _ _ _ _ Rs) in He. apply (ts_get_in st1) in He. exact He.
  Qed.

  Lemma frag_ren : order_fragment st1 = true -> order_fragment st2 = true.
  Proof.
    unfold order_fragment, order_free. rewrite !andb_true_iff. intros [[[[Hpf Hcl] Hh] Hs] Hw].
    assert (Hcl2 : closed_b st2 (cc st2) = true) by (rewrite <- (closed_b_ren _ _ cc_fb); exact Hcl).
    split; [split; [split; [split|]|]|].
    - (* packed_free *)
      unfold packed_free in *. rewrite forallb_forall in *. intros p Hp. rewrite forallb_forall. intros e He.
      destruct (pull_entry p e Hp He) as (q & Hq & Hqe). specialize (Hpf q Hq). rewrite forallb_forall in Hpf.
      rewrite <- (rename_no_packed rho'). apply Hpf, Hqe.
    - exact Hcl2.
    - (* homogeneous *)
      unfold homog_b in *. rewrite forallb_forall in *. intros [x1 e1] H1. rewrite forallb_forall. intros [x2 e2] H2. cbn [fst snd].
      pose proof (ev_ren _ _ _ _ Rs _ _ H1) as G1. pose proof (ev_ren _ _ _ _ Rs _ _ H2) as G2.
      specialize (Hh _ G1). rewrite forallb_forall in Hh. specialize (Hh _ G2). cbn [fst snd] in Hh.
      rewrite rename_kind_ok in Hh. rewrite <- same_in_ren, !(r_r _ _ _ _ Rn) in Hh. exact Hh.
    - (* seen_safe *)
      unfold seen_safe in *. rewrite forallb_forall in *. intros [x1 e1] H1. rewrite forallb_forall. intros [x2 e2] H2. cbn [fst snd].
      pose proof (ctor_ev_ren _ _ _ _ Rs _ _ H1) as G1. pose proof (ctor_ev_ren _ _ _ _ Rs _ _ H2) as G2.
      specialize (Hs _ G1). rewrite forallb_forall in Hs. specialize (Hs _ G2). cbn [fst snd] in Hs.
      rewrite <- comps_same_ren, <- same_in_ren, !(r_r _ _ _ _ Rn), !(rename_te_cancel rho rho' _ (r_r _ _ _ _ Rn)) in Hs. exact Hs.
    - (* wf_b *)
      destruct (wf_parts st1 Hw) as (W1 & W2 & W3). unfold wf_b. rewrite !andb_true_iff, !forallb_forall. rewrite (r_next _ _ _ _ Rn).
      assert (Hlt : forall v, v < ts_next st1 <-> rho' v < ts_next st1).
      { intros v. rewrite <- (r_lt _ _ _ _ Rn (rho' v)), (r_r _ _ _ _ Rn). reflexivity. }
      split; [split|].
      + intros p Hp. rewrite forallb_forall. intros e He. destruct (pull_entry p e Hp He) as (q & Hq & Hqe).
        pose proof (W1 q _ Hq Hqe) as Hc. unfold NoPanic.te_closed in *. rewrite forallb_forall in *. intros v Hv.
        apply N.ltb_lt. apply (proj2 (Hlt v)). apply N.ltb_lt, Hc. rewrite rename_te_vars. apply in_map, Hv.
      + intros v Hv. apply N.ltb_lt. apply (proj2 (Hlt v)). apply W2. apply (r_vars _ _ _ _ Rs), Hv.
      + intros v Hv. unfold ts_registered. apply existsb_exists. exists v. split; [|apply N.eqb_refl].
        apply (r_vars _ _ _ _ Rs). apply W3. apply (proj1 (Hlt v)).
        unfold vars_below in Hv. apply in_map_iff in Hv as (k & <- & Hk). apply in_seq in Hk. lia.
  Qed.
End Ren3.

(* ========================================================================================== *)
(* 3. two runs, the second on the renamed judgement set                                        *)

Lemma ev_in_rev st x u e : order_free st = true -> In (u, e) (ev_list st) -> CC st u x -> In e (cc_evidence st x).
Proof.
  intros Hf Hin Hc. unfold cc_evidence. apply in_flat_map. exists (u, e). split; [exact Hin|]. cbn [fst snd].
  apply (cc_spec st u x (frag_closed st Hf)) in Hc. rewrite Hc. left. reflexivity.
Qed.

(* frag_words for any list with the members of the class's evidence *)
Lemma words_run st o fuel a n x evd : order_free st = true -> orders_ok o -> a_unify fuel o st = Ok (a, n) ->
  (forall e, In e evd <-> ev st a (a_rep iset a x) e) -> (forall e, In e evd -> wordlike e) ->
  resolves_to_join evd (run_data a x).
Proof.
  intros Hf Ho Ea Hev Hw. pose proof (a_unify_words_join o fuel st a n x evd Ho (frag_pf st Hf) Ea Hev Hw) as H.
  replace (run_data a x) with (match dat a (a_rep iset a x) with
                               | [] => match fm_get (a_rep iset a x) (a_data a) with None => None | Some l => Some l end
                               | l => Some l
                               end); [exact H|].
  unfold run_data, dat. destruct (fm_get (a_rep iset a x) (a_data a)) as [[|e l]|]; reflexivity.
Qed.

Lemma const_slot_key_rename rho x : const_slot_key (rename_tsv rho x) = const_slot_key x.
Proof.
  destruct x as [v t a args]. cbn [rename_tsv]. unfold const_slot_key.
  destruct args as [|[v1 t1 a1 r1] [|y ys]]; cbn [map rename_tsv]; reflexivity.
Qed.

Lemma is_const_slot_rename rho x : is_const_slot (rename_tsv rho x) = is_const_slot x.
Proof. unfold is_const_slot. rewrite const_slot_key_rename. reflexivity. Qed.

Lemma tv_of_rename rho x : tv_of (rename_tsv rho x) = rho (tv_of x).
Proof. destruct x. reflexivity. Qed.

Lemma flat_map_map {A B C} (f : B -> list C) (g : A -> B) l : flat_map f (map g l) = flat_map (fun x => f (g x)) l.
Proof. induction l as [|x t IH]; cbn [map flat_map]; [reflexivity|]. rewrite IH. reflexivity. Qed.

Section TwoRen.
  Variables rho rho' : tyvar -> tyvar.
  Variables st1 st2 : tstate.
  Hypothesis Rn : ren rho rho' st1 st2.
  Hypothesis Nd1 : NoDup (ts_vars st1).
  Hypothesis Nd2 : NoDup (ts_vars st2).
  Hypothesis Hf1 : order_fragment st1 = true.
  Variables o1 o2 : orders.
  Hypothesis Ho1 : orders_ok o1.
  Hypothesis Ho2 : orders_ok o2.
  Variable fuel : nat.
  Variables s1 s2 : dsu iset.
  Let n := ts_next st1.
  Hypothesis U1 : unify fuel o1 st1 = Ok (s1, n).
  Hypothesis U2 : unify fuel o2 st2 = Ok (s2, n).

  Let env1 := env_of_forest s1 n.
  Let env2 := env_of_forest s2 n.
  Let Rs := ren_sym _ _ _ _ Rn.
  Let Hf2 := frag_ren rho rho' st1 st2 Rn Nd1 Nd2 Hf1.

  Definition RR (x y : tyvar) : Prop := CC st2 (rho x) y.

  Lemma CC_pull x y : CC st2 (rho x) (rho y) -> CC st1 x y.
  Proof. intros H. apply (CC_ren _ _ _ _ Rs) in H. rewrite !(r_l _ _ _ _ Rn) in H. exact H. Qed.

  Lemma rho_ltb x : (rho x <? n) = (x <? n).
  Proof. apply eq_true_iff_eq. rewrite !N.ltb_lt. apply (r_lt _ _ _ _ Rn). Qed.

  Lemma two_envs_related_ren :
    (forall x y, RR x y -> has_expr env1 x = has_expr env2 y) /\
    (forall x y, RR x y -> hdrel RR (ty_data env1 x) (ty_data env2 y)) /\
    (forall x y u1 u2 e, RR x y -> RR u1 u2 -> ty_data env1 x = Some [e] -> ty_data env1 u1 = Some [e] ->
       is_type_constructor e = true -> ty_data env2 y = ty_data env2 u2) /\
    (forall x y u1 u2 e, RR x y -> RR u1 u2 -> ty_data env2 y = Some [e] -> ty_data env2 u2 = Some [e] ->
       is_type_constructor e = true -> ty_data env1 x = ty_data env1 u1).
  Proof.
    destruct (frag_of st1 Hf1) as (Hof1 & Hsafe1 & Hwf1). destruct (frag_of st2 Hf2) as (Hof2 & Hsafe2 & Hwf2).
    destruct (unify_ok_refines _ _ _ _ _ U1) as (a1 & E1 & S1). destruct (unify_ok_refines _ _ _ _ _ U2) as (a2 & E2 & S2).
    assert (N2 : ts_next st2 = n) by apply (r_next _ _ _ _ Rn).
    assert (D1 : forall v, ty_data env1 v = if v <? n then run_data a1 v else None) by (intros v; apply env_data, S1).
    assert (D2 : forall v, ty_data env2 v = if v <? n then run_data a2 v else None) by (intros v; apply env_data, S2).
    assert (L1 : forall x y, CC st1 x y -> (x <? n) = (y <? n)) by (intros x y H; apply (CC_ltb st1 Hwf1 x y H)).
    assert (L2 : forall x y, CC st2 x y -> (x <? n) = (y <? n)).
    { intros x y H. pose proof (CC_ltb st2 Hwf2 x y H) as L. rewrite N2 in L. exact L. }
    assert (C1 : forall x y, CC st1 x y -> ty_data env1 x = ty_data env1 y).
    { intros x y H. rewrite !D1, (L1 x y H), (run_const st1 Hof1 o1 fuel a1 n Ho1 E1 x y H). reflexivity. }
    assert (C2 : forall x y, CC st2 x y -> ty_data env2 x = ty_data env2 y).
    { intros x y H. rewrite !D2, (L2 x y H), (run_const st2 Hof2 o2 fuel a2 n Ho2 E2 x y H). reflexivity. }
    split; [|split; [|split]].
    - intros x y H. cbn [env1 env2 env_of_forest has_expr]. rewrite <- (L2 _ _ H). symmetry. apply rho_ltb.
    - intros x y H. unfold RR in H. rewrite <- (C2 _ _ H), D1, D2, rho_ltb.
      destruct (x <? n) eqn:Ex; [|exact I]. apply N.ltb_lt in Ex.
      destruct (wf_parts st1 Hwf1) as (_ & _ & W3). pose proof (W3 x Ex) as Hin1.
      pose proof (proj2 (r_vars _ _ _ _ Rn x) Hin1) as Hin2.
      pose proof (a_unify_total o1 fuel st1 a1 n x Ho1 E1 Hin1) as T1.
      pose proof (a_unify_total o2 fuel st2 a2 n (rho x) Ho2 E2 Hin2) as T2.
      fold (run_data a1 x) in T1. fold (run_data a2 (rho x)) in T2.
      destruct (forallb wordlike_b (cc_evidence st1 x)) eqn:Ew.
      + (* word evidence only: the join of the same list in both runs *)
        rewrite forallb_forall in Ew.
        assert (Hw : forall e, In e (cc_evidence st1 x) -> wordlike e) by (intros e He; apply wordlike_b_spec, Ew, He).
        pose proof (frag_words st1 Hof1 o1 fuel a1 n Ho1 E1 x Hw) as J1.
        assert (Hiff : forall e, In e (cc_evidence st1 x) <-> ev st2 a2 (a_rep iset a2 (rho x)) e).
        { intros e. split.
          - intros He. destruct (ev_in st1 Hof1 x e He) as (u & Hu & Hc).
            exists (rho u). split.
            + apply orig_ev. rewrite <- (rename_wordlike_id rho e (Ew e He)). apply (ev_ren _ _ _ _ Rn), Hu.
            + apply (frag_partition st2 Hof2 o2 fuel a2 n Ho2 E2). apply (CC_ren _ _ _ _ Rn), Hc.
          - intros (y' & Hoe & Hr). apply (frag_partition st2 Hof2 o2 fuel a2 n Ho2 E2) in Hr.
            apply orig_ev in Hoe. apply (ev_ren _ _ _ _ Rs) in Hoe.
            assert (Hc : CC st1 (rho' y') x).
            { apply CC_pull. rewrite (r_r _ _ _ _ Rn). exact Hr. }
            pose proof (ev_in_rev st1 x _ _ Hof1 Hoe Hc) as Hin. pose proof (Ew _ Hin) as Hwl.
            rewrite rename_wordlike_b in Hwl. rewrite (rename_wordlike_id rho' e Hwl) in Hin. exact Hin. }
        pose proof (words_run st2 o2 fuel a2 n (rho x) (cc_evidence st1 x) Hof2 Ho2 E2 Hiff Hw) as J2.
        pose proof (join_data_rel RR _ _ _ J1 J2) as Hd.
        destruct (run_data a1 x) as [d1|] eqn:G1; [|congruence]. destruct (run_data a2 (rho x)) as [d2|] eqn:G2; [|congruence].
        destruct d1 as [|t1 [|t1' l1]], d2 as [|t2 [|t2' l2]]; cbn [data_rel] in Hd; try contradiction; cbn [hdrel]; [exact I|].
        split; [exact Hd|]. split.
        * apply (data_plain st1 Hof1 o1 fuel a1 n Ho1 E1 x t1 G1).
        * apply (data_plain st2 Hof2 o2 fuel a2 n Ho2 E2 (rho x) t2 G2).
      + (* constructed evidence *)
        destruct (forallb_false_ex _ _ Ew) as (e & Hin & Hnw).
        assert (Hn : ~ wordlike e) by (intros H0; apply wordlike_b_spec in H0; congruence).
        destruct (frag_nonword st1 Hof1 o1 fuel a1 n Ho1 E1 x e Hin Hn) as (Hc & t1 & G1 & M1).
        destruct (ev_in st1 Hof1 x e Hin) as (u & Hu & Hcu).
        assert (Hev2 : In (rename_te rho e) (cc_evidence st2 (rho x))).
        { apply (ev_in_rev st2 (rho x) (rho u) _ Hof2); [apply (ev_ren _ _ _ _ Rn), Hu|apply (CC_ren _ _ _ _ Rn), Hcu]. }
        assert (Hn2 : ~ wordlike (rename_te rho e)).
        { intros H0. apply wordlike_b_spec in H0. rewrite rename_wordlike_b in H0. congruence. }
        destruct (frag_nonword st2 Hof2 o2 fuel a2 n Ho2 E2 (rho x) _ Hev2 Hn2) as (Hc2 & t2 & G2 & M2).
        rewrite G1, G2. cbn [hdrel]. split; [|split].
        * destruct e; try discriminate Hc; cbn [rename_te ctor_match] in M1, M2.
          -- destruct M1 as (x1 & -> & R1), M2 as (x2 & -> & R2). constructor. unfold RR.
             eapply cc_trans; [apply cc_sym, (CC_ren _ _ _ _ Rn), R1|exact R2].
          -- destruct M1 as (k1 & v1 & -> & R1 & R1'), M2 as (k2 & v2 & -> & R2 & R2'). constructor; unfold RR.
             ++ eapply cc_trans; [apply cc_sym, (CC_ren _ _ _ _ Rn), R1|exact R2].
             ++ eapply cc_trans; [apply cc_sym, (CC_ren _ _ _ _ Rn), R1'|exact R2'].
          -- destruct M1 as (x1 & -> & R1), M2 as (x2 & -> & R2). constructor. unfold RR.
             eapply cc_trans; [apply cc_sym, (CC_ren _ _ _ _ Rn), R1|exact R2].
        * apply (ctor_match_shape st1 t1 e Hc M1).
        * apply (ctor_match_shape st2 t2 _ Hc2 M2).
    - intros x y u1 u2 e Hxy Hu Hx Hu1 Hc. unfold RR in *. rewrite D1 in Hx, Hu1.
      destruct (x <? n); [|discriminate]. destruct (u1 <? n); [|discriminate].
      pose proof (run_inj st1 Hof1 Hsafe1 o1 fuel a1 n Ho1 E1 x u1 e Hx Hu1 Hc) as Hcc.
      apply C2. eapply cc_trans; [apply cc_sym, Hxy|]. eapply cc_trans; [apply (CC_ren _ _ _ _ Rn), Hcc|exact Hu].
    - intros x y u1 u2 e Hxy Hu Hy Hu2 Hc. unfold RR in *. rewrite D2 in Hy, Hu2.
      destruct (y <? n); [|discriminate]. destruct (u2 <? n); [|discriminate].
      pose proof (run_inj st2 Hof2 Hsafe2 o2 fuel a2 n Ho2 E2 y u2 e Hy Hu2 Hc) as Hcc.
      apply C1. apply CC_pull. eapply cc_trans; [exact Hxy|]. eapply cc_trans; [exact Hcc|apply cc_sym, Hu].
  Qed.

  Lemma slot_rows_ren f x : out_rel eq (slot_rows env1 f x) (slot_rows env2 f (rename_tsv rho x)).
  Proof.
    destruct two_envs_related_ren as (H1 & H2 & H3 & H4).
    unfold slot_rows. rewrite const_slot_key_rename, tv_of_rename. destruct (const_slot_key x) as [index|]; [|reflexivity].
    pose proof (abi_type_for_rel_het abi_nested_add abi_nested_fit env1 env2 RR H1 H2 H3 H4 f (tv_of x) (rho (tv_of x)) (cc_refl st2 _)) as H.
    destruct (abi_type_for abi_nested_add abi_nested_fit env1 f (tv_of x)) as [v1| |],
             (abi_type_for abi_nested_add abi_nested_fit env2 f (rho (tv_of x))) as [v2| |]; cbn in H |- *; try contradiction; try exact H.
    subst v2. reflexivity.
  Qed.

  Lemma slot_ok_ren f x : slot_ok env1 f x <-> slot_ok env2 f (rename_tsv rho x).
  Proof.
    pose proof (slot_rows_ren f x) as H. unfold slot_ok.
    destruct (slot_rows env1 f x) as [r1| |], (slot_rows env2 f (rename_tsv rho x)) as [r2| |]; cbn in H; try contradiction;
      split; intros (r & Hr); try discriminate Hr; eauto.
  Qed.

  Lemma rows_ren f x : rows_or_nil env1 f x = rows_or_nil env2 f (rename_tsv rho x).
  Proof.
    pose proof (slot_rows_ren f x) as H. unfold rows_or_nil.
    destruct (slot_rows env1 f x) as [r1| |], (slot_rows env2 f (rename_tsv rho x)) as [r2| |]; cbn in H; try contradiction; auto.
  Qed.

  Lemma fold_perm_ren f slots1 slots2 : Permutation slots2 (map (rename_tsv rho) slots1) ->
    match fold_e (layout_body env1 f) slots1 [], fold_e (layout_body env2 f) slots2 [] with
    | inl l1, inl l2 => Permutation l1 l2 /\ (key_functional l1 -> l1 = l2)
    | inr r1, inr r2 => is_layout r1 = false /\ is_layout r2 = false
    | _, _ => False
    end.
  Proof.
    intros P.
    destruct (fold_e (layout_body env1 f) slots1 []) as [l1|r1] eqn:F1, (fold_e (layout_body env2 f) slots2 []) as [l2|r2] eqn:F2.
    - destruct (fold_layout_ok _ _ _ _ _ F1) as (_ & P1 & S1). destruct (fold_layout_ok _ _ _ _ _ F2) as (_ & P2 & S2).
      cbn [app] in P1, P2.
      assert (PP : Permutation l1 l2).
      { rewrite P1, P2. rewrite (Permutation_flat_map _ P), flat_map_map. rewrite (flat_map_ext _ _ (rows_ren f)). reflexivity. }
      split; [exact PP|]. intros Fk. apply sorted_perm_eq; [apply S1; constructor|apply S2; constructor|exact PP|exact Fk].
    - destruct (fold_layout_ok _ _ _ _ _ F1) as (A1 & _). destruct (fold_layout_fail _ _ _ _ _ F2) as ((x & Hx & Hn) & _).
      apply (Permutation_in _ P) in Hx. apply in_map_iff in Hx as (x0 & <- & Hx0). apply Hn, slot_ok_ren, A1, Hx0.
    - destruct (fold_layout_ok _ _ _ _ _ F2) as (A2 & _). destruct (fold_layout_fail _ _ _ _ _ F1) as ((x & Hx & Hn) & _).
      apply Hn, slot_ok_ren, A2. eapply Permutation_in; [apply Permutation_sym, P|apply in_map, Hx].
    - destruct (fold_layout_fail _ _ _ _ _ F1) as (_ & E1). destruct (fold_layout_fail _ _ _ _ _ F2) as (_ & E2). auto.
  Qed.
End TwoRen.

Lemma synthetic_none n : synthetic_values n n = [].
Proof. unfold synthetic_values. rewrite N.sub_diag. reflexivity. Qed.

(* THE back-half statement: two judgement sets, the second the first renamed *)
Theorem back_ren_agree s1 s2 rho rho' o1 o2 arr1 arr2 fuel :
  ren rho rho' (tstate_of s1) (tstate_of s2) ->
  NoDup (map fst (infs s1)) -> NoDup (map fst (infs s2)) ->
  Permutation (filter is_const_slot (Register.values s2)) (map (rename_tsv rho) (filter is_const_slot (Register.values s1))) ->
  order_fragment (tstate_of s1) = true -> orders_ok o1 -> orders_ok o2 ->
  (forall l, Permutation (arr1 l) l) -> (forall l, Permutation (arr2 l) l) ->
  (length (ts_vars (tstate_of s1)) + 2 <= fuel)%nat ->
  results_agree (back_run o1 arr1 fuel s1) (back_run o2 arr2 fuel s2) /\ order_fragment (tstate_of s2) = true.
Proof.
  intros Rn Nd1 Nd2 Ps Hf Ho1 Ho2 Ha1 Ha2 Hfuel.
  pose proof (frag_ren rho rho' _ _ Rn Nd1 Nd2 Hf) as Hf2. split; [|exact Hf2].
  destruct (frag_of _ Hf) as (Hof1 & _). destruct (frag_of _ Hf2) as (Hof2 & _).
  assert (Hfuel2 : (length (ts_vars (tstate_of s2)) + 2 <= fuel)%nat) by (rewrite (vars_length rho rho' _ _ Rn Nd1 Nd2); exact Hfuel).
  destruct (unify_terminates_packed_free_proof o1 (tstate_of s1) fuel Ho1 (frag_pf _ Hof1) Hfuel) as (d1 & U1).
  destruct (unify_terminates_packed_free_proof o2 (tstate_of s2) fuel Ho2 (frag_pf _ Hof2) Hfuel2) as (d2 & U2).
  unfold back_run. rewrite U1, U2. cbn [ures_res].
  assert (N2 : ts_next (tstate_of s2) = ts_next (tstate_of s1)) by apply (r_next _ _ _ _ Rn).
  change (next s1) with (ts_next (tstate_of s1)). change (next s2) with (ts_next (tstate_of s2)).
  rewrite !synthetic_none, !app_nil_r.
  assert (P : Permutation (filter is_const_slot (arr2 (Register.values s2)))
                          (map (rename_tsv rho) (filter is_const_slot (arr1 (Register.values s1))))).
  { rewrite (perm_filter _ _ _ (Ha2 _)), Ps. apply Permutation_map, perm_filter. symmetry. apply Ha1. }
  rewrite N2 in U2 |- *.
  pose proof (fold_perm_ren rho rho' _ _ Rn Nd1 Nd2 Hf o1 o2 Ho1 Ho2 fuel d1 d2 U1 U2
                (S (N.to_nat (ts_next (tstate_of s1)))) _ _ P) as H.
  destruct (fold_e (layout_body (env_of_forest d1 _) _) (filter is_const_slot (arr1 (Register.values s1))) []) as [l1|r1],
           (fold_e (layout_body (env_of_forest d2 _) _) (filter is_const_slot (arr2 (Register.values s2))) []) as [l2|r2];
    try contradiction.
  - cbn [results_agree]. exact H.
  - destruct H as [E1 E2]. destruct r1; try discriminate E1; destruct r2; try discriminate E2; exact I.
Qed.
