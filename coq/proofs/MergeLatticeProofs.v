(* C15, merge level: `WordUse` with `merge` (the generated table) is a bounded join-semilattice, widths
   are a flat lattice, word evidence is their product, and `merge` on words computes the join
   (a conflict exactly when the join is the top element). *)
From Coq Require Import Permutation.
From SLX Require Import Base gen.Constants gen.WordUseTable TypeExpr Merge proofs.MergeEquivProofs.
Open Scope N_scope.

(* ---- usages: exhaustive case analysis over the generated table ---- *)
Lemma all_wuse_complete u : In u all_wuse.
Proof. destruct u; vm_compute; tauto. Qed.

Lemma forall_wuse (P : wuse -> bool) : forallb P all_wuse = true -> forall u, P u = true.
Proof. intros H u. rewrite forallb_forall in H. apply H. apply all_wuse_complete. Qed.

(* join on usages with the top element (`None` = incompatible) made explicit *)
Definition ujoin (a b : option wuse) : option wuse :=
  match a, b with Some x, Some y => wuse_merge x y | _, _ => None end.

Definition ouse_eqb (a b : option wuse) : bool :=
  match a, b with Some x, Some y => wuse_eqb x y | None, None => true | _, _ => false end.
Lemma ouse_eqb_eq a b : ouse_eqb a b = true -> a = b.
Proof. destruct a, b; simpl; intros H; try discriminate; auto. apply wuse_eqb_eq in H. congruence. Qed.

Lemma wuse_merge_idem a : wuse_merge a a = Some a.
Proof. apply ouse_eqb_eq. revert a. apply forall_wuse. vm_compute. reflexivity. Qed.

Lemma wuse_merge_comm a b : wuse_merge a b = wuse_merge b a.
Proof.
  apply ouse_eqb_eq. revert b. apply forall_wuse. revert a. apply forall_wuse. vm_compute. reflexivity.
Qed.

Lemma wuse_merge_assoc a b c : ujoin (wuse_merge a b) (Some c) = ujoin (Some a) (wuse_merge b c).
Proof.
  apply ouse_eqb_eq. revert c. apply forall_wuse. revert b. apply forall_wuse. revert a. apply forall_wuse.
  vm_compute. reflexivity.
Qed.

Lemma ujoin_assoc a b c : ujoin (ujoin a b) c = ujoin a (ujoin b c).
Proof.
  destruct a as [a|], b as [b|], c as [c|]; simpl; auto.
  - apply wuse_merge_assoc.
  - destruct (wuse_merge a b); reflexivity.
Qed.

Lemma ujoin_top a : ujoin None a = None /\ ujoin a None = None.
Proof. destruct a; split; reflexivity. Qed.

(* the order induced by the join: a <= b iff a join b = b *)
Lemma wuse_le_refl a : wuse_le a a = true.
Proof. revert a. apply forall_wuse. vm_compute. reflexivity. Qed.

Lemma wuse_le_antisym a b : wuse_le a b = true -> wuse_le b a = true -> a = b.
Proof.
  intros H1 H2. apply wuse_eqb_eq.
  assert (H : forall a' b', implb (wuse_le a' b' && wuse_le b' a') (wuse_eqb a' b') = true).
  { intros a' b'. revert b'. apply forall_wuse. revert a'. apply forall_wuse. vm_compute. reflexivity. }
  specialize (H a b). rewrite H1, H2 in H. exact H.
Qed.

Lemma wuse_le_trans a b c : wuse_le a b = true -> wuse_le b c = true -> wuse_le a c = true.
Proof.
  intros H1 H2.
  assert (H : forall a' b' c', implb (wuse_le a' b' && wuse_le b' c') (wuse_le a' c') = true).
  { intros a' b' c'. revert c'. apply forall_wuse. revert b'. apply forall_wuse. revert a'. apply forall_wuse.
    vm_compute. reflexivity. }
  specialize (H a b c). rewrite H1, H2 in H. exact H.
Qed.

(* `wuse_merge` is the least upper bound; `None` exactly when there is no upper bound at all *)
Lemma wuse_merge_ub a b c : wuse_merge a b = Some c -> wuse_le a c = true /\ wuse_le b c = true.
Proof.
  intros H.
  assert (E : forall a' b', match wuse_merge a' b' with Some c => wuse_le a' c && wuse_le b' c | None => true end = true).
  { intros a' b'. revert b'. apply forall_wuse. revert a'. apply forall_wuse. vm_compute. reflexivity. }
  specialize (E a b). rewrite H in E. apply andb_true_iff in E. exact E.
Qed.

Lemma wuse_merge_least a b d : wuse_le a d = true -> wuse_le b d = true ->
  exists c, wuse_merge a b = Some c /\ wuse_le c d = true.
Proof.
  intros H1 H2.
  assert (E : forall a' b' d', implb (wuse_le a' d' && wuse_le b' d')
                (match wuse_merge a' b' with Some c => wuse_le c d' | None => false end) = true).
  { intros a' b' d'. revert d'. apply forall_wuse. revert b'. apply forall_wuse. revert a'. apply forall_wuse.
    vm_compute. reflexivity. }
  specialize (E a b d). rewrite H1, H2 in E. simpl in E. destruct (wuse_merge a b) as [c|]; [|discriminate]. eauto.
Qed.

Lemma wuse_merge_top a b : wuse_merge a b = None <-> (forall d, wuse_le a d && wuse_le b d = false).
Proof.
  split.
  - intros H d. destruct (wuse_le a d) eqn:E1; auto. destruct (wuse_le b d) eqn:E2; auto.
    destruct (wuse_merge_least a b d E1 E2) as [c [Hc _]]. congruence.
  - intros H. destruct (wuse_merge a b) as [c|] eqn:E; auto.
    destruct (wuse_merge_ub a b c E) as [H1 H2]. specialize (H c). rewrite H1, H2 in H. discriminate.
Qed.

(* `Bytes` is the bottom element: it says nothing *)
Lemma wuse_bytes_bottom a : wuse_merge UBytes a = Some a /\ wuse_merge a UBytes = Some a.
Proof.
  split; apply ouse_eqb_eq; revert a; apply forall_wuse; vm_compute; reflexivity.
Qed.

(* ---- widths: the flat lattice (unknown below every known width, two different widths have no bound) ---- *)
Definition wjoin (a b : option (option N)) : option (option N) :=
  match a, b with Some x, Some y => width_merge x y | _, _ => None end.

Lemma width_merge_idem a : width_merge a a = Some a.
Proof. destruct a; simpl; auto. rewrite N.eqb_refl. reflexivity. Qed.

Lemma width_merge_comm a b : width_merge a b = width_merge b a.
Proof.
  destruct a as [x|], b as [y|]; simpl; auto.
  destruct (N.eqb_spec x y) as [->|H]; [rewrite N.eqb_refl; reflexivity|].
  destruct (N.eqb_spec y x); [congruence|reflexivity].
Qed.

Lemma width_merge_assoc a b c : wjoin (width_merge a b) (Some c) = wjoin (Some a) (width_merge b c).
Proof.
  destruct a as [x|], b as [y|], c as [z|]; simpl; auto;
    repeat match goal with
           | |- context [N.eqb ?p ?q] => destruct (N.eqb_spec p q); subst; simpl
           end; auto; try congruence.
Qed.

Lemma width_le_refl a : width_le a a = true.
Proof. destruct a; simpl; auto. apply N.eqb_refl. Qed.
Lemma width_le_antisym a b : width_le a b = true -> width_le b a = true -> a = b.
Proof. destruct a, b; simpl; intros H1 H2; try discriminate; auto. apply N.eqb_eq in H1. congruence. Qed.
Lemma width_le_trans a b c : width_le a b = true -> width_le b c = true -> width_le a c = true.
Proof.
  destruct a, b, c; simpl; intros H1 H2; try discriminate; auto.
  apply N.eqb_eq in H1, H2. subst. apply N.eqb_refl.
Qed.
Lemma width_le_spec a b : width_le a b = true <-> width_merge a b = Some b.
Proof.
  destruct a as [x|], b as [y|]; simpl; split; intros H; try discriminate; auto.
  - apply N.eqb_eq in H. subst. rewrite N.eqb_refl. reflexivity.
  - destruct (N.eqb_spec x y); auto. discriminate.
Qed.

Lemma width_merge_ub a b c : width_merge a b = Some c -> width_le a c = true /\ width_le b c = true.
Proof.
  destruct a as [x|], b as [y|]; simpl.
  - destruct (N.eqb_spec x y); [|discriminate]. intros [= <-]. subst. simpl. rewrite N.eqb_refl. auto.
  - intros [= <-]. simpl. rewrite N.eqb_refl. auto.
  - intros [= <-]. simpl. rewrite N.eqb_refl. auto.
  - intros [= <-]. auto.
Qed.

Lemma width_merge_least a b d : width_le a d = true -> width_le b d = true ->
  exists c, width_merge a b = Some c /\ width_le c d = true.
Proof.
  destruct a as [x|], b as [y|], d as [z|]; simpl; intros H1 H2; try discriminate;
    try apply N.eqb_eq in H1; try apply N.eqb_eq in H2; subst; rewrite ?N.eqb_refl; eauto.
  - exists (Some z). simpl. rewrite N.eqb_refl. auto.
  - exists (Some z). simpl. rewrite N.eqb_refl. auto.
  - exists (Some z). simpl. rewrite N.eqb_refl. auto.
Qed.

(* two known widths are compatible only when equal: "two different widths conflict" *)
Lemma width_merge_top a b : width_merge a b = None <-> exists x y, a = Some x /\ b = Some y /\ x <> y.
Proof.
  destruct a as [x|], b as [y|]; simpl; split; try discriminate;
    try (intros [p [q [H1 [H2 _]]]]; discriminate).
  - destruct (N.eqb_spec x y); [discriminate|]. intros _. eauto.
  - intros [p [q [[= ->] [[= ->] H]]]]. destruct (N.eqb_spec p q); congruence.
Qed.

(* ---- word evidence = width x usage ---- *)
Lemma wordev_join_idem a : wordev_join a a = Some a.
Proof. destruct a as [w u]. unfold wordev_join. simpl. rewrite width_merge_idem, wuse_merge_idem. reflexivity. Qed.

Lemma wordev_join_comm a b : wordev_join a b = wordev_join b a.
Proof. unfold wordev_join. rewrite width_merge_comm, wuse_merge_comm. reflexivity. Qed.

Lemma wordev_join_assoc a b c :
  wordev_join_top (wordev_join a b) c = match wordev_join b c with Some x => wordev_join a x | None => None end.
Proof.
  destruct a as [wa ua], b as [wb ub], c as [wc uc]. unfold wordev_join_top, wordev_join. simpl.
  pose proof (width_merge_assoc wa wb wc) as Hw. pose proof (wuse_merge_assoc ua ub uc) as Hu.
  destruct (width_merge wa wb) as [w1|], (width_merge wb wc) as [w2|],
           (wuse_merge ua ub) as [u1|], (wuse_merge ub uc) as [u2|]; simpl in *;
    rewrite ?Hw, ?Hu; try rewrite <- Hw; try rewrite <- Hu; auto;
    try (destruct (width_merge _ _); reflexivity).
Qed.

Lemma wordev_le_refl a : wordev_le a a = true.
Proof. unfold wordev_le. rewrite width_le_refl, wuse_le_refl. reflexivity. Qed.
Lemma wordev_le_antisym a b : wordev_le a b = true -> wordev_le b a = true -> a = b.
Proof.
  unfold wordev_le. rewrite !andb_true_iff. intros [H1 H2] [H3 H4]. destruct a, b; simpl in *.
  f_equal; [apply width_le_antisym | apply wuse_le_antisym]; assumption.
Qed.
Lemma wordev_le_trans a b c : wordev_le a b = true -> wordev_le b c = true -> wordev_le a c = true.
Proof.
  unfold wordev_le. rewrite !andb_true_iff. intros [H1 H2] [H3 H4].
  split; [eapply width_le_trans | eapply wuse_le_trans]; eassumption.
Qed.

Lemma wordev_join_ub a b c : wordev_join a b = Some c -> wordev_le a c = true /\ wordev_le b c = true.
Proof.
  unfold wordev_join, wordev_le.
  destruct (width_merge (fst a) (fst b)) as [w|] eqn:Ew; [|discriminate].
  destruct (wuse_merge (snd a) (snd b)) as [u|] eqn:Eu; [|discriminate].
  intros [= <-]. simpl.
  destruct (width_merge_ub _ _ _ Ew) as [-> ->]. destruct (wuse_merge_ub _ _ _ Eu) as [-> ->]. auto.
Qed.

Lemma wordev_join_least a b d : wordev_le a d = true -> wordev_le b d = true ->
  exists c, wordev_join a b = Some c /\ wordev_le c d = true.
Proof.
  unfold wordev_le, wordev_join. rewrite !andb_true_iff. intros [H1 H2] [H3 H4].
  destruct (width_merge_least _ _ _ H1 H3) as [w [-> Hw]].
  destruct (wuse_merge_least _ _ _ H2 H4) as [u [-> Hu]].
  exists (w, u). simpl. rewrite Hw, Hu. auto.
Qed.

(* a conflict between two words means: two different known widths, or usages without a common refinement *)
Lemma wordev_join_top_iff a b : wordev_join a b = None <->
  (exists x y, fst a = Some x /\ fst b = Some y /\ x <> y) \/ (forall d, wuse_le (snd a) d && wuse_le (snd b) d = false).
Proof.
  unfold wordev_join. rewrite <- width_merge_top, <- wuse_merge_top.
  destruct (width_merge (fst a) (fst b)), (wuse_merge (snd a) (snd b)); split; auto; try discriminate;
    intros [H|H]; discriminate.
Qed.

(* ---- the join of a family: order independent ---- *)
Lemma join_top_none l : fold_left wordev_join_top l None = None.
Proof. induction l; simpl; auto. Qed.

Definition ojoin (a b : option wordev) : option wordev :=
  match a, b with Some x, Some y => wordev_join x y | _, _ => None end.

Lemma ojoin_comm a b : ojoin a b = ojoin b a.
Proof. destruct a, b; simpl; auto. apply wordev_join_comm. Qed.
Lemma ojoin_assoc a b c : ojoin (ojoin a b) c = ojoin a (ojoin b c).
Proof.
  destruct a as [a|], b as [b|], c as [c|]; simpl; auto.
  - apply (wordev_join_assoc a b c).
  - destruct (wordev_join a b); reflexivity.
Qed.

Lemma fold_join_ojoin l a : fold_left wordev_join_top l a = fold_left (fun acc x => ojoin acc (Some x)) l a.
Proof. revert a. induction l as [|x l IH]; intros a; simpl; auto. Qed.

Lemma fold_ojoin_shift l a b :
  fold_left (fun acc x => ojoin acc (Some x)) l (ojoin a b) = ojoin a (fold_left (fun acc x => ojoin acc (Some x)) l b).
Proof.
  revert b. induction l as [|x l IH]; intros b; simpl; auto. rewrite ojoin_assoc. apply IH.
Qed.

Lemma fold_ojoin_perm l l' a : Permutation l l' ->
  fold_left (fun acc x => ojoin acc (Some x)) l a = fold_left (fun acc x => ojoin acc (Some x)) l' a.
Proof.
  intros HP. revert a. induction HP as [| x l l' _ IH | x y l | l l' l'' _ IH1 _ IH2]; intros a; simpl; auto.
  - rewrite !ojoin_assoc. f_equal. f_equal. apply ojoin_comm.
  - rewrite IH1. apply IH2.
Qed.

Lemma fold_ojoin_absorb k c s : In c k ->
  fold_left (fun acc v => ojoin acc (Some v)) k (ojoin (Some c) s) = fold_left (fun acc v => ojoin acc (Some v)) k s.
Proof.
  intros Hc. apply in_split in Hc as [k1 [k2 ->]].
  rewrite (fold_ojoin_perm (k1 ++ c :: k2) (c :: k1 ++ k2) (ojoin (Some c) s)) by (apply Permutation_sym, Permutation_middle).
  rewrite (fold_ojoin_perm (k1 ++ c :: k2) (c :: k1 ++ k2) s) by (apply Permutation_sym, Permutation_middle).
  cbn [fold_left]. f_equal. rewrite (ojoin_comm (Some c) s), ojoin_assoc.
  change (ojoin (Some c) (Some c)) with (wordev_join c c). rewrite wordev_join_idem. reflexivity.
Qed.

Theorem wordev_join_all_perm x l y l' : Permutation (x :: l) (y :: l') ->
  wordev_join_all x l = wordev_join_all y l'.
Proof.
  intros HP. unfold wordev_join_all. rewrite (fold_join_ojoin l), (fold_join_ojoin l').
  set (F := fold_left (fun (acc : option wordev) (v : wordev) => ojoin acc (Some v))).
  assert (H : forall z k, F k (Some z) = F (z :: k) (Some z)).
  { intros z k. unfold F. simpl. rewrite wordev_join_idem. reflexivity. }
  rewrite (H x l), (H y l'). unfold F. rewrite (fold_ojoin_perm _ _ (Some x) HP).
  assert (Hx : In x (y :: l')) by (apply (Permutation_in _ HP); left; reflexivity).
  assert (Hy : In y (y :: l')) by (left; reflexivity).
  rewrite <- (fold_ojoin_absorb (y :: l') y (Some x) Hy).
  rewrite <- (fold_ojoin_absorb (y :: l') x (Some y) Hx).
  f_equal. apply ojoin_comm.
Qed.

(* the join of a family is its least upper bound; it is the top element only when the family has no
   upper bound at all *)
Theorem wordev_join_all_ub x l j : wordev_join_all x l = Some j -> forall y, In y (x :: l) -> wordev_le y j = true.
Proof.
  unfold wordev_join_all. revert x j. induction l as [|z l IH]; intros x j H y Hy; simpl in *.
  - injection H as <-. destruct Hy as [<-|[]]. apply wordev_le_refl.
  - destruct (wordev_join x z) as [c|] eqn:E; [|rewrite join_top_none in H; discriminate].
    destruct (wordev_join_ub _ _ _ E) as [Hx Hz].
    assert (Hc : wordev_le c j = true) by (apply (IH c j H); left; reflexivity).
    destruct Hy as [<-|[<-|Hy]].
    + eapply wordev_le_trans; eassumption.
    + eapply wordev_le_trans; eassumption.
    + apply (IH c j H). right. exact Hy.
Qed.

Theorem wordev_join_all_least x l d : (forall y, In y (x :: l) -> wordev_le y d = true) ->
  exists j, wordev_join_all x l = Some j /\ wordev_le j d = true.
Proof.
  unfold wordev_join_all. revert x. induction l as [|z l IH]; intros x H; simpl.
  - exists x. split; auto. apply H. left. reflexivity.
  - destruct (wordev_join_least x z d) as [c [Ec Hc]]; [apply H; simpl; auto | apply H; simpl; auto |].
    rewrite Ec. apply IH. intros y [<-|Hy]; auto. apply H. simpl. auto.
Qed.

(* ---- `merge` on words is that join ---- *)
Lemma merge_word_word w u w' u' p n :
  exists e, merge (Word w u) (Word w' u') p n = m_expression e n /\
    match wordev_join (w, u) (w', u') with
    | Some x => e = word_of x
    | None => is_conflict e = true
    end.
Proof.
  unfold merge, merge_body. destruct (te_eqb (Word w u) (Word w' u')) eqn:E.
  - apply te_eqb_eq in E. injection E as <- <-. exists (Word w u). split; auto.
    rewrite wordev_join_idem. reflexivity.
  - unfold wordev_join. simpl.
    destruct (width_merge w w') as [w1|]; [destruct (wuse_merge u u') as [u1|]|]; eexists; split; reflexivity.
Qed.

Lemma merge_conflict_word cs rs w u p n :
  exists cs' rs', merge (Conflict cs rs) (Word w u) p n = m_expression (Conflict cs' rs') n.
Proof. unfold merge, merge_body. simpl. eexists _, _. reflexivity. Qed.

Lemma merge_fold_conflict_words l cs rs p n :
  exists e, merge_fold (Conflict cs rs) (map word_of l) p n = Some e /\ is_conflict e = true.
Proof.
  revert cs rs. induction l as [|[w u] l IH]; intros cs rs; cbn [merge_fold map word_of fst snd].
  - eexists. split; reflexivity.
  - change (word_of (w, u)) with (Word w u).
    destruct (merge_conflict_word cs rs w u p n) as [cs' [rs' ->]]. cbn [m_expression expr next]. apply IH.
Qed.

Theorem word_merge_is_join_proof : forall (x : wordev) (l : list wordev) p n,
  exists e, merge_fold (word_of x) (map word_of l) p n = Some e /\
    match wordev_join_all x l with
    | Some j => e = word_of j      (* the known width and the most specific usage are kept *)
    | None => is_conflict e = true (* the family has no upper bound: two widths, or incompatible usages *)
    end.
Proof.
  intros x l p n. unfold wordev_join_all. revert x.
  induction l as [|[w u] l IH]; intros [wx ux]; cbn [merge_fold map word_of fst snd fold_left wordev_join_top].
  - eexists. split; reflexivity.
  - change (word_of (w, u)) with (Word w u). change (word_of (wx, ux)) with (Word wx ux).
    destruct (merge_word_word wx ux w u p n) as [e [-> He]]. cbn [m_expression expr next].
    destruct (wordev_join (wx, ux) (w, u)) as [c|].
    + subst e. apply IH.
    + rewrite join_top_none. destruct e; try discriminate. apply merge_fold_conflict_words.
Qed.
