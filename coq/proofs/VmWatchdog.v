(* C13 (VM part): polls, stopping and the never-stopping watchdog, for every program and configuration. *)
From SLX Require Import Base gen.Constants gen.ValueSig gen.OpcodeTable SymVal Micro gen.OpcodeSem Disasm VM proofs.VmBounds.
Open Scope N_scope.

Section Watchdog.
Variable fold : sv -> sv.

(* ---- polls never decrease inside an opcode body ---- *)
Lemma build_exec_polls cfg c v : o_polls (snd (build_exec cfg c v)) = o_polls c.
Proof. unfold build_exec. destruct (build_limited (size_limit cfg) (o_id c) v). reflexivity. Qed.

Lemma copy_loop_polls cfg body : (forall c io, o_polls (body c io) = o_polls c) ->
  forall n count off limit c, o_polls c <= o_polls (fst (copy_loop cfg body n count off limit c)).
Proof.
  intros Hb. induction n as [|n IH]; intros count off limit c; cbn [copy_loop]; [cbn [fst]; lia|].
  destruct (off <? limit); [|cbn [fst]; lia].
  destruct (count mod poll_every cfg =? 0).
  - unfold poll. destruct (match stop_at cfg with Some k => k <=? o_polls c | None => false end); cbn [fst].
    + cbn [fst o_polls]. lia.
    + etransitivity; [|apply IH]. rewrite Hb. cbn [o_polls]. lia.
  - etransitivity; [|apply IH]. rewrite Hb. lia.
Qed.

Lemma store_return_data_polls cfg c a b : o_polls c <= o_polls (fst (store_return_data fold cfg c a b)).
Proof.
  unfold store_return_data. destruct (as_word (fold a)).
  - apply copy_loop_polls. intros c0 io.
    pose proof (build_exec_polls cfg c0 (Node T_Add [] [fold b; Known io])) as H1.
    destruct (build_exec cfg c0 (Node T_Add [] [fold b; Known io])) as [dest c1]. cbn [snd] in H1.
    pose proof (build_exec_polls cfg c1 (Node T_ReturnData [] [Known io; Known 32])) as H2.
    destruct (build_exec cfg c1 (Node T_ReturnData [] [Known io; Known 32])) as [value c2]. cbn [snd] in H2.
    cbn. congruence.
  - pose proof (build_exec_polls cfg (ctx_id c (o_id c + 1)) (Val (o_id c))) as H1.
    destruct (build_exec cfg (ctx_id c (o_id c + 1)) (Val (o_id c))) as [rv c1]. cbn in *. lia.
Qed.

Lemma run_mop_polls cfg ie m c : o_polls c <= o_polls (fst (run_mop fold cfg ie m c)).
Proof.
  destruct m; cbn [run_mop].
  - destruct (stack (o_st c)); cbn; lia.
  - pose proof (build_exec_polls cfg c (Node t [] (map (env_get c) args))) as H.
    destruct (build_exec cfg c (Node t [] (map (env_get c) args))). cbn in *. lia.
  - pose proof (build_exec_polls cfg (ctx_id c (o_id c + 1)) (Node T_CallData [o_id c] [env_get c a; env_get c b])) as H.
    destruct (build_exec cfg (ctx_id c (o_id c + 1)) (Node T_CallData [o_id c] [env_get c a; env_get c b])). cbn in *. lia.
  - pose proof (build_exec_polls cfg c (Known w)) as H. destruct (build_exec cfg c (Known w)). cbn in *. lia.
  - pose proof (build_exec_polls cfg c (Known (i_ip ie))) as H. destruct (build_exec cfg c (Known (i_ip ie))). cbn in *. lia.
  - pose proof (build_exec_polls cfg c (Known (i_code_len ie))) as H. destruct (build_exec cfg c (Known (i_code_len ie))). cbn in *. lia.
  - pose proof (build_exec_polls cfg c (Known (i_self_word ie))) as H. destruct (build_exec cfg c (Known (i_self_word ie))). cbn in *. lia.
  - cbn. lia.
  - destruct (stack_push (stack (o_st c)) (env_get c x)); cbn; lia.
  - cbn; lia.
  - cbn; lia.
  - cbn; lia.
  - destruct (mem_load_slice fold (mem_limit cfg) (o_st c) (env_get c a) (env_get c b)). cbn; lia.
  - destruct (mem_load fold (o_st c) (env_get c a)). cbn; lia.
  - cbn; lia.
  - cbn; lia.
  - destruct (sto_load _ _ _ _) as [[v st'] n]. cbn; lia.
  - cbn; lia.
  - apply store_return_data_polls.
  - destruct (N.of_nat (length (stack (o_st c))) <=? _); [cbn; lia|].
    destruct (stack_push _ _); cbn; lia.
  - destruct (stack (o_st c)) as [|top rest]; [cbn; lia|].
    destruct (N.of_nat (length rest) + 1 <=? i_self_n ie); [cbn; lia|].
    destruct (i_self_n ie); [cbn; lia|]. destruct (swap_nth _ _ _) as [[o rest']|]; cbn; lia.
Qed.

Lemma run_mops_polls cfg ie ms : forall c, o_polls c <= o_polls (fst (run_mops fold cfg ie ms c)).
Proof.
  induction ms as [|m ms IH]; intros c; cbn [run_mops]; [cbn; lia|].
  pose proof (run_mop_polls cfg ie m c) as H.
  destruct (run_mop fold cfg ie m c) as [c' e]. cbn in H. destruct e; [cbn; lia|].
  etransitivity; [exact H|apply IH].
Qed.

Lemma pop_n_polls k : forall c acc, o_polls (fst (pop_n k c acc)) = o_polls c.
Proof.
  induction k as [|k IH]; intros c acc; cbn [pop_n]; [reflexivity|].
  destruct (stack (o_st c)); [reflexivity|]. rewrite IH. reflexivity.
Qed.

Lemma copy_value_polls cfg k addr src size c : o_polls (snd (copy_value cfg k addr src size c)) = o_polls c.
Proof. destruct k; cbn [copy_value]; rewrite build_exec_polls; reflexivity. Qed.

Lemma exec_copy_polls cfg k c : o_polls c <= o_polls (fst (exec_copy fold cfg k c)).
Proof.
  unfold exec_copy. pose proof (pop_n_polls (match k with CKExtCode => 4%nat | _ => 3%nat end) c []) as Hp.
  destruct (pop_n _ c []) as [c0 [vals|]]; cbn [fst] in Hp; [|cbn; lia].
  destruct (as_word _).
  - rewrite <- Hp. apply copy_loop_polls. intros c1 io.
    match goal with |- context [build_exec cfg c1 ?v] => pose proof (build_exec_polls cfg c1 v) as H1; destruct (build_exec cfg c1 v) as [dest c2] end.
    match goal with |- context [build_exec cfg c2 ?v] => pose proof (build_exec_polls cfg c2 v) as H2; destruct (build_exec cfg c2 v) as [src c3] end.
    match goal with |- context [copy_value cfg k ?a ?b ?d c3] => pose proof (copy_value_polls cfg k a b d c3) as H3; destruct (copy_value cfg k a b d c3) as [value c4] end.
    cbn in *. congruence.
  - match goal with |- context [copy_value cfg k ?a ?b ?d c0] => pose proof (copy_value_polls cfg k a b d c0) as H3; destruct (copy_value cfg k a b d c0) as [value c4] end.
    cbn in *. lia.
Qed.

Lemma exec_log_polls cfg n c : o_polls c <= o_polls (fst (exec_log fold cfg n c)).
Proof.
  unfold exec_log. pose proof (pop_n_polls (2 + N.to_nat n) c []) as Hp.
  destruct (pop_n _ c []) as [c0 [vals|]]; cbn [fst] in Hp; [|cbn; lia].
  destruct (mem_load_slice _ _ _ _ _) as [data st'].
  match goal with |- context [build_exec cfg ?cc ?v] => pose proof (build_exec_polls cfg cc v) as H1; destruct (build_exec cfg cc v) as [lg c1] end.
  cbn in *. lia.
Qed.

Ltac via_mops :=
  let r := fresh "r" in let Er := fresh "Er" in
  match goal with |- context [run_mops ?a ?b ?c ?d ?e] => remember (run_mops a b c d e) as r eqn:Er end;
  intros [= <- _ _ _ _]; rewrite Er; apply run_mops_polls.

Lemma exec_instr_polls cfg code vis jt ip i c c' e se k jt' :
  exec_instr fold cfg code vis jt ip i c = (c', e, se, k, jt') -> o_polls c <= o_polls c'.
Proof.
  unfold exec_instr. destruct i as [o|n d|n|n|n| |b].
  - destruct (op_sem o) as [ms|].
    + via_mops.
    + destruct (op_idx o =? op_idx control_Jump).
      { unfold exec_jump. destruct (stack (o_st c)) as [|counter s]; [intros [= <- _ _ _ _]; lia|].
        destruct (validate_jump fold code counter) as [t|er]; [intros [= <- _ _ _ _]; cbn; lia|].
        destruct er; intros [= <- _ _ _ _]; cbn; lia. }
      destruct (op_idx o =? op_idx control_JumpI).
      { unfold exec_jumpi. destruct (stack (o_st c)) as [|counter s]; [intros [= <- _ _ _ _]; lia|].
        destruct s as [|cond s']; [intros [= <- _ _ _ _]; cbn; lia|].
        destruct (validate_jump fold code counter) as [t|er]; [|intros [= <- _ _ _ _]; cbn; lia].
        destruct (_ <=? _); [intros [= <- _ _ _ _]; cbn; lia|].
        destruct (_ <=? _); intros [= <- _ _ _ _]; cbn; lia. }
      repeat (match goal with |- context [if ?b then _ else _] => destruct b end;
              try (intros [= <- _ _ _ _]; first [apply exec_copy_polls|lia])).
  - via_mops.
  - via_mops.
  - via_mops.
  - intros [= <- _ _ _ _]. apply exec_log_polls.
  - via_mops.
  - via_mops.
Qed.

(* ---- a watchdog that never says stop does not influence anything but the poll counter ---- *)
(* contexts equal up to the poll counter; limits equal up to the polling interval, never stopping *)
Definition peq (a b : octx) : Prop :=
  o_env a = o_env b /\ o_st a = o_st b /\ o_id a = o_id b /\ o_kill a = o_kill b.
Definition leq (a b : limits) : Prop :=
  gas_limit a = gas_limit b /\ iter_limit a = iter_limit b /\ fork_limit a = fork_limit b /\
  size_limit a = size_limit b /\ mem_limit a = mem_limit b /\ stop_at a = None /\ stop_at b = None.

Definition res_eq (r1 r2 : octx * option exec_err) : Prop := peq (fst r1) (fst r2) /\ snd r1 = snd r2.

Ltac peq_start :=
  match goal with
  | H : peq ?a ?b |- _ => destruct a, b; unfold peq in H; cbn [o_env o_st o_id o_kill] in H;
                           destruct H as (? & ? & ? & ?); subst
  end.

Lemma build_exec_peq l1 l2 c1 c2 v : leq l1 l2 -> peq c1 c2 ->
  fst (build_exec l1 c1 v) = fst (build_exec l2 c2 v) /\ peq (snd (build_exec l1 c1 v)) (snd (build_exec l2 c2 v)).
Proof.
  intros (_ & _ & _ & Hs & _) Hp. peq_start. unfold build_exec. cbn [o_id]. rewrite Hs.
  destruct (build_limited (size_limit l2) _ v). cbn. unfold peq. cbn. auto.
Qed.

Lemma copy_loop_peq l1 l2 b1 b2 :
  leq l1 l2 -> (forall c1 c2 io, peq c1 c2 -> peq (b1 c1 io) (b2 c2 io)) ->
  forall n count off limit c1 c2, peq c1 c2 ->
  res_eq (copy_loop l1 b1 n count off limit c1) (copy_loop l2 b2 n count off limit c2).
Proof.
  intros Hl Hb. induction n as [|n IH]; intros count off limit c1 c2 Hp; cbn [copy_loop].
  - split; auto.
  - destruct (off <? limit); [|split; auto].
    destruct Hl as (_ & _ & _ & _ & _ & Hs1 & Hs2).
    assert (Hpoll : forall l c, stop_at l = None -> poll l c = (false, mk_octx (o_env c) (o_st c) (o_id c) (o_kill c) (o_polls c + 1))).
    { intros l c H. unfold poll. rewrite H. reflexivity. }
    destruct (count mod poll_every l1 =? 0); destruct (count mod poll_every l2 =? 0);
      rewrite ?Hpoll by assumption; apply IH; apply Hb; unfold peq in *; cbn; tauto.
Qed.

Ltac crush_eq :=
  repeat match goal with |- context [build_limited ?a ?b ?c] => destruct (build_limited a b c) end;
  cbv beta iota zeta;
  repeat match goal with |- context [match ?x with _ => _ end] => destruct x end;
  (split; [unfold peq; cbn; auto | reflexivity]).

Lemma store_return_data_peq l1 l2 c1 c2 a b : leq l1 l2 -> peq c1 c2 ->
  res_eq (store_return_data fold l1 c1 a b) (store_return_data fold l2 c2 a b).
Proof.
  intros Hl Hp. unfold store_return_data. destruct (as_word (fold a)) as [w|].
  - pose proof Hl as (_ & _ & _ & _ & Hm & _). rewrite Hm. apply copy_loop_peq; auto.
    intros d1 d2 io Hd.
    destruct (build_exec_peq l1 l2 d1 d2 (Node T_Add [] [fold b; Known io]) Hl Hd) as [E1 P1].
    destruct (build_exec l1 d1 (Node T_Add [] [fold b; Known io])) as [x1 e1].
    destruct (build_exec l2 d2 (Node T_Add [] [fold b; Known io])) as [x2 e2]. cbn [fst snd] in *. subst x2.
    destruct (build_exec_peq l1 l2 e1 e2 (Node T_ReturnData [] [Known io; Known 32]) Hl P1) as [E2 P2].
    destruct (build_exec l1 e1 (Node T_ReturnData [] [Known io; Known 32])) as [y1 f1].
    destruct (build_exec l2 e2 (Node T_ReturnData [] [Known io; Known 32])) as [y2 f2]. cbn [fst snd] in *. subst y2.
    unfold peq in *. cbn. destruct P2 as (? & -> & ? & ?). auto.
  - assert (Hq : peq (ctx_id c1 (o_id c1 + 1)) (ctx_id c2 (o_id c2 + 1))) by (unfold peq in *; cbn; destruct Hp as (-> & -> & -> & ->); auto).
    assert (Hid : o_id c1 = o_id c2) by apply Hp. rewrite Hid.
    destruct (build_exec_peq l1 l2 _ _ (Val (o_id c2)) Hl Hq) as [E1 P1]. rewrite Hid in E1, P1.
    destruct (build_exec l1 (ctx_id c1 (o_id c2 + 1)) (Val (o_id c2))) as [x1 e1].
    destruct (build_exec l2 (ctx_id c2 (o_id c2 + 1)) (Val (o_id c2))) as [x2 e2]. cbn [fst snd] in *. subst x2.
    split; [|reflexivity]. unfold peq in *. cbn. destruct P1 as (? & -> & ? & ?). auto.
Qed.

Lemma run_mop_peq l1 l2 ie m c1 c2 : leq l1 l2 -> peq c1 c2 ->
  res_eq (run_mop fold l1 ie m c1) (run_mop fold l2 ie m c2).
Proof.
  intros Hl Hp. pose proof Hl as (_ & _ & _ & Hs & Hm & _).
  assert (Henv : forall x, env_get c1 x = env_get c2 x) by (intros x; unfold env_get; destruct Hp as (-> & _); reflexivity).
  destruct m; cbn [run_mop];
    first [ rewrite Henv, (Henv off); apply store_return_data_peq; assumption
          | unfold build_exec; rewrite ?Hs, ?Hm; peq_start; cbn [o_env o_st o_id o_kill env_get env_set ctx_st ctx_id];
            unfold env_get; cbn [o_env]; crush_eq ].
Qed.

Lemma run_mops_peq l1 l2 ie ms : leq l1 l2 -> forall c1 c2, peq c1 c2 ->
  res_eq (run_mops fold l1 ie ms c1) (run_mops fold l2 ie ms c2).
Proof.
  intros Hl. induction ms as [|m ms IH]; intros c1 c2 Hp; cbn [run_mops]; [split; auto|].
  destruct (run_mop_peq l1 l2 ie m c1 c2 Hl Hp) as [P E].
  destruct (run_mop fold l1 ie m c1) as [d1 e1]. destruct (run_mop fold l2 ie m c2) as [d2 e2]. cbn [fst snd] in *. subst e2.
  destruct e1; [split; auto|]. apply IH. exact P.
Qed.

Lemma pop_n_peq k : forall c1 c2 acc, peq c1 c2 ->
  peq (fst (pop_n k c1 acc)) (fst (pop_n k c2 acc)) /\ snd (pop_n k c1 acc) = snd (pop_n k c2 acc).
Proof.
  induction k as [|k IH]; intros c1 c2 acc Hp; cbn [pop_n]; [split; auto|].
  assert (Hst : o_st c1 = o_st c2) by apply Hp. rewrite Hst.
  destruct (stack (o_st c2)) as [|v s]; [split; auto|].
  apply IH. unfold peq in *. cbn. destruct Hp as (-> & _ & -> & ->). auto.
Qed.

Lemma copy_value_peq l1 l2 k addr src size c1 c2 : leq l1 l2 -> peq c1 c2 ->
  fst (copy_value l1 k addr src size c1) = fst (copy_value l2 k addr src size c2) /\
  peq (snd (copy_value l1 k addr src size c1)) (snd (copy_value l2 k addr src size c2)).
Proof.
  intros Hl Hp. destruct k; cbn [copy_value]; try (apply build_exec_peq; assumption).
  assert (Hid : o_id c1 = o_id c2) by apply Hp. rewrite Hid. apply build_exec_peq; [assumption|].
  unfold peq in *. cbn. destruct Hp as (-> & -> & _ & ->). auto.
Qed.

Lemma exec_copy_peq l1 l2 k c1 c2 : leq l1 l2 -> peq c1 c2 -> res_eq (exec_copy fold l1 k c1) (exec_copy fold l2 k c2).
Proof.
  intros Hl Hp. unfold exec_copy.
  destruct (pop_n_peq (match k with CKExtCode => 4%nat | _ => 3%nat end) c1 c2 [] Hp) as [P E].
  destruct (pop_n _ c1 []) as [d1 v1]. destruct (pop_n _ c2 []) as [d2 v2]. cbn [fst snd] in *. subst v2.
  destruct v1 as [vals|]; [|split; auto].
  pose proof Hl as (_ & _ & _ & _ & Hm & _). rewrite Hm.
  destruct (as_word _) as [w|].
  - apply copy_loop_peq; auto. intros e1 e2 io He.
    match goal with |- context [build_exec l1 e1 ?v] =>
      destruct (build_exec_peq l1 l2 e1 e2 v Hl He) as [E1 P1];
      destruct (build_exec l1 e1 v) as [x1 f1]; destruct (build_exec l2 e2 v) as [x2 f2] end.
    cbn [fst snd] in *. subst x2.
    match goal with |- context [build_exec l1 f1 ?v] =>
      destruct (build_exec_peq l1 l2 f1 f2 v Hl P1) as [E2 P2];
      destruct (build_exec l1 f1 v) as [y1 g1]; destruct (build_exec l2 f2 v) as [y2 g2] end.
    cbn [fst snd] in *. subst y2.
    match goal with |- context [copy_value l1 k ?a ?b ?d g1] =>
      destruct (copy_value_peq l1 l2 k a b d g1 g2 Hl P2) as [E3 P3];
      destruct (copy_value l1 k a b d g1) as [z1 h1]; destruct (copy_value l2 k a b d g2) as [z2 h2] end.
    cbn [fst snd] in *. subst z2. unfold peq in *. cbn. destruct P3 as (? & -> & ? & ?). auto.
  - match goal with |- context [copy_value l1 k ?a ?b ?d d1] =>
      destruct (copy_value_peq l1 l2 k a b d d1 d2 Hl P) as [E3 P3];
      destruct (copy_value l1 k a b d d1) as [z1 h1]; destruct (copy_value l2 k a b d d2) as [z2 h2] end.
    cbn [fst snd] in *. subst z2. split; [|reflexivity]. unfold peq in *. cbn. destruct P3 as (? & -> & ? & ?). auto.
Qed.

Lemma exec_log_peq l1 l2 n c1 c2 : leq l1 l2 -> peq c1 c2 -> res_eq (exec_log fold l1 n c1) (exec_log fold l2 n c2).
Proof.
  intros Hl Hp. unfold exec_log.
  destruct (pop_n_peq (2 + N.to_nat n) c1 c2 [] Hp) as [P E].
  destruct (pop_n _ c1 []) as [d1 v1]. destruct (pop_n _ c2 []) as [d2 v2]. cbn [fst snd] in *. subst v2.
  destruct v1 as [vals|]; [|split; auto].
  pose proof Hl as (_ & _ & _ & _ & Hm & _). rewrite Hm.
  assert (Hst : o_st d1 = o_st d2) by apply P. rewrite Hst.
  destruct (mem_load_slice _ _ _ _ _) as [data st'].
  assert (Hq : peq (ctx_st d1 st') (ctx_st d2 st')) by (unfold peq in *; cbn; destruct P as (-> & _ & -> & ->); auto).
  match goal with |- context [build_exec l1 _ ?v] =>
    destruct (build_exec_peq l1 l2 _ _ v Hl Hq) as [E1 P1];
    destruct (build_exec l1 (ctx_st d1 st') v) as [x1 f1]; destruct (build_exec l2 (ctx_st d2 st') v) as [x2 f2] end.
  cbn [fst snd] in *. subst x2. split; [|reflexivity]. unfold peq in *. cbn. destruct P1 as (? & -> & ? & ?). auto.
Qed.

Definition res5_eq (r1 r2 : octx * option exec_err * option exec_err * ctl * list (N * N)) : Prop :=
  match r1, r2 with
  | (c1, e1, s1, k1, j1), (c2, e2, s2, k2, j2) => peq c1 c2 /\ e1 = e2 /\ s1 = s2 /\ k1 = k2 /\ j1 = j2
  end.

Ltac peq_fin := cbn; unfold peq in *; cbn in *; intuition congruence.

Lemma exec_instr_peq l1 l2 code vis jt ip i c1 c2 : leq l1 l2 -> peq c1 c2 ->
  res5_eq (exec_instr fold l1 code vis jt ip i c1) (exec_instr fold l2 code vis jt ip i c2).
Proof.
  intros Hl Hp.
  assert (Hplain : forall r1 r2 : octx * option exec_err, res_eq r1 r2 ->
            res5_eq (fst r1, snd r1, @None exec_err, CNone, jt) (fst r2, snd r2, @None exec_err, CNone, jt)).
  { intros [a b] [c d] [P E]. cbn in *. auto. }
  unfold exec_instr. destruct i as [o|n d|n|n|n| |b]; try (apply Hplain; first [apply run_mops_peq|apply exec_log_peq]; assumption).
  destruct (op_sem o) as [ms|]; [apply Hplain; apply run_mops_peq; assumption|].
  destruct (op_idx o =? op_idx control_Jump).
  { unfold exec_jump. assert (Hst : o_st c1 = o_st c2) by apply Hp. rewrite Hst.
    destruct (stack (o_st c2)) as [|counter s]; [peq_fin|].
    destruct (validate_jump fold code counter) as [t|er].
    - peq_fin.
    - destruct er; peq_fin. }
  destruct (op_idx o =? op_idx control_JumpI).
  { unfold exec_jumpi. assert (Hst : o_st c1 = o_st c2) by apply Hp. rewrite Hst.
    pose proof Hl as (_ & Hi & Hf & _). rewrite Hi, Hf.
    destruct (stack (o_st c2)) as [|counter s]; [peq_fin|].
    destruct s as [|cond s']; [peq_fin|].
    destruct (validate_jump fold code counter) as [t|er];
      repeat match goal with |- context [if ?b then _ else _] => destruct b end;
      peq_fin. }
  repeat (match goal with |- context [if ?b then _ else _] => destruct b end;
          try (apply Hplain; apply exec_copy_peq; assumption)).
  apply Hplain. split; auto.
Qed.

Ltac proj := cbn [v_code v_queue v_stored v_jt v_killed v_errors v_next_id v_polls v_counter v_retired v_paths v_cfg
                  tip tvis tgas tstate tpath snd fst lim permissive].

(* machine states equal up to the poll counter and the polling interval *)
Definition vm_peq (a b : vm) : Prop :=
  v_code a = v_code b /\ v_queue a = v_queue b /\ v_stored a = v_stored b /\ v_jt a = v_jt b /\
  v_killed a = v_killed b /\ v_errors a = v_errors b /\ v_next_id a = v_next_id b /\ v_counter a = v_counter b /\
  v_retired a = v_retired b /\ v_paths a = v_paths b /\
  leq (v_cfg a) (v_cfg b) /\ permissive (v_cfg a) = permissive (v_cfg b).

Lemma advance_peq a b t rest forked : vm_peq a b -> vm_peq (advance a t rest forked) (advance b t rest forked).
Proof.
  intros (Hc & Hq & Hs & Hj & Hk & He & Hn & Hct & Hr & Hp & Hl & Hperm).
  pose proof Hl as (Hg & Hi & _).
  unfold advance. rewrite Hc, Hi, Hg, Hk.
  destruct (_ || _ || _); unfold vm_peq; proj; rewrite ?Hs, ?Hj, ?He, ?Hn, ?Hct, ?Hr, ?Hp; repeat split; auto; apply Hl.
Qed.

Lemma vm_step_peq a b : vm_peq a b ->
  match vm_step fold a, vm_step fold b with
  | SRunning a', SRunning b' => vm_peq a' b'
  | SDone a', SDone b' => vm_peq a' b'
  | _, _ => False
  end.
Proof.
  intros H. pose proof H as (Hc & Hq & Hs & Hj & Hk & He & Hn & Hct & Hr & Hp & Hl & Hperm).
  pose proof Hl as (Hg & Hi & Hf & Hsz & Hm & Hs1 & Hs2).
  unfold vm_step. rewrite <- Hq, <- Hc. destruct (v_queue a) as [|t rest]; [exact H|].
  destruct (nth_error (v_code a) (N.to_nat (tip t))) as [i|]; [|exact H].
  assert (Hpoll : forall l c, stop_at l = None -> poll l c = (false, mk_octx (o_env c) (o_st c) (o_id c) (o_kill c) (o_polls c + 1))).
  { intros l c E. unfold poll. rewrite E. reflexivity. }
  set (ca := mk_octx [] (tstate t) (v_next_id a) (v_killed a) (v_polls a)).
  set (cb := mk_octx [] (tstate t) (v_next_id b) (v_killed b) (v_polls b)).
  assert (Hc0 : peq ca cb) by (unfold peq, ca, cb; cbn; auto).
  assert (Hc1 : exists c1 c2, (if v_counter a mod poll_every (v_cfg a) =? 0 then poll (v_cfg a) ca else (false, ca)) = (false, c1) /\
                              (if v_counter b mod poll_every (v_cfg b) =? 0 then poll (v_cfg b) cb else (false, cb)) = (false, c2) /\ peq c1 c2).
  { destruct (v_counter a mod poll_every (v_cfg a) =? 0); destruct (v_counter b mod poll_every (v_cfg b) =? 0);
      rewrite ?Hpoll by assumption; do 2 eexists; (split; [reflexivity|split; [reflexivity|]]); unfold peq in *; cbn; tauto. }
  destruct Hc1 as (c1 & c2 & -> & -> & Hc1).
  pose proof (exec_instr_peq (v_cfg a) (v_cfg b) (v_code a) (bump (tip t) (tvis t)) (v_jt a) (tip t) i c1 c2 Hl Hc1) as Hx.
  rewrite <- Hj.
  destruct (exec_instr fold (v_cfg a) (v_code a) (bump (tip t) (tvis t)) (v_jt a) (tip t) i c1) as [[[[x1 e1] s1] k1] j1].
  destruct (exec_instr fold (v_cfg b) (v_code a) (bump (tip t) (tvis t)) (v_jt a) (tip t) i c2) as [[[[x2 e2] s2] k2] j2].
  destruct Hx as ((Ex1 & Ex2 & Ex3 & Ex4) & <- & <- & <- & <-).
  rewrite <- Hperm, <- He, <- Hct, <- Ex2, <- Ex4.
  destruct e1 as [e|]; cbv beta iota zeta; apply advance_peq; unfold vm_peq; proj;
    rewrite ?Hs, ?Ex3, ?Hr, ?Hp; repeat split; auto.
Qed.

Definition result_peq (r1 r2 : exec_result) : Prop :=
  match r1, r2 with
  | RDone a, RDone b => vm_peq a b
  | ROutOfFuel a, ROutOfFuel b => vm_peq a b
  | _, _ => False
  end.

(* a watchdog that never says stop: the run is never stopped, and the polling interval has no influence on
   the retired states, the errors or anything else but the number of polls *)
Theorem never_stop_same n : forall a b, vm_peq a b -> result_peq (run fold n a) (run fold n b).
Proof.
  induction n as [|n IH]; intros a b H; cbn [run]; [exact H|].
  pose proof (vm_step_peq a b H) as Hs.
  destruct (vm_step fold a) as [a'|a'|ipa a']; destruct (vm_step fold b) as [b'|b'|ipb b']; try contradiction.
  - apply IH. exact Hs.
  - exact Hs.
Qed.

(* ---- poll accounting: the main loop polls at iterations 0, pe, 2 pe, ... ---- *)
Lemma vm_step_polls m m' : 1 <= poll_every (v_cfg m) ->
  vm_step fold m = SRunning m' -> v_counter m <= v_polls m * poll_every (v_cfg m) ->
  v_counter m' = v_counter m + 1 /\ v_cfg m' = v_cfg m /\ v_polls m <= v_polls m' /\
  v_counter m' <= v_polls m' * poll_every (v_cfg m').
Proof.
  intros Hpe. unfold vm_step. destruct (v_queue m) as [|t rest]; [discriminate|].
  destruct (nth_error (v_code m) (N.to_nat (tip t))) as [i|]; [|discriminate].
  set (c0 := mk_octx [] (tstate t) (v_next_id m) (v_killed m) (v_polls m)).
  destruct (if v_counter m mod poll_every (v_cfg m) =? 0 then poll (v_cfg m) c0 else (false, c0)) as [stopped c1] eqn:Ep.
  destruct stopped; [discriminate|].
  destruct (exec_instr fold (v_cfg m) (v_code m) (bump (tip t) (tvis t)) (v_jt m) (tip t) i c1) as [[[[c3 err] serr] k] jt'] eqn:Ex.
  pose proof (exec_instr_polls _ _ _ _ _ _ _ _ _ _ _ _ Ex) as Hmono.
  intros Hs Hinv.
  assert (Hm' : v_counter m' = v_counter m + 1 /\ v_cfg m' = v_cfg m /\ v_polls m' = o_polls c3).
  { destruct err; cbv beta iota zeta in Hs; injection Hs as <-; unfold advance; proj;
      destruct (_ || _ || _); proj; auto. }
  destruct Hm' as (Hc & Hcf & Hp). rewrite Hc, Hcf, Hp.
  set (pe := poll_every (v_cfg m)) in *.
  destruct (v_counter m mod pe =? 0) eqn:Em.
  - unfold poll in Ep. injection Ep as _ <-. cbn [o_polls c0] in Hmono. repeat split; try lia. nia.
  - injection Ep as <-. cbn [o_polls c0] in Hmono. apply N.eqb_neq in Em.
    assert (v_counter m <> v_polls m * pe).
    { intros E. apply Em. rewrite E. apply N.mod_mul. lia. }
    repeat split; try lia. nia.
Qed.

(* ---- stopping ---- *)
(* once the stream has turned to "stop" (k polls have been answered), the next poll of the main loop ends
   the run at once ... *)
Lemma vm_step_stops m k t rest i :
  stop_at (v_cfg m) = Some k -> k <= v_polls m -> v_counter m mod poll_every (v_cfg m) = 0 ->
  v_queue m = t :: rest -> nth_error (v_code m) (N.to_nat (tip t)) = Some i ->
  exists m', vm_step fold m = SStopped (tip t) m'.
Proof.
  intros Hs Hk Hc Hq Hi. unfold vm_step. rewrite Hq, Hi, Hc. cbn [N.eqb]. unfold poll. rewrite Hs.
  replace (k <=? _) with true by (symmetry; apply N.leb_le; exact Hk). eexists. reflexivity.
Qed.


Lemma vm_step_counter m m' :
  vm_step fold m = SRunning m' ->
  v_counter m' = v_counter m + 1 /\ v_cfg m' = v_cfg m /\ v_polls m <= v_polls m'.
Proof.
  unfold vm_step. destruct (v_queue m) as [|t rest]; [discriminate|].
  destruct (nth_error (v_code m) (N.to_nat (tip t))) as [i|]; [|discriminate].
  set (c0 := mk_octx [] (tstate t) (v_next_id m) (v_killed m) (v_polls m)).
  destruct (if v_counter m mod poll_every (v_cfg m) =? 0 then poll (v_cfg m) c0 else (false, c0)) as [stopped c1] eqn:Ep.
  destruct stopped; [discriminate|].
  destruct (exec_instr fold (v_cfg m) (v_code m) (bump (tip t) (tvis t)) (v_jt m) (tip t) i c1) as [[[[c3 err] serr] k] jt'] eqn:Ex.
  pose proof (exec_instr_polls _ _ _ _ _ _ _ _ _ _ _ _ Ex) as Hmono.
  intros Hs.
  assert (Hm' : v_counter m' = v_counter m + 1 /\ v_cfg m' = v_cfg m /\ v_polls m' = o_polls c3).
  { destruct err; cbv beta iota zeta in Hs; injection Hs as <-; unfold advance; proj;
      destruct (_ || _ || _); proj; auto. }
  destruct Hm' as (Hc & Hcf & Hp). rewrite Hc, Hcf, Hp. repeat split; auto.
  destruct (v_counter m mod poll_every (v_cfg m) =? 0).
  - unfold poll in Ep. injection Ep as _ <-. cbn [o_polls c0] in Hmono. lia.
  - injection Ep as <-. exact Hmono.
Qed.

(* ... and that poll comes within one polling interval: after at most poll_every further iterations of the
   main loop the run has returned (stopped by the watchdog, or because no thread was left) *)
Lemma stops_within_d d : forall m k,
  stop_at (v_cfg m) = Some k -> k <= v_polls m -> 1 <= poll_every (v_cfg m) ->
  (v_counter m + N.of_nat d) mod poll_every (v_cfg m) = 0 ->
  match run fold (S d) m with ROutOfFuel _ => False | _ => True end.
Proof.
  induction d as [|d IH]; intros m k Hs Hk Hpe Hd; cbn [run].
  - rewrite N.add_0_r in Hd.
    destruct (vm_step fold m) as [m'|m'|ip m'] eqn:Es; [|exact Logic.I|exact Logic.I].
    exfalso. unfold vm_step in Es. destruct (v_queue m) as [|t rest] eqn:Eq; [discriminate|].
    destruct (nth_error (v_code m) (N.to_nat (tip t))) as [i|] eqn:Ei; [|discriminate].
    destruct (vm_step_stops m k t rest i Hs Hk Hd Eq Ei) as (m2 & H2).
    unfold vm_step in H2. rewrite Eq, Ei in H2. rewrite H2 in Es. discriminate.
  - destruct (vm_step fold m) as [m'|m'|ip m'] eqn:Es; [|exact Logic.I|exact Logic.I].
    destruct (vm_step_counter _ _ Es) as (Hc & Hcf & Hp).
    apply (IH m' k); rewrite ?Hcf; auto; try lia.
    rewrite Hc. replace (v_counter m + 1 + N.of_nat d) with (v_counter m + N.of_nat (S d)) by lia. exact Hd.
Qed.

Theorem stops_within m k :
  stop_at (v_cfg m) = Some k -> k <= v_polls m -> 1 <= poll_every (v_cfg m) ->
  exists d, N.of_nat d < poll_every (v_cfg m) /\
            match run fold (S d) m with ROutOfFuel _ => False | _ => True end.
Proof.
  intros Hs Hk Hpe. set (pe := poll_every (v_cfg m)) in *.
  exists (N.to_nat ((pe - v_counter m mod pe) mod pe)). split.
  - rewrite N2Nat.id. apply N.mod_lt. lia.
  - apply (stops_within_d _ m k Hs Hk Hpe). fold pe. rewrite N2Nat.id.
    pose proof (N.mod_lt (v_counter m) pe ltac:(lia)) as Hlt.
    pose proof (N.div_mod (v_counter m) pe ltac:(lia)) as Hdm.
    remember (v_counter m mod pe) as r eqn:Er. remember (v_counter m / pe) as q eqn:Eq0.
    destruct (N.eq_dec r 0) as [E|E].
    + rewrite E, N.sub_0_r, N.mod_same by lia. rewrite N.add_0_r. rewrite <- Er. exact E.
    + assert (Hsm : (pe - r) mod pe = pe - r) by (apply N.mod_small; lia).
      rewrite Hsm. rewrite Hdm.
      replace (pe * q + r + (pe - r)) with ((q + 1) * pe) by nia.
      apply N.mod_mul. lia.
Qed.

(* accounting along a whole run *)
Theorem poll_accounting n : forall m, 1 <= poll_every (v_cfg m) ->
  v_counter m <= v_polls m * poll_every (v_cfg m) ->
  let m' := match run fold n m with RDone x | RStopped _ x | ROutOfFuel x => x end in
  v_counter m' <= v_polls m' * poll_every (v_cfg m').
Proof.
  induction n as [|n IH]; intros m Hpe Hinv; cbn [run]; [exact Hinv|].
  destruct (vm_step fold m) as [m1|m1|ip m1] eqn:Es.
  - destruct (vm_step_polls _ _ Hpe Es Hinv) as (_ & Hcf & _ & H). apply IH; [rewrite Hcf; exact Hpe|exact H].
  - cbv zeta. unfold vm_step in Es. destruct (v_queue m) as [|t rest]; [injection Es as <-; exact Hinv|].
    destruct (nth_error (v_code m) (N.to_nat (tip t))); [|injection Es as <-; exact Hinv].
    destruct (if v_counter m mod poll_every (v_cfg m) =? 0 then _ else _) as [stopped c1]. destruct stopped; [discriminate|].
    destruct (exec_instr _ _ _ _ _ _ _ _) as [[[[c3 err] serr] k] jt']. destruct err; cbv beta iota zeta in Es; discriminate.
  - cbv zeta. unfold vm_step in Es. destruct (v_queue m) as [|t rest]; [discriminate|].
    destruct (nth_error (v_code m) (N.to_nat (tip t))); [|discriminate].
    destruct (v_counter m mod poll_every (v_cfg m) =? 0) eqn:Em.
    + unfold poll in Es. destruct (match stop_at (v_cfg m) with Some k => _ | None => false end).
      * injection Es as _ <-. proj. cbn [o_polls]. nia.
      * destruct (exec_instr _ _ _ _ _ _ _ _) as [[[[c3 err] serr] k] jt']. destruct err; cbv beta iota zeta in Es; discriminate.
    + destruct (exec_instr _ _ _ _ _ _ _ _) as [[[[c3 err] serr] k] jt']. destruct err; cbv beta iota zeta in Es; discriminate.
Qed.

End Watchdog.
