(* C07 simulation, part 1: the generic facts the simulation proof rests on.
   - association lists (alookup/aupdate, alist_get/alist_set) with duplicate-free keys;
   - sv_eqb decides equality;
   - the disassembled stream seen as a segmentation of the byte string (`aligned`), which gives,
     at every instruction boundary, the byte under an entry, the push data and the next boundary;
   - `erun` extended at the END of a path (the symbolic machine appends its decisions);
   - constant folding versus the option-valued denotation `Sim.den`. *)
From SLX Require Import Base gen.Constants gen.ValueSig gen.OpcodeTable SymVal Micro gen.OpcodeSem Disasm
                        Word256 EvmSpec Evm VM Sim gen.KnownWordSel gen.FoldTable KnownWord Fold.
From SLX Require Import proofs.DisasmProofs proofs.Word256Proofs proofs.EvmSpecProofs proofs.FoldProofs.
Open Scope N_scope.
Set Default Timeout 120.

(* ---------------------------------------------------------------------------------------------- *)
(* association lists *)
Section AL.
  Context {K V : Type} (eqb : K -> K -> bool).
  Hypothesis eqb_spec : forall a b, eqb a b = true <-> a = b.

  Lemma eqb_refl' a : eqb a a = true. Proof. now apply eqb_spec. Qed.
  Lemma eqb_neq a b : a <> b -> eqb a b = false.
  Proof. intros H. destruct (eqb a b) eqn:E; [apply eqb_spec in E; congruence|reflexivity]. Qed.

  Lemma alookup_aupdate_same k f (l : list (K * V)) :
    alookup eqb k (aupdate eqb k f l) = Some (f (alookup eqb k l)).
  Proof.
    induction l as [|[k' v] l IH]; cbn [aupdate alookup].
    - now rewrite eqb_refl'.
    - destruct (eqb k k') eqn:E; cbn [alookup]; rewrite E; [reflexivity|exact IH].
  Qed.

  Lemma alookup_aupdate_other k k' f (l : list (K * V)) : k' <> k ->
    alookup eqb k' (aupdate eqb k f l) = alookup eqb k' l.
  Proof.
    intros Hne. induction l as [|[k0 v] l IH]; cbn [aupdate alookup].
    - now rewrite (eqb_neq _ _ Hne).
    - destruct (eqb k k0) eqn:E; cbn [alookup].
      + apply eqb_spec in E. subst k0. now rewrite (eqb_neq _ _ Hne).
      + destruct (eqb k' k0); [reflexivity|exact IH].
  Qed.

  Lemma alookup_app k (l1 l2 : list (K * V)) :
    alookup eqb k (l1 ++ l2) = match alookup eqb k l1 with Some v => Some v | None => alookup eqb k l2 end.
  Proof. induction l1 as [|[k' v] l1 IH]; cbn [app alookup]; [reflexivity|]. destruct (eqb k k'); auto. Qed.

  Lemma alookup_none_notin k (l : list (K * V)) : alookup eqb k l = None <-> ~ In k (map fst l).
  Proof.
    induction l as [|[k' v] l IH]; cbn [alookup map fst In]; [tauto|].
    destruct (eqb k k') eqn:E.
    - apply eqb_spec in E. subst. split; [discriminate|tauto].
    - rewrite IH. split; [intros H [H1|H1]; [subst; rewrite eqb_refl' in E; discriminate|tauto]|tauto].
  Qed.

  Lemma aupdate_keys k f (l : list (K * V)) :
    map fst (aupdate eqb k f l) = match alookup eqb k l with Some _ => map fst l | None => map fst l ++ [k] end.
  Proof.
    induction l as [|[k' v] l IH]; cbn [aupdate alookup map fst app]; [reflexivity|].
    destruct (eqb k k') eqn:E; cbn [map fst]; [reflexivity|]. rewrite IH. destruct (alookup eqb k l); reflexivity.
  Qed.

  Lemma nodup_snoc (l : list K) k : NoDup l -> ~ In k l -> NoDup (l ++ [k]).
  Proof.
    induction l as [|x l IH]; cbn [app]; intros Hn Hk.
    - constructor; [intros []|constructor].
    - inversion Hn as [|? ? Hx Hl]; subst. constructor.
      + rewrite in_app_iff. cbn [In]. intros [H|[H|[]]]; [tauto|]. subst. apply Hk. now left.
      + apply IH; auto. intros H. apply Hk. now right.
  Qed.

  Lemma aupdate_nodup k f (l : list (K * V)) : NoDup (map fst l) -> NoDup (map fst (aupdate eqb k f l)).
  Proof.
    intros H. rewrite aupdate_keys. destruct (alookup eqb k l) eqn:E; [exact H|].
    apply nodup_snoc; [exact H|]. now apply alookup_none_notin.
  Qed.

  Lemma app_entry_nodup k v (l : list (K * V)) :
    NoDup (map fst l) -> alookup eqb k l = None -> NoDup (map fst (l ++ [(k, v)])).
  Proof. intros H E. rewrite map_app. cbn [map fst]. apply nodup_snoc; [exact H|]. now apply alookup_none_notin. Qed.

  Lemma in_alookup k v (l : list (K * V)) : NoDup (map fst l) -> In (k, v) l -> alookup eqb k l = Some v.
  Proof.
    induction l as [|[k' v'] l IH]; cbn [map fst In alookup]; intros Hn Hin; [contradiction|].
    inversion Hn as [|? ? Hx Hl]; subst. destruct Hin as [Hin|Hin].
    - injection Hin as -> ->. now rewrite eqb_refl'.
    - destruct (eqb k k') eqn:E; [|now apply IH].
      apply eqb_spec in E. subst k'. exfalso. apply Hx. change k with (fst (k, v)). now apply in_map.
  Qed.

  Lemma alookup_in k v (l : list (K * V)) : alookup eqb k l = Some v -> In (k, v) l.
  Proof.
    induction l as [|[k' v'] l IH]; cbn [alookup In]; [discriminate|].
    destruct (eqb k k') eqn:E; [|auto]. apply eqb_spec in E. subst. intros [= ->]. now left.
  Qed.

  Lemma aupdate_forall (P : K * V -> Prop) k f (l : list (K * V)) :
    Forall P l -> P (k, f (alookup eqb k l)) -> Forall P (aupdate eqb k f l).
  Proof.
    induction l as [|[k' v'] l IH]; cbn [aupdate alookup]; intros Hl Hp.
    - constructor; [exact Hp|constructor].
    - inversion Hl as [|? ? H1 H2]; subst. destruct (eqb k k') eqn:E.
      + apply eqb_spec in E. subst k'. constructor; assumption.
      + constructor; [assumption|]. now apply IH.
  Qed.
End AL.

Lemma N_eqb_spec a b : N.eqb a b = true <-> a = b. Proof. apply N.eqb_eq. Qed.

Lemma alist_get_alookup k l : alist_get k l = alookup N.eqb k l.
Proof. induction l as [|[k' v] l IH]; cbn [alist_get alookup]; [reflexivity|]. now rewrite IH. Qed.
Lemma alist_set_aupdate k v l : alist_set k v l = aupdate N.eqb k (fun _ => v) l.
Proof. induction l as [|[k' v'] l IH]; cbn [alist_set aupdate]; [reflexivity|]. now rewrite IH. Qed.

(* ---------------------------------------------------------------------------------------------- *)
(* sv_eqb decides equality *)
Lemma sv_eqb_eq a : forall b, sv_eqb a b = true <-> a = b.
Proof.
  induction a as [t a args IH] using sv_ind'. intros [t2 a2 l2]. cbn [sv_eqb].
  match goal with |- context [(fix go (x y : list sv) {struct x} : bool := _) args l2] =>
    set (go := (fix go (x y : list sv) {struct x} : bool :=
                  match x, y with
                  | [], [] => true
                  | p :: x', q :: y' => sv_eqb p q && go x' y'
                  | _, _ => false
                  end)) end.
  assert (Hgo : forall l2, go args l2 = true <-> args = l2).
  { clear l2. induction IH as [|x args Hx _ IHl]; intros [|y l2]; cbn; try (split; [discriminate|congruence]); [tauto|].
    rewrite andb_true_iff, Hx, IHl. split; [intros [-> ->]; reflexivity|intros [= -> ->]; auto]. }
  rewrite !andb_true_iff, tag_eqb_eq, list_eqb_N_eq, Hgo.
  split; [intros [[-> ->] ->]; reflexivity|intros [= -> -> ->]; auto].
Qed.

Lemma known_inj a b : Known a = Known b -> a = b. Proof. now intros [= ->]. Qed.

(* ---------------------------------------------------------------------------------------------- *)
(* the instruction stream as a segmentation of the bytes *)
Inductive aligned : list byte -> list instr -> Prop :=
| al_nil : aligned [] []
| al_plain b i bs is : is_push b = false -> decode1 b = Ok i -> aligned bs is -> aligned (b :: bs) (i :: is)
| al_push b d bs is : is_push b = true -> length d = N.to_nat (b - PUSH_OPCODE_BASE_VALUE) -> aligned bs is ->
    aligned (b :: d ++ bs) (IPush (b - PUSH_OPCODE_BASE_VALUE) d :: nops (b - PUSH_OPCODE_BASE_VALUE) ++ is)
| al_trunc b rest : is_push b = true -> N.of_nat (length rest) < b - PUSH_OPCODE_BASE_VALUE ->
    aligned (b :: rest) (IInvalid b :: map IInvalid rest).

Lemma spec_aligned n : forall bs, (length bs <= n)%nat -> bytes_ok bs -> aligned bs (spec n bs).
Proof.
  induction n as [|n IH]; intros bs Hl Hb.
  - destruct bs; [constructor|cbn in Hl; lia].
  - destruct bs as [|b rest]; [constructor|]. cbn [spec length] in *. inversion Hb as [|? ? Hb1 Hb2]; subst.
    destruct (is_push b) eqn:Ep.
    + destruct (push_ok b Hb1 Ep) as (_ & Hrange & _). set (k := b - PUSH_OPCODE_BASE_VALUE) in *.
      destruct (N.of_nat (length rest) <? k) eqn:Et.
      * apply N.ltb_lt in Et. now apply al_trunc.
      * apply N.ltb_ge in Et.
        rewrite <- (firstn_skipn (N.to_nat k) rest) at 1.
        apply al_push; [exact Ep|apply firstn_skipn_len; lia|].
        apply IH; [rewrite skipn_length; lia|].
        unfold bytes_ok in *. rewrite <- (firstn_skipn (N.to_nat k) rest) in Hb2. apply Forall_app in Hb2. tauto.
    + destruct (plain_ok b Hb1 Ep) as (i & Hi & _). rewrite Hi. apply al_plain; auto. apply IH; auto. lia.
Qed.

Lemma try_from_aligned bs is : bytes_ok bs -> N.of_nat (length bs) <= two32 -> try_from bs = Ok is -> aligned bs is.
Proof.
  intros Hb Hl H. pose proof (try_from_ok_nonempty _ _ H) as Hne.
  rewrite C10_total_proof in H by assumption. injection H as <-. now apply spec_aligned.
Qed.

Lemma aligned_length bs is : aligned bs is -> length bs = length is.
Proof.
  induction 1 as [|b i bs is _ _ _ IH|b d bs is _ Hd _ IH|b rest _ _]; cbn [length]; auto.
  - rewrite !app_length, len_nops, IH, Hd. reflexivity.
  - now rewrite map_length.
Qed.

Lemma skipn_add {A} (a b : nat) : forall l : list A, skipn (a + b) l = skipn b (skipn a l).
Proof. induction a as [|a IH]; intros l; [reflexivity|]. destruct l; cbn [Nat.add skipn]; [now destruct b|apply IH]. Qed.

Lemma skipn_nops_app {A} (k : nat) (l1 l2 : list A) : length l1 = k -> skipn k (l1 ++ l2) = l2.
Proof. intros <-. rewrite skipn_app, skipn_all, Nat.sub_diag. reflexivity. Qed.

Lemma nth_error_nops n j : (j < N.to_nat n)%nat -> nth_error (nops n) j = Some INop.
Proof.
  unfold nops. revert j. induction (N.to_nat n) as [|m IH]; intros j Hj; [lia|].
  destruct j; cbn [repeat nth_error]; [reflexivity|]. apply IH. lia.
Qed.

(* an entry that is neither a push-data filler nor an INVALID sits on an instruction boundary *)
Lemma aligned_at bs is : aligned bs is -> forall t i, nth_error is t = Some i ->
  i <> INop -> (forall b, i <> IInvalid b) -> aligned (skipn t bs) (skipn t is).
Proof.
  induction 1 as [|b i0 bs is Hp Hd Ha IH|b d bs is Hp Hd Ha IH|b rest Hp Hl]; intros t i Hn Hnop Hinv.
  - destruct t; discriminate.
  - destruct t as [|t]; [cbn [skipn]; now apply al_plain|]. cbn [skipn nth_error] in *. eapply IH; eauto.
  - destruct t as [|t]; [cbn [skipn]; now apply al_push|]. cbn [skipn nth_error] in *.
    destruct (Nat.ltb t (N.to_nat (b - PUSH_OPCODE_BASE_VALUE))) eqn:Et.
    + apply Nat.ltb_lt in Et. rewrite nth_error_app1 in Hn by (rewrite len_nops; exact Et).
      rewrite nth_error_nops in Hn by exact Et. congruence.
    + apply Nat.ltb_ge in Et. rewrite nth_error_app2 in Hn by (rewrite len_nops; exact Et). rewrite len_nops in Hn.
      replace t with (N.to_nat (b - PUSH_OPCODE_BASE_VALUE) + (t - N.to_nat (b - PUSH_OPCODE_BASE_VALUE)))%nat by lia.
      rewrite !skipn_add. rewrite (skipn_nops_app _ d bs Hd), (skipn_nops_app _ (nops _) is (len_nops _)).
      eapply IH; eauto.
  - destruct t as [|t]; cbn [nth_error] in Hn; [injection Hn as <-; exfalso; eapply Hinv; reflexivity|].
    apply nth_error_In, in_map_iff in Hn as (x & <- & _). exfalso. eapply Hinv. reflexivity.
Qed.

Lemma skipn_cons_nth {A} k (l : list A) x r : skipn k l = x :: r -> nth_error l k = Some x /\ skipn (S k) l = r.
Proof.
  revert l. induction k as [|k IH]; intros [|y l] H; cbn [skipn nth_error] in *; try discriminate.
  - now injection H as -> ->.
  - now apply IH.
Qed.

Lemma skipn_app_more {A} k (l : list A) d r : skipn k l = d ++ r -> skipn (k + length d) l = r.
Proof. intros H. rewrite skipn_add, H. now apply skipn_nops_app. Qed.

Lemma skipn_app_firstn {A} k (l : list A) d r : skipn k l = d ++ r -> firstn (length d) (skipn k l) = d.
Proof. intros ->. rewrite firstn_app, Nat.sub_diag, firstn_all. cbn [firstn]. now rewrite app_nil_r. Qed.

Lemma skipn_app_nth {A} k (l : list A) d r j x : skipn k l = d ++ r -> nth_error d j = Some x -> nth_error l (k + j) = Some x.
Proof.
  intros H Hj. rewrite <- (firstn_skipn k l) at 1.
  assert (Hk : (k <= length l)%nat).
  { destruct (Nat.le_gt_cases k (length l)); [assumption|]. rewrite skipn_all2 in H by lia.
    destruct d; [destruct j; discriminate|discriminate]. }
  rewrite nth_error_app2 by (rewrite firstn_length; lia). rewrite firstn_length, Nat.min_l by lia.
  replace (k + j - k)%nat with j by lia. rewrite H. rewrite nth_error_app1; [exact Hj|].
  apply nth_error_Some. congruence.
Qed.

(* ---------------------------------------------------------------------------------------------- *)
(* erun: adding a step at the END of an execution *)
Lemma erun_snoc bytes n : forall s pq e q,
  erun bytes n pq s = (ENext e, q) -> erun bytes (S n) pq s = erun bytes 1 q e.
Proof.
  induction n as [|n IH]; intros s pq e q H.
  - cbn [erun] in H. now injection H as -> ->.
  - remember (S n) as m eqn:Em. cbn [erun]. subst m. cbn [erun] in H.
    destruct (match byte_at bytes (e_pc s) with Some 87 => true | _ => false end).
    + destruct pq as [|b r].
      * destruct (estep bytes false s) as [s'| | |]; try (injection H as ? ?; discriminate). now apply IH.
      * destruct (estep bytes b s) as [s'| | |]; try (injection H as ? ?; discriminate). now apply IH.
    + destruct (estep bytes false s) as [s'| | |]; try (injection H as ? ?; discriminate). now apply IH.
Qed.

Lemma erun_halt_mono bytes n : forall s p e q, erun bytes n p s = (EHalt e, q) ->
  forall m, (n <= m)%nat -> erun bytes m p s = (EHalt e, q).
Proof.
  induction n as [|n IH]; intros s p e q H m Hm; [cbn in H; discriminate|].
  destruct m as [|m]; [lia|]. cbn [erun] in *.
  destruct (if match byte_at bytes (e_pc s) with Some 87 => true | _ => false end
            then match p with b :: r => (b, r) | [] => (false, []) end else (false, p)) as [br p'].
  destruct (estep bytes br s) as [s'| | |]; try exact H. apply (IH _ _ _ _ H). lia.
Qed.

Lemma erun_halt_any bytes n : forall s p e q, erun bytes n p s = (EHalt e, q) ->
  forall m, erun bytes m p s = (EHalt e, q) \/ exists s' q', erun bytes m p s = (ENext s', q').
Proof.
  induction n as [|n IH]; intros s p e q H m; [cbn in H; discriminate|].
  destruct m as [|m]; [right; cbn; eauto|]. cbn [erun] in *.
  destruct (if match byte_at bytes (e_pc s) with Some 87 => true | _ => false end
            then match p with b :: r => (b, r) | [] => (false, []) end else (false, p)) as [br p'].
  destruct (estep bytes br s) as [s'| | |]; try discriminate.
  - apply (IH _ _ _ _ H).
  - left. exact H.
Qed.

(* ---------------------------------------------------------------------------------------------- *)
(* constant folding versus the denotation of Sim.v: a value that folds to the constant o denotes o *)
Lemma foldable_not_known t : foldable t = true -> t <> T_KnownData.
Proof. intros H ->. vm_compute in H. discriminate. Qed.

Lemma map_den_words args ws :
  Forall (fun x => forall o, wf x -> constant_fold x = Known o -> Sim.den x = Some o) args ->
  Forall wf args -> map constant_fold args = map Known ws -> map Sim.den args = map Some ws.
Proof.
  intros H. revert ws. induction H as [|x args Hx _ IH]; intros [|w ws] Hwf E; cbn [map] in *; try discriminate; [reflexivity|].
  apply Forall_cons_iff in Hwf as [Hw1 Hw2]. injection E as E1 E2. rewrite (Hx w Hw1 E1), (IH ws Hw2 E2). reflexivity.
Qed.

Theorem den_fold_known v : forall o, wf v -> constant_fold v = Known o -> Sim.den v = Some o.
Proof.
  induction v as [t a args IH] using sv_ind'. intros o Hwf Hf.
  pose proof Hwf as Hwf0. apply wf_node in Hwf as [_ Hargs].
  rewrite fold_node in Hf.
  destruct (find_arm t) as [r|] eqn:Ef.
  2: { rewrite transform_ctor_id in Hf. unfold Known in Hf. injection Hf as -> -> Hm. destruct args; [reflexivity|discriminate]. }
  destruct (arm_matches r a args) eqn:Em.
  2: { rewrite transform_ctor_id in Hf. unfold Known in Hf. injection Hf as -> _ _. rewrite find_arm_known in Ef. discriminate. }
  apply arm_matches_true in Em as [-> Hl].
  pose proof (arm_sem_of _ _ Ef) as Hsem. apply find_arm_some in Ef as (Hok & _ & Ht).
  rewrite run_arm_ok in Hf by (try rewrite map_length; assumption).
  pose proof (arm_ok_props r Hok) as (_ & _ & _ & Har & Hfold). rewrite Ht in Har, Hfold.
  destruct (all_words (map constant_fold args)) as [ws|] eqn:Ew.
  2: { unfold Known in Hf. injection Hf as Hk _ _. rewrite Ht in Hk. now apply foldable_not_known in Hfold. }
  unfold Known in Hf. injection Hf as Ho.
  apply all_words_some in Ew.
  assert (Hfa : Forall wf (map constant_fold args)).
  { apply Forall_forall. intros y Hy. apply in_map_iff in Hy as (x & <- & Hx).
    rewrite Forall_forall in Hargs. apply fold_wf. now apply Hargs. }
  rewrite Ew in Hfa. apply wf_knowns in Hfa.
  assert (Hlw : length ws = fa_arity r) by (rewrite <- Hl, <- (map_length constant_fold args), Ew, map_length; reflexivity).
  pose proof (Hsem ws Hlw Hfa) as Hd. rewrite Ho, Ht in Hd.
  pose proof (map_den_words args ws IH Hargs Ew) as Hm.
  rewrite Har in Hlw, Hl. clear Hsem Ho Hok Ht Har IH Ew Hwf0 Hargs r.
  unfold in_range in Hfa.
  destruct t; vm_compute in Hfold; try discriminate Hfold; clear Hfold; cbn [op_arity] in Hl, Hlw;
    repeat (destruct args as [|? args]; cbn [length] in Hl; try discriminate Hl);
    repeat (destruct ws as [|? ws]; cbn [length] in Hlw; try discriminate Hlw);
    cbn [map] in Hm; inversion Hm; clear Hm; cbn [Sim.den];
    repeat match goal with H : Sim.den _ = Some _ |- _ => rewrite H; clear H end;
    cbn [lift2 lift1 option_map]; cbn [den_op bin un] in Hd;
    repeat match goal with H : Forall _ (_ :: _) |- _ => apply Forall_cons_iff in H as [? H] end;
    rewrite ?xspec_exp_eq, ?xspec_shl_eq, ?xspec_shr_eq, ?xspec_sar_eq by assumption; exact Hd.
Qed.

(* values that may sit on the symbolic stack or in memory: well formed, and never the bare placeholder
   of an unwritten slot (SLOAD always wraps it) *)
Definition good (v : sv) : Prop := wf v /\ sv_tag v <> T_UnwrittenStorageValue.

Lemma good_known w : w < W -> good (Known w).
Proof. intros H. split; [now apply wf_known|discriminate]. Qed.

Lemma good_node t args : t <> T_KnownData -> t <> T_UnwrittenStorageValue -> Forall good args -> good (Node t [] args).
Proof.
  intros H1 H2 H. split; [|exact H2]. apply wf_node. split; [congruence|].
  eapply Forall_impl; [|exact H]. now intros x [Hx _].
Qed.
