(* C05 end to end on the composed model (props/C05_pipeline.v): every reported slot index is the literal key of a
   StorageSlot node of a lifted value.

   The layout loop reports a row only for a registered value whose `const_slot_key` is defined: a StorageSlot node whose key
   child is a literal.  Registration creates one typed node per subterm of a lifted value and nothing else; the rules only
   allocate synthetic `Value` nodes; the synthetic values appended for the variables `merge` allocated are `Value` nodes.
   Hence, for EVERY program, configuration, keccak function, slot table, order mode and fuel: a row of a returned layout
   carries the index w only if some lifted value has a subterm StorageSlot(Known w).  (Which StorageSlot nodes the passes
   create -- only around the key of an executed SLOAD / SSTORE, C05_lifts_only_under_access -- is the stage theorem of
   props/C05.v.) *)
From Coq Require Import String Permutation.
From SLX Require Import Base Word256 PackingArith gen.Constants gen.ValueSig gen.OpcodeTable gen.PassOrder gen.RulesSig gen.WordUseTable gen.LayoutKey
  SymVal Micro gen.OpcodeSem Disasm VM Fold PassesSlots PassesPacking TypeExpr Merge VectorMap DisjointSet Register Rules
  Unify AbiT Layout Abi PolledLoop Pipeline NoPanic.
From SLX Require Import TcCases.
From SLX.proofs Require Import PipelinePolls LayoutProofs RegisterProofs RulesProofs UnifyProofs AbiProofs TcStagesProofs PipelineProofs PipelineInSlot.
Open Scope N_scope.

(* ---- registration: every new expression is the typed image of a subterm ---- *)
Lemma reg_exprs_from v : forall st, inv st -> forall w x, In (w, x) (exprs (snd (reg v st))) ->
  In (w, x) (exprs st) \/ In (erase x) (subterms v).
Proof.
  induction v as [t a args IH] using sv_ind'. intros st I w x. rewrite reg_unfold. cbv zeta.
  destruct (if is_stable (Node t a args) then lookup_stable (Node t a args) (stable st) else None); [cbn [snd]; auto|].
  assert (A : forall l st0, inv st0 -> (forall y, In y l -> In y args) -> forall w0 x0,
             In (w0, x0) (exprs (snd (reg_args l st0))) -> In (w0, x0) (exprs st0) \/ exists y, In y l /\ In (erase x0) (subterms y)).
  { induction l as [|y r IHr]; intros st0 I0 Hsub w0 x0; cbn [reg_args]; [cbn [snd]; auto|].
    assert (Hy : In y args) by (apply Hsub; left; reflexivity).
    rewrite Forall_forall in IH. pose proof (IH y Hy st0 I0) as IHy.
    pose proof (reg_spec y st0 I0) as Sy. destruct (reg y st0) as [ty s1]. destruct Sy as (I1 & _). cbn [snd] in IHy.
    specialize (IHr s1 I1 (fun z Hz => Hsub z (or_intror Hz)) w0 x0). destruct (reg_args r s1) as [tr s2]. cbn [snd] in *.
    intros H. destruct (IHr H) as [H1|(z & Hz & Hs)].
    - destruct (IHy w0 x0 H1) as [H2|H2]; [left; exact H2|right; exists y; split; [left; reflexivity|exact H2]].
    - right. exists z. split; [right; exact Hz|exact Hs]. }
  pose proof (reg_args_spec args (proj2 (Forall_forall _ _) (fun y _ => reg_spec y)) st I) as Sa.
  specialize (A args st I (fun y Hy => Hy) w x). destruct (reg_args args st) as [targs st1]. destruct Sa as (_ & _ & Er & _).
  cbn [snd exprs] in *. intros [E|Hin].
  - right. inversion E; subst. cbn [erase subterms]. left. reflexivity.
  - destruct (A Hin) as [H1|(y & Hy & Hs)]; [left; exact H1|]. right. cbn [subterms]. right. apply in_flat_map. exists y. split; assumption.
Qed.

Lemma reg_list_exprs_from l : forall st, inv st -> forall w x, In (w, x) (exprs (snd (reg_list l st))) ->
  In (w, x) (exprs st) \/ exists v, In v l /\ In (erase x) (subterms v).
Proof.
  induction l as [|y r IH]; intros st I w x; cbn [reg_list]; [cbn [snd]; auto|].
  pose proof (reg_exprs_from y st I w x) as Hy. pose proof (reg_spec y st I) as Sy. destruct (reg y st) as [ty s1]. destruct Sy as (I1 & _).
  cbn [snd] in Hy. specialize (IH s1 I1 w x). destruct (reg_list r s1) as [tr s2]. cbn [snd] in *. intros H.
  destruct (IH H) as [H1|(v & Hv & Hs)].
  - destruct (Hy H1) as [H2|H2]; [left; exact H2|right; exists y; split; [left; reflexivity|exact H2]].
  - right. exists v. split; [right; exact Hv|exact Hs].
Qed.

(* ---- the rules add synthetic Value nodes only ---- *)
Definition slots_from (st0 st : tcs) : Prop :=
  forall w x, In (w, x) (exprs st) -> ttag x = T_StorageSlot -> In (w, x) (exprs st0).

Lemma apply_rule_slots_from st0 r x st st' : apply_rule r x st = Ok st' -> slots_from st0 st -> slots_from st0 st'.
Proof.
  unfold apply_rule. destruct (r x (next st)) as [ro|e|p]; try discriminate. intros H Hst. apply apply_js_exprs in H.
  intros w y Hin Ht. rewrite H in Hin. destruct (ro_alloc ro); [|exact (Hst w y Hin Ht)].
  unfold allocate in Hin. cbn [snd exprs] in Hin. destruct Hin as [E|Hin]; [inversion E; subst; discriminate Ht|exact (Hst w y Hin Ht)].
Qed.

Lemma infer_value_slots_from st0 rs x : forall st st', infer_value rs x st = Ok st' -> slots_from st0 st -> slots_from st0 st'.
Proof.
  induction rs as [|r rs IH]; intros st st'; cbn [infer_value]; [intros [= <-]; auto|].
  destruct (apply_rule r x st) as [s1|e|p] eqn:E; try discriminate. intros H Hst. exact (IH _ _ H (apply_rule_slots_from _ _ _ _ _ E Hst)).
Qed.

Lemma infer_values_slots_from st0 rs xs : forall st st', infer_values rs xs st = Ok st' -> slots_from st0 st -> slots_from st0 st'.
Proof.
  induction xs as [|x xs IH]; intros st st'; cbn [infer_values]; [intros [= <-]; auto|].
  destruct (infer_value rs x st) as [s1|e|p] eqn:E; try discriminate. intros H Hst. exact (IH _ _ H (infer_value_slots_from _ _ _ _ _ E Hst)).
Qed.

(* ---- a typed constant-slot node erases to StorageSlot(Known w) ---- *)
Lemma const_slot_key_erase x w : const_slot_key x = Some w ->
  ttag x = T_StorageSlot /\ exists a c, erase x = Node T_StorageSlot a [Node T_KnownData [w] c].
Proof.
  destruct x as [v t a args]. unfold const_slot_key. destruct t; try discriminate.
  destruct args as [|[kv kt ka kargs] [|? ?]]; try discriminate.
  - destruct kt; try discriminate. destruct ka as [|w0 [|? ?]]; try discriminate. intros [= <-]. split; [reflexivity|].
    cbn [erase map]. exists a, (map erase kargs). reflexivity.
  - destruct kt; try discriminate. destruct ka as [|w0 [|? ?]]; discriminate.
Qed.

(* a lifted value mentions the slot index w as the literal key of a StorageSlot node *)
Definition slot_node_of (w : N) (v : sv) : Prop :=
  exists a c, In (Node T_StorageSlot a [Node T_KnownData [w] c]) (subterms v).

Theorem pipeline_rows_attributed_lemma keccak table mode fu bytes cfg l :
  analyze_model_fuel keccak table mode fu bytes cfg = PLayout l ->
  exists code m lifted,
    try_from bytes = Ok code /\ run_p constant_fold (f_vm fu) (init_vm code cfg) = RDone m /\
    Forall2 (fun v v' => lift_value keccak table v = Ok v') (unique (all_values mode (v_stored m))) lifted /\
    forall e, In e l -> exists v, In v lifted /\ slot_node_of (fst (fst e)) v.
Proof.
  intros H. destruct (analyze_layout_inv _ _ _ _ _ _ _ H) as [code m lifted st' s n Ed Ev Ee El Ei Eb].
  exists code, m, lifted. split; [exact Ed|]. split; [exact Ev|]. split; [exact El|].
  intros e He.
  destruct (build_layout_rows _ _ _ _ _ _ _ _ Eb He) as [[]|(x & index & a & Hx & Hk & Ha & Hr)].
  assert (Hidx : fst (fst e) = index).
  { destruct a as [t|tps]; cbn [rows_of] in Hr; [destruct Hr as [<-|[]]; reflexivity|].
    apply in_map_iff in Hr as (p & <- & _). reflexivity. }
  rewrite Hidx. destruct (const_slot_key_erase x index Hk) as (Ht & a0 & c & Ex).
  unfold tc_values in Hx. apply arrange_in in Hx. apply in_app_or in Hx as [Hx|Hx].
  2: { unfold synthetic_values in Hx. apply in_map_iff in Hx as (k & <- & _). cbn [ttag] in Ht. discriminate. }
  unfold Register.values in Hx. apply in_rev in Hx. apply in_map_iff in Hx as ([w y] & Ey & Hin). cbn [snd] in Ey. subst y.
  assert (S0 : slots_from (snd (assign_vars lifted)) (snd (assign_vars lifted))) by (intros ? ? ? ?; assumption).
  pose proof (infer_values_slots_from _ _ _ _ _ Ei S0 w x Hin Ht) as Hreg.
  unfold assign_vars in Hreg. destruct (reg_list_exprs_from lifted empty_tcs inv_empty w x Hreg) as [[]|(v & Hv & Hs)].
  exists v. split; [exact Hv|]. exists a0, c. rewrite <- Ex. exact Hs.
Qed.

(* ---- the converse at the same level (the C06 direction): every StorageSlot node with a literal key in a lifted value is
   reported, whatever unification made of its type ---- *)
Theorem pipeline_slot_nodes_reported_lemma keccak table mode fu bytes cfg l :
  analyze_model_fuel keccak table mode fu bytes cfg = PLayout l ->
  exists lifted, (exists code m, try_from bytes = Ok code /\ run_p constant_fold (f_vm fu) (init_vm code cfg) = RDone m /\
    Forall2 (fun v v' => lift_value keccak table v = Ok v') (unique (all_values mode (v_stored m))) lifted) /\
  forall c v, In v lifted -> In (slot_sv c) (subterms v) -> exists off ty, In (c, off, ty) l.
Proof.
  intros H. destruct (analyze_layout_inv _ _ _ _ _ _ _ H) as [code m lifted st' s n Ed Ev Ee El Ei Eb].
  exists lifted. split; [exists code, m; auto|]. intros c v Hv Hs.
  pose proof (register_covers_subterms_lemma lifted) as C. destruct (assign_vars lifted) as [ts st0] eqn:Ea. cbn [snd] in Ei.
  destruct C as (I & _ & _ & Cov).
  destruct (Cov _ (slot_sv c) Hv Hs) as (y & Iy & Ey).
  destruct (infer_values_ok (pipeline_rules mode) (pipeline_rules_good mode) (tc_values mode (Register.values st0)) st0 (inv_winv st0 I))
    as (st2 & E2 & _ & _ & K).
  { intros x Hx. unfold tc_values in Hx. apply arrange_in in Hx. exact (values_in_exprs st0 x (inv_winv st0 I) (i_var st0 I) Hx). }
  rewrite Ei in E2. inversion E2; subst st2.
  destruct (layout_row_per_const_slot_gen abi_nested_add _ _ _ _ _ _ Eb) as (_ & Rows).
  apply (Rows y c); [|exact (const_slot_of_erase y c Ey)].
  unfold tc_values. apply arrange_in. apply in_or_app. left. unfold Register.values. rewrite <- in_rev.
  apply in_map_iff. exists (tv_of y, y). split; [reflexivity|exact (K _ Iy)].
Qed.
