(* Rule-order independence (C02): `InferenceRules::infer` iterates the rule set in hash order.  The rules only ADD
   judgements and read the typed tree -- never the inference sets -- and only one of them (the mapping rule)
   allocates a type variable; so applying the rules of the default set to the registered values in any rule order
   produces the same variable counter, the same expression table and the same SET of judgements for every variable
   (no renaming needed).

   The engine of the proof is a denotational reading of the inference sets: after `state.infer(v, e)` the set of a
   variable w contains exactly what it contained before plus the "effective insertions" of (v, e) (`eff`: the
   judgement itself and, for an equality, its mirror image; nothing for `Equal{id = self}`). *)
From Coq Require Import String Permutation.
From SLX Require Import Base Word256 gen.Constants gen.ValueSig gen.WordUseTable gen.RulesSig SymVal TypeExpr Fold Register Rules.
From SLX Require Import proofs.MergeEquivProofs proofs.RegisterProofs proofs.RulesProofs.
Open Scope N_scope.
Set Default Timeout 300.

(* ------------------------------------------------------------------ inference sets as sets *)
Definition aset (l : list (tyvar * list te)) (w : tyvar) : list te :=
  match find (fun p => fst p =? w) l with Some p => snd p | None => [] end.
Definition jset (st : tcs) (w : tyvar) : list te := aset (infs st) w.

Lemma jset_inferences_of st w : jset st w = match inferences_of st w with Some l => l | None => [] end.
Proof. unfold jset, aset, inferences_of. destruct (find (fun p => fst p =? w) (infs st)); reflexivity. Qed.

Lemma set_add_in e l x : In x (set_add e l) <-> In x l \/ x = e.
Proof.
  induction l as [|y l IH]; cbn [set_add In]; [intuition|]. destruct (te_eqb y e) eqn:E.
  - apply te_eqb_eq in E. subst y. cbn [In]. intuition.
  - cbn [In]. rewrite IH. intuition.
Qed.

Lemma add_inf_aset l v e l' : add_inf l v e = Some l' ->
  forall w, aset l' w = if w =? v then set_add e (aset l w) else aset l w.
Proof.
  revert l'. induction l as [|[k s] l IH]; cbn [add_inf]; [discriminate|]. intros l'. destruct (k =? v) eqn:E.
  - intros [= <-] w. apply N.eqb_eq in E. subst k. unfold aset. cbn [find fst snd]. rewrite (N.eqb_sym v w).
    destruct (w =? v); reflexivity.
  - destruct (add_inf l v e) as [r|] eqn:A; [|discriminate]. cbn [option_map]. intros [= <-] w. specialize (IH r eq_refl w).
    unfold aset in *. cbn [find fst snd]. destruct (k =? w) eqn:E2.
    + apply N.eqb_eq in E2. subst w. rewrite E. reflexivity.
    + exact IH.
Qed.

(* what `state.infer(v, e)` effectively inserts *)
Definition eff (j : judgement) : list judgement :=
  match snd j with
  | Equal id => if id =? fst j then [] else [(id, Equal (fst j)); (fst j, Equal id)]
  | e => [(fst j, e)]
  end.

Lemma st_infer_same st v e st' : st_infer st v e = Ok st' -> same_but_infs st st'.
Proof.
  unfold st_infer, same_but_infs, set_infs.
  assert (G : forall e', match add_inf (infs st) v e' with Some i => Ok (mk_tcs (next st) (exprs st) (stable st) i) | None => Panic SITE_INFER_VAR end = (Ok st' : outcome tcs unit) ->
              next st' = next st /\ exprs st' = exprs st /\ stable st' = stable st /\ map fst (infs st') = map fst (infs st)).
  { intros e'. destruct (add_inf (infs st) v e') as [i|] eqn:A; [|discriminate]. intros [= <-]. cbn. repeat split. exact (add_inf_keys _ _ _ _ A). }
  destruct e; try apply G.
  destruct (id =? v); [intros [= <-]; auto|].
  destruct (add_inf (infs st) id (Equal v)) as [i1|] eqn:A1; [|discriminate].
  destruct (add_inf i1 v (Equal id)) as [i2|] eqn:A2; [|discriminate]. intros [= <-]. cbn. repeat split.
  rewrite (add_inf_keys _ _ _ _ A2). exact (add_inf_keys _ _ _ _ A1).
Qed.

Lemma st_infer_char st v e st' : st_infer st v e = Ok st' ->
  forall w x, In x (jset st' w) <-> In x (jset st w) \/ In (w, x) (eff (v, e)).
Proof.
  unfold st_infer, jset, set_infs.
  assert (G : forall e', (match e' with Equal _ => False | _ => True end) ->
              match add_inf (infs st) v e' with Some i => Ok (mk_tcs (next st) (exprs st) (stable st) i) | None => Panic SITE_INFER_VAR end = (Ok st' : outcome tcs unit) ->
              forall w x, In x (aset (infs st') w) <-> In x (aset (infs st) w) \/ In (w, x) (eff (v, e'))).
  { intros e' Ne. destruct (add_inf (infs st) v e') as [i|] eqn:A; [|discriminate]. intros [= <-] w x. cbn [infs].
    rewrite (add_inf_aset _ _ _ _ A w). unfold eff. cbn [fst snd].
    assert (Hs : In (w, x) [(v, e')] <-> w = v /\ x = e') by (cbn; split; [intros [[= -> ->]|[]]; auto|intros [-> ->]; auto]).
    destruct (w =? v) eqn:E.
    - apply N.eqb_eq in E. subst w. rewrite set_add_in. destruct e'; try destruct Ne; rewrite Hs; intuition.
    - apply N.eqb_neq in E. destruct e'; try destruct Ne; rewrite Hs; intuition. }
  destruct e; try (apply G; exact I).
  destruct (id =? v) eqn:Eid.
  - intros [= <-] w x. unfold eff. cbn [fst snd]. rewrite Eid. cbn [In]. intuition.
  - destruct (add_inf (infs st) id (Equal v)) as [i1|] eqn:A1; [|discriminate].
    destruct (add_inf i1 v (Equal id)) as [i2|] eqn:A2; [|discriminate]. intros [= <-] w x. cbn [infs].
    rewrite (add_inf_aset _ _ _ _ A2 w). unfold eff. cbn [fst snd]. rewrite Eid. cbn [In].
    pose proof (add_inf_aset _ _ _ _ A1 w) as H1.
    destruct (w =? v) eqn:E.
    + apply N.eqb_eq in E. subst w. rewrite set_add_in, H1. rewrite (N.eqb_sym v id), Eid.
      split; [intros [H| ->]; [left; exact H|right; right; left; reflexivity]|].
      intros [H|[H|[H|[]]]]; [left; exact H| |right; congruence]. inversion H; subst. rewrite N.eqb_refl in Eid. discriminate.
    + rewrite H1. destruct (w =? id) eqn:E2.
      * apply N.eqb_eq in E2. subst w. rewrite set_add_in.
        split; [intros [H| ->]; [left; exact H|right; left; reflexivity]|].
        intros [H|[H|[H|[]]]]; [left; exact H|right; congruence|]. inversion H; subst. rewrite N.eqb_refl in E. discriminate.
      * apply N.eqb_neq in E, E2. split; [intros H; left; exact H|]. intros [H|[H|[H|[]]]]; [exact H| |]; inversion H; subst; congruence.
Qed.

Lemma apply_js_same js : forall st st', apply_js js st = Ok st' -> same_but_infs st st'.
Proof.
  induction js as [|[v e] js IH]; intros st st'; cbn [apply_js].
  - intros [= <-]. unfold same_but_infs. auto.
  - destruct (st_infer st v e) as [s1|?|?] eqn:E; try discriminate. intros H. pose proof (st_infer_same _ _ _ _ E) as (A1 & B1 & C1 & D1).
    destruct (IH _ _ H) as (A2 & B2 & C2 & D2). unfold same_but_infs. repeat split; congruence.
Qed.

Lemma apply_js_char js : forall st st', apply_js js st = Ok st' ->
  forall w x, In x (jset st' w) <-> In x (jset st w) \/ In (w, x) (flat_map eff js).
Proof.
  induction js as [|[v e] js IH]; intros st st'; cbn [apply_js flat_map].
  - intros [= <-] w x. cbn. intuition.
  - destruct (st_infer st v e) as [s1|?|?] eqn:E; try discriminate. intros H w x.
    rewrite (IH _ _ H w x), (st_infer_char _ _ _ _ E w x), in_app_iff. intuition.
Qed.

(* ------------------------------------------------------------------ what one rule does to the state *)
Definition js_of (r : rule) (x : tsv) (f : tyvar) : list judgement := match r x f with Ok ro => ro_js ro | _ => [] end.
Definition alloc_of (r : rule) (x : tsv) (f : tyvar) : bool := match r x f with Ok ro => ro_alloc ro | _ => false end.
Definition synth (tv : tyvar) : tyvar * tsv := (tv, TN tv T_Value [two64 + tv] []).

(* two states that cannot be told apart by anything downstream: same counter, same expression table, same keys,
   the same SET of judgements for every variable *)
Definition equiv (s1 s2 : tcs) : Prop :=
  next s1 = next s2 /\ exprs s1 = exprs s2 /\ map fst (infs s1) = map fst (infs s2) /\
  forall w e, In e (jset s1 w) <-> In e (jset s2 w).

Lemma equiv_refl s : equiv s s.
Proof. unfold equiv. intuition. Qed.

Lemma aset_absent l w : ~ In w (map fst l) -> aset l w = [].
Proof.
  unfold aset. induction l as [|[k s] l IH]; cbn [find map fst In]; [reflexivity|]. intros H. destruct (k =? w) eqn:E.
  - apply N.eqb_eq in E. exfalso. apply H. left. exact E.
  - apply IH. intros Hin. apply H. right. exact Hin.
Qed.

Lemma jset_allocate st w : winv st -> jset (snd (allocate st)) w = jset st w.
Proof.
  intros W. unfold jset, allocate. cbn [snd infs]. unfold aset at 1. cbn [find fst snd]. destruct (next st =? w) eqn:E.
  - apply N.eqb_eq in E. subst w. symmetry. apply aset_absent. rewrite <- (w_keys st W). intros H. apply (w_lt st W) in H. lia.
  - reflexivity.
Qed.

Lemma apply_rule_char r x st st' : winv st -> apply_rule r x st = Ok st' ->
  let f := next st in
  next st' = (if alloc_of r x f then f + 1 else f) /\
  exprs st' = (if alloc_of r x f then [synth f] else []) ++ exprs st /\
  map fst (infs st') = (if alloc_of r x f then [f] else []) ++ map fst (infs st) /\
  forall w e, In e (jset st' w) <-> In e (jset st w) \/ In (w, e) (flat_map eff (js_of r x f)).
Proof.
  intros W. unfold apply_rule, js_of, alloc_of. destruct (r x (next st)) as [ro|?|?]; try discriminate. intros H. cbv zeta.
  pose proof (apply_js_same _ _ _ H) as (A & B & _ & D). pose proof (apply_js_char _ _ _ H) as C.
  destruct (ro_alloc ro).
  - rewrite A, B, D. cbn [allocate snd next exprs infs map fst app]. split; [reflexivity|]. split; [reflexivity|]. split; [reflexivity|].
    intros w e. rewrite C, (jset_allocate st w W). reflexivity.
  - rewrite A, B, D. cbn [app]. split; [reflexivity|]. split; [reflexivity|]. split; [reflexivity|]. exact C.
Qed.

(* ------------------------------------------------------------------ pure rules: no allocation, blind to `fresh` *)
Definition pure (r : rule) : Prop := exists g : tsv -> list judgement, forall x f, r x f = Ok (mk_ro false (g x)).

Lemma pure_js r x f f' : pure r -> js_of r x f = js_of r x f' /\ alloc_of r x f = false.
Proof. intros (g & Hg). unfold js_of, alloc_of. rewrite (Hg x f), (Hg x f'). auto. Qed.

Lemma table_rule_pure tbl sp : sp_known sp = true -> pure (table_rule tbl sp).
Proof.
  intros HS.
  exists (fun x => match find_special sp (ttag x) with
                   | Some _ => sign_extend_arm x
                   | None => match find_row tbl (ttag x) with Some row => row_judgements x row | None => [] end
                   end).
  intros x f. unfold table_rule. destruct (find_special sp (ttag x)) as [n|] eqn:Fs.
  - destruct (find_special_in _ _ _ Fs) as (t' & Hin). unfold sp_known in HS. rewrite forallb_forall in HS.
    specialize (HS _ Hin). cbn [snd] in HS. unfold special_arm. rewrite HS. reflexivity.
  - destruct (find_row tbl (ttag x)); reflexivity.
Qed.

Ltac pure_hand R :=
  exists (fun x => match R x 0 with Ok ro => ro_js ro | _ => [] end); intros x f; change (R x f) with (R x 0);
  unfold R; repeat break_match; reflexivity.

Lemma call_data_rule_pure : pure call_data_rule.
Proof.
  exists (fun x => match call_data_rule x 0 with Ok ro => ro_js ro | _ => [] end). intros x f. change (call_data_rule x f) with (call_data_rule x 0).
  unfold call_data_rule, calldata_bits. repeat break_match; reflexivity.
Qed.
Lemma dynamic_array_write_rule_pure : pure dynamic_array_write_rule. Proof. pure_hand dynamic_array_write_rule. Qed.
Lemma masked_word_rule_pure : pure masked_word_rule. Proof. pure_hand masked_word_rule. Qed.
Lemma packed_encoding_rule_pure : pure packed_encoding_rule. Proof. pure_hand packed_encoding_rule. Qed.
Lemma s_load_rule_pure : pure s_load_rule. Proof. pure_hand s_load_rule. Qed.
Lemma storage_key_rule_pure : pure storage_key_rule. Proof. pure_hand storage_key_rule. Qed.
Lemma storage_write_rule_pure : pure storage_write_rule. Proof. pure_hand storage_write_rule. Qed.

Definition ALLOCATOR : string := "MappingAccessRule".

(* every rule of the default set except the mapping rule is pure *)
Lemma default_rules_pure name : In name default_rules -> name <> ALLOCATOR -> pure (rule_named name).
Proof.
  rewrite default_rules_are_expected. unfold expected_rules, ALLOCATOR. cbn [In].
  pose proof tables_ok as T. cbn [forallb fst snd] in T. rewrite !andb_true_iff in T.
  intros H Hne. repeat (destruct H as [<-|H]); try contradiction; try congruence;
    first [ apply table_rule_pure; tauto
          | exact call_data_rule_pure | exact dynamic_array_write_rule_pure | exact masked_word_rule_pure
          | exact packed_encoding_rule_pure | exact s_load_rule_pure | exact storage_key_rule_pure | exact storage_write_rule_pure ].
Qed.

(* ------------------------------------------------------------------ all rules on one value, in any order *)
Lemma apply_rule_winv r x st st' : winv st -> apply_rule r x st = Ok st' -> winv st'.
Proof.
  intros W H. destruct (apply_rule_char r x st st' W H) as (A & B & C & _). constructor.
  - rewrite B, C, map_app, (w_keys st W). destruct (alloc_of r x (next st)); reflexivity.
  - intros v. rewrite A, B, map_app, in_app_iff, (w_lt st W). destruct (alloc_of r x (next st)); cbn; lia.
  - intros v y z Hin Hz. rewrite B in *. apply in_app_or in Hin as [Hin|Hin].
    + destruct (alloc_of r x (next st)); [|destruct Hin]. destruct Hin as [Hin|[]]. inversion Hin; subst. destruct Hz.
    + apply in_or_app. right. exact (w_closed st W _ _ _ Hin Hz).
Qed.

Lemma infer_value_winv rs x : forall st st', winv st -> infer_value rs x st = Ok st' -> winv st'.
Proof.
  induction rs as [|r rs IH]; intros st st' W; cbn [infer_value]; [intros [= <-]; exact W|].
  destruct (apply_rule r x st) as [s1|?|?] eqn:E; try discriminate. intros H. exact (IH _ _ (apply_rule_winv _ _ _ _ W E) H).
Qed.

(* at most one rule of the list is not pure (it may allocate and look at the fresh variable) *)
Inductive one_alloc : list rule -> Prop :=
| oa_nil : one_alloc []
| oa_pure r rs : pure r -> one_alloc rs -> one_alloc (r :: rs)
| oa_alloc r rs : Forall pure rs -> one_alloc (r :: rs).

Definition from_rules (rs : list rule) (x : tsv) (f : tyvar) (w : tyvar) (e : te) : Prop :=
  exists r, In r rs /\ In (w, e) (flat_map eff (js_of r x f)).

Lemma infer_value_pure rs x : Forall pure rs -> forall st st', winv st -> infer_value rs x st = Ok st' ->
  next st' = next st /\ exprs st' = exprs st /\ map fst (infs st') = map fst (infs st) /\
  forall f w e, In e (jset st' w) <-> In e (jset st w) \/ from_rules rs x f w e.
Proof.
  induction 1 as [|r rs Hr Hrs IH]; intros st st' W; cbn [infer_value].
  - intros [= <-]. split; [reflexivity|]. split; [reflexivity|]. split; [reflexivity|]. intros f w e. unfold from_rules. split; [auto|]. intros [H|(r & [] & _)]. exact H.
  - destruct (apply_rule r x st) as [s1|?|?] eqn:E; try discriminate. intros H.
    destruct (apply_rule_char r x st s1 W E) as (A & B & C & D). destruct (pure_js r x (next st) (next st) Hr) as (_ & Na). rewrite Na in *.
    destruct (IH s1 st' (apply_rule_winv _ _ _ _ W E) H) as (A2 & B2 & C2 & D2). cbn [app] in *.
    split; [congruence|]. split; [congruence|]. split; [congruence|]. intros f w e. rewrite (D2 f w e), (D w e).
    rewrite (proj1 (pure_js r x (next st) f Hr)). unfold from_rules. split.
    + intros [[H1|H1]|(r' & Hin & H1)]; [left; exact H1|right; exists r; split; [left; reflexivity|exact H1]|right; exists r'; split; [right; exact Hin|exact H1]].
    + intros [H1|(r' & [<-|Hin] & H1)]; [left; left; exact H1|left; right; exact H1|right; exists r'; split; assumption].
Qed.

Lemma infer_value_char rs x : one_alloc rs -> forall st st', winv st -> infer_value rs x st = Ok st' ->
  let f := next st in let a := existsb (fun r => alloc_of r x f) rs in
  next st' = (if a then f + 1 else f) /\
  exprs st' = (if a then [synth f] else []) ++ exprs st /\
  map fst (infs st') = (if a then [f] else []) ++ map fst (infs st) /\
  forall w e, In e (jset st' w) <-> In e (jset st w) \/ from_rules rs x f w e.
Proof.
  induction 1 as [|r rs Hr Hrs IH|r rs Hrs]; intros st st' W; cbn [infer_value]; cbv zeta.
  - intros [= <-]. cbn [existsb app]. split; [reflexivity|]. split; [reflexivity|]. split; [reflexivity|]. intros w e. unfold from_rules. split; [auto|]. intros [H|(r & [] & _)]. exact H.
  - destruct (apply_rule r x st) as [s1|?|?] eqn:E; try discriminate. intros H.
    destruct (apply_rule_char r x st s1 W E) as (A & B & C & D). destruct (pure_js r x (next st) (next st) Hr) as (_ & Na). rewrite Na in *. cbn [app] in *.
    destruct (IH s1 st' (apply_rule_winv _ _ _ _ W E) H) as (A2 & B2 & C2 & D2). cbv zeta in *. rewrite A in *. cbn [existsb]. rewrite Na. cbn [orb].
    split; [exact A2|]. split; [rewrite B2, B; reflexivity|]. split; [rewrite C2, C; reflexivity|]. intros w e. rewrite (D2 w e), (D w e).
    unfold from_rules. split.
    + intros [[H1|H1]|(r' & Hin & H1)]; [left; exact H1|right; exists r; split; [left; reflexivity|exact H1]|right; exists r'; split; [right; exact Hin|exact H1]].
    + intros [H1|(r' & [<-|Hin] & H1)]; [left; left; exact H1|left; right; exact H1|right; exists r'; split; assumption].
  - destruct (apply_rule r x st) as [s1|?|?] eqn:E; try discriminate. intros H.
    destruct (apply_rule_char r x st s1 W E) as (A & B & C & D).
    destruct (infer_value_pure rs x Hrs s1 st' (apply_rule_winv _ _ _ _ W E) H) as (A2 & B2 & C2 & D2).
    assert (Nb : existsb (fun r0 => alloc_of r0 x (next st)) rs = false).
    { apply not_true_is_false. intros Hex. apply existsb_exists in Hex as (r' & Hin & Ha). rewrite Forall_forall in Hrs.
      destruct (pure_js r' x (next st) (next st) (Hrs r' Hin)) as (_ & Hf). congruence. }
    cbn [existsb]. rewrite Nb, orb_false_r.
    split; [congruence|]. split; [congruence|]. split; [congruence|]. intros w e. rewrite (D2 (next st) w e), (D w e).
    unfold from_rules. split.
    + intros [[H1|H1]|(r' & Hin & H1)]; [left; exact H1|right; exists r; split; [left; reflexivity|exact H1]|right; exists r'; split; [right; exact Hin|exact H1]].
    + intros [H1|(r' & [<-|Hin] & H1)]; [left; left; exact H1|left; right; exact H1|right; exists r'; split; assumption].
Qed.

Lemma existsb_perm {A} (p : A -> bool) l l' : Permutation l l' -> existsb p l = existsb p l'.
Proof.
  intros P. destruct (existsb p l) eqn:E.
  - symmetry. apply existsb_exists in E as (x & Hx & Hp). apply existsb_exists. exists x. split; [exact (Permutation_in _ P Hx)|exact Hp].
  - symmetry. apply not_true_is_false. intros H. apply existsb_exists in H as (x & Hx & Hp).
    assert (existsb p l = true); [|congruence]. apply existsb_exists. exists x. split; [exact (Permutation_in _ (Permutation_sym P) Hx)|exact Hp].
Qed.

Lemma infer_value_perm rs rs' x s1 s2 t1 t2 : one_alloc rs -> one_alloc rs' -> Permutation rs rs' ->
  winv s1 -> winv s2 -> equiv s1 s2 -> infer_value rs x s1 = Ok t1 -> infer_value rs' x s2 = Ok t2 -> equiv t1 t2.
Proof.
  intros O1 O2 P W1 W2 (En & Ee & Ek & Ej) H1 H2.
  destruct (infer_value_char rs x O1 s1 t1 W1 H1) as (A1 & B1 & C1 & D1).
  destruct (infer_value_char rs' x O2 s2 t2 W2 H2) as (A2 & B2 & C2 & D2). cbv zeta in *.
  rewrite <- En in *. rewrite <- (existsb_perm _ _ _ P) in *. unfold equiv.
  split; [congruence|]. split; [congruence|]. split; [congruence|]. intros w e. rewrite (D1 w e), (D2 w e), (Ej w e).
  unfold from_rules. split; (intros [H|(r & Hin & H)]; [left; exact H|right; exists r; split; [|exact H]]).
  - exact (Permutation_in _ P Hin).
  - exact (Permutation_in _ (Permutation_sym P) Hin).
Qed.

Lemma infer_values_perm rs rs' : one_alloc rs -> one_alloc rs' -> Permutation rs rs' ->
  forall xs s1 s2 t1 t2, winv s1 -> winv s2 -> equiv s1 s2 ->
    infer_values rs xs s1 = Ok t1 -> infer_values rs' xs s2 = Ok t2 -> equiv t1 t2.
Proof.
  intros O1 O2 P. induction xs as [|x xs IH]; intros s1 s2 t1 t2 W1 W2 E; cbn [infer_values].
  - intros [= <-] [= <-]. exact E.
  - destruct (infer_value rs x s1) as [u1|?|?] eqn:H1; try discriminate. destruct (infer_value rs' x s2) as [u2|?|?] eqn:H2; try discriminate.
    apply IH; [exact (infer_value_winv _ _ _ _ W1 H1)|exact (infer_value_winv _ _ _ _ W2 H2)|].
    exact (infer_value_perm rs rs' x s1 s2 u1 u2 O1 O2 P W1 W2 E H1 H2).
Qed.

(* ------------------------------------------------------------------ permutations of the default rule set *)
Lemma default_rules_nodup : NoDup default_rules.
Proof.
  rewrite default_rules_are_expected. unfold expected_rules.
  repeat (constructor; [cbn [In]; intuition discriminate|]). constructor.
Qed.

Lemma names_one_alloc names : NoDup names -> (forall n, In n names -> n <> ALLOCATOR -> pure (rule_named n)) ->
  one_alloc (map rule_named names).
Proof.
  induction names as [|n names IH]; intros ND Hp; cbn [map]; [constructor|]. inversion ND as [|? ? Hn ND']; subst.
  destruct (string_dec n ALLOCATOR) as [->|Hne].
  - apply oa_alloc. apply Forall_forall. intros r Hr. apply in_map_iff in Hr as (m & <- & Hm). apply Hp; [right; exact Hm|].
    intros ->. exact (Hn Hm).
  - apply oa_pure; [apply Hp; [left; reflexivity|exact Hne]|]. apply IH; [exact ND'|]. intros m Hm. apply Hp. right. exact Hm.
Qed.

Lemma perm_names_one_alloc names : Permutation names default_rules -> one_alloc (map rule_named names).
Proof.
  intros P. apply names_one_alloc.
  - exact (Permutation_NoDup (Permutation_sym P) default_rules_nodup).
  - intros n Hn. apply default_rules_pure. exact (Permutation_in _ P Hn).
Qed.

(* infer_rule_order_independent: the rules of the default set applied in ANY order to the same values of the same
   state give the same counter, the same expression table and the same set of judgements for every variable *)
Theorem infer_rule_order_independent_lemma names : Permutation names default_rules ->
  forall st xs s1 s2, winv st ->
    infer_values (map rule_named names) xs st = Ok s1 -> infer_values default_rule_set xs st = Ok s2 -> equiv s1 s2.
Proof.
  intros P st xs s1 s2 W H1 H2.
  eapply (infer_values_perm (map rule_named names) default_rule_set);
    [exact (perm_names_one_alloc names P) | exact (perm_names_one_alloc default_rules (Permutation_refl _))
    | unfold default_rule_set; apply Permutation_map; exact P | exact W | exact W | apply equiv_refl | exact H1 | exact H2].
Qed.

(* ... and both runs do return Ok on the state left by assign_vars *)
Theorem infer_rule_order_total_lemma names vs : Permutation names default_rules ->
  exists s1, infer_all (map rule_named names) (snd (assign_vars vs)) = Ok s1.
Proof.
  intros P. pose proof (register_covers_subterms_lemma vs) as C. destruct (assign_vars vs) as [ts st]. destruct C as (I & _). cbn [snd].
  assert (G : Forall rule_good (map rule_named names)).
  { pose proof default_rules_good as G. unfold default_rule_set in G. rewrite Forall_forall in *. intros r Hr.
    apply in_map_iff in Hr as (n & <- & Hn). apply G. apply in_map. exact (Permutation_in _ P Hn). }
  unfold infer_all. destruct (infer_values_ok _ G (values st) st (inv_winv st I)) as (s1 & E & _); [|eauto].
  intros x Hx. exact (values_in_exprs st x (inv_winv st I) (i_var st I) Hx).
Qed.
