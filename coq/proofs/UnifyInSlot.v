(* C12, the in-slot half through unification (props/C12_unify.v).  NoPanicUnify.v shows that `unify` keeps every span end and
   word width below usize::MAX; its Section CounterPred is generic in the class-data predicate.  Here the same argument is
   run for ANY bound B <= usize::MAX -- in particular B = 256 = the slot width: `merge` never creates a span that ends
   beyond the furthest end among its operands' spans and word widths (the (Packed, Packed) arm re-partitions between
   boundaries that are starts / ends of input spans, the (Packed, Word) arm creates [0, width), the Word x Word arm keeps
   one of the two widths), so a judgement set whose spans and sized words lie inside the slot is resolved to classes
   whose spans and sized words lie inside the slot, for every iteration order and every fuel. *)
From Coq Require Import String Permutation Sorted.
From SLX Require Import Base VectorMap DisjointSet gen.Constants gen.WordUseTable gen.RulesSig SymVal TypeExpr Merge Unify Register
  AbiT Layout Abi Pipeline NoPanic.
From SLX.proofs Require Import VecMapProofs DsuProofs MergePackedProofs MergeFactsProofs UnifyProofs AbiProofs TcStagesProofs NoPanicTc
  NoPanicUnify.
Open Scope N_scope.
Set Default Timeout 300.

Section Bound.
Variable Bd : N.
Hypothesis HB : Bd <= usize_max.
Hypothesis HB0 : 0 < Bd.

(* ---- vocabulary (decidable) ---- *)
(* a span starts inside the first Bd bits and ends there *)
Definition span_in (s : TypeExpr.span) : bool := (s_off s <? Bd) && (s_off s + s_sz s <=? Bd).
Definition te_in_b (e : te) : bool :=
  match e with
  | Packed ts _ => forallb span_in ts
  | Word (Some w) _ => w <=? Bd
  | _ => true
  end.
Definition te_in (n : N) (e : te) : bool := te_in_b e && te_closed n e.
Definition tstate_in (st : tstate) : bool :=
  forallb (fun p : tyvar * iset => forallb (te_in (ts_next st)) (snd p)) (ts_inf st).

Lemma te_in_mono n n' e : n <= n' -> te_in n e = true -> te_in n' e = true.
Proof. unfold te_in. intros Hn H. apply andb_prop in H as [H1 H2]. rewrite H1, (te_closed_mono n n' e Hn H2). reflexivity. Qed.

Lemma te_in_ok n e : te_in n e = true -> te_ok n e = true.
Proof.
  unfold te_in, te_ok. intros H. apply andb_prop in H as [H1 H2]. rewrite H2, Bool.andb_true_r.
  destruct e as [| |[w|] u| | | | |ts b|]; try reflexivity; cbn [te_in_b te_bounded] in *.
  - apply N.leb_le in H1. apply N.leb_le. lia.
  - apply forallb_forall. intros s Hs. rewrite forallb_forall in H1. specialize (H1 s Hs). unfold span_in in H1. unfold span_fits.
    apply andb_prop in H1 as [_ H1]. apply N.leb_le in H1. apply N.leb_le. lia.
Qed.

(* ================================================================================================ 1. merge keeps te_in *)
Definition okres (n : N) (r : mresult) : Prop :=
  match r with
  | Ok m => n <= Merge.next m /\ te_in (Merge.next m) (expr m) = true /\ Forall (fun j => te_in (Merge.next m) (snd j) = true) (judg m)
  | _ => True
  end.

Lemma ok_expression e n : te_in n e = true -> okres n (m_expression e n).
Proof. intros H. cbn. split; [lia|]. split; [exact H|constructor]. Qed.

Lemma te_ok_conflict n cs rs : te_in n (Conflict cs rs) = true.
Proof. reflexivity. Qed.

Lemma mpa_ok l r ts n : okres n (merge_packed_array l r ts n).
Proof.
  unfold merge_packed_array. destruct ts as [|t1 [|t2 [|t3 [|t4 ts]]]]; try (apply ok_expression; reflexivity).
  - case_ifs; apply ok_expression; reflexivity.
  - destruct (sort_by le_offset [t1; t2]) as [|x [|y ?]]; try exact I. case_ifs; apply ok_expression; reflexivity.
  - destruct (sort_by le_offset [t1; t2; t3]) as [|x [|y [|z ?]]]; try exact I. case_ifs; apply ok_expression; reflexivity.
Qed.

Lemma te_ok_packed1 n v w : w <= Bd -> v < n -> te_in n (packed_of [mk_span v 0 w]) = true.
Proof.
  intros Hw Hv. unfold te_in, packed_of, te_in_b, te_closed, span_in. cbn [forallb te_vars map s_typ s_off s_sz].
  rewrite N.add_0_l. rewrite (proj2 (N.leb_le _ _) Hw), (proj2 (N.ltb_lt _ _) Hv), (proj2 (N.ltb_lt _ _) HB0). reflexivity.
Qed.

Lemma mpw_ok l r ts w u p n : te_in n l = true -> te_in n r = true -> te_in n (Word w u) = true ->
  okres n (merge_packed_word l r ts w u p n).
Proof.
  intros Hl Hr Hw. unfold merge_packed_word. destruct ts as [|sp ts]; [apply ok_expression, Hr|].
  assert (Hwb : forall x, w = Some x -> x <= Bd).
  { intros x ->. unfold te_in in Hw. apply andb_prop in Hw as [Hw _]. cbn [te_in_b] in Hw. apply N.leb_le. exact Hw. }
  assert (Hl1 : te_in (n + 1) l = true) by (apply (te_in_mono n); [lia|exact Hl]).
  destruct u, w as [x|]; case_ifs; try (apply ok_expression; first [exact Hl | exact Hr | reflexivity]);
    cbn [okres m_judgements expr judg Merge.next];
    first [ split; [lia|]; split; [exact Hl1|]; constructor; [|constructor]; cbn [snd]; apply te_ok_packed1; [apply Hwb; reflexivity|lia]
          | split; [lia|]; split; [exact Hl|]; constructor; [|constructor]; cbn [snd]; exact Hr ].
Qed.

(* ---- (Packed, Packed) ---- *)



Lemma boundaries_bound ts x : forallb span_in ts = true -> In x (boundaries_of ts) -> x <= Bd.
Proof.
  intros H Hx. unfold boundaries_of in Hx. apply in_flat_map in Hx as (s & Hs & Hx). rewrite forallb_forall in H.
  specialize (H s Hs). unfold span_in in H. apply andb_prop in H as [_ H]. apply N.leb_le in H. destruct Hx as [<-|[<-|[]]]; lia.
Qed.

Lemma te_ok_packed_inv n ts b : te_in n (Packed ts b) = true ->
  forallb span_in ts = true /\ forall s, In s ts -> s_typ s < n.
Proof.
  unfold te_in. intros H. apply andb_prop in H as [H1 H2]. split; [exact H1|]. unfold te_closed in H2. cbn [te_vars] in H2.
  rewrite forallb_forall in H2. intros s Hs. apply N.ltb_lt. apply H2. apply in_map. exact Hs.
Qed.

Lemma te_ok_packed_intro n ts b :
  (forall s, In s ts -> s_off s < Bd /\ s_off s + s_sz s <= Bd /\ s_typ s < n) -> te_in n (Packed ts b) = true.
Proof.
  intros H. unfold te_in, te_in_b, te_closed. cbn [te_vars]. apply andb_true_intro. split.
  - apply forallb_forall. intros s Hs. unfold span_in. destruct (H s Hs) as (H1 & H2 & _).
    rewrite (proj2 (N.ltb_lt _ _) H1), (proj2 (N.leb_le _ _) H2). reflexivity.
  - apply forallb_forall. intros v Hv. apply in_map_iff in Hv as (s & <- & Hs). apply N.ltb_lt. exact (proj2 (proj2 (H s Hs))).
Qed.

(* the boundaries are sorted and free of duplicates, so consecutive ones are strictly increasing: every new span is non-empty *)
Lemma sorted_nodup_lt l : StronglySorted N.le l -> NoDup l -> StronglySorted N.lt l.
Proof.
  induction 1 as [|x l Hs IH Hx]; intros Hn; [constructor|]. inversion Hn as [|? ? Hnx Hnl]; subst.
  constructor; [exact (IH Hnl)|]. rewrite Forall_forall in *. intros y Hy. specialize (Hx y Hy).
  assert (x <> y) by (intros ->; exact (Hnx Hy)). lia.
Qed.

Lemma mk_spans_lt bs : forall start n spans n', mk_spans bs start n = (spans, n') -> StronglySorted N.lt (start :: bs) ->
  forall t st e, In (t, st, e) spans -> st < e.
Proof.
  induction bs as [|b bs IH]; intros start n spans n'; cbn [mk_spans].
  - intros [= <- <-] _ t st e [].
  - destruct (mk_spans bs b (n + 1)) as [rest k] eqn:E. intros [= <- <-] Hs t st e [Hin|Hin].
    + inversion Hin; subst. inversion Hs as [|? ? _ Hall]; subst. inversion Hall; subst. assumption.
    + inversion Hs as [|? ? Hs' _]; subst. exact (IH b (n + 1) rest k E Hs' t st e Hin).
Qed.

Lemma mpp_ok tl sl tr sr n : te_in n (Packed tl sl) = true -> te_in n (Packed tr sr) = true ->
  okres n (merge_packed_packed tl sl tr sr n).
Proof.
  intros Hl Hr. unfold merge_packed_packed.
  destruct tl as [|t1 tl']; [apply ok_expression; exact Hr|]. destruct tr as [|t2 tr']; [apply ok_expression; exact Hl|].
  set (tl := t1 :: tl') in *. set (tr := t2 :: tr') in *.
  destruct (existsb span_overflows (tl ++ tr)); [exact I|].
  destruct (sortN (uniq (boundaries_of tl ++ boundaries_of tr))) as [|b0 rest] eqn:Es; [exact I|].
  destruct (te_ok_packed_inv n tl sl Hl) as [Bl Cl]. destruct (te_ok_packed_inv n tr sr Hr) as [Br Cr].
  assert (HM : forall x, In x (b0 :: rest) -> x <= Bd).
  { intros x Hx. rewrite <- Es in Hx. apply (Permutation_in _ (sortN_perm _)) in Hx. apply (proj1 (uniq_in _ _)) in Hx.
    apply in_app_or in Hx as [Hx|Hx]; [exact (boundaries_bound tl x Bl Hx)|exact (boundaries_bound tr x Br Hx)]. }
  destruct (mk_spans rest b0 n) as [spans n'] eqn:Em.
  destruct (mk_spans_props Bd rest b0 n spans n' Em HM) as [Hn Hsp].
  assert (Hlt : forall t st e, In (t, st, e) spans -> st < e).
  { apply (mk_spans_lt rest b0 n spans n' Em). rewrite <- Es. apply sorted_nodup_lt; [apply sortN_sorted|].
    eapply Permutation_NoDup; [apply Permutation_sym, sortN_perm|]. apply uniq_from_nodup. }
  assert (HJ : forall input, Forall (fun j : tyvar * te => te_in n' (snd j) = true) (snd (process_spans spans input))).
  { intros input. apply (process_spans_Q (fun e => te_in n' e = true)). intros s corr Hc. apply te_ok_packed_intro.
    intros s' Hs'. apply in_map_iff in Hs' as ([[t st] e] & <- & Hin). cbn [s_off s_sz s_typ].
    destruct (Hsp t st e (Hc _ Hin)) as (A & B & C). pose proof (Hlt t st e (Hc _ Hin)). repeat split; lia. }
  pose proof (HJ tl) as J1. pose proof (HJ tr) as J2.
  destruct (process_spans spans tl) as [e1 j1]. destruct (process_spans spans tr) as [e2 j2]. cbn [snd] in J1, J2.
  cbn [okres expr judg Merge.next]. split; [exact Hn|]. split.
  - apply te_ok_packed_intro. intros s' Hs'. apply in_map_iff in Hs' as ([[t st] e] & <- & Hin). cbn [s_off s_sz s_typ].
    destruct (Hsp t st e Hin) as (A & B & C). pose proof (Hlt t st e Hin). repeat split; lia.
  - apply Forall_app. split; assumption.
Qed.

Lemma width_merge_ok n wl wr w ul ur u : width_merge wl wr = Some w ->
  te_in n (Word wl ul) = true -> te_in n (Word wr ur) = true -> te_in n (Word w u) = true.
Proof.
  unfold width_merge. destruct wl as [a|], wr as [b|]; try (destruct (a =? b)); intros E; inversion E; subst; intros Ha Hb;
    first [exact Ha | exact Hb | reflexivity].
Qed.

Theorem merge_ok a b p n : te_in n a = true -> te_in n b = true -> okres n (merge a b p n).
Proof.
  intros Ha Hb. unfold merge, merge_body. destruct (te_eqb a b); [apply ok_expression, Ha|].
  destruct a, b; simpl; try exact I;
    try (apply ok_expression; first [reflexivity | exact Ha | exact Hb]);
    try apply mpa_ok; try (apply mpw_ok; assumption); try (apply mpp_ok; assumption);
    case_ifs; try (apply ok_expression; first [reflexivity | exact Ha | exact Hb]);
    try apply mpa_ok; try (apply mpw_ok; assumption); try (apply mpp_ok; assumption).
  all: try (cbn [okres m_equalities expr judg Merge.next]; split; [lia|]; split; [first [exact Ha | exact Hb]|constructor]).
  all: try (destruct (width_merge _ _) as [w0|] eqn:Ew; [destruct (wuse_merge _ _)|]; apply ok_expression; try reflexivity;
            eapply width_merge_ok; eassumption).
Qed.

(* ================================================================================================ 2. the class-data predicate *)
Definition Pin (n : N) (e : te) : Prop := ne e /\ te_in n e = true.

Lemma Pin_mono n n' e : n <= n' -> Pin n e -> Pin n' e.
Proof. intros Hn [H1 H2]. split; [exact H1|exact (te_in_mono n n' e Hn H2)]. Qed.

Lemma Pin_Pn n e : Pin n e -> Pn n e.
Proof. intros [H1 H2]. split; [exact H1|exact (te_in_ok n e H2)]. Qed.

Lemma merge_safe_in a b p n s : Pin n a -> Pin n b -> merge a b p n <> Panic s.
Proof. intros Ha Hb. exact (merge_safe a b p n n s (Pin_Pn _ _ Ha) (Pin_Pn _ _ Hb)). Qed.

Theorem merge_closed_in a b p n m : Pin n a -> Pin n b -> merge a b p n = Ok m ->
  n <= Merge.next m /\ Pin (Merge.next m) (expr m) /\ Forall (fun j => Pin (Merge.next m) (snd j)) (judg m).
Proof.
  intros [Na Ha] [Nb Hb] E. pose proof (merge_ok a b p n Ha Hb) as H. pose proof (merge_no_equal a b p n Na Nb) as H'.
  rewrite E in H, H'. cbn [okres noeq_ok] in H, H'. destruct H as (H1 & H2 & H3). destruct H' as (H4 & H5).
  split; [exact H1|]. split; [split; assumption|]. rewrite Forall_forall in *. intros j Hj. split; [apply H5, Hj|apply H3, Hj].
Qed.

Lemma tstate_in_get st v e : tstate_in st = true -> In e (ts_get st v) -> te_in (ts_next st) e = true.
Proof.
  unfold tstate_in, ts_get. intros H He. destruct (find (fun p => fst p =? v) (ts_inf st)) as [p|] eqn:F; [|destruct He].
  apply find_some in F as [Hin _]. rewrite forallb_forall in H. specialize (H p Hin). rewrite forallb_forall in H. exact (H e He).
Qed.

(* ================================================================================================ 3. unify *)
(* on a judgement set whose spans end, and whose sized words are no wider than, Bd bits -- and which names allocated
   variables only -- `unify` never panics and the data of every class it leaves is again of that kind *)
Theorem unify_preserves_bound fuel o st : orders_ok o -> tstate_in st = true ->
  match unify fuel o st with
  | Ok (s, n) => ts_next st <= n /\ exists a, fsim s a /\ ASP (Pin n) a
  | Err _ => True
  | Panic _ => False
  end.
Proof.
  intros Ho Hst.
  assert (Hinit : forall v e, In e (ts_get st v) -> ne e -> Pin (ts_next st) e).
  { intros v e He Hne. split; [exact Hne|exact (tstate_in_get st v e Hst He)]. }
  pose proof (a_unify_np Pin Pin_mono merge_closed_in merge_safe_in o fuel st Ho Hinit) as Ha.
  pose proof (unify_refines fuel o st) as R.
  destruct (unify fuel o st) as [[s n]|e|p]; destruct (a_unify fuel o st) as [[a n2]|e2|p2]; cbn in R; try contradiction; try exact I.
  destruct R as [R1 R2]. cbn [fst snd] in *. subst n2. destruct Ha as [H1 H2]. split; [exact H1|]. exists a. split; assumption.
Qed.

(* read through the class table `abi_type_for` uses: the resolved type of every allocated variable is te_in_b *)
Theorem resolved_types_bounded s n a v e : fsim s a -> ASP (Pin n) a -> v < n ->
  Abi.type_of (env_of_forest s n) v = Ok e -> te_in_b e = true.
Proof.
  intros Hs [HA HD] Hv. unfold Abi.type_of. cbn [env_of_forest ty_data has_expr].
  rewrite (proj2 (N.ltb_lt _ _) Hv).
  destruct (get_data_refines s a v Hs) as (s' & Eg & _). rewrite Eg.
  destruct (fm_get (a_rep iset a v) (a_data a)) as [[|e0 [|e1 l]]|] eqn:Ed; try discriminate.
  - intros [= <-]. reflexivity.
  - intros [= <-].
    assert (Hin : In e0 (dat a (a_rep iset a v))) by (unfold dat; rewrite Ed; left; reflexivity).
    destruct (HD _ _ Hin) as [_ Hok]. unfold te_in in Hok. apply andb_prop in Hok as [Hb _]. exact Hb.
Qed.
End Bound.

(* ================================================================================================ 4. the slot width *)
Lemma slot_le_usize : 256 <= usize_max.
Proof. vm_compute. discriminate. Qed.
Lemma slot_pos : 0 < 256.
Proof. reflexivity. Qed.

(* what `abi_type_for` reads after `unify`: the resolved type of EVERY variable is inside the slot -- each span of a packed
   class starts below bit 256 and ends at or below it, a sized word is at most 256 bits wide *)
Theorem unify_keeps_types_in_slot_lemma fuel o st : orders_ok o -> tstate_in 256 st = true ->
  match unify fuel o st with
  | Ok (s, n) => ts_next st <= n /\ forall v e, Abi.type_of (env_of_forest s n) v = Ok e -> te_in_b 256 e = true
  | Err _ => True
  | Panic _ => False
  end.
Proof.
  intros Ho Hst. pose proof (unify_preserves_bound 256 slot_le_usize slot_pos fuel o st Ho Hst) as H.
  destruct (unify fuel o st) as [[s n]|e|p]; [|exact I|exact H]. destruct H as (Hn & a & Hs & HP). split; [exact Hn|].
  intros v e Ht. destruct (v <? n) eqn:Ev.
  - apply N.ltb_lt in Ev. exact (resolved_types_bounded 256 s n a v e Hs HP Ev Ht).
  - unfold Abi.type_of in Ht. cbn [env_of_forest ty_data has_expr] in Ht. rewrite Ev in Ht. discriminate.
Qed.

(* composed with abi_rows_in_slot (AbiProofs.v): after unifying a judgement set that lies inside the slot, every row reported
   for a variable starts inside the slot and a known width ends inside it, PROVIDED a span whose own class resolved to a
   sized word is not wider than the room behind its offset (the one hypothesis of abi_rows_in_slot that unification does
   not maintain by itself: the packed-encoding rule states no width for the variable of a span) *)
Theorem rows_in_slot_after_unify_lemma fuel o st s n : orders_ok o -> tstate_in 256 st = true -> unify fuel o st = Ok (s, n) ->
  forall fuel' v0 index a,
  (forall ts b sp w u, Abi.type_of (env_of_forest s n) v0 = Ok (Packed ts b) -> In sp ts ->
     Abi.type_of (env_of_forest s n) (s_typ sp) = Ok (Word (Some w) u) -> s_off sp + w <= 256) ->
  abi_type_for abi_nested_add abi_nested_fit (env_of_forest s n) fuel' v0 = Ok a ->
  forall e, In e (rows_of index a) ->
    fst (fst e) = index /\ snd (fst e) < WORD_SIZE_BITS /\
    match aty_width (snd e) with Some w => snd (fst e) + w <= WORD_SIZE_BITS | None => True end.
Proof.
  intros Ho Hst Hu fuel' v0 index a Hw. pose proof (unify_keeps_types_in_slot_lemma fuel o st Ho Hst) as H. rewrite Hu in H.
  destruct H as [_ H]. apply (abi_rows_in_slot_gen abi_nested_add gen_add_exact).
  - intros ts b sp Ht Hin. specialize (H v0 _ Ht). cbn [te_in_b] in H. rewrite forallb_forall in H. specialize (H sp Hin).
    unfold span_in in H. apply andb_prop in H as [H1 _]. apply N.ltb_lt in H1. split; [exact H1|].
    intros w u Hs. exact (Hw ts b sp w u Ht Hin Hs).
  - intros w u Ht. specialize (H v0 _ Ht). cbn [te_in_b] in H. apply N.leb_le. exact H.
Qed.

(* the hypothesis is needed, and the bound is tight: one bit further and the invariant is not an invariant of the input *)
Example tstate_in_example :
  tstate_in 256 (mk_tstate [(0, [Packed [mk_span 1 0 160; mk_span 2 160 96] false]); (1, [Word (Some 160) UBytes]); (2, [])] 3) = true /\
  tstate_in 256 (mk_tstate [(0, [Packed [mk_span 1 0 160; mk_span 2 160 97] false])] 3) = false /\
  tstate_in 256 (mk_tstate [(0, [Packed [mk_span 1 256 0] false])] 3) = false.
Proof. vm_compute. repeat split. Qed.
