(* Lemmas about 256-bit words (Word256.v): ranges, the two's-complement round trip, powers of two. *)
From SLX Require Import Base Word256.
Open Scope N_scope.

Lemma W_nz : W <> 0. Proof. discriminate. Qed.
Lemma W_pos : 0 < W. Proof. reflexivity. Qed.
Lemma Wz_pos : (0 < Wz)%Z. Proof. reflexivity. Qed.
Lemma Wz_nz : Wz <> 0%Z. Proof. discriminate. Qed.
Lemma Wz_W : Wz = Z.of_N W. Proof. reflexivity. Qed.
Lemma HALFz_HALF : HALFz = Z.of_N HALF. Proof. reflexivity. Qed.
Lemma W_double_HALF : W = 2 * HALF. Proof. reflexivity. Qed.
Lemma Wz_double_HALFz : Wz = (2 * HALFz)%Z. Proof. reflexivity. Qed.
Lemma MINz_HALFz : MINz = (- HALFz)%Z. Proof. reflexivity. Qed.
Lemma W_pow : W = 2 ^ 256. Proof. reflexivity. Qed.
Lemma MAXW_W : MAXW = W - 1. Proof. reflexivity. Qed.
Lemma ones_256 : N.ones 256 = W - 1. Proof. reflexivity. Qed.

Lemma in_rangeb_spec n : in_rangeb n = true <-> in_range n.
Proof. unfold in_rangeb, in_range. apply N.ltb_lt. Qed.

Lemma wrap_mod n : wrap n = n mod W.
Proof. unfold wrap. apply N.land_ones. Qed.

Lemma wrap_range n : wrap n < W.
Proof. rewrite wrap_mod. apply N.mod_lt, W_nz. Qed.

Lemma mod_W_range n : n mod W < W.
Proof. apply N.mod_lt, W_nz. Qed.

Lemma mod_W_small n : n < W -> n mod W = n.
Proof. apply N.mod_small. Qed.

(* ---- two's complement ---- *)

Lemma to_signed_range x : x < W -> (MINz <= to_signed x < HALFz)%Z.
Proof.
  intros Hx. unfold to_signed. rewrite MINz_HALFz, HALFz_HALF.
  destruct (x <? HALF) eqn:E.
  - apply N.ltb_lt in E. lia.
  - apply N.ltb_ge in E. rewrite Wz_W, W_double_HALF in *. lia.
Qed.

Lemma of_signed_range z : of_signed z < W.
Proof.
  unfold of_signed. pose proof (Z.mod_pos_bound z Wz Wz_pos) as H.
  rewrite Wz_W in *. lia.
Qed.

Lemma of_signed_to_signed x : x < W -> of_signed (to_signed x) = x.
Proof.
  intros Hx. unfold of_signed, to_signed.
  destruct (x <? HALF) eqn:E.
  - rewrite Z.mod_small; [apply N2Z.id|]. rewrite Wz_W. lia.
  - replace (Z.of_N x - Wz)%Z with (Z.of_N x + (-1) * Wz)%Z by lia.
    rewrite Z.mod_add by apply Wz_nz. rewrite Z.mod_small; [apply N2Z.id|]. rewrite Wz_W. lia.
Qed.

Lemma to_signed_of_signed z : (MINz <= z < HALFz)%Z -> to_signed (of_signed z) = z.
Proof.
  intros Hz. rewrite MINz_HALFz in Hz. unfold of_signed, to_signed.
  assert (HW : Wz = (2 * HALFz)%Z) by reflexivity.
  assert (HH : (0 < HALFz)%Z) by reflexivity.
  destruct (Z.ltb_spec z 0) as [Hn|Hp].
  - assert (E : (z mod Wz = z + Wz)%Z).
    { symmetry. apply Z.mod_unique with (q := (-1)%Z); lia. }
    rewrite E. rewrite Z2N.id by lia.
    assert (F : (Z.to_N (z + Wz) <? HALF) = false).
    { apply N.ltb_ge. apply N2Z.inj_le. rewrite Z2N.id by lia. rewrite <- HALFz_HALF. lia. }
    rewrite F. lia.
  - rewrite Z.mod_small by lia. rewrite Z2N.id by lia.
    assert (F : (Z.to_N z <? HALF) = true).
    { apply N.ltb_lt. apply N2Z.inj_lt. rewrite Z2N.id by lia. rewrite <- HALFz_HALF. lia. }
    rewrite F. reflexivity.
Qed.

Lemma to_signed_inj x y : x < W -> y < W -> to_signed x = to_signed y -> x = y.
Proof.
  intros Hx Hy E. rewrite <- (of_signed_to_signed x Hx), <- (of_signed_to_signed y Hy). now rewrite E.
Qed.

Lemma to_signed_zero x : x < W -> (to_signed x = 0%Z <-> x = 0).
Proof.
  intros Hx. split.
  - intros E. apply to_signed_inj; [exact Hx|reflexivity|]. rewrite E. reflexivity.
  - intros ->. reflexivity.
Qed.

Lemma to_signed_neg x : x < W -> ((to_signed x <? 0)%Z = negb (x <? HALF)).
Proof.
  intros Hx. unfold to_signed. destruct (x <? HALF) eqn:E; cbn [negb].
  - apply Z.ltb_ge. lia.
  - apply Z.ltb_lt. rewrite Wz_W. lia.
Qed.

Lemma of_signed_0 : of_signed 0 = 0. Proof. reflexivity. Qed.
Lemma of_signed_m1 : of_signed (-1) = MAXW. Proof. reflexivity. Qed.

(* ---- truncations ---- *)

Lemma try_u32_small n : n < two32 -> try_u32 n = Some n.
Proof.
  intros H. unfold try_u32. assert (E : (n <=? two32 - 1) = true) by (apply N.leb_le; unfold two32 in *; lia).
  now rewrite E.
Qed.

Lemma try_u32_some n s : try_u32 n = Some s -> s = n /\ n < two32.
Proof.
  unfold try_u32. destruct (n <=? two32 - 1) eqn:E; [|discriminate].
  intros [= <-]. apply N.leb_le in E. unfold two32 in *. lia.
Qed.

Lemma try_u32_none n : try_u32 n = None -> two32 <= n.
Proof.
  unfold try_u32. destruct (n <=? two32 - 1) eqn:E; [discriminate|].
  intros _. apply N.leb_gt in E. unfold two32 in *. lia.
Qed.

(* ---- powers of two ---- *)

Lemma pow2_ge_W s : 256 <= s -> exists k, 2 ^ s = W * k /\ 0 < k.
Proof.
  intros H. exists (2 ^ (s - 256)). split.
  - rewrite W_pow, <- N.pow_add_r. f_equal. lia.
  - apply N.neq_0_lt_0, N.pow_nonzero. discriminate.
Qed.

Lemma pow2_le_W s : 256 <= s -> W <= 2 ^ s.
Proof. intros H. rewrite W_pow. apply N.pow_le_mono_r; [discriminate|exact H]. Qed.

Lemma pow_mod_base a e : ((a mod W) ^ e) mod W = (a ^ e) mod W.
Proof.
  induction e as [|e IH] using N.peano_ind; [reflexivity|].
  rewrite !N.pow_succ_r'. rewrite N.mul_mod by apply W_nz. rewrite IH.
  rewrite N.mod_mod by apply W_nz. now rewrite <- N.mul_mod by apply W_nz.
Qed.

Lemma pow_wrap_pos_spec a e : pow_wrap_pos a e = (a ^ Npos e) mod W.
Proof.
  induction e as [e IH|e IH|]; cbn [pow_wrap_pos]; rewrite ?wrap_mod.
  - rewrite IH. rewrite <- N.mul_mod by apply W_nz. rewrite N.mul_mod_idemp_r by apply W_nz.
    replace (N.pos e~1) with (N.succ (N.pos e + N.pos e)) by lia.
    rewrite N.pow_succ_r', N.pow_add_r. reflexivity.
  - rewrite IH. rewrite <- N.mul_mod by apply W_nz.
    replace (N.pos e~0) with (N.pos e + N.pos e) by lia.
    rewrite N.pow_add_r. reflexivity.
  - now rewrite N.pow_1_r.
Qed.

Lemma u256_wrapping_pow_spec a e : u256_wrapping_pow a e = (a ^ e) mod W.
Proof. destruct e as [|p]; [reflexivity|apply pow_wrap_pos_spec]. Qed.

(* ---- truncating conversions ---- *)
Lemma as_u32_range n : as_u32 n < two32.
Proof. unfold as_u32. apply N.mod_lt. discriminate. Qed.
Lemma as_usize_range n : as_usize n < two64.
Proof. unfold as_usize. apply N.mod_lt. discriminate. Qed.
Lemma as_u32_small n : n < two32 -> as_u32 n = n.
Proof. apply N.mod_small. Qed.
Lemma as_usize_small n : n < two64 -> as_usize n = n.
Proof. apply N.mod_small. Qed.
(* the truncation loses information exactly from 2^32 (2^64) on: the source of the pinned exp / jump-target defects *)
Lemma as_u32_wraps : as_u32 two32 = 0. Proof. reflexivity. Qed.
Lemma as_usize_wraps : as_usize two64 = 0. Proof. reflexivity. Qed.
Lemma try_usize_small n : n < two64 -> try_usize n = Some n.
Proof.
  intros H. unfold try_usize. assert (E : (n <=? two64 - 1) = true) by (apply N.leb_le; unfold two64 in *; lia).
  now rewrite E.
Qed.

(* checked usize arithmetic *)
Lemma usize_add_ok site a b r : usize_add site a b = Ok r -> r = a + b /\ r < two64.
Proof. unfold usize_add. destruct (N.ltb_spec (a + b) two64); [intros [= <-]; now split|discriminate]. Qed.
Lemma usize_mul_ok site a b r : usize_mul site a b = Ok r -> r = a * b /\ r < two64.
Proof. unfold usize_mul. destruct (N.ltb_spec (a * b) two64); [intros [= <-]; now split|discriminate]. Qed.
Lemma usize_sub_ok site a b r : usize_sub site a b = Ok r -> r = a - b /\ b <= a.
Proof. unfold usize_sub. destruct (N.leb_spec b a); [intros [= <-]; now split|discriminate]. Qed.
