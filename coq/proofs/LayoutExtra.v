(* C12, corollary added after the main development: the reported layout is CANONICAL -- it depends only on the set of
   rows handed to StorageLayout::add, not on the order in which they are added, as long as no two different rows share
   one (slot index, bit offset) key.  (With two different rows at one key the stable sort keeps their insertion order;
   `layout_canonical_needs_functional_keys` is the witness.) *)
From Coq Require Import String Permutation.
From SLX Require Import Base gen.LayoutKey AbiT Layout proofs.LayoutProofs.
Open Scope N_scope.

Definition keys_functional (l : list entry) : Prop :=
  forall a b, In a l -> In b l -> fst a = fst b -> a = b.

Lemma lx_le_io_trans a b c : le_io a b -> le_io b c -> le_io a c.
Proof. unfold le_io. lia. Qed.

Lemma lx_le_io_antisym (a b : entry) : le_io a b -> le_io b a -> fst a = fst b.
Proof.
  destruct a as [[i1 o1] t1], b as [[i2 o2] t2]. unfold le_io. cbn [fst snd]. intros H1 H2.
  assert (E : i1 = i2 /\ o1 = o2) by lia. destruct E as [-> ->]. reflexivity.
Qed.

Lemma lx_sorted_tail x l : sorted_io (x :: l) -> sorted_io l.
Proof. inversion 1; subst; [constructor|assumption]. Qed.

Lemma lx_sorted_head l : forall x z, sorted_io (x :: l) -> In z l -> le_io x z.
Proof.
  induction l as [|y t IH]; intros x z S Hz; [destruct Hz|].
  inversion S as [| |? ? ? Hxy Sy]; subst. destruct Hz as [<-|Hz]; [exact Hxy|].
  eapply lx_le_io_trans; [exact Hxy|apply IH; assumption].
Qed.

Lemma lx_sorted_perm_eq l1 : forall l2, sorted_io l1 -> sorted_io l2 -> Permutation l1 l2 -> keys_functional l1 -> l1 = l2.
Proof.
  induction l1 as [|x t IH]; intros l2 S1 S2 P F.
  - apply Permutation_nil in P. auto.
  - destruct l2 as [|y u]; [apply Permutation_sym, Permutation_nil in P; discriminate|].
    assert (E : x = y).
    { assert (Hx : In x (y :: u)) by (eapply Permutation_in; [exact P|left; reflexivity]).
      assert (Hy : In y (x :: t)) by (eapply Permutation_in; [apply Permutation_sym, P|left; reflexivity]).
      destruct Hx as [->|Hx]; [reflexivity|]. destruct Hy as [->|Hy]; [reflexivity|].
      apply F; [left; reflexivity|right; exact Hy|].
      apply lx_le_io_antisym; [apply (lx_sorted_head _ _ _ S1), Hy|apply (lx_sorted_head _ _ _ S2), Hx]. }
    subst y. f_equal. apply IH.
    + eapply lx_sorted_tail, S1.
    + eapply lx_sorted_tail, S2.
    + eapply Permutation_cons_inv, P.
    + intros p q Hp Hq. apply F; right; assumption.
Qed.

Lemma layout_canonical_proof : forall es es', Permutation es es' -> keys_functional es -> layout_of es = layout_of es'.
Proof.
  intros es es' P F. apply lx_sorted_perm_eq.
  - apply layout_sorted.
  - apply layout_sorted.
  - eapply Permutation_trans; [apply layout_perm|]. eapply Permutation_trans; [exact P|]. apply Permutation_sym, layout_perm.
  - intros a b Ha Hb. apply F; eapply Permutation_in; try apply layout_perm; assumption.
Qed.

(* a sorted list that is handed to `add` row by row comes back unchanged (add is idempotent on its own output) *)
Lemma layout_of_sorted_id_proof : forall es, keys_functional es -> layout_of (layout_of es) = layout_of es.
Proof.
  intros es F. symmetry. apply layout_canonical_proof; [apply Permutation_sym, layout_perm|exact F].
Qed.

Lemma layout_canonical_needs_functional_keys_proof :
  exists es es', Permutation es es' /\ layout_of es <> layout_of es'.
Proof.
  exists [(1, 0, AT "Bool" [] []); (1, 0, AT "Any" [] [])], [(1, 0, AT "Any" [] []); (1, 0, AT "Bool" [] [])].
  split; [apply perm_swap|]. vm_compute. discriminate.
Qed.
