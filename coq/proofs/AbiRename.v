(* `abi_type_for` on two class tables over DIFFERENT variable spaces (the second a renaming of the first): the
   heterogeneous form of AbiOrder.v.  R x y reads "variable x of the first table and variable y of the second stand for
   the same class".  No equivalence is assumed; what the `seen` set needs is stated directly:
     Hinj1  if x and u1 carry the same type constructor in the first table, their partners y and u2 carry the same
            data in the second;  Hinj2 the converse.
   `abi_impl_rel_het`: related start variables and related `seen` sets give the same AbiValue and related `seen` sets,
   or both traversals fail the same way.  AbiType mentions no type variable, so nothing is renamed in the result. *)
From Coq Require Import String Permutation.
From SLX Require Import Base gen.Constants gen.RulesSig TypeExpr Merge AbiT Layout Register Abi.
From SLX.proofs Require Import MergeEquivProofs AbiOrder.
Open Scope N_scope.

Section AbiRelHet.
  Variable nested_add : N -> N -> outcome N unit.
  Variable fit : bool.
  Variables env1 env2 : abi_env.
  Variable R : tyvar -> tyvar -> Prop.

  Definition hdrel (d1 d2 : option (list te)) : Prop :=
    match d1, d2 with
    | None, None => True
    | Some [], Some [] => True
    | Some [t1], Some [t2] => te_rel R t1 t2 /\ te_plain t1 = true /\ te_plain t2 = true
    | _, _ => False
    end.

  Hypothesis Hexp : forall x y, R x y -> has_expr env1 x = has_expr env2 y.
  Hypothesis Hdata : forall x y, R x y -> hdrel (ty_data env1 x) (ty_data env2 y).
  Hypothesis Hinj1 : forall x y u1 u2 e, R x y -> R u1 u2 -> ty_data env1 x = Some [e] -> ty_data env1 u1 = Some [e] ->
    is_type_constructor e = true -> ty_data env2 y = ty_data env2 u2.
  Hypothesis Hinj2 : forall x y u1 u2 e, R x y -> R u1 u2 -> ty_data env2 y = Some [e] -> ty_data env2 u2 = Some [e] ->
    is_type_constructor e = true -> ty_data env1 x = ty_data env1 u1.

  Definition hseen_pair (e1 e2 : te) : Prop :=
    (is_type_constructor e1 = false /\ is_type_constructor e2 = false) \/
    (exists u1 u2, R u1 u2 /\ ty_data env1 u1 = Some [e1] /\ ty_data env2 u2 = Some [e2]).
  Definition HSeenRel (s1 s2 : list te) : Prop := Forall2 hseen_pair s1 s2.

  Lemma hte_rel_itc e1 e2 : te_rel R e1 e2 -> is_type_constructor e1 = is_type_constructor e2.
  Proof. destruct 1; reflexivity. Qed.

  Lemma hseen_hit x y e1 e2 s1 s2 : R x y -> ty_data env1 x = Some [e1] -> ty_data env2 y = Some [e2] ->
    te_rel R e1 e2 -> HSeenRel s1 s2 ->
    (existsb (te_eqb e1) s1 && is_type_constructor e1) = (existsb (te_eqb e2) s2 && is_type_constructor e2).
  Proof.
    intros Hxy D1 D2 Hr Hs. rewrite <- (hte_rel_itc _ _ Hr).
    destruct (is_type_constructor e1) eqn:Ec; [|rewrite !andb_false_r; reflexivity]. rewrite !andb_true_r.
    pose proof (hte_rel_itc _ _ Hr) as Ec2. rewrite Ec in Ec2. symmetry in Ec2.
    apply eq_true_iff_eq. rewrite !existsb_te_in. split; intros Hin.
    - destruct (forall2_in_l _ _ _ _ Hs Hin) as (b & Hb & [[H1 _]|(u1 & u2 & Hu & Du1 & Du2)]); [congruence|].
      pose proof (Hinj1 x y u1 u2 e1 Hxy Hu D1 Du1 Ec) as E. rewrite D2, Du2 in E. injection E as ->. exact Hb.
    - destruct (forall2_in_r _ _ _ _ Hs Hin) as (b & Hb & [[_ H2]|(u1 & u2 & Hu & Du1 & Du2)]); [congruence|].
      pose proof (Hinj2 x y u1 u2 e2 Hxy Hu D2 Du2 Ec2) as E. rewrite D1, Du1 in E. injection E as ->. exact Hb.
  Qed.

  Definition hres_rel (r1 r2 : outcome (abi_value * list te) abi_err) : Prop :=
    out_rel (fun a b => fst a = fst b /\ HSeenRel (snd a) (snd b)) r1 r2.

  Lemma hsub_type_rel rec1 rec2 v1 v2 s1 s2 k1 k2 :
    hres_rel (rec1 v1 s1) (rec2 v2 s2) ->
    (forall tp t1 t2, HSeenRel t1 t2 -> hres_rel (k1 tp t1) (k2 tp t2)) ->
    hres_rel (sub_type rec1 v1 s1 k1) (sub_type rec2 v2 s2 k2).
  Proof.
    intros Hr Hk. unfold sub_type.
    destruct (rec1 v1 s1) as [[r1 t1]| |], (rec2 v2 s2) as [[r2 t2]| |]; cbn in Hr; try contradiction; try exact Hr.
    destruct Hr as [E Hs]. cbn [fst snd] in *. subst r2. apply Hk, Hs.
  Qed.

  Lemma hseen_cons x y e1 e2 s1 s2 : R x y -> ty_data env1 x = Some [e1] -> ty_data env2 y = Some [e2] ->
    HSeenRel s1 s2 ->
    HSeenRel (if abi_seen_insert then e1 :: s1 else s1) (if abi_seen_insert then e2 :: s2 else s2).
  Proof.
    intros Hxy D1 D2 Hs. destruct abi_seen_insert; [|exact Hs]. constructor; [|exact Hs].
    right. exists x, y. auto.
  Qed.

  Lemma abi_impl_rel_het fuel : forall x y s1 s2 parent, R x y -> HSeenRel s1 s2 ->
    hres_rel (abi_impl nested_add fit env1 fuel x s1 parent) (abi_impl nested_add fit env2 fuel y s2 parent).
  Proof.
    induction fuel as [|f IH]; intros x y s1 s2 parent Hxy Hs; cbn [abi_impl]; [reflexivity|].
    pose proof (Hdata x y Hxy) as Hd. pose proof (Hexp x y Hxy) as He. unfold type_of.
    destruct (ty_data env1 x) as [[|t1 [|t1' l1]]|] eqn:D1, (ty_data env2 y) as [[|t2 [|t2' l2]]|] eqn:D2;
      cbn [hdrel] in Hd; try contradiction.
    - (* the empty set: Any *)
      cbn [is_type_constructor]. rewrite !andb_false_r. rewrite He.
      destruct (has_expr env2 y); cbn [negb]; [|reflexivity]. split; [reflexivity|].
      cbn [snd]. destruct abi_seen_insert; [|exact Hs]. constructor; [left; split; reflexivity|exact Hs].
    - (* one type each *)
      destruct Hd as (Hr & P1 & P2).
      rewrite (hseen_hit x y t1 t2 s1 s2 Hxy D1 D2 Hr Hs).
      destruct (existsb (te_eqb t2) s2 && is_type_constructor t2); [split; [reflexivity|exact Hs]|].
      rewrite He. destruct (has_expr env2 y); cbn [negb]; [|reflexivity].
      pose proof (hseen_cons x y t1 t2 s1 s2 Hxy D1 D2 Hs) as Hs'.
      set (n1 := if abi_seen_insert then t1 :: s1 else s1) in *.
      set (n2 := if abi_seen_insert then t2 :: s2 else s2) in *.
      destruct Hr; try discriminate P1.
      + split; [reflexivity|exact Hs'].
      + destruct (word_abi (Word w u) w u); cbn; auto.
      + split; [reflexivity|exact Hs'].
      + apply hsub_type_rel; [apply IH; assumption|]. intros tp u1 u2 Hu. split; [reflexivity|exact Hu].
      + apply hsub_type_rel; [apply IH; assumption|]. intros ktp u1 u2 Hu.
        apply hsub_type_rel; [apply IH; assumption|]. intros vtp w1 w2 Hw. split; [reflexivity|exact Hw].
      + apply hsub_type_rel; [apply IH; assumption|]. intros tp u1 u2 Hu. split; [reflexivity|exact Hu].
      + split; [reflexivity|exact Hs'].
    - (* no entry *)
      rewrite He. destruct (has_expr env2 y); reflexivity.
  Qed.

  Lemma abi_type_for_rel_het fuel x y : R x y ->
    out_rel eq (abi_type_for nested_add fit env1 fuel x) (abi_type_for nested_add fit env2 fuel y).
  Proof.
    intros Hxy. unfold abi_type_for.
    pose proof (abi_impl_rel_het fuel x y [] [] PNone Hxy (Forall2_nil _)) as H. unfold hres_rel in H.
    destruct (abi_impl nested_add fit env1 fuel x [] PNone) as [[r1 t1]| |],
             (abi_impl nested_add fit env2 fuel y [] PNone) as [[r2 t2]| |]; cbn in H |- *; try contradiction; try exact H.
    apply H.
  Qed.

End AbiRelHet.
