(* Commutativity of `merge` for ALL type expressions, including the Packed arms (the fresh variables
   are allocated in increasing order of bit position, so both orders number them identically; the
   emitted equalities and judgements only change their order). *)
From Coq Require Import Permutation Sorted.
From SLX Require Import Base gen.Constants gen.WordUseTable TypeExpr Merge
  proofs.MergeEquivProofs proofs.MergeLatticeProofs proofs.MergeShapeProofs proofs.MergeGeneralProofs.
Open Scope N_scope.

(* ---- `unique().sorted()` only depends on the set of boundaries ---- *)
Lemma uniq_from_in seen l x : In x (uniq_from seen l) <-> In x l /\ ~ In x seen.
Proof.
  revert seen. induction l as [|y l IH]; intros seen; simpl.
  - tauto.
  - destruct (existsb (N.eqb y) seen) eqn:E.
    + apply existsb_exists in E as [z [Hz Ez]]. apply N.eqb_eq in Ez. subst z.
      rewrite IH. split; [tauto|]. intros [[Hyx|H] Hn]; [subst; contradiction | tauto].
    + assert (Hy : ~ In y seen).
      { intros Hin. assert (existsb (N.eqb y) seen = true); [|congruence].
        apply existsb_exists. exists y. split; auto. apply N.eqb_refl. }
      simpl. rewrite IH. simpl. split.
      * intros [Hyx|[H1 H2]]; [subst; auto|]. tauto.
      * intros [[Hyx|H1] H2]; [auto|]. destruct (N.eq_dec y x) as [Hyx|Hyx]; [auto|].
        right. split; auto. intros [Hyx'|H]; contradiction.
Qed.

Lemma uniq_from_nodup seen l : NoDup (uniq_from seen l).
Proof.
  revert seen. induction l as [|y l IH]; intros seen; simpl; [constructor|].
  destruct (existsb (N.eqb y) seen); auto. constructor; auto.
  rewrite uniq_from_in. simpl. tauto.
Qed.

Lemma uniq_in l x : In x (uniq l) <-> In x l.
Proof. unfold uniq. rewrite uniq_from_in. simpl. tauto. Qed.

Lemma insN_perm x l : Permutation (insN x l) (x :: l).
Proof.
  induction l as [|y l IH]; simpl; auto. destruct (x <=? y); auto.
  eapply perm_trans; [apply perm_skip; apply IH|]. apply perm_swap.
Qed.

Lemma sortN_perm l : Permutation (sortN l) l.
Proof.
  induction l as [|x l IH]; simpl; auto. eapply perm_trans; [apply insN_perm|]. apply perm_skip. exact IH.
Qed.

Lemma insN_sorted x l : StronglySorted N.le l -> StronglySorted N.le (insN x l).
Proof.
  induction l as [|y l IH]; intros H; simpl.
  - constructor; constructor.
  - inversion H as [|? ? Hs Hf]; subst. destruct (N.leb_spec x y) as [Hle|Hgt].
    + constructor; auto. constructor; auto. eapply Forall_impl; [|exact Hf]. intros z Hz. simpl in Hz. lia.
    + constructor; auto. eapply Permutation_Forall; [apply Permutation_sym; apply insN_perm|].
      constructor; auto. lia.
Qed.

Lemma sortN_sorted l : StronglySorted N.le (sortN l).
Proof. induction l; simpl; [constructor | apply insN_sorted; assumption]. Qed.

Lemma sorted_perm_eq l1 l2 : Permutation l1 l2 -> StronglySorted N.le l1 -> StronglySorted N.le l2 -> l1 = l2.
Proof.
  revert l2. induction l1 as [|x l1 IH]; intros l2 HP H1 H2.
  - apply Permutation_nil in HP. auto.
  - destruct l2 as [|y l2]; [apply Permutation_sym, Permutation_nil in HP; discriminate|].
    inversion H1 as [|? ? Hs1 Hf1]; subst. inversion H2 as [|? ? Hs2 Hf2]; subst.
    assert (x = y).
    { assert (Hx : In x (y :: l2)) by (apply (Permutation_in _ HP); left; reflexivity).
      assert (Hy : In y (x :: l1)) by (apply (Permutation_in _ (Permutation_sym HP)); left; reflexivity).
      rewrite Forall_forall in Hf1, Hf2.
      destruct Hx as [->|Hx]; auto. destruct Hy as [->|Hy]; auto.
      specialize (Hf1 y Hy). specialize (Hf2 x Hx). lia. }
    subst y. f_equal. apply IH; auto. eapply Permutation_cons_inv; eassumption.
Qed.

Lemma boundaries_sym l1 l2 : sortN (uniq (l1 ++ l2)) = sortN (uniq (l2 ++ l1)).
Proof.
  apply sorted_perm_eq; try apply sortN_sorted.
  eapply perm_trans; [apply sortN_perm|]. eapply perm_trans; [|apply Permutation_sym; apply sortN_perm].
  apply NoDup_Permutation; try apply uniq_from_nodup.
  intros x. rewrite !uniq_in, !in_app_iff. tauto.
Qed.

(* ---- the (Packed, Packed) arm ---- *)
Lemma Forall2_span_refl (R : tyvar -> tyvar -> Prop) (Hr : forall x, R x x) t : Forall2 (span_rel R) t t.
Proof. induction t; constructor; auto. unfold span_rel. auto. Qed.

Lemma judg_incl_app_comm q j1 j2 : judg_incl (eqv q) (j1 ++ j2) (j2 ++ j1).
Proof.
  intros a Ha. exists a. split.
  - apply in_app_iff. apply in_app_iff in Ha. tauto.
  - apply judg_rel_refl. apply eqv_refl.
Qed.

Lemma mpp_comm tl sl tr sr n :
  to_comb (merge_packed_packed tl sl tr sr n) ≈ to_comb (merge_packed_packed tr sr tl sl n).
Proof.
  unfold merge_packed_packed. destruct tl as [|t1 tl], tr as [|t2 tr]; cbv beta iota zeta.
  - rewrite (orb_comm sr sl). apply comb_equiv_refl.
  - rewrite (orb_comm sr sl). apply comb_equiv_refl.
  - rewrite (orb_comm sr sl). apply comb_equiv_refl.
  - assert (Hov : existsb span_overflows ((t1 :: tl) ++ t2 :: tr) = existsb span_overflows ((t2 :: tr) ++ t1 :: tl)).
    { rewrite !existsb_app. apply orb_comm. }
    rewrite Hov. destruct (existsb span_overflows ((t2 :: tr) ++ t1 :: tl)); [exact I|].
    rewrite (boundaries_sym (boundaries_of (t1 :: tl)) (boundaries_of (t2 :: tr))).
    destruct (sortN (uniq (boundaries_of (t2 :: tr) ++ boundaries_of (t1 :: tl)))) as [|b0 rest]; [exact I|].
    destruct (mk_spans rest b0 n) as [spans n'].
    destruct (process_spans spans (t1 :: tl)) as [e1 j1]. destruct (process_spans spans (t2 :: tr)) as [e2 j2].
    simpl. unfold cres_equiv. simpl. rewrite (orb_comm sl sr).
    split; [apply same_eqs_app_comm|]. split.
    + constructor. apply Forall2_span_refl. apply eqv_refl.
    + split; apply judg_incl_app_comm.
Qed.

Lemma conflict_equiv cs rs cs' rs' :
  cres_equiv (mk_cres (Conflict cs rs) [] []) (mk_cres (Conflict cs' rs') [] []).
Proof. split; [apply same_eqs_refl|]. split; [constructor|]. split; intros x []. Qed.

(* ---- all arms ---- *)
Theorem merge_comm_all_proof : forall a b p n, merge2 a b p n ≈ merge2 b a p n.
Proof.
  intros a b p n.
  destruct (no_packed a) eqn:Ha; [destruct (no_packed b) eqn:Hb; [exact (merge_comm_nopacked_proof a b p n Ha Hb)|]|].
  - (* a plain, b packed *)
    destruct b as [| | | | | | | tb sb |]; try discriminate. unfold merge2.
    destruct a as [| i | w u | | e l | k v | e | ta sa | cs rs]; try discriminate;
      unfold merge, merge_body; simpl;
      first [ apply comb_equiv_refl | apply cres_equiv_refl | exact I | exact (conflict_equiv _ _ _ _) ].
  - (* a packed *)
    destruct a as [| | | | | | | ta sa |]; try discriminate. unfold merge2.
    destruct b as [| i | w u | | e l | k v | e | tb sb | cs rs].
    1-7, 9: (unfold merge, merge_body; simpl;
             first [ apply comb_equiv_refl | apply cres_equiv_refl | exact I | exact (conflict_equiv _ _ _ _) ]).
    (* Packed, Packed *)
    unfold merge, merge_body. cbn [te_eqb].
    destruct (list_eqb span_eqb ta tb && Bool.eqb sa sb) eqn:E.
    + apply andb_true_iff in E as [E1 E2]. apply (list_eqb_eq span_eqb span_eqb_eq) in E1. apply eqb_prop in E2.
      subst. rewrite (proj2 (list_eqb_eq span_eqb span_eqb_eq tb tb) eq_refl), eqb_reflx.
      apply comb_equiv_refl.
    + assert (E' : list_eqb span_eqb tb ta && Bool.eqb sb sa = false).
      { destruct (list_eqb span_eqb tb ta && Bool.eqb sb sa) eqn:E'; auto.
        apply andb_true_iff in E' as [E1 E2]. apply (list_eqb_eq span_eqb span_eqb_eq) in E1. apply eqb_prop in E2.
        subst. rewrite (proj2 (list_eqb_eq span_eqb span_eqb_eq ta ta) eq_refl), eqb_reflx in E. discriminate. }
      rewrite E'. apply mpp_comm.
Qed.
