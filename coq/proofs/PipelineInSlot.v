(* C12 end to end on the composed model (props/C12_pipeline.v): the rows of a returned layout lie inside their slots.

   A run of `Pipeline.analyze_model_fuel` that returns a layout went through inference (judgement set `tstate_of st`), through
   `unify` (forest s, counter n) and through the layout loop, whose every row comes out of one `abi_type_for` call on the
   variable of a constant-slot value.  With C12_unify_keeps_types_in_slot (unify keeps an in-slot judgement set in-slot) and
   abi_rows_in_slot this gives: if the judgement set the run inferred lies inside the slot, and sized words inside spans have
   room (`room_ok`, a statement about the classes unify left), every row of the layout starts inside its slot and known
   widths end inside it. *)
From Coq Require Import String Permutation.
From SLX Require Import Base Word256 PackingArith gen.Constants gen.ValueSig gen.OpcodeTable gen.PassOrder gen.RulesSig gen.WordUseTable gen.LayoutKey
  SymVal Micro gen.OpcodeSem Disasm VM Fold PassesSlots PassesPacking TypeExpr Merge VectorMap DisjointSet Register Rules
  Unify AbiT Layout Abi PolledLoop Pipeline NoPanic.
From SLX.proofs Require Import PipelinePolls LayoutProofs UnifyProofs AbiProofs PipelineProofs PipelineNoPanic NoPanicUnify UnifyInSlot.
Open Scope N_scope.

(* ---- the inversion of PipelineProofs.analyze_plain_inv, keeping the call of unify ---- *)
Lemma analyze_plain_inv_u keccak table mode fu stored l :
  analyze_plain keccak table mode fu stored = PLayout l ->
  exists lifted st s n,
    Forall2 (fun v v' => lift_value keccak table v = Ok v') (unique (all_values mode stored)) lifted /\
    infer_values (pipeline_rules mode) (tc_values mode (Register.values (snd (assign_vars lifted)))) (snd (assign_vars lifted)) = Ok st /\
    unify (f_rounds fu) (orders_of mode) (tstate_of st) = Ok (s, n) /\
    build_layout abi_nested_add abi_nested_fit (env_of_forest s n) (S (N.to_nat n))
      (tc_values mode (Register.values st ++ synthetic_values (next st) n)) [] = Ok l.
Proof.
  unfold analyze_plain. cbv zeta.
  destruct (fold_e (lift_body keccak table) (unique (all_values mode stored)) ([], false)) as [[acc failed]|e] eqn:E1.
  2: { intros ->. destruct (unique (all_values mode stored)); discriminate E1 || idtac.
       exfalso. revert E1. generalize (@nil sv, false). generalize (s :: l0).
       induction l1 as [|v r IH]; intros st0; cbn [fold_e]; [discriminate|].
       unfold lift_body at 1. destruct (lift_value keccak table v); try discriminate; apply IH. }
  destruct failed; [discriminate|].
  destruct (fold_lift keccak table _ _ _ _ _ E1 eq_refl) as (_ & ls & Ea & F). rewrite app_nil_r in Ea. subst acc. rewrite rev_involutive.
  rewrite fold_reg. fold (assign_vars ls). rewrite fold_infer.
  destruct (infer_values (pipeline_rules mode) (tc_values mode (Register.values (snd (assign_vars ls)))) (snd (assign_vars ls))) as [st'|e|p] eqn:Ei;
    try discriminate.
  destruct (unify (f_rounds fu) (orders_of mode) (tstate_of st')) as [[s n]|e|p] eqn:Eu; cbn [ures_res].
  2: { destruct e; discriminate. }
  2: { discriminate. }
  rewrite fold_layout.
  destruct (build_layout abi_nested_add abi_nested_fit (env_of_forest s n) (S (N.to_nat n))
              (tc_values mode (Register.values st' ++ synthetic_values (next st') n)) []) as [l'|e|p] eqn:Eb; try discriminate.
  intros [= <-]. exists ls, st', s, n. auto.
Qed.

Lemma analyze_layout_inv_u keccak table mode fu bytes cfg l :
  analyze_model_fuel keccak table mode fu bytes cfg = PLayout l ->
  exists st s n,
    unify (f_rounds fu) (orders_of mode) (tstate_of st) = Ok (s, n) /\
    build_layout abi_nested_add abi_nested_fit (env_of_forest s n) (S (N.to_nat n))
      (tc_values mode (Register.values st ++ synthetic_values (next st) n)) [] = Ok l.
Proof.
  unfold analyze_model_fuel, analyze_trace, vm_phase_of.
  destruct (try_from bytes) as [code|e|s] eqn:Ed; cbn [t_result no_trace]; try discriminate.
  destruct (poll_every cfg =? 0); cbn [t_result no_trace]; try discriminate.
  destruct (run_p constant_fold (f_vm fu) (init_vm code cfg)) as [m|ip m|m] eqn:Ev; cbn [t_result no_trace]; try discriminate.
  destruct (v_errors m) eqn:Ee; cbn [t_result no_trace]; try discriminate.
  intros H. pose proof (analyze_tc_spec keccak table mode fu cfg (v_polls m) (order_determined (v_stored m)) (v_stored m)) as G.
  cbv zeta in G. destruct G as ([G|(st & G)] & _); rewrite G in H; [|discriminate].
  destruct (analyze_plain_inv_u _ _ _ _ _ _ H) as (lifted & st' & s & n & _ & _ & Eu & Eb).
  exists st', s, n. split; assumption.
Qed.

(* ---- every row of the layout loop's result comes out of one abi_type_for call ---- *)
Lemma layout_add_in l e x : In x (layout_add l e) -> In x l \/ x = e.
Proof.
  unfold layout_add. intros H. apply (Permutation_in _ (stable_sort_perm _ _)) in H. apply in_app_or in H as [H|[H|[]]]; auto.
Qed.

Lemma fold_layout_add_in rows : forall layout x, In x (fold_left layout_add rows layout) -> In x layout \/ In x rows.
Proof.
  induction rows as [|e rows IH]; intros layout x; cbn [fold_left]; [auto|]. intros H.
  destruct (IH _ _ H) as [H1|H1]; [|right; right; exact H1]. destruct (layout_add_in _ _ _ H1) as [H2|H2]; [left; exact H2|right; left; symmetry; exact H2].
Qed.

Lemma build_layout_rows nested_add fit env fuel : forall vals layout L x,
  build_layout nested_add fit env fuel vals layout = Ok L -> In x L ->
  In x layout \/ exists v index a, In v vals /\ const_slot_key v = Some index /\
                    abi_type_for nested_add fit env fuel (tv_of v) = Ok a /\ In x (rows_of index a).
Proof.
  induction vals as [|v r IH]; intros layout L x; cbn [build_layout].
  - intros [= <-] H. left. exact H.
  - destruct (const_slot_key v) as [index|] eqn:Ek.
    + destruct (abi_type_for nested_add fit env fuel (tv_of v)) as [a|e|p] eqn:Ea; try discriminate.
      intros Hb Hx. destruct (IH _ _ _ Hb Hx) as [H|(v' & i' & a' & Hv & Hk & Ha & Hr)].
      * destruct (fold_layout_add_in _ _ _ H) as [H1|H1]; [left; exact H1|].
        right. exists v, index, a. split; [left; reflexivity|]. split; [exact Ek|]. split; [exact Ea|exact H1].
      * right. exists v', i', a'. split; [right; exact Hv|]. auto.
    + intros Hb Hx. destruct (IH _ _ _ Hb Hx) as [H|(v' & i' & a' & Hv & Hk & Ha & Hr)]; [left; exact H|].
      right. exists v', i', a'. split; [right; exact Hv|]. auto.
Qed.

(* a sized word inside a span has room behind the span's offset *)
Definition room_ok (env : abi_env) : Prop :=
  forall v0 ts b sp w u, Abi.type_of env v0 = Ok (Packed ts b) -> In sp ts ->
    Abi.type_of env (s_typ sp) = Ok (Word (Some w) u) -> s_off sp + w <= 256.

Definition entry_in_slot_P (e : entry) : Prop :=
  snd (fst e) < WORD_SIZE_BITS /\ match aty_width (snd e) with Some w => snd (fst e) + w <= WORD_SIZE_BITS | None => True end.

Theorem pipeline_rows_in_slot_lemma keccak table mode fu bytes cfg l :
  analyze_model_fuel keccak table mode fu bytes cfg = PLayout l ->
  exists st s n,
    unify (f_rounds fu) (orders_of mode) (tstate_of st) = Ok (s, n) /\
    (tstate_in 256 (tstate_of st) = true -> room_ok (env_of_forest s n) -> forall e, In e l -> entry_in_slot_P e).
Proof.
  intros H. destruct (analyze_layout_inv_u _ _ _ _ _ _ _ H) as (st & s & n & Eu & Eb).
  exists st, s, n. split; [exact Eu|]. intros Hin Hroom e He.
  destruct (build_layout_rows _ _ _ _ _ _ _ _ Eb He) as [[]|(v & index & a & _ & _ & Ha & Hr)].
  destruct (rows_in_slot_after_unify_lemma (f_rounds fu) (orders_of mode) (tstate_of st) s n (orders_of_ok mode) Hin Eu
              (S (N.to_nat n)) (tv_of v) index a (Hroom (tv_of v)) Ha e Hr) as (_ & H1 & H2).
  split; assumption.
Qed.

(* ---- the hypotheses are decidable on a concrete run (and satisfiable: props/C12_pipeline.v) ---- *)
Definition room_okb (s : dsu iset) (n : N) : bool :=
  forallb (fun v0 =>
    match Abi.type_of (env_of_forest s n) v0 with
    | Ok (Packed ts _) =>
        forallb (fun sp => match Abi.type_of (env_of_forest s n) (s_typ sp) with
                           | Ok (Word (Some w) _) => s_off sp + w <=? 256
                           | _ => true
                           end) ts
    | _ => true
    end) (vars_below n).

Lemma room_okb_sound s n : room_okb s n = true -> room_ok (env_of_forest s n).
Proof.
  intros H v0 ts b sp w u Ht Hin Hs. unfold room_okb in H. rewrite forallb_forall in H.
  assert (Hv : v0 < n).
  { destruct (v0 <? n) eqn:E; [apply N.ltb_lt; exact E|]. unfold Abi.type_of in Ht. cbn [env_of_forest ty_data has_expr] in Ht.
    rewrite E in Ht. discriminate. }
  specialize (H v0 (proj2 (in_vars_below n v0) Hv)). rewrite Ht in H. rewrite forallb_forall in H. specialize (H sp Hin).
  rewrite Hs in H. apply N.leb_le. exact H.
Qed.
