(* C10, corollaries added after the main development (kept in their own file so that the many files that
   import DisasmProofs are not rebuilt): injectivity of disassembly, the exact characterisation of the
   JUMPDEST entries of a stream (the set the VM validates jump targets against), and the exact
   characterisation of the filler entries. *)
From SLX Require Import Base gen.Constants gen.OpcodeTable Disasm proofs.DisasmProofs.
Open Scope N_scope.

(* two different byte strings never disassemble to the same stream *)
Lemma C10_injective_proof : forall bs bs' is, bytes_ok bs -> bytes_ok bs' ->
  N.of_nat (length bs) <= two32 -> N.of_nat (length bs') <= two32 ->
  try_from bs = Ok is -> try_from bs' = Ok is -> bs = bs'.
Proof.
  intros bs bs' is Hb Hb' Hl Hl' H H'.
  destruct (C10_lossless_proof bs is Hb Hl H) as [_ E1].
  destruct (C10_lossless_proof bs' is Hb' Hl' H') as [_ E2]. congruence.
Qed.

Lemma nth_error_both {A B} (l1 : list A) (l2 : list B) i x : length l1 = length l2 ->
  nth_error l1 i = Some x -> exists y, nth_error l2 i = Some y.
Proof.
  intros Hlen Hx. destruct (nth_error l2 i) as [y|] eqn:E; [eauto|].
  apply nth_error_None in E. assert (nth_error l1 i <> None) as Hn by congruence.
  apply nth_error_Some in Hn. lia.
Qed.

Lemma jumpdest_byte_facts : is_push 91 = false /\ decode1 91 = Ok (IOp control_JumpDest)
  /\ encode (IOp control_JumpDest) = [91].
Proof. vm_compute. repeat split; reflexivity. Qed.

(* an entry is JUMPDEST exactly when the byte there is 0x5b and is not push data *)
Lemma C10_jumpdest_exact_proof : forall bs is i, bytes_ok bs -> N.of_nat (length bs) <= two32 ->
  try_from bs = Ok is ->
  (nth_error is i = Some (IOp control_JumpDest) <->
   nth_error bs i = Some 91 /\ nth_error (immediates 0 bs) i = Some false).
Proof.
  intros bs is i Hb Hl H. pose proof (C10_positions_proof _ _ Hb Hl H) as F.
  destruct (C10_lossless_proof _ _ Hb Hl H) as [Hlen _].
  destruct jumpdest_byte_facts as (Hnp & Hdec & Henc).
  split.
  - intros Hi.
    destruct (nth_error_both is bs i _ Hlen Hi) as (b & Eb).
    assert (Hlen2 : length is = length (immediates 0 bs)) by (rewrite immediates_length; exact Hlen).
    destruct (nth_error_both is (immediates 0 bs) i _ Hlen2 Hi) as (imm & Ei).
    destruct (Forall2_nth_error _ _ _ F i (b, imm) (nth_error_combine _ _ _ _ _ Eb Ei)) as (x & Hx & Hp).
    rewrite Hi in Hx. injection Hx as <-. destruct Hp as (P1 & P2 & P3).
    destruct imm.
    + destruct (P1 eq_refl) as [E | E]; discriminate E.
    + destruct (is_push b) eqn:Ep.
      * destruct (P3 eq_refl eq_refl) as [(d & E) | E]; discriminate E.
      * destruct (P2 eq_refl eq_refl) as (Hd & _).
        assert (Hb1 : b < 256). { unfold bytes_ok in Hb. rewrite Forall_forall in Hb. apply Hb. eapply nth_error_In; eauto. }
        destruct (plain_ok b Hb1 Ep) as (i' & Hi' & He & _). rewrite Hi' in Hd. injection Hd as ->.
        rewrite Henc in He. injection He as <-. split; assumption.
  - intros (Eb & Ei).
    destruct (Forall2_nth_error _ _ _ F i (91, false) (nth_error_combine _ _ _ _ _ Eb Ei)) as (x & Hx & Hp).
    destruct Hp as (_ & P2 & _). destruct (P2 eq_refl Hnp) as (Hd & _).
    rewrite Hdec in Hd. injection Hd as <-. exact Hx.
Qed.

(* an entry is a filler (Nop, or Invalid inside a truncated push) at EVERY push-data position, and a Nop entry
   appears only there *)
Lemma C10_nop_only_push_data_proof : forall bs is i, bytes_ok bs -> N.of_nat (length bs) <= two32 ->
  try_from bs = Ok is -> nth_error is i = Some INop -> nth_error (immediates 0 bs) i = Some true.
Proof.
  intros bs is i Hb Hl H Hi. pose proof (C10_positions_proof _ _ Hb Hl H) as F.
  destruct (C10_lossless_proof _ _ Hb Hl H) as [Hlen _].
  destruct (nth_error_both is bs i _ Hlen Hi) as (b & Eb).
  assert (Hlen2 : length is = length (immediates 0 bs)) by (rewrite immediates_length; exact Hlen).
  destruct (nth_error_both is (immediates 0 bs) i _ Hlen2 Hi) as (imm & Ei).
  destruct (Forall2_nth_error _ _ _ F i (b, imm) (nth_error_combine _ _ _ _ _ Eb Ei)) as (x & Hx & Hp).
  rewrite Hi in Hx. injection Hx as <-. destruct Hp as (_ & P2 & P3).
  destruct imm; [exact Ei|]. exfalso.
  destruct (is_push b) eqn:Ep.
  - destruct (P3 eq_refl eq_refl) as [(d & E) | E]; discriminate E.
  - destruct (P2 eq_refl eq_refl) as (_ & Hn). now apply Hn.
Qed.
