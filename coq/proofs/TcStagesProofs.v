(* Glue between the stage developments: the theorems of props/TcStages.v in the form they are stated there. *)
From Coq Require Import String.
From SLX Require Import Base Word256 gen.Constants gen.ValueSig gen.WordUseTable gen.RulesSig SymVal TypeExpr AbiT Layout
  Register Rules Abi TcCases.
From SLX Require Import proofs.RegisterProofs proofs.RulesProofs proofs.AbiProofs.
Open Scope N_scope.
Set Default Timeout 300.

(* ---- the generated nested-offset sum ---- *)
Lemma gen_add_no_err a b e : abi_nested_add a b <> Err e.
Proof. unfold abi_nested_add; first [discriminate | unfold usize_add; destruct (_ <? _); discriminate]. Qed.

Lemma gen_add_exact a b o : abi_nested_add a b = Ok o -> a + b < two64 -> o = a + b.
Proof. unfold abi_nested_add. first [apply sat_add_exact | apply checked_add_exact]. Qed.

(* holds for the saturating text only: with `ofs + offset` the sum is `usize_add` and this proof fails *)
Lemma gen_add_total a b : exists o, abi_nested_add a b = Ok o.
Proof. unfold abi_nested_add. eexists. reflexivity. Qed.

(* ---- rule_keeps_slot ---- *)
Lemma const_slot_of_erase x c : erase x = slot_sv c -> const_slot_key x = Some c.
Proof.
  destruct x as [v t a args]. unfold slot_sv, Known. cbn [erase]. intros [= -> -> E].
  destruct args as [|k [|]]; try discriminate. cbn [map] in E. inversion E as [Ek]. destruct k as [kv kt ka kargs]. cbn [erase] in Ek.
  inversion Ek; subst. destruct kargs; [|discriminate]. reflexivity.
Qed.

Theorem rule_keeps_slot_lemma vs c : (exists v, In v vs /\ In (slot_sv c) (subterms v)) ->
  exists st', infer_all default_rule_set (snd (assign_vars vs)) = Ok st' /\
    exists x, In x (values st') /\ erase x = slot_sv c /\ const_slot_key x = Some c.
Proof.
  intros (v & Hv & Hs). pose proof (register_covers_subterms_lemma vs) as C. pose proof (infer_no_panic_lemma vs) as (st' & E & _ & Kv).
  destruct (assign_vars vs) as [ts st]. cbn [snd] in *. destruct C as (_ & _ & _ & Cov).
  destruct (Cov v _ Hv Hs) as (y & Iy & Ey). exists st'. split; [exact E|]. exists y. split; [|split; [exact Ey|exact (const_slot_of_erase y c Ey)]].
  apply Kv. unfold values. rewrite <- in_rev. apply in_map_iff. exists (tv_of y, y). split; [reflexivity|exact Iy].
Qed.

(* ---- one rule on one registered value ---- *)
Lemma rule_no_panic_named name : rule_good (rule_named name) -> forall x st, winv st -> In (tv_of x, x) (exprs st) ->
  exists st', apply_rule (rule_named name) x st = Ok st'.
Proof. intros G x st W Hx. destruct (apply_rule_ok _ x st G W Hx) as (st' & E & _). eauto. Qed.

(* ---- the whole stage chain up to the layout loop, for ANY result of unification (env) ---- *)
Theorem const_slot_row_lemma vs c env fuel L : (exists v, In v vs /\ In (slot_sv c) (subterms v)) ->
  exists st', infer_all default_rule_set (snd (assign_vars vs)) = Ok st' /\
    (forall vals, (forall x, In x (values st') -> In x vals) ->
       build_layout abi_nested_add abi_nested_fit env fuel vals [] = Ok L -> exists off ty, In (c, off, ty) L).
Proof.
  intros H. destruct (rule_keeps_slot_lemma vs c H) as (st' & E & x & Hx & _ & Kx). exists st'. split; [exact E|].
  intros vals Hv B. destruct (layout_row_per_const_slot_gen abi_nested_add abi_nested_fit env fuel vals [] L B) as (_ & Rows).
  exact (Rows x c (Hv x Hx) Kx).
Qed.
