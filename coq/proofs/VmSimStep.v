(* C07 simulation, part 4: one instruction of the fragment, executed by the symbolic machine from a
   state related to a concrete EVM state, under the step's guard, leads to related states. *)
From SLX Require Import Base gen.Constants gen.ValueSig gen.OpcodeTable SymVal Micro gen.OpcodeSem Disasm
                        Word256 EvmSpec KnownWord Fold Evm VM Sim SimGuards.
From SLX Require Import proofs.DisasmProofs proofs.Word256Proofs proofs.FoldProofs proofs.VmControl
                        proofs.VmSimBase proofs.VmSimRel proofs.VmSimOps proofs.VmSimEvm.
Open Scope N_scope.
Set Default Timeout 120.

(* ---------------------------------------------------------------------------------------------- *)
Section StepSim.
Variable bytes : list byte.
Variable code : list instr.
Hypothesis Hbytes : bytes_ok bytes.
Hypothesis Hlen : N.of_nat (length bytes) <= two32.
Hypothesis Htry : try_from bytes = Ok code.
Variable cfg : config.

Lemma Hal : aligned bytes code.
Proof. now apply try_from_aligned. Qed.

Lemma code_len : length code = length bytes.
Proof. symmetry. apply aligned_length, Hal. Qed.

Lemma byte_at_nth k b : nth_error bytes (N.to_nat k) = Some b -> byte_at bytes k = Some b.
Proof.
  intros H. unfold byte_at. destruct (N.of_nat (length bytes) <=? k) eqn:E; [|exact H].
  apply N.leb_le in E. assert (Hn : nth_error bytes (N.to_nat k) = None) by (apply nth_error_None; lia). congruence.
Qed.

(* an entry that is an opcode / push / dup / swap determines the byte under it *)
Lemma decode_op b o : b < 256 -> is_push b = false -> decode1 b = Ok (IOp o) -> b = op_byte o.
Proof. intros Hb Hp Hd. destruct (plain_ok b Hb Hp) as (i & Hi & He & _). rewrite Hd in Hi. injection Hi as <-. cbn in He. now injection He. Qed.

Lemma decode_dup b n : b < 256 -> is_push b = false -> decode1 b = Ok (IDup n) -> b = 127 + n /\ 1 <= n <= 16.
Proof.
  intros Hb Hp Hd. destruct (plain_ok b Hb Hp) as (i & Hi & He & _). rewrite Hd in Hi. injection Hi as <-.
  cbn in He. injection He as He. unfold dupn_byte, DUP_OPCODE_BASE_VALUE in He. split; [lia|].
  unfold decode1 in Hd. destruct (Disasm.in_range dup_lo dup_hi b) eqn:E.
  - unfold Disasm.in_range, dup_lo, dup_hi in E. apply andb_true_iff in E as [E1 E2]. apply N.leb_le in E1, E2. unfold swap_lo, swap_hi in *. lia.
  - destruct (Disasm.in_range swap_lo swap_hi b).
    { destruct (sub_u8 b SWAP_OPCODE_BASE_VALUE); try discriminate. destruct (swapn_new_ok a); discriminate. }
    destruct (Disasm.in_range log_lo log_hi b).
    { destruct (sub_u8 b LOG_OPCODE_BASE_VALUE); try discriminate. destruct (logn_new_ok a); discriminate. }
    destruct (decode_plain b); [discriminate|]. destruct (existsb _ _); discriminate.
Qed.

Lemma decode_swap b n : b < 256 -> is_push b = false -> decode1 b = Ok (ISwap n) -> b = 143 + n /\ 1 <= n <= 16.
Proof.
  intros Hb Hp Hd. destruct (plain_ok b Hb Hp) as (i & Hi & He & _). rewrite Hd in Hi. injection Hi as <-.
  cbn in He. injection He as He. unfold swapn_byte, SWAP_OPCODE_BASE_VALUE in He. split; [lia|].
  unfold decode1 in Hd. destruct (Disasm.in_range dup_lo dup_hi b) eqn:E0.
  { destruct (sub_u8 b DUP_OPCODE_BASE_VALUE); try discriminate. destruct (dupn_new_ok a); discriminate. }
  destruct (Disasm.in_range swap_lo swap_hi b) eqn:E.
  - unfold Disasm.in_range in E. apply andb_true_iff in E as [E1 E2]. apply N.leb_le in E1, E2. unfold swap_lo, swap_hi in *. lia.
  - destruct (Disasm.in_range log_lo log_hi b).
    { destruct (sub_u8 b LOG_OPCODE_BASE_VALUE); try discriminate. destruct (logn_new_ok a); discriminate. }
    destruct (decode_plain b); [discriminate|]. destruct (existsb _ _); discriminate.
Qed.

(* the concrete stack under a related symbolic stack *)
Lemma estack1 st e a s : Rst st e -> stack st = a :: s -> e_stack e = den a :: map den s.
Proof. intros HR Hs. rewrite <- (r_stack _ _ HR), Hs. reflexivity. Qed.
Lemma estack2 st e a b s : Rst st e -> stack st = a :: b :: s -> e_stack e = den a :: den b :: map den s.
Proof. intros HR Hs. rewrite <- (r_stack _ _ HR), Hs. reflexivity. Qed.

Lemma stack_facts st e l s : Rst st e -> stack st = l ++ s -> (length l + length s <= 1024)%nat /\ Forall good l /\ Forall good s.
Proof.
  intros HR Hs. pose proof (r_depth _ _ HR) as Hd. pose proof (r_good _ _ HR) as Hg. rewrite Hs in Hd, Hg.
  rewrite app_length in Hd. apply Forall_app in Hg. tauto.
Qed.

(* "the symbolic body runs without error, the concrete machine makes one step, the results are related" *)
Definition cont (c : octx) (e : estate) (br : bool) (ie : ienv) (ms : list mop) (npc : N) : Prop :=
  exists c' e', run_mops constant_fold cfg ie ms c = (c', None) /\ o_kill c' = o_kill c
                /\ estep bytes br e = ENext e' /\ Rst (o_st c') e' /\ e_pc e' = npc.

Lemma sim_bin o t b f c e br ie x y s :
  classify o = KBin t b f -> Rst (o_st c) e -> byte_at bytes (e_pc e) = Some b ->
  stack (o_st c) = x :: y :: s -> fits cfg (Node t [] [x; y]) = true ->
  cont c e br ie (bin_shape t) (e_pc e + 1).
Proof.
  intros Hc HR Hb Hs Hf. pose proof (table_fact o) as T. unfold kind_ok in T. rewrite Hc in T.
  destruct T as (_ & _ & Hden & Hstep & Hk1 & Hk2 & _).
  destruct (stack_facts _ _ [x; y] s HR Hs) as (Hd & Hg1 & Hg2). cbn [length] in Hd.
  destruct (run_bin constant_fold cfg ie t c x y s Hs Hf ltac:(lia)) as (c' & Hrun & Hst & Hkill).
  exists c', (with_pc_stack e (e_pc e + 1) (lift2 f (den x) (den y) :: map den s)).
  split; [exact Hrun|]. split; [exact Hkill|]. split.
  - rewrite (Hstep _ _ _ Hb). unfold binop. rewrite (estack2 _ _ _ _ _ HR Hs). reflexivity.
  - split; [|reflexivity]. rewrite Hst. apply Rst_stack; [exact HR| | |].
    + cbn [map]. now rewrite Hden.
    + cbn [length] in *. lia.
    + constructor; [|exact Hg2]. now apply good_node.
Qed.

Lemma sim_un o t b f c e br ie x s :
  classify o = KUn t b f -> Rst (o_st c) e -> byte_at bytes (e_pc e) = Some b ->
  stack (o_st c) = x :: s -> fits cfg (Node t [] [x]) = true ->
  cont c e br ie (un_shape t) (e_pc e + 1).
Proof.
  intros Hc HR Hb Hs Hf. pose proof (table_fact o) as T. unfold kind_ok in T. rewrite Hc in T.
  destruct T as (_ & _ & Hden & Hstep & Hk1 & Hk2 & _).
  destruct (stack_facts _ _ [x] s HR Hs) as (Hd & Hg1 & Hg2). cbn [length] in Hd.
  destruct (run_un constant_fold cfg ie t c x s Hs Hf ltac:(lia)) as (c' & Hrun & Hst & Hkill).
  exists c', (with_pc_stack e (e_pc e + 1) (lift1 f (den x) :: map den s)).
  split; [exact Hrun|]. split; [exact Hkill|]. split.
  - rewrite (Hstep _ _ _ Hb). unfold unop. rewrite (estack1 _ _ _ _ HR Hs). reflexivity.
  - split; [|reflexivity]. rewrite Hst. apply Rst_stack; [exact HR| | |].
    + cbn [map]. now rewrite Hden.
    + cbn [length] in *. lia.
    + constructor; [|exact Hg2]. now apply good_node.
Qed.

Lemma sim_pop c e br ie :
  Rst (o_st c) e -> byte_at bytes (e_pc e) = Some 80 -> (exists x s, stack (o_st c) = x :: s) ->
  cont c e br ie pop_shape (e_pc e + 1).
Proof.
  intros HR Hb (x & s & Hs).
  destruct (stack_facts _ _ [x] s HR Hs) as (Hd & Hg1 & Hg2). cbn [length] in Hd.
  destruct (run_pop constant_fold cfg ie c x s Hs) as (c' & Hrun & Hst & Hkill).
  exists c', (with_pc_stack e (e_pc e + 1) (map den s)).
  split; [exact Hrun|]. split; [exact Hkill|]. split.
  - rewrite (estep_pop _ _ _ Hb), (estack1 _ _ _ _ HR Hs). reflexivity.
  - split; [|reflexivity]. rewrite Hst. apply Rst_recorded. apply Rst_stack; [exact HR|reflexivity|lia|exact Hg2].
Qed.

(* PUSH0, PC, CODESIZE, PUSHn: a constant is pushed *)
Lemma sim_const m w c e br ie npc :
  const_val ie m = Some w -> w < W -> Rst (o_st c) e ->
  estep bytes br e = push_val e (Some w) npc ->
  depth_ok (o_st c) = true -> fits cfg (Known w) = true ->
  cont c e br ie [m; MPush 0] npc.
Proof.
  intros Hm Hw HR Hstep Hd Hf. unfold depth_ok in Hd. apply Nat.ltb_lt in Hd.
  destruct (run_const constant_fold cfg ie m w c Hm Hf Hd) as (c' & Hrun & Hst & Hkill).
  exists c', (with_pc_stack e npc (Some w :: e_stack e)).
  split; [exact Hrun|]. split; [exact Hkill|]. split.
  - rewrite Hstep. unfold push_val. rewrite <- (r_stack _ _ HR), map_length.
    destruct (1024 <? N.of_nat (length (stack (o_st c))) + 1) eqn:E; [apply N.ltb_lt in E; lia|reflexivity].
  - split; [|reflexivity]. rewrite Hst. apply Rst_stack; [exact HR| | |].
    + cbn [map]. now rewrite (r_stack _ _ HR).
    + cbn [length]. lia.
    + constructor; [now apply good_known|apply (r_good _ _ HR)].
Qed.

(* an environment read pushes a value that is no constant of the path: None on the concrete side *)
Lemma sim_env o t b c e br ie :
  classify o = KEnv t b -> Rst (o_st c) e -> byte_at bytes (e_pc e) = Some b ->
  depth_ok (o_st c) = true -> fits cfg (Node t [] []) = true ->
  cont c e br ie (env_shape t) (e_pc e + 1).
Proof.
  intros Hc HR Hb Hd Hf. pose proof (table_fact o) as T. unfold kind_ok in T. rewrite Hc in T.
  destruct T as (_ & _ & _ & Hden & Hk1 & Hk2 & Hstep).
  unfold depth_ok in Hd. apply Nat.ltb_lt in Hd.
  destruct (run_env constant_fold cfg ie t c Hf Hd) as (c' & Hrun & Hst & Hkill).
  exists c', (with_pc_stack e (e_pc e + 1) (None :: e_stack e)).
  split; [exact Hrun|]. split; [exact Hkill|]. split.
  - rewrite (Hstep _ _ _ Hb). cbn [length]. rewrite <- (r_stack _ _ HR), map_length.
    destruct (1024 <? N.of_nat (S (length (stack (o_st c))))) eqn:E; [apply N.ltb_lt in E; lia|reflexivity].
  - split; [|reflexivity]. rewrite Hst. apply Rst_stack; [exact HR| | |].
    + cbn [map]. rewrite Hden. now rewrite (r_stack _ _ HR).
    + cbn [length]. lia.
    + constructor; [|apply (r_good _ _ HR)]. now apply good_node.
Qed.

Lemma sim_jumpdest c e br ie :
  Rst (o_st c) e -> byte_at bytes (e_pc e) = Some 91 -> cont c e br ie [] (e_pc e + 1).
Proof.
  intros HR Hb. exists c, (with_pc_stack e (e_pc e + 1) (e_stack e)).
  split; [reflexivity|]. split; [reflexivity|]. split; [now apply estep_jumpdest|].
  split; [now apply Rst_pc|reflexivity].
Qed.

(* ---- memory ---- *)
Lemma offset_ok_inv st e a : Rst st e -> In a (stack st) -> offset_ok a = true ->
  exists o, as_word (constant_fold a) = Some o /\ den a = Some o /\ o mod 32 = 0 /\ o < two64.
Proof.
  intros HR Hin H. unfold offset_ok in H. destruct (as_word (constant_fold a)) as [o|] eqn:E; [|discriminate].
  exists o. split; [reflexivity|]. unfold word_ok in H. apply andb_true_iff in H as [H1 H2].
  apply N.eqb_eq in H1. apply N.ltb_lt in H2. repeat split; auto.
  apply den_fold_known; [|now apply as_word_some].
  pose proof (r_good _ _ HR) as Hg. rewrite Forall_forall in Hg. now destruct (Hg _ Hin).
Qed.

Lemma last_forall {A} (P : A -> Prop) l d : Forall P l -> P d -> P (last l d).
Proof. induction 1 as [|x l Hx Hl IH]; intros Hd; cbn [last]; [exact Hd|]. destruct l; [exact Hx|]. now apply IH. Qed.

Lemma mem_get_const_sim st e o : Rst st e ->
  exists v st1, mem_get_const st o = (v, st1) /\ stack st1 = stack st /\ Rst st1 e /\ den v = emem_word e o /\ good v.
Proof.
  intros HR. unfold mem_get_const. pose proof (r_mem _ _ HR o) as Hm. unfold mem_word in Hm.
  destruct (alookup N.eqb o (mem_const st)) as [g|] eqn:E.
  - exists (last_data g), st. split; [reflexivity|]. split; [reflexivity|]. split; [exact HR|]. split; [exact Hm|]. split.
    + apply (alookup_in N.eqb N_eqb_spec) in E. pose proof (r_mem_good _ _ HR) as Hg. rewrite Forall_forall in Hg.
      specialize (Hg _ E). unfold gens_good in Hg. cbn [snd] in Hg. unfold last_data.
      apply (last_forall (fun g => wf (fst g))); [|reflexivity]. eapply Forall_impl; [|exact Hg]. now intros x [Hx _].
    + apply (alookup_in N.eqb N_eqb_spec) in E. pose proof (r_mem_good _ _ HR) as Hg. rewrite Forall_forall in Hg.
      specialize (Hg _ E). unfold gens_good in Hg. cbn [snd] in Hg. unfold last_data.
      apply (last_forall (fun g => sv_tag (fst g) <> T_UnwrittenStorageValue)); [|discriminate].
      eapply Forall_impl; [|exact Hg]. now intros x [_ Hx].
  - eexists (Known 0), _. split; [reflexivity|]. split; [reflexivity|]. split; [now apply Rst_mem_init|].
    split; [exact Hm|]. now apply good_known.
Qed.

Lemma load_words_sim e n : forall off stop st, Rst st e ->
  Rst (snd (load_words n off stop st)) e /\ stack (snd (load_words n off stop st)) = stack st.
Proof.
  induction n as [|n IH]; intros off stop st HR; cbn [load_words]; [now split|].
  destruct (off <? stop); [|now split].
  destruct (mem_get_const_sim _ _ off HR) as (v & st1 & Hget & Hst1 & HR1 & _). rewrite Hget.
  destruct (IH (off + 32) stop st1 HR1) as [H1 H2].
  destruct (load_words n (off + 32) stop st1) as [vs st2]. cbn [snd] in *. split; [exact H1|congruence].
Qed.

Lemma mem_get_sym_sim st e k : Rst st e -> Rst (snd (mem_get_sym st k)) e /\ stack (snd (mem_get_sym st k)) = stack st.
Proof.
  intros HR. unfold mem_get_sym. destruct (alookup sv_eqb k (mem_sym st)); cbn [snd]; [now split|].
  split; [now apply Rst_mem_sym|reflexivity].
Qed.

(* reading a slice of memory (RETURN, REVERT) only initialises words: the relation is unaffected *)
Lemma mem_load_slice_sim lim st e a b : Rst st e ->
  Rst (snd (mem_load_slice constant_fold lim st a b)) e /\ stack (snd (mem_load_slice constant_fold lim st a b)) = stack st.
Proof.
  intros HR. unfold mem_load_slice. destruct (as_word (constant_fold a)) as [w|]; [|now apply mem_get_sym_sim].
  destruct (as_word (constant_fold b)) as [sz|].
  - pose proof (load_words_sim e (N.to_nat (N.min (usize_of sz) lim / 32 + 1)) (usize_of w)
                  (sat_add_usize (usize_of w) (N.min (usize_of sz) lim)) st HR) as H.
    destruct (load_words _ _ _ st) as [vs st']. exact H.
  - destruct (mem_get_const_sim _ _ (usize_of w) HR) as (v & st1 & Hget & Hst1 & HR1 & _). rewrite Hget. now split.
Qed.

Lemma sim_mstore c e br ie a v s :
  Rst (o_st c) e -> byte_at bytes (e_pc e) = Some 82 -> stack (o_st c) = a :: v :: s -> offset_ok a = true ->
  cont c e br ie mstore_shape (e_pc e + 1).
Proof.
  intros HR Hb Hs Ho.
  destruct (offset_ok_inv _ _ a HR ltac:(rewrite Hs; now left) Ho) as (o & Hw & Hda & Hal32 & H64).
  destruct (stack_facts _ _ [a; v] s HR Hs) as (Hd & Hg1 & Hg2). cbn [length] in Hd.
  destruct (run_mstore constant_fold cfg ie c a v s Hs) as (c' & Hrun & Hst & Hkill).
  exists c', (mk_estate (e_pc e + 1) (map den s) (alist_set o (den v) (e_mem e)) (e_sto e) (e_hist e)).
  split; [exact Hrun|]. split; [exact Hkill|]. split.
  - rewrite (estep_mstore _ _ _ Hb), (estack2 _ _ _ _ _ HR Hs), Hda.
    replace ((o mod 32 =? 0) && (o <? two64)) with true; [reflexivity|].
    symmetry. apply andb_true_iff. split; [now apply N.eqb_eq|now apply N.ltb_lt].
  - split; [|reflexivity]. rewrite Hst. unfold mem_store. rewrite Hw.
    unfold usize_of. rewrite (N.mod_small o two64 H64).
    cbn [with_stack fork_point stack mem_const mem_sym sto_known sto_sym recorded logged].
    apply (Rst_mstore (o_st c) e o v s (map den s) (e_pc e + 1) HR); auto; [|lia].
    apply Forall_cons_iff in Hg1 as [_ Hg1]. now apply Forall_cons_iff in Hg1 as [Hg1 _].
Qed.

Lemma sim_mload c e br ie a s :
  Rst (o_st c) e -> byte_at bytes (e_pc e) = Some 81 -> stack (o_st c) = a :: s -> offset_ok a = true ->
  cont c e br ie mload_shape (e_pc e + 1).
Proof.
  intros HR Hb Hs Ho.
  destruct (offset_ok_inv _ _ a HR ltac:(rewrite Hs; now left) Ho) as (o & Hw & Hda & Hal32 & H64).
  destruct (stack_facts _ _ [a] s HR Hs) as (Hd & Hg1 & Hg2). cbn [length] in Hd.
  assert (HR1 : Rst (with_stack (o_st c) s) (with_pc_stack e (e_pc e + 1) (map den s))).
  { apply Rst_stack; auto. lia. }
  destruct (mem_get_const_sim _ _ o HR1) as (v & st1 & Hget & Hst1 & HR2 & Hdv & Hgv).
  assert (Hload : mem_load constant_fold (with_stack (o_st c) s) a = (v, st1)).
  { unfold mem_load. rewrite Hw. unfold usize_of. rewrite (N.mod_small o two64 H64). exact Hget. }
  cbn [with_stack stack] in Hst1.
  destruct (run_mload constant_fold cfg ie c a s v st1 Hs Hload Hst1 ltac:(lia)) as (c' & Hrun & Hst & Hkill).
  exists c', (with_pc_stack e (e_pc e + 1) (emem_word e o :: map den s)).
  split; [exact Hrun|]. split; [exact Hkill|]. split.
  - rewrite (estep_mload _ _ _ Hb), (estack1 _ _ _ _ HR Hs), Hda.
    replace ((o mod 32 =? 0) && (o <? two64)) with true; [reflexivity|].
    symmetry. apply andb_true_iff. split; [now apply N.eqb_eq|now apply N.ltb_lt].
  - split; [|reflexivity]. rewrite Hst.
    change (with_pc_stack e (e_pc e + 1) (emem_word e o :: map den s))
      with (with_pc_stack (with_pc_stack e (e_pc e + 1) (map den s)) (e_pc e + 1) (emem_word e o :: map den s)).
    apply Rst_stack; [exact HR2| | |].
    + cbn [map]. rewrite Hdv. reflexivity.
    + cbn [length]. lia.
    + constructor; assumption.
Qed.

(* ---- storage ---- *)
Lemma den_sload_wrap key mr : den (sload_wrap key mr) = den mr.
Proof. destruct mr as [t a l]. destruct t; reflexivity. Qed.
Lemma tag_sload_wrap key mr : sv_tag (sload_wrap key mr) = T_SLoad.
Proof. destruct mr as [t a l]. destruct t; reflexivity. Qed.
Lemma wf_sload_wrap key mr : wf key -> wf mr -> wf (sload_wrap key mr).
Proof.
  intros Hk Hm. destruct mr as [t a l].
  destruct t; try exact Hm; (apply wf_node; split; [discriminate|]; constructor; [exact Hk|constructor; [exact Hm|constructor]]).
Qed.

Lemma last_default {A} (l : list A) d d' : l <> [] -> last l d = last l d'.
Proof. induction l as [|x l IH]; [congruence|]. intros _. cbn [last]. destruct l; [reflexivity|]. apply IH. discriminate. Qed.

Lemma sto_load_sim st e k id : Rst st e -> k < W -> sload_fits cfg st (Known k) = true ->
  exists v st1 n, sto_load (Some (size_limit cfg)) id st (Known k) = (v, st1, n) /\ stack st1 = stack st
                  /\ Rst st1 e /\ den v = esto_word e k /\ good v.
Proof.
  intros HR Hk Hf. unfold sto_load, sload_fits in *. cbn [is_known as_word Known].
  pose proof (r_sto _ _ HR k) as Hsto. unfold sto_gens in Hsto.
  change (Node T_KnownData [k] []) with (Known k).
  destruct (alookup sv_eqb (Known k) (sto_known st)) as [g|] eqn:E.
  - unfold opt_build, build_limited. unfold fits in Hf. apply N.leb_le in Hf.
    destruct (size_limit cfg <? node_count (sload_wrap (Known k) (last g (Val 0)))) eqn:El; [apply N.ltb_lt in El; lia|].
    eexists _, st, id. split; [reflexivity|]. split; [reflexivity|]. split; [exact HR|].
    apply (alookup_in sv_eqb sv_eqb_eq) in E. pose proof (r_sto_ok _ _ HR) as Hok. rewrite Forall_forall in Hok.
    destruct (Hok _ E) as (_ & Hne & Hwf). cbn [snd] in Hne, Hwf.
    split; [rewrite den_sload_wrap, (last_default g (Val 0) (Known 0) Hne); exact Hsto|].
    split; [|rewrite tag_sload_wrap; discriminate].
    apply wf_sload_wrap; [now apply wf_known|]. rewrite (last_default g (Val 0) (Known 0) Hne).
    apply last_forall; [exact Hwf|now apply wf_known].
  - apply andb_true_iff in Hf as [Hf1 Hf2]. unfold opt_build, build_limited. unfold fits in Hf1, Hf2. apply N.leb_le in Hf1, Hf2.
    destruct (size_limit cfg <? node_count (Node T_UnwrittenStorageValue [] [Known k])) eqn:E1; [apply N.ltb_lt in E1; lia|].
    cbn [sload_wrap].
    destruct (size_limit cfg <? node_count (Node T_SLoad [] [Known k; Node T_UnwrittenStorageValue [] [Known k]])) eqn:E2;
      [apply N.ltb_lt in E2; lia|].
    eexists _, _, id. split; [reflexivity|]. split; [reflexivity|]. split; [now apply Rst_sto_init|].
    split; [exact Hsto|]. split; [|discriminate].
    apply wf_node. split; [discriminate|]. assert (Hwk : wf (Known k)) by now apply wf_known.
    constructor; [exact Hwk|]. constructor; [|constructor]. apply wf_node. split; [discriminate|]. now constructor.
Qed.

Lemma known_key st e key : Rst st e -> In key (stack st) -> is_known key = true -> exists k, key = Known k /\ k < W.
Proof.
  intros HR Hin Hk. unfold is_known in Hk. destruct (as_word key) as [k|] eqn:E; [|discriminate].
  apply as_word_some in E. exists k. split; [exact E|]. subst key.
  pose proof (r_good _ _ HR) as Hg. rewrite Forall_forall in Hg. destruct (Hg _ Hin) as [Hw _]. now apply wf_known.
Qed.

Lemma sim_sload c e br ie key s :
  Rst (o_st c) e -> byte_at bytes (e_pc e) = Some 84 -> stack (o_st c) = key :: s ->
  is_known key = true -> sload_fits cfg (o_st c) key = true ->
  cont c e br ie sload_shape (e_pc e + 1).
Proof.
  intros HR Hb Hs Hk Hf.
  destruct (known_key _ _ key HR ltac:(rewrite Hs; now left) Hk) as (k & -> & HkW).
  destruct (stack_facts _ _ [Known k] s HR Hs) as (Hd & Hg1 & Hg2). cbn [length] in Hd.
  assert (HR1 : Rst (with_stack (o_st c) s) (with_pc_stack e (e_pc e + 1) (map den s))).
  { apply Rst_stack; auto. lia. }
  destruct (sto_load_sim _ _ k (o_id c) HR1 HkW Hf) as (v & st1 & n & Hload & Hst1 & HR2 & Hdv & Hgv).
  cbn [with_stack stack] in Hst1.
  destruct (run_sload constant_fold cfg ie c (Known k) s v st1 n Hs Hload Hst1 ltac:(lia)) as (c' & Hrun & Hst & Hkill).
  exists c', (with_pc_stack e (e_pc e + 1) (esto_word e k :: map den s)).
  split; [exact Hrun|]. split; [exact Hkill|]. split.
  - rewrite (estep_sload _ _ _ Hb), (estack1 _ _ _ _ HR Hs). reflexivity.
  - split; [|reflexivity]. rewrite Hst.
    change (with_pc_stack e (e_pc e + 1) (esto_word e k :: map den s))
      with (with_pc_stack (with_pc_stack e (e_pc e + 1) (map den s)) (e_pc e + 1) (esto_word e k :: map den s)).
    apply Rst_stack; [exact HR2| | |].
    + cbn [map]. rewrite Hdv. reflexivity.
    + cbn [length]. lia.
    + constructor; assumption.
Qed.

Lemma sim_sstore c e br ie key v s :
  Rst (o_st c) e -> byte_at bytes (e_pc e) = Some 85 -> stack (o_st c) = key :: v :: s -> is_known key = true ->
  cont c e br ie sstore_shape (e_pc e + 1).
Proof.
  intros HR Hb Hs Hk.
  destruct (known_key _ _ key HR ltac:(rewrite Hs; now left) Hk) as (k & -> & HkW).
  destruct (stack_facts _ _ [Known k; v] s HR Hs) as (Hd & Hg1 & Hg2). cbn [length] in Hd.
  destruct (run_sstore constant_fold cfg ie c (Known k) v s Hs) as (c' & Hrun & Hst & Hkill).
  exists c', (mk_estate (e_pc e + 1) (map den s) (e_mem e) (alist_set k (den v) (e_sto e)) (e_hist e ++ [(k, den v)])).
  split; [exact Hrun|]. split; [exact Hkill|]. split.
  - rewrite (estep_sstore _ _ _ Hb), (estack2 _ _ _ _ _ HR Hs). reflexivity.
  - split; [|reflexivity]. rewrite Hst. unfold sto_store. cbn [is_known as_word Known].
    cbn [with_stack fork_point stack mem_const mem_sym sto_known sto_sym recorded logged].
    apply (Rst_sstore (o_st c) e k v s (map den s) (e_pc e + 1) HR); auto; [|lia].
    apply Forall_cons_iff in Hg1 as [_ Hg1]. now apply Forall_cons_iff in Hg1 as [Hg1 _].
Qed.

(* ---- DUPn / SWAPn, for every n ---- *)
Lemma push_val_ok st e w npc : Rst st e -> (length (stack st) < 1024)%nat ->
  push_val e w npc = ENext (with_pc_stack e npc (w :: e_stack e)).
Proof.
  intros HR Hd. unfold push_val. rewrite <- (r_stack _ _ HR), map_length.
  destruct (1024 <? N.of_nat (length (stack st)) + 1) eqn:E; [apply N.ltb_lt in E; lia|reflexivity].
Qed.

Lemma sim_dup c e br ie n :
  i_self_n ie = n -> 1 <= n <= 16 -> Rst (o_st c) e -> byte_at bytes (e_pc e) = Some (127 + n) ->
  depth_ok (o_st c) = true -> (n <=? N.of_nat (length (stack (o_st c)))) = true ->
  cont c e br ie [MDupSelf true] (e_pc e + 1).
Proof.
  intros Hn Hr HR Hb Hd Hl. unfold depth_ok in Hd. apply Nat.ltb_lt in Hd. apply N.leb_le in Hl.
  destruct (run_dup constant_fold cfg ie c n Hn ltac:(lia) ltac:(lia) Hd) as (c' & Hrun & Hst & Hkill).
  set (v := nth (N.to_nat (n - 1)) (stack (o_st c)) (Val 0)) in *.
  assert (Hlt : (N.to_nat (n - 1) < length (stack (o_st c)))%nat) by lia.
  exists c', (with_pc_stack e (e_pc e + 1) (den v :: e_stack e)).
  split; [exact Hrun|]. split; [exact Hkill|]. split.
  - rewrite (estep_dup _ _ _ _ Hb) by lia. replace (127 + n - 128) with (n - 1) by lia.
    rewrite <- (r_stack _ _ HR). unfold word. rewrite (map_nth_error den _ _ (nth_error_nth' _ (Val 0) Hlt)).
    fold v. rewrite (r_stack _ _ HR). now apply (push_val_ok (o_st c)).
  - split; [|reflexivity]. rewrite Hst. apply Rst_stack; [exact HR| | |].
    + cbn [map]. now rewrite (r_stack _ _ HR).
    + cbn [length]. lia.
    + constructor; [|apply (r_good _ _ HR)]. pose proof (r_good _ _ HR) as Hg. rewrite Forall_forall in Hg.
      apply Hg. unfold v. now apply nth_In.
Qed.

Lemma swap_sim k : forall top rest o rest', swap_nth k top rest = Some (o, rest') ->
  swap_k k (den top) (map den rest) = Some (den o, map den rest') /\ length rest' = length rest
  /\ (forall P : sv -> Prop, P top -> Forall P rest -> P o /\ Forall P rest').
Proof.
  induction k as [|k IH]; intros top [|x rest] o rest' H; cbn [swap_nth] in H; try discriminate.
  - injection H as <- <-. cbn [map swap_k length]. repeat split; auto.
    + now apply Forall_cons_iff in H0 as [? _].
    + apply Forall_cons_iff in H0 as [_ ?]. now constructor.
  - destruct (swap_nth k top rest) as [[o1 r1]|] eqn:E; [|discriminate]. injection H as <- <-.
    destruct (IH _ _ _ _ E) as (H1 & H2 & H3). cbn [map swap_k length]. rewrite H1. repeat split; auto.
    + apply Forall_cons_iff in H0 as [_ ?]. now apply (H3 P).
    + apply Forall_cons_iff in H0 as [? ?]. constructor; [assumption|]. now apply (H3 P).
Qed.

Lemma sim_swap c e br ie n :
  i_self_n ie = n -> 1 <= n <= 16 -> Rst (o_st c) e -> byte_at bytes (e_pc e) = Some (143 + n) ->
  (n <? N.of_nat (length (stack (o_st c)))) = true ->
  cont c e br ie [MSwapSelf] (e_pc e + 1).
Proof.
  intros Hn Hr HR Hb Hl. apply N.ltb_lt in Hl.
  destruct (stack (o_st c)) as [|top rest] eqn:Hs; [cbn in Hl; lia|]. cbn [length] in Hl.
  destruct (swap_nth_some (N.to_nat (n - 1)) top rest ltac:(lia)) as (o & rest' & Hw).
  destruct (run_swap constant_fold cfg ie c n top rest o rest' Hn ltac:(lia) Hs Hw ltac:(lia)) as (c' & Hrun & Hst & Hkill).
  destruct (swap_sim _ _ _ _ _ Hw) as (Hk & Hlen' & HP).
  destruct (stack_facts _ _ [top] rest HR Hs) as (Hd & Hg1 & Hg2). cbn [length] in Hd.
  exists c', (with_pc_stack e (e_pc e + 1) (den o :: map den rest')).
  split; [exact Hrun|]. split; [exact Hkill|]. split.
  - rewrite (estep_swap _ _ _ _ Hb) by lia. replace (143 + n - 144) with (n - 1) by lia.
    rewrite (estack1 _ _ _ _ HR Hs), Hk. reflexivity.
  - split; [|reflexivity]. rewrite Hst. apply Rst_stack; [exact HR|reflexivity| |].
    + cbn [length]. lia.
    + apply Forall_cons_iff in Hg1 as [Hg1 _]. destruct (HP good Hg1 Hg2). now constructor.
Qed.

(* ---- PUSHn ---- *)
Lemma be_word_fold d : forall acc, be_word d acc = fold_left (fun acc b => acc * 256 + b) d acc.
Proof. induction d as [|b d IH]; intros acc; cbn [be_word fold_left]; [reflexivity|apply IH]. Qed.

Lemma push_data_word pc n d :
  d = firstn (N.to_nat n) (skipn (N.to_nat (pc + 1)) bytes) -> length d = N.to_nat n -> push_data bytes pc n = push_word d.
Proof.
  intros Hd Hl. unfold push_data, push_word. rewrite <- Hd, Hl, Nat.sub_diag. cbn [repeat]. rewrite app_nil_r. apply be_word_fold.
Qed.

Lemma fold_word_bound d : Forall (fun b => b < 256) d -> forall acc,
  fold_left (fun acc b => acc * 256 + b) d acc < (acc + 1) * 256 ^ N.of_nat (length d).
Proof.
  induction 1 as [|b d Hb _ IH]; intros acc; cbn [fold_left length]; [rewrite N.pow_0_r; lia|].
  specialize (IH (acc * 256 + b)). rewrite Nat2N.inj_succ, N.pow_succ_r'.
  remember (256 ^ N.of_nat (length d)) as p. nia.
Qed.

Lemma push_word_range d : Forall (fun b => b < 256) d -> (length d <= 32)%nat -> push_word d < W.
Proof.
  intros Hb Hl. unfold push_word. pose proof (fold_word_bound d Hb 0) as H.
  assert (Hp : 256 ^ N.of_nat (length d) <= 256 ^ 32) by (apply N.pow_le_mono_r; lia).
  change (256 ^ 32) with W in Hp. lia.
Qed.

Lemma firstn_forall {A} (P : A -> Prop) n l : Forall P l -> Forall P (firstn n l).
Proof. intros H. revert n. induction H as [|x l Hx _ IH]; intros [|n]; cbn [firstn]; constructor; auto. Qed.
Lemma skipn_forall {A} (P : A -> Prop) n l : Forall P l -> Forall P (skipn n l).
Proof. intros H. revert n. induction H as [|x l Hx Hl IH]; intros [|n]; cbn [skipn]; auto. Qed.

(* ---- the outcome of one guarded instruction at a boundary ---- *)
Definition xres := (octx * option exec_err * option exec_err * ctl * list (N * N))%type.

Inductive outcome_ok (c : octx) (ip : N) (e : estate) (jt : list (N * N)) : xres -> bool -> N -> Prop :=
| oo_cont c' e' :
    o_kill c' = o_kill c -> byte_at bytes (e_pc e) <> Some 87 -> estep bytes false e = ENext e' ->
    Rst (o_st c') e' -> Rpc bytes code (ip + 1) (e_pc e') ->
    outcome_ok c ip e jt (c', None, None, CNone, jt) false (ip + 1)
| oo_halt c' e' :
    o_kill c' = true -> byte_at bytes (e_pc e) <> Some 87 -> byte_at bytes (e_pc e) <> None ->
    estep bytes false e = EHalt e' -> Rst (o_st c') e' ->
    outcome_ok c ip e jt (c', None, None, CNone, jt) false (ip + 1)
| oo_jump c' t e1 e2 :
    o_kill c' = o_kill c -> byte_at bytes (e_pc e) = Some 86 -> estep bytes false e = ENext e1 ->
    byte_at bytes (e_pc e1) <> Some 87 -> estep bytes false e1 = ENext e2 ->
    Rst (o_st c') e2 -> Rpc bytes code (t + 1) (e_pc e2) ->
    outcome_ok c ip e jt (c', None, None, CJump t, jt) false (t + 1)
| oo_jumpi c' serr k jt' e' :
    o_kill c' = o_kill c -> byte_at bytes (e_pc e) = Some 87 -> estep bytes false e = ENext e' ->
    Rst (o_st c') e' -> Rpc bytes code (ip + 1) (e_pc e') ->
    match k with
    | CNone => True
    | CJump _ => False
    | CFork t => exists e'', estep bytes true e = ENext e'' /\ Rst (o_st c') e'' /\ Rpc bytes code t (e_pc e'')
    end ->
    outcome_ok c ip e jt (c', None, serr, k, jt') true (ip + 1).

Lemma cont_outcome c e ie ms ip jt b :
  e_pc e = ip -> byte_at bytes ip = Some b -> b <> 87 -> bdry bytes code (ip + 1) ->
  cont c e false ie ms (ip + 1) ->
  outcome_ok c ip e jt (fst (run_mops constant_fold cfg ie ms c), snd (run_mops constant_fold cfg ie ms c), None, CNone, jt) false (ip + 1).
Proof.
  intros Hpc Hb Hne Hbd (c' & e' & Hrun & Hkill & Hstep & HR & Hnpc). rewrite Hrun. cbn [fst snd].
  apply (oo_cont _ _ _ _ c' e'); auto.
  - rewrite Hpc, Hb. congruence.
  - rewrite Hnpc. now apply Rpc_same.
Qed.

(* a JUMPDEST entry: valid for the reference EVM, a boundary, and the byte 0x5b *)
Lemma jumpdest_facts t : nth_error code (N.to_nat t) = Some (IOp control_JumpDest) ->
  valid_dest bytes t = true /\ bdry bytes code t /\ byte_at bytes t = Some 91 /\ bdry bytes code (t + 1).
Proof.
  intros Hn. destruct (jumpdest_entry_is_boundary _ _ _ Hbytes Hlen Htry Hn) as [H1 H2].
  assert (Hb : bdry bytes code t).
  { unfold bdry. split; [eapply (aligned_at _ _ Hal); [exact Hn|discriminate|discriminate]|now right]. }
  split; [apply valid_dest_iff; now split|]. split; [exact Hb|]. split; [now apply byte_at_nth|].
  pose proof (bdry_inv _ _ _ _ Hb Hn) as Hat. inversion Hat; subst; assumption.
Qed.

Lemma is_jumpi_classify o : is_jumpi (IOp o) = match classify o with KJumpI => true | _ => false end.
Proof. destruct o; reflexivity. Qed.

Lemma exec_op_plain o ms vis jt ip c : op_sem o = Some ms ->
  exec_instr constant_fold cfg code vis jt ip (IOp o) c =
  (fst (run_mops constant_fold cfg (mk_ienv ip (N.of_nat (length code)) 0 0) ms c),
   snd (run_mops constant_fold cfg (mk_ienv ip (N.of_nat (length code)) 0 0) ms c), None, CNone, jt).
Proof. intros H. unfold exec_instr. rewrite H. reflexivity. Qed.

Lemma exec_jump_eq vis jt ip c :
  exec_instr constant_fold cfg code vis jt ip (IOp control_Jump) c =
  (let '(c', e, k) := exec_jump constant_fold code c in (c', e, None, k, jt)).
Proof. reflexivity. Qed.

Lemma exec_jumpi_eq vis jt ip c :
  exec_instr constant_fold cfg code vis jt ip (IOp control_JumpI) c = exec_jumpi constant_fold cfg code vis jt c.
Proof. reflexivity. Qed.

Lemma target_facts st e counter t : Rst st e -> In counter (stack st) ->
  validate_jump constant_fold code counter = inl t ->
  den counter = Some t /\ valid_dest bytes t = true /\ bdry bytes code t /\ byte_at bytes t = Some 91 /\ bdry bytes code (t + 1).
Proof.
  intros HR Hin Hv. destruct (validate_jump_exact _ _ _ _ Hv) as (Hw & _ & _ & Hn).
  split; [|now apply jumpdest_facts].
  apply den_fold_known; [|now apply as_word_some].
  pose proof (r_good _ _ HR) as Hg. rewrite Forall_forall in Hg. now destruct (Hg _ Hin).
Qed.

Lemma sim_jump c e ip vis jt :
  Rst (o_st c) e -> e_pc e = ip -> byte_at bytes ip = Some 86 ->
  op_guard cfg code (o_st c) ip control_Jump = true ->
  outcome_ok c ip e jt (exec_instr constant_fold cfg code vis jt ip (IOp control_Jump) c) false (next_ip (o_st c) ip (IOp control_Jump)).
Proof.
  intros HR Hpc Hb Hg. unfold op_guard in Hg. cbn [classify] in Hg.
  destruct (stack (o_st c)) as [|counter s] eqn:Hs; [discriminate|].
  destruct (validate_jump constant_fold code counter) as [t|er] eqn:Hv; [|discriminate].
  destruct (target_facts _ _ counter t HR ltac:(rewrite Hs; now left) Hv) as (Hden & Hvd & Hbt & Hbyte & Hbt1).
  destruct (stack_facts _ _ [counter] s HR Hs) as (Hd & Hg1 & Hg2). cbn [length] in Hd.
  destruct (validate_jump_exact _ _ _ _ Hv) as (Hw & _).
  unfold next_ip. cbn [classify]. rewrite Hs, Hw.
  rewrite exec_jump_eq. unfold exec_jump. rewrite Hs, Hv.
  set (e1 := with_pc_stack e t (map den s)).
  set (e2 := with_pc_stack e1 (t + 1) (e_stack e1)).
  apply (oo_jump _ _ _ _ _ t e1 e2).
  - reflexivity.
  - now rewrite Hpc.
  - rewrite <- Hpc in Hb. rewrite (estep_jump _ _ _ Hb), (estack1 _ _ _ _ HR Hs), Hden, Hvd. reflexivity.
  - cbn [e1 with_pc_stack e_pc]. rewrite Hbyte. discriminate.
  - apply estep_jumpdest. exact Hbyte.
  - cbn [ctx_st o_st]. change e2 with (with_pc_stack e (t + 1) (map den s)). apply Rst_stack; auto. lia.
  - cbn [e2 with_pc_stack e_pc]. now apply Rpc_same.
Qed.

Lemma sim_jumpi c e ip vis jt :
  Rst (o_st c) e -> e_pc e = ip -> byte_at bytes ip = Some 87 -> bdry bytes code (ip + 1) ->
  op_guard cfg code (o_st c) ip control_JumpI = true ->
  outcome_ok c ip e jt (exec_instr constant_fold cfg code vis jt ip (IOp control_JumpI) c) true (ip + 1).
Proof.
  intros HR Hpc Hb Hbd Hg. unfold op_guard in Hg. cbn [classify] in Hg.
  destruct (stack (o_st c)) as [|counter [|cond s]] eqn:Hs; try discriminate.
  destruct (stack_facts _ _ [counter; cond] s HR Hs) as (Hd & Hg1 & Hg2). cbn [length] in Hd.
  rewrite exec_jumpi_eq. unfold exec_jumpi. rewrite Hs.
  set (e' := with_pc_stack e (ip + 1) (map den s)).
  assert (Hstep : estep bytes false e = ENext e').
  { rewrite <- Hpc in Hb. rewrite (estep_jumpi _ _ _ Hb), (estack2 _ _ _ _ _ HR Hs), Hpc. reflexivity. }
  assert (HR' : Rst (with_recorded (with_stack (o_st c) s) cond) e').
  { apply Rst_recorded. apply Rst_stack; auto. lia. }
  assert (Hb' : byte_at bytes (e_pc e) = Some 87) by now rewrite Hpc.
  assert (Hrpc : Rpc bytes code (ip + 1) (e_pc e')) by (cbn [e' with_pc_stack e_pc]; now apply Rpc_same).
  destruct (validate_jump constant_fold code counter) as [t|er] eqn:Hv.
  - destruct (target_facts _ _ counter t HR ltac:(rewrite Hs; now left) Hv) as (Hden & Hvd & Hbt & Hbyte & Hbt1).
    destruct (iter_limit cfg <=? count_of t vis); [|destruct (fork_limit cfg <=? count_of t jt)].
    + apply (oo_jumpi _ _ _ _ _ _ _ _ e'); auto.
    + apply (oo_jumpi _ _ _ _ _ _ _ _ e'); auto.
    + apply (oo_jumpi _ _ _ _ _ _ _ _ e'); auto.
      exists (with_pc_stack e t (map den s)). split; [|split].
      * rewrite (estep_jumpi _ _ _ Hb'), (estack2 _ _ _ _ _ HR Hs), Hden, Hvd. reflexivity.
      * cbn [ctx_st o_st]. apply Rst_recorded. apply Rst_stack; auto. lia.
      * cbn [with_pc_stack e_pc]. now apply Rpc_same.
  - apply (oo_jumpi _ _ _ _ _ _ _ _ e'); auto. cbn [ctx_st o_st]. now apply Rst_recorded.
Qed.

Lemma sim_stop c e ip vis jt :
  Rst (o_st c) e -> e_pc e = ip -> byte_at bytes ip = Some 0 ->
  outcome_ok c ip e jt (exec_instr constant_fold cfg code vis jt ip (IOp control_Stop) c) false (ip + 1).
Proof.
  intros HR Hpc Hb. pose proof (table_fact control_Stop) as T. unfold kind_ok in T. cbn [classify] in T. destruct T as [Hsem _].
  rewrite (exec_op_plain _ _ _ _ _ _ Hsem).
  destruct (run_kill constant_fold cfg (mk_ienv ip (N.of_nat (length code)) 0 0) c) as (c' & Hrun & Hst & Hk).
  rewrite Hrun. cbn [fst snd]. apply (oo_halt _ _ _ _ c' e); auto.
  - rewrite Hpc, Hb. discriminate.
  - rewrite Hpc, Hb. discriminate.
  - apply estep_stop. now rewrite Hpc.
  - now rewrite Hst.
Qed.

Lemma sim_halt2 o t b c e ip vis jt :
  classify o = KHalt2 t b -> Rst (o_st c) e -> e_pc e = ip -> byte_at bytes ip = Some b ->
  (exists x y s, stack (o_st c) = x :: y :: s) ->
  outcome_ok c ip e jt (exec_instr constant_fold cfg code vis jt ip (IOp o) c) false (ip + 1).
Proof.
  intros Hc HR Hpc Hb (x & y & s & Hs). pose proof (table_fact o) as T. unfold kind_ok in T. rewrite Hc in T.
  destruct T as (Hsem & _ & Hne & Hstep).
  destruct (stack_facts _ _ [x; y] s HR Hs) as (Hd & Hg1 & Hg2). cbn [length] in Hd.
  rewrite (exec_op_plain _ _ _ _ _ _ Hsem).
  destruct (run_halt2 constant_fold cfg (mk_ienv ip (N.of_nat (length code)) 0 0) t c x y s Hs)
    as (c' & v & st1 & rv & Hload & Hrun & Hst & Hk).
  rewrite Hrun. cbn [fst snd].
  assert (HR1 : Rst (with_stack (o_st c) s) (with_pc_stack e (e_pc e) (map den s))) by (apply Rst_stack; auto; lia).
  destruct (mem_load_slice_sim (mem_limit cfg) _ _ x y HR1) as [HR2 _]. rewrite Hload in HR2. cbn [snd] in HR2.
  apply (oo_halt _ _ _ _ c' (with_pc_stack e (e_pc e) (map den s))); auto.
  - rewrite Hpc, Hb. congruence.
  - rewrite Hpc, Hb. discriminate.
  - rewrite <- Hpc in Hb. rewrite (Hstep _ _ _ Hb), (estack2 _ _ _ _ _ HR Hs). reflexivity.
  - rewrite Hst. now apply Rst_recorded.
Qed.

Lemma sim_selfdestruct c e ip vis jt :
  Rst (o_st c) e -> e_pc e = ip -> byte_at bytes ip = Some 255 -> (exists x s, stack (o_st c) = x :: s) ->
  outcome_ok c ip e jt (exec_instr constant_fold cfg code vis jt ip (IOp environment_SelfDestruct) c) false (ip + 1).
Proof.
  intros HR Hpc Hb (x & s & Hs). pose proof (table_fact environment_SelfDestruct) as T. unfold kind_ok in T.
  cbn [classify] in T. destruct T as (Hsem & _ & Hstep).
  destruct (stack_facts _ _ [x] s HR Hs) as (Hd & Hg1 & Hg2). cbn [length] in Hd.
  rewrite (exec_op_plain _ _ _ _ _ _ Hsem).
  destruct (run_selfdestruct constant_fold cfg (mk_ienv ip (N.of_nat (length code)) 0 0) c x s Hs) as (c' & rv & Hrun & Hst & Hk).
  rewrite Hrun. cbn [fst snd].
  apply (oo_halt _ _ _ _ c' (with_pc_stack e (e_pc e) (map den s))); auto.
  - rewrite Hpc, Hb. discriminate.
  - rewrite Hpc, Hb. discriminate.
  - rewrite <- Hpc in Hb. rewrite (Hstep _ _ _ Hb), (estack1 _ _ _ _ HR Hs). reflexivity.
  - rewrite Hst. apply Rst_recorded. apply Rst_stack; auto. lia.
Qed.

(* ---- one guarded instruction at a boundary ---- *)
Theorem exec_sim c e i vis jt :
  Rst (o_st c) e -> bdry bytes code (e_pc e) -> nth_error code (N.to_nat (e_pc e)) = Some i ->
  instr_guard cfg code (o_st c) (e_pc e) i = true ->
  outcome_ok c (e_pc e) e jt (exec_instr constant_fold cfg code vis jt (e_pc e) i c) (is_jumpi i) (next_ip (o_st c) (e_pc e) i).
Proof.
  intros HR Hbd Hi Hg. pose proof (bdry_inv _ _ _ _ Hbd Hi) as Hat.
  inversion Hat as [b i0 Hnb Hp Hdec Hbd1|b d Hnb Hp Hld Hd Hnops Hbd1|b Hnb Hp]; subst.
  - (* an ordinary one-byte instruction *)
    pose proof (byte_lt _ Hbytes _ _ Hnb) as Hb256. pose proof (byte_at_nth _ _ Hnb) as Hb.
    destruct (plain_ok b Hb256 Hp) as (i' & Hi' & _ & Hnop & Hnpush & _). rewrite Hdec in Hi'. injection Hi' as <-.
    destruct i as [o|n d|n|n|n| |b'].
    + (* IOp *)
      pose proof (decode_op _ _ Hb256 Hp Hdec) as ->.
      cbn [instr_guard] in Hg. rewrite is_jumpi_classify. unfold next_ip.
      pose proof (table_fact o) as T. unfold kind_ok in T. unfold op_guard in Hg.
      destruct (classify o) as [t b f|t b f| | | | | | | | | | | | |t b| |t b| ] eqn:Hc.
      * destruct T as (Hsem & Hbyte & _ & _ & _ & _ & Hne). rewrite Hbyte in *.
        destruct (stack (o_st c)) as [|x [|y s]] eqn:Hs; try discriminate.
        rewrite (exec_op_plain _ _ _ _ _ _ Hsem). eapply cont_outcome; eauto.
        eapply sim_bin; eauto.
      * destruct T as (Hsem & Hbyte & _ & _ & _ & _ & Hne). rewrite Hbyte in *.
        destruct (stack (o_st c)) as [|x s] eqn:Hs; try discriminate.
        rewrite (exec_op_plain _ _ _ _ _ _ Hsem). eapply cont_outcome; eauto.
        eapply sim_un; eauto.
      * destruct T as (Hsem & Hbyte). rewrite Hbyte in *.
        destruct (stack (o_st c)) as [|x s] eqn:Hs; try discriminate.
        rewrite (exec_op_plain _ _ _ _ _ _ Hsem). eapply cont_outcome; eauto; [discriminate|].
        apply sim_pop; eauto.
      * destruct T as (Hsem & Hbyte). rewrite Hbyte in *. apply andb_true_iff in Hg as [Hg1 Hg2].
        rewrite (exec_op_plain _ _ _ _ _ _ Hsem). eapply cont_outcome; eauto; [discriminate|].
        apply (sim_const _ (e_pc e)); [reflexivity| |exact HR| |exact Hg1|exact Hg2].
        -- pose proof (nth_error_Some code (N.to_nat (e_pc e))) as Hlt. rewrite Hi in Hlt.
           assert (N.to_nat (e_pc e) < length code)%nat by (apply Hlt; discriminate).
           rewrite code_len in *. unfold W, two32 in *. lia.
        -- now apply estep_pc.
      * destruct T as (Hsem & Hbyte). rewrite Hbyte in *. apply andb_true_iff in Hg as [Hg1 Hg2].
        rewrite (exec_op_plain _ _ _ _ _ _ Hsem). eapply cont_outcome; eauto; [discriminate|].
        apply (sim_const _ (N.of_nat (length code))); [reflexivity| |exact HR| |exact Hg1|exact Hg2].
        -- rewrite code_len. unfold W, two32 in *. lia.
        -- rewrite code_len. now apply estep_codesize.
      * destruct T as (Hsem & Hbyte). rewrite Hbyte in *. apply andb_true_iff in Hg as [Hg1 Hg2].
        rewrite (exec_op_plain _ _ _ _ _ _ Hsem). eapply cont_outcome; eauto; [discriminate|].
        apply (sim_const _ 0); [reflexivity|reflexivity|exact HR| |exact Hg1|exact Hg2]. now apply estep_push0.
      * destruct T as (Hsem & Hbyte). rewrite Hbyte in *.
        rewrite (exec_op_plain _ _ _ _ _ _ Hsem). eapply cont_outcome; eauto; [discriminate|].
        now apply sim_jumpdest.
      * destruct T as (Hsem & Hbyte). rewrite Hbyte in *.
        assert (o = control_Stop) as -> by (destruct o; try discriminate Hc; reflexivity).
        now apply sim_stop.
      * destruct T as (Hsem & Hbyte). rewrite Hbyte in *.
        destruct (stack (o_st c)) as [|x [|y s]] eqn:Hs; try discriminate.
        rewrite (exec_op_plain _ _ _ _ _ _ Hsem). eapply cont_outcome; eauto; [discriminate|].
        eapply sim_mstore; eauto.
      * destruct T as (Hsem & Hbyte). rewrite Hbyte in *.
        destruct (stack (o_st c)) as [|x s] eqn:Hs; try discriminate.
        rewrite (exec_op_plain _ _ _ _ _ _ Hsem). eapply cont_outcome; eauto; [discriminate|].
        eapply sim_mload; eauto.
      * destruct T as (Hsem & Hbyte). rewrite Hbyte in *.
        destruct (stack (o_st c)) as [|x s] eqn:Hs; try discriminate. apply andb_true_iff in Hg as [Hg1 Hg2].
        rewrite (exec_op_plain _ _ _ _ _ _ Hsem). eapply cont_outcome; eauto; [discriminate|].
        eapply sim_sload; eauto.
      * destruct T as (Hsem & Hbyte). rewrite Hbyte in *.
        destruct (stack (o_st c)) as [|x [|y s]] eqn:Hs; try discriminate.
        rewrite (exec_op_plain _ _ _ _ _ _ Hsem). eapply cont_outcome; eauto; [discriminate|].
        eapply sim_sstore; eauto.
      * destruct T as (_ & -> & Hbyte). rewrite Hbyte in *.
        change (outcome_ok c (e_pc e) e jt (exec_instr constant_fold cfg code vis jt (e_pc e) (IOp control_Jump) c) false (next_ip (o_st c) (e_pc e) (IOp control_Jump))).
        apply sim_jump; auto.
      * destruct T as (_ & -> & Hbyte). rewrite Hbyte in *. apply sim_jumpi; auto.
      * destruct T as (_ & Hbyte & _). rewrite Hbyte in *.
        destruct (stack (o_st c)) as [|x [|y s]] eqn:Hs; try discriminate.
        eapply sim_halt2; eauto.
      * destruct T as (_ & Hbyte & _). rewrite Hbyte in *.
        assert (o = environment_SelfDestruct) as -> by (destruct o; try discriminate Hc; reflexivity).
        destruct (stack (o_st c)) as [|x s] eqn:Hs; try discriminate.
        apply sim_selfdestruct; eauto.
      * destruct T as (Hsem & Hbyte & Hne & _). rewrite Hbyte in *. apply andb_true_iff in Hg as [Hg1 Hg2].
        rewrite (exec_op_plain _ _ _ _ _ _ Hsem). eapply cont_outcome; eauto.
        eapply sim_env; eauto.
      * discriminate.
    + exfalso. eapply Hnpush. reflexivity.
    + (* IDup *)
      destruct (decode_dup _ _ Hb256 Hp Hdec) as [-> Hr]. cbn [instr_guard is_jumpi next_ip] in *.
      apply andb_true_iff in Hg as [Hg1 Hg2].
      change (exec_instr constant_fold cfg code vis jt (e_pc e) (IDup n) c)
        with (fst (run_mops constant_fold cfg (mk_ienv (e_pc e) (N.of_nat (length code)) 0 n) dupn_sem c),
              snd (run_mops constant_fold cfg (mk_ienv (e_pc e) (N.of_nat (length code)) 0 n) dupn_sem c), @None exec_err, CNone, jt).
      eapply cont_outcome; eauto; [lia|]. rewrite dupn_sem_shape. apply (sim_dup c e false _ n); auto.
    + (* ISwap *)
      destruct (decode_swap _ _ Hb256 Hp Hdec) as [-> Hr]. cbn [instr_guard is_jumpi next_ip] in *.
      change (exec_instr constant_fold cfg code vis jt (e_pc e) (ISwap n) c)
        with (fst (run_mops constant_fold cfg (mk_ienv (e_pc e) (N.of_nat (length code)) 0 n) swapn_sem c),
              snd (run_mops constant_fold cfg (mk_ienv (e_pc e) (N.of_nat (length code)) 0 n) swapn_sem c), @None exec_err, CNone, jt).
      eapply cont_outcome; eauto; [lia|]. rewrite swapn_sem_shape. apply (sim_swap c e false _ n); auto.
    + discriminate.
    + congruence.
    + (* INVALID (0xfe) and the unassigned bytes *)
      cbn [instr_guard is_jumpi next_ip] in *.
      destruct (plain_ok b Hb256 Hp) as (i' & Hi' & He & _). rewrite Hdec in Hi'. injection Hi' as <-.
      cbn [encode] in He. injection He as ->.
      change (exec_instr constant_fold cfg code vis jt (e_pc e) (IInvalid b) c)
        with (fst (run_mops constant_fold cfg (mk_ienv (e_pc e) (N.of_nat (length code)) 0 0) invalid_sem c),
              snd (run_mops constant_fold cfg (mk_ienv (e_pc e) (N.of_nat (length code)) 0 0) invalid_sem c), @None exec_err, CNone, jt).
      assert (Hsem : invalid_sem = [MKill]) by reflexivity. rewrite Hsem.
      destruct (run_kill constant_fold cfg (mk_ienv (e_pc e) (N.of_nat (length code)) 0 0) c) as (c' & Hrun & Hst & Hk).
      rewrite Hrun. cbn [fst snd]. apply (oo_halt _ _ _ _ c' e); auto.
      * rewrite Hb. intros [= ->]. vm_compute in Hg. discriminate Hg.
      * rewrite Hb. discriminate.
      * now apply (estep_halts _ _ _ b).
      * now rewrite Hst.
  - (* PUSHn with its n bytes of data *)
    pose proof (byte_lt _ Hbytes _ _ Hnb) as Hb256. pose proof (byte_at_nth _ _ Hnb) as Hb.
    destruct (DisasmProofs.push_ok b Hb256 Hp) as (_ & Hrange & _). unfold PUSH_OPCODE_BASE_VALUE, PUSH_OPCODE_MAX_BYTES in *.
    cbn [instr_guard is_jumpi next_ip] in *. apply andb_true_iff in Hg as [Hg1 Hg2].
    set (d := firstn (N.to_nat (b - 95)) (skipn (N.to_nat (e_pc e + 1)) bytes)) in *.
    change (exec_instr constant_fold cfg code vis jt (e_pc e) (IPush (b - 95) d) c)
      with (fst (run_mops constant_fold cfg (mk_ienv (e_pc e) (N.of_nat (length code)) (push_word d) 0) pushn_sem c),
            snd (run_mops constant_fold cfg (mk_ienv (e_pc e) (N.of_nat (length code)) (push_word d) 0) pushn_sem c), @None exec_err, CNone, jt).
    rewrite pushn_sem_shape.
    assert (Hc : cont c e false (mk_ienv (e_pc e) (N.of_nat (length code)) (push_word d) 0) [MConstSelfWord 0; MPush 0] (e_pc e + 1 + (b - 95))).
    { apply (sim_const _ (push_word d)); [reflexivity| |exact HR| |exact Hg1|exact Hg2].
      - apply push_word_range; [|unfold byte in *; rewrite Hld; lia]. unfold d. apply firstn_forall, skipn_forall. exact Hbytes.
      - rewrite (estep_push _ _ _ _ Hb) by lia. rewrite (push_data_word _ _ d eq_refl Hld). reflexivity. }
    destruct Hc as (c' & e' & Hrun & Hkill & Hstep & HR' & Hnpc). rewrite Hrun. cbn [fst snd].
    apply (oo_cont _ _ _ _ c' e'); auto.
    + rewrite Hb. intros [= E]. lia.
    + rewrite Hnpc. constructor; [lia| |exact Hbd1]. intros j Hj. apply Hnops. lia.
  - (* a PUSH truncated by the end of the code is not in the fragment *)
    cbn [instr_guard] in Hg. destruct (DisasmProofs.push_ok b (byte_lt _ Hbytes _ _ Hnb) Hp) as (_ & Hrange & _).
    unfold PUSH_OPCODE_BASE_VALUE, PUSH_OPCODE_MAX_BYTES in Hrange.
    rewrite evm_halts_not_push in Hg by lia. discriminate Hg.
Qed.

End StepSim.
