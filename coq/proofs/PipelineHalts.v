(* C03 end to end (props/C03_pipeline.v): with enough fuel the composed model never returns one of its own out-of-fuel
   results.  The fuel record that suffices, for a program whose judgement set is packed-free:
     f_vm fu     > (1 + F * len) * (I * len + 1)          C03's bound on the main loop of VM::execute (VmBounds.step_bound)
     f_rounds fu >= |variables of the judgement set| + 2  C03's bound on the rounds of unification::unify on the packed-free
                                                          fragment (UnifyProofs.unify_terminates_packed_free_proof)
   the union-find fuel is internal to DisjointSet.v and always sufficient (no `UFindFuel`), and abi_type_for runs with
   `number of variables + 1` (AbiProofs.abi_terminates_gen). *)
From Coq Require Import String Permutation.
From SLX Require Import Base gen.Constants gen.ValueSig gen.RulesSig SymVal Disasm VM Fold TypeExpr Merge VectorMap DisjointSet
  Register Rules Unify AbiT Layout Abi NoPanic Pipeline PipelineOrderDefs.
From SLX.proofs Require Import DisasmProofs VmBounds UnifyProofs AbiProofs TcStagesProofs PipelinePolls PipelineProofs PipelineOrder.
Open Scope N_scope.

Definition out_of_fuel (r : pipeline_result) : bool :=
  match r with
  | PFuelVm | PFuelUnify | PFuelFind | PErrAbi EOutOfFuel => true
  | _ => false
  end.

(* ---- the VM ---- *)
Lemma run_enough fold a b m : (a <= b)%nat ->
  match run fold a m with ROutOfFuel _ => False | _ => True end ->
  match run fold b m with ROutOfFuel _ => False | _ => True end.
Proof.
  intros Hab H. replace b with (a + (b - a))%nat by lia. rewrite run_add.
  destruct (run fold a m); [exact I|exact I|contradiction].
Qed.

Lemma vm_phase_no_fuel fu bytes (cfg : config) :
  bytes_ok bytes -> N.of_nat (length bytes) <= two32 -> 1 <= iter_limit cfg ->
  (forall code, try_from bytes = Ok code -> step_bound code cfg < Npos (f_vm fu)) ->
  forall r polls, vm_phase_of fu bytes cfg = VmFail r polls -> out_of_fuel r = false.
Proof.
  intros Hb Hl Hi Hf r polls. unfold vm_phase_of.
  destruct (try_from bytes) as [code|e|s] eqn:Et; try (intros [= <- _]; reflexivity).
  destruct (poll_every cfg =? 0); [intros [= <- _]; reflexivity|].
  assert (Hne : code <> []).
  { destruct (C10_lossless_proof bytes code Hb Hl Et) as [Hlen _]. pose proof (try_from_ok_nonempty _ _ Et) as Hn.
    intros ->. destruct bytes; [congruence|discriminate Hlen]. }
  pose proof (execute_terminates constant_fold code cfg Hi Hne) as Ht.
  assert (Hlt : (S (N.to_nat (step_bound code cfg)) <= Pos.to_nat (f_vm fu))%nat) by (pose proof (Hf code eq_refl); lia).
  pose proof (run_enough constant_fold _ (Pos.to_nat (f_vm fu)) _ Hlt Ht) as Hr.
  rewrite run_p_run. destruct (run constant_fold (Pos.to_nat (f_vm fu)) (init_vm code cfg)) as [m|ip m|m]; [| |contradiction].
  - destruct (v_errors m); intros [= <- _]; reflexivity.
  - intros [= <- _]. reflexivity.
Qed.

(* ---- the front half fails with a lifting / inference error or a panic ---- *)
Lemma front_fail_no_fuel keccak table mf stored e : front_plain keccak table mf stored = inr e -> out_of_fuel e = false.
Proof.
  intros Ef. unfold front_plain in Ef. cbv zeta in Ef.
  destruct (fold_e (lift_body keccak table) (unique (all_values mf stored)) ([], false)) as [[acc failed]|e0] eqn:E1.
  + destruct failed; [injection Ef as <-; reflexivity|].
    destruct (fold_e reg_body (rev acc) empty_tcs) as [st|e1] eqn:E2.
    * clear E1 E2. revert Ef. generalize (tc_values mf (Register.values st)). generalize st. intros st0 l. revert st0.
      induction l as [|x t IH]; intros st0; cbn [fold_e]; [discriminate|].
      unfold infer_body at 1. destruct (Rules.infer_value (pipeline_rules mf) x st0) as [st1| |].
      -- apply IH.
      -- intros [= <-]. reflexivity.
      -- intros [= <-]. reflexivity.
    * exfalso. clear E1 Ef. revert E2. generalize empty_tcs. induction (rev acc) as [|x t IH]; intros s0; cbn [fold_e]; [discriminate|].
      unfold reg_body at 1. apply IH.
  + injection Ef as <-. revert E1. generalize (([], false) : list sv * bool).
    induction (unique (all_values mf stored)) as [|x t IH]; intros s0; cbn [fold_e]; [discriminate|].
    unfold lift_body at 1. destruct (lift_value keccak table x) as [v'| |].
    * apply IH.
    * apply IH.
    * intros [= <-]. reflexivity.
Qed.

(* ---- the layout loop: abi_type_for with `number of variables + 1` ---- *)
Lemma layout_no_fuel s n slots : forall layout e,
  fold_e (layout_body (env_of_forest s n) (S (N.to_nat n))) slots layout = inr e -> out_of_fuel e = false.
Proof.
  assert (Ht : forall v, abi_type_for abi_nested_add abi_nested_fit (env_of_forest s n) (S (N.to_nat n)) v <> Err EOutOfFuel).
  { intros v. replace (N.to_nat n) with (length (vars_below n)) by (unfold vars_below; rewrite map_length, seq_length; reflexivity).
    apply (abi_terminates_gen abi_nested_add abi_nested_fit gen_add_no_err).
    intros w Hw. cbn [env_of_forest ty_data] in Hw. destruct (w <? n) eqn:E; [|congruence]. apply N.ltb_lt in E.
    unfold vars_below. apply in_map_iff. exists (N.to_nat w). split; [apply N2Nat.id|]. apply in_seq. lia. }
  induction slots as [|x t IH]; intros layout e; cbn [fold_e]; [discriminate|].
  rewrite layout_body_rows. unfold slot_rows. destruct (const_slot_key x) as [index|]; [|apply IH].
  specialize (Ht (tv_of x)).
  destruct (abi_type_for abi_nested_add abi_nested_fit (env_of_forest s n) (S (N.to_nat n)) (tv_of x)) as [v|err|p].
  - apply IH.
  - intros [= <-]. destruct err; try reflexivity. congruence.
  - intros [= <-]. reflexivity.
Qed.

(* ---- the type checker without a watchdog ---- *)
Lemma analyze_plain_no_fuel keccak table mode fu stored :
  (forall st', front_plain keccak table mode stored = inl st' ->
     packed_free (tstate_of st') = true /\ (length (ts_vars (tstate_of st')) + 2 <= f_rounds fu)%nat) ->
  out_of_fuel (analyze_plain keccak table mode fu stored) = false.
Proof.
  intros H. rewrite <- analyze_mixed_same. unfold analyze_mixed.
  destruct (front_plain keccak table mode stored) as [st'|e] eqn:Ef; [|eapply front_fail_no_fuel, Ef].
  destruct (H st' eq_refl) as [Hpf Hfuel]. unfold back_run.
  destruct (unify_terminates_packed_free_proof (orders_of mode) (tstate_of st') (f_rounds fu) (orders_of_ok' mode) Hpf Hfuel) as (s & U).
  rewrite U. cbn [ures_res].
  destruct (fold_e _ _ []) as [l|e] eqn:El; [reflexivity|]. eapply layout_no_fuel, El.
Qed.

(* ---- the whole analysis ---- *)
Theorem pipeline_halts_lemma keccak table mode fu bytes (cfg : config) :
  bytes_ok bytes -> N.of_nat (length bytes) <= two32 -> 1 <= iter_limit cfg ->
  (forall code, try_from bytes = Ok code -> step_bound code cfg < Npos (f_vm fu)) ->
  (forall stored polls st', vm_phase_of fu bytes cfg = VmOk stored polls -> front_plain keccak table mode stored = inl st' ->
     packed_free (tstate_of st') = true /\ (length (ts_vars (tstate_of st')) + 2 <= f_rounds fu)%nat) ->
  out_of_fuel (analyze_model_fuel keccak table mode fu bytes cfg) = false.
Proof.
  intros Hb Hl Hi Hvm Htc. unfold analyze_model_fuel, analyze_trace.
  destruct (vm_phase_of fu bytes cfg) as [r polls|stored polls] eqn:Ev.
  - cbn [no_trace t_result]. eapply vm_phase_no_fuel; eassumption.
  - pose proof (analyze_tc_spec keccak table mode fu cfg polls (order_determined stored) stored) as G. cbv zeta in G.
    destruct G as ([G|(st & G)] & _); rewrite G; [|reflexivity].
    apply analyze_plain_no_fuel. intros st' Hf. eapply Htc; [reflexivity|exact Hf].
Qed.

(* non-vacuity of the fuel record on the default fuels: 2^40 steps, 64 rounds *)
Lemma default_fuels_are : f_vm default_fuels = (2 ^ 40)%positive /\ f_rounds default_fuels = 64%nat.
Proof. split; reflexivity. Qed.

(* non-vacuity: PUSH1 1; PUSH0; SSTORE; STOP *)
Lemma halts_example_ok :
  let bytes := [96; 1; 95; 85; 0] in
  let cfg := mk_config 30000000 5 10 250 394 false 100 None in
  let keccak := fun _ : list byte => 0 in
  bytes_ok bytes /\ N.of_nat (length bytes) <= two32 /\ 1 <= iter_limit cfg /\
  (exists code, try_from bytes = Ok code /\ step_bound code cfg < Npos (f_vm default_fuels)) /\
  (exists stored polls st', vm_phase_of default_fuels bytes cfg = VmOk stored polls /\
     front_plain keccak [] MSorted stored = inl st' /\
     packed_free (tstate_of st') = true /\ (length (ts_vars (tstate_of st')) + 2 <= f_rounds default_fuels)%nat) /\
  is_layout (analyze_model keccak [] bytes cfg) = true.
Proof.
  cbv zeta. split; [unfold bytes_ok; repeat constructor|]. split; [vm_compute; discriminate|]. split; [vm_compute; discriminate|].
  split; [eexists; split; [vm_compute; reflexivity|vm_compute; reflexivity]|].
  split; [|vm_compute; reflexivity].
  eexists; eexists; eexists. split; [vm_compute; reflexivity|]. split; [vm_compute; reflexivity|].
  split; [vm_compute; reflexivity|vm_compute; lia].
Qed.
