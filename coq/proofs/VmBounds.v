(* C03 (VM part): visit / fork / thread / gas bounds for every reachable machine state and
   termination of VM::execute within an explicit number of main-loop iterations -- for ANY
   constant-folding function and whatever the opcode bodies do (they cannot touch the visit
   counters, the fork tracker or the instruction pointer except through the control request). *)
From SLX Require Import Base gen.Constants gen.ValueSig gen.OpcodeTable SymVal Micro gen.OpcodeSem Disasm VM.
Open Scope N_scope.

(* ---- counters kept in association lists ---- *)
Lemma count_bump_same o l : count_of o (bump o l) = count_of o l + 1.
Proof.
  unfold count_of, bump. induction l as [|[k v] l IH]; cbn.
  - rewrite N.eqb_refl. reflexivity.
  - destruct (o =? k) eqn:E; cbn; rewrite E; [reflexivity|exact IH].
Qed.

Lemma count_bump_other o x l : x <> o -> count_of x (bump o l) = count_of x l.
Proof.
  intros Hne. unfold count_of, bump. induction l as [|[k v] l IH]; cbn.
  - destruct (x =? o) eqn:E; [apply N.eqb_eq in E; congruence|reflexivity].
  - destruct (o =? k) eqn:E; cbn.
    + apply N.eqb_eq in E. subst k. destruct (x =? o) eqn:E2; [apply N.eqb_eq in E2; congruence|reflexivity].
    + destruct (x =? k); [reflexivity|exact IH].
Qed.

Lemma count_bump x o l : count_of x (bump o l) = if x =? o then count_of x l + 1 else count_of x l.
Proof.
  destruct (x =? o) eqn:E.
  - apply N.eqb_eq in E. subst. apply count_bump_same.
  - apply N.eqb_neq in E. now apply count_bump_other.
Qed.

(* sum of the counters at offsets 0 .. n-1 *)
Fixpoint sumc (l : list (N * N)) (n : nat) : N :=
  match n with O => 0 | S k => sumc l k + count_of (N.of_nat k) l end.

Lemma sumc_bump_out l o n : N.of_nat n <= o -> sumc (bump o l) n = sumc l n.
Proof.
  induction n as [|n IH]; intros H; [reflexivity|]. cbn [sumc]. rewrite IH by lia.
  rewrite count_bump_other by lia. reflexivity.
Qed.

Lemma sumc_bump_in l o n : o < N.of_nat n -> sumc (bump o l) n = sumc l n + 1.
Proof.
  induction n as [|n IH]; intros H; [lia|]. cbn [sumc].
  destruct (N.eq_dec (N.of_nat n) o) as [E|Hne].
  - rewrite sumc_bump_out by lia. rewrite <- E, count_bump_same. lia.
  - rewrite IH by lia. rewrite count_bump_other by auto. lia.
Qed.

Lemma sumc_le_const l n c : (forall o, count_of o l <= c) -> sumc l n <= c * N.of_nat n.
Proof. intros H. induction n as [|n IH]; cbn [sumc]; [lia|]. specialize (H (N.of_nat n)). lia. Qed.

Lemma sumc_nil n : sumc [] n = 0.
Proof. induction n; cbn [sumc]; auto. rewrite IHn. reflexivity. Qed.

Section Bounds.
Variable fold : sv -> sv.
Variable code : list instr.
Variable cfg : config.
Let len := N.of_nat (length code).
Let I := iter_limit cfg.
Let F := fork_limit cfg.
Hypothesis HI : 1 <= I.
Hypothesis Hcode : code <> [].

Lemma Hlen : 1 <= len.
Proof. unfold len. destruct code; [congruence|cbn [length]; lia]. Qed.

Definition jumpdest_at (t : N) : Prop := exists i, nth_error code (N.to_nat t) = Some i /\ is_jumpdest i = true.

(* what the control request of an instruction can be *)
Definition ctl_ok (vis jt : list (N * N)) (k : ctl) (jt' : list (N * N)) (err : option exec_err) : Prop :=
  match k with
  | CNone => jt' = jt
  | CJump t => jt' = jt /\ t < len
  | CFork t => t < len /\ count_of t vis < I /\ count_of t jt < F /\ jt' = bump t jt /\ jumpdest_at t /\ err = None
  end.

Lemma validate_jump_inl counter t : validate_jump fold code counter = inl t -> t < len /\ jumpdest_at t.
Proof.
  unfold validate_jump. destruct (as_word (fold counter)) as [w|]; [|discriminate].
  destruct (two32 <=? w); [discriminate|].
  destruct (N.of_nat (length code) <=? w); [discriminate|].
  destruct (nth_error code (N.to_nat w)) as [i|] eqn:E; [|discriminate].
  destruct (is_jumpdest i) eqn:Ej; [|discriminate]. intros [= <-]. split.
  - assert (H : (N.to_nat w < length code)%nat) by (apply nth_error_Some; congruence). unfold len. lia.
  - exists i. auto.
Qed.

Lemma exec_jump_ctl c c' e k : exec_jump fold code c = (c', e, k) -> forall vis jt, ctl_ok vis jt k jt e.
Proof.
  unfold exec_jump. destruct (stack (o_st c)) as [|counter s]; [intros [= <- <- <-]; intros; reflexivity|].
  destruct (validate_jump fold code counter) as [t|er] eqn:Ev.
  - intros [= <- <- <-] vis jt. cbn. split; [reflexivity|]. apply (validate_jump_inl _ _ Ev).
  - destruct er; intros [= <- <- <-]; intros; reflexivity.
Qed.

Lemma exec_jumpi_ctl vis jt c c' e se k jt' :
  exec_jumpi fold cfg code vis jt c = (c', e, se, k, jt') -> ctl_ok vis jt k jt' e.
Proof.
  unfold exec_jumpi. destruct (stack (o_st c)) as [|counter s]; [intros [= <- <- <- <- <-]; reflexivity|].
  destruct s as [|condition s']; [intros [= <- <- <- <- <-]; reflexivity|].
  destruct (validate_jump fold code counter) as [t|er] eqn:Ev.
  - destruct (iter_limit cfg <=? count_of t vis) eqn:E1; [intros [= <- <- <- <- <-]; reflexivity|].
    destruct (fork_limit cfg <=? count_of t jt) eqn:E2; [intros [= <- <- <- <- <-]; reflexivity|].
    intros [= <- <- <- <- <-]. cbn. apply N.leb_gt in E1, E2.
    destruct (validate_jump_inl _ _ Ev) as [Ht Hj]. unfold I, F. repeat split; auto.
  - intros [= <- <- <- <- <-]. reflexivity.
Qed.

Lemma exec_instr_ctl vis jt ip i c c' e se k jt' :
  exec_instr fold cfg code vis jt ip i c = (c', e, se, k, jt') -> ctl_ok vis jt k jt' e.
Proof.
  unfold exec_instr.
  destruct i as [o| | | | | |];
    try (intros [= <- <- <- <- <-]; reflexivity).
  destruct (op_sem o) as [ms|]; [intros [= <- <- <- <- <-]; reflexivity|].
  destruct (op_idx o =? op_idx control_Jump).
  { destruct (exec_jump fold code c) as [[c1 e1] k1] eqn:Ej. intros [= <- <- <- <- <-].
    apply (exec_jump_ctl _ _ _ _ Ej). }
  destruct (op_idx o =? op_idx control_JumpI); [apply exec_jumpi_ctl|].
  repeat (match goal with |- context [if ?b then _ else _] => destruct b end;
          try (intros [= <- <- <- <- <-]; reflexivity)).
Qed.

Ltac proj := cbn [v_code v_queue v_stored v_jt v_killed v_errors v_next_id v_polls v_counter v_retired v_paths v_cfg
                  tip tvis tgas tstate tpath snd fst].
Ltac solve_len := cbn [length] in *; rewrite ?app_length in *; cbn [length] in *; lia.

(* ---- the invariant of the main loop ---- *)
Definition vis_ok (v : list (N * N)) : Prop := forall o, count_of o v <= I.
Definition runnable (t : thread) : Prop :=
  tip t < len /\ count_of (tip t) (tvis t) < I /\ vis_ok (tvis t) /\ tgas t <= gas_limit cfg.

Record Inv (m : vm) : Prop := mk_Inv {
  i_code : v_code m = code;
  i_cfg : v_cfg m = cfg;
  i_q : Forall runnable (v_queue m);
  i_s : Forall (fun p => vis_ok (snd p)) (v_stored m);
  i_f : forall t, count_of t (v_jt m) <= F;
  i_fj : forall t, 0 < count_of t (v_jt m) -> t < len /\ jumpdest_at t;
  i_n : N.of_nat (length (v_stored m)) + N.of_nat (length (v_queue m)) = 1 + sumc (v_jt m) (length code) }.

Lemma vis_ok_bump t : runnable t -> vis_ok (bump (tip t) (tvis t)).
Proof.
  intros (_ & Hlt & Hok & _) o. rewrite count_bump. destruct (o =? tip t) eqn:E.
  - apply N.eqb_eq in E. subst. lia.
  - apply Hok.
Qed.

Lemma advance_inv m t rest forked :
  v_code m = code -> v_cfg m = cfg ->
  tip t < len -> vis_ok (tvis t) ->
  Forall runnable rest -> Forall runnable forked ->
  Forall (fun p => vis_ok (snd p)) (v_stored m) ->
  (forall x, count_of x (v_jt m) <= F) ->
  (forall x, 0 < count_of x (v_jt m) -> x < len /\ jumpdest_at x) ->
  N.of_nat (length (v_stored m)) + N.of_nat (length (t :: rest ++ forked)) = 1 + sumc (v_jt m) (length code) ->
  Inv (advance m t rest forked).
Proof.
  intros Hc Hcf Hip Hok Hrest Hfk Hst Hf Hfj Hn. unfold advance. rewrite Hc, Hcf. fold len.
  destruct ((len <=? tip t + 1) || (iter_limit cfg <=? count_of (tip t + 1) (tvis t))) eqn:E1; cbn [orb].
  - constructor; proj; auto.
    + apply Forall_app; auto.
    + apply Forall_app; split; auto.
    + solve_len.
  - apply orb_false_iff in E1 as [Ea Eb]. apply N.leb_gt in Ea, Eb.
    destruct ((gas_limit cfg <? tgas t) || v_killed m) eqn:E2.
    + constructor; proj; auto.
      * apply Forall_app; auto.
      * apply Forall_app; split; auto.
      * solve_len.
    + apply orb_false_iff in E2 as [Eg _]. apply N.ltb_ge in Eg.
      constructor; proj; auto.
      constructor.
      * unfold runnable; proj. repeat split; auto.
      * apply Forall_app; auto.
Qed.

Lemma vm_step_inv m m' : Inv m -> vm_step fold m = SRunning m' -> Inv m'.
Proof.
  intros [Hc Hcf Hq Hs Hf Hfj Hn]. unfold vm_step.
  destruct (v_queue m) as [|t rest] eqn:Eq; [discriminate|].
  rewrite Hc, Hcf.
  destruct (nth_error code (N.to_nat (tip t))) as [i|]; [|discriminate].
  set (c0 := mk_octx [] (tstate t) (v_next_id m) (v_killed m) (v_polls m)).
  destruct (if v_counter m mod poll_every cfg =? 0 then poll cfg c0 else (false, c0)) as [stopped c1].
  destruct stopped; [discriminate|].
  inversion Hq as [|? ? Ht Hrest]; subst.
  pose proof (vis_ok_bump t Ht) as Hok1. destruct Ht as (Hip & Hlt & Hok & Hgas).
  destruct (exec_instr fold cfg code (bump (tip t) (tvis t)) (v_jt m) (tip t) i c1) as [[[[c3 err] serr] k] jt'] eqn:Ex.
  pose proof (exec_instr_ctl _ _ _ _ _ _ _ _ _ _ Ex) as Hk.
  assert (Hgen : forall errors2 killed gas' pth (k0 : ctl),
    k0 = k ->
    Inv (advance (mk_vm code (t :: rest) (v_stored m) jt' killed errors2 (o_id c3) (o_polls c3) (v_counter m + 1) (v_retired m) (v_paths m) cfg)
           (mk_thread (o_st c3) (bump (tip t) (tvis t)) (match k0 with CJump target => target | _ => tip t end) gas' pth) rest
           (match k0 with CFork target => [mk_thread (with_fork_point (o_st c3) (tip t)) (bump (tip t) (tvis t)) target (tgas t) (tpath t ++ [true])] | _ => [] end))).
  2: { destruct err as [e|]; cbv beta iota zeta; intros [= <-]; apply Hgen; reflexivity. }
  intros errors2 killed gas' pth k0 ->.
  destruct k as [|target|target]; cbn in Hk.
  - subst jt'. apply advance_inv; proj; auto. solve_len.
  - destruct Hk as [-> Ht]. apply advance_inv; proj; auto. solve_len.
  - destruct Hk as (Ht & Hv & Hj & -> & Hjd & ->).
    apply advance_inv; proj; auto.
    + constructor; [|constructor]. unfold runnable; proj. repeat split; auto.
    + intros x. rewrite count_bump. destruct (x =? target) eqn:E; [apply N.eqb_eq in E; subst; unfold F in *; lia|apply Hf].
    + intros x. rewrite count_bump. destruct (x =? target) eqn:E; [apply N.eqb_eq in E; subst; auto|apply Hfj].
    + rewrite sumc_bump_in by (unfold len in Ht; lia). solve_len.
Qed.

Lemma init_inv : Inv (init_vm code cfg).
Proof.
  unfold init_vm. constructor; cbn; auto.
  - constructor; [|constructor]. unfold runnable, vis_ok, count_of; cbn. pose proof Hlen. repeat split; try lia.
  - intros t. unfold count_of; cbn. lia.
  - intros t. unfold count_of; cbn. lia.
  - rewrite sumc_nil. reflexivity.
Qed.

(* SDone / SStopped do not change anything the invariant talks about *)
Lemma vm_step_done m m' : Inv m -> vm_step fold m = SDone m' -> m' = m.
Proof.
  intros Hi. unfold vm_step. destruct (v_queue m) as [|t rest]; [now intros [= <-]|].
  destruct (nth_error (v_code m) (N.to_nat (tip t))); [|now intros [= <-]].
  destruct (if v_counter m mod poll_every (v_cfg m) =? 0 then _ else _) as [stopped c1]. destruct stopped; [discriminate|].
  destruct (exec_instr _ _ _ _ _ _ _ _) as [[[[c3 err] serr] k] jt']. destruct err; cbv beta iota zeta; discriminate.
Qed.

Lemma vm_step_stopped m ip m' : Inv m -> vm_step fold m = SStopped ip m' -> Inv m'.
Proof.
  intros [Hc Hcf Hq Hs Hf Hfj Hn]. unfold vm_step. destruct (v_queue m) as [|t rest] eqn:Eq; [discriminate|].
  destruct (nth_error (v_code m) (N.to_nat (tip t))); [|discriminate].
  destruct (if v_counter m mod poll_every (v_cfg m) =? 0 then _ else _) as [stopped c1]. destruct stopped.
  - intros [= <- <-]. constructor; proj; rewrite ?Eq; auto.
  - destruct (exec_instr _ _ _ _ _ _ _ _) as [[[[c3 err] serr] k] jt']. destruct err; cbv beta iota zeta; discriminate.
Qed.

Definition result_state (r : exec_result) : vm := match r with RDone m | RStopped _ m | ROutOfFuel m => m end.

Lemma run_inv n : forall m, Inv m -> Inv (result_state (run fold n m)).
Proof.
  induction n as [|n IH]; intros m Hi; cbn [run result_state]; [exact Hi|].
  destruct (vm_step fold m) as [m'|m'|ip m'] eqn:Es.
  - apply IH. eapply vm_step_inv; eauto.
  - cbn. rewrite (vm_step_done _ _ Hi Es). exact Hi.
  - cbn. eapply vm_step_stopped; eauto.
Qed.

Theorem reachable_inv n : Inv (result_state (run fold n (init_vm code cfg))).
Proof. apply run_inv, init_inv. Qed.

Theorem C03_visit_bound_proof n o :
  (forall st vis, In (st, vis) (v_stored (result_state (run fold n (init_vm code cfg)))) -> count_of o vis <= iter_limit cfg) /\
  (forall t, In t (v_queue (result_state (run fold n (init_vm code cfg)))) -> count_of o (tvis t) <= iter_limit cfg).
Proof.
  destruct (reachable_inv n) as [_ _ Hq Hs _ _ _]. split.
  - intros st vis Hin. rewrite Forall_forall in Hs. apply (Hs _ Hin).
  - intros t Hin. rewrite Forall_forall in Hq. destruct (Hq _ Hin) as (_ & _ & Hok & _). apply Hok.
Qed.

Theorem C03_fork_bound_proof n t : count_of t (v_jt (result_state (run fold n (init_vm code cfg)))) <= fork_limit cfg.
Proof. destruct (reachable_inv n) as [_ _ _ _ Hf _ _]. apply Hf. Qed.

Theorem C03_gas_stop_proof n t :
  In t (v_queue (result_state (run fold n (init_vm code cfg)))) -> tgas t <= gas_limit cfg.
Proof.
  destruct (reachable_inv n) as [_ _ Hq _ _ _ _]. intros Hin. rewrite Forall_forall in Hq.
  destruct (Hq _ Hin) as (_ & _ & _ & Hg). exact Hg.
Qed.

(* ---- number of threads ---- *)
Definition njd (n : nat) : N := N.of_nat (length (filter is_jumpdest (firstn n code))).

Lemma firstn_S_nth {A} (l : list A) n x : nth_error l n = Some x -> firstn (S n) l = firstn n l ++ [x].
Proof.
  revert l; induction n as [|n IH]; intros [|y l] H; cbn in *; try discriminate.
  - now injection H as ->.
  - f_equal. now apply IH.
Qed.

Lemma sumc_le_jumpdests jt n :
  (forall t, count_of t jt <= F) -> (forall t, 0 < count_of t jt -> t < len /\ jumpdest_at t) ->
  (n <= length code)%nat -> sumc jt n <= F * njd n.
Proof.
  intros Hf Hfj. induction n as [|n IH]; intros Hn; cbn [sumc]; [unfold njd; cbn; lia|].
  specialize (IH ltac:(lia)).
  destruct (nth_error code n) as [x|] eqn:Ex; [|apply nth_error_None in Ex; lia].
  unfold njd in *. rewrite (firstn_S_nth _ _ _ Ex), filter_app, app_length. cbn [filter].
  destruct (N.eq_dec (count_of (N.of_nat n) jt) 0) as [E0|E0].
  - rewrite E0. destruct (is_jumpdest x); cbn [length]; lia.
  - destruct (Hfj (N.of_nat n) ltac:(lia)) as [_ (i & Hi & Hj)]. rewrite Nat2N.id, Ex in Hi. injection Hi as <-.
    rewrite Hj. cbn [length]. specialize (Hf (N.of_nat n)). lia.
Qed.

Theorem threads_bound n :
  let m := result_state (run fold n (init_vm code cfg)) in
  N.of_nat (length (v_stored m)) + N.of_nat (length (v_queue m)) <= 1 + F * N.of_nat (length (filter is_jumpdest code)).
Proof.
  cbv zeta. destruct (reachable_inv n) as [_ _ _ _ Hf Hfj Hn]. rewrite Hn.
  pose proof (sumc_le_jumpdests _ (length code) Hf Hfj (le_n _)) as H. unfold njd in H. rewrite firstn_all in H. lia.
Qed.

(* ---- termination: a strictly decreasing potential ---- *)
Definition cap : N := I * len + 1.
Definition vsum (v : list (N * N)) : N := sumc v (length code).
Definition term (t : thread) : N := cap - vsum (tvis t).
Fixpoint qsum (q : list thread) : N := match q with [] => 0 | t :: r => term t + qsum r end.
Definition phi (m : vm) : N := qsum (v_queue m) + (F * len - sumc (v_jt m) (length code)) * cap.

Lemma qsum_app a b : qsum (a ++ b) = qsum a + qsum b.
Proof. induction a; cbn [qsum app]; lia. Qed.

Lemma vsum_le v : vis_ok v -> vsum v <= I * len.
Proof. intros H. unfold vsum, len. apply sumc_le_const. exact H. Qed.

Lemma phi_advance m t rest forked :
  v_code m = code -> v_cfg m = cfg ->
  phi (advance m t rest forked) <= term t + qsum rest + qsum forked + (F * len - sumc (v_jt m) (length code)) * cap.
Proof.
  intros Hc Hcf. unfold advance, phi. rewrite Hc, Hcf.
  destruct (_ || _ || _); proj; cbn [qsum]; rewrite qsum_app; unfold term; proj; lia.
Qed.

Lemma vm_step_decreases m m' : Inv m -> vm_step fold m = SRunning m' -> phi m' < phi m.
Proof.
  intros [Hc Hcf Hq Hs Hf Hfj Hn]. unfold vm_step.
  destruct (v_queue m) as [|t rest] eqn:Eq; [discriminate|].
  rewrite Hc, Hcf.
  destruct (nth_error code (N.to_nat (tip t))) as [i|]; [|discriminate].
  set (c0 := mk_octx [] (tstate t) (v_next_id m) (v_killed m) (v_polls m)).
  destruct (if v_counter m mod poll_every cfg =? 0 then poll cfg c0 else (false, c0)) as [stopped c1].
  destruct stopped; [discriminate|].
  inversion Hq as [|? ? Ht Hrest]; subst.
  pose proof (vis_ok_bump t Ht) as Hok1. destruct Ht as (Hip & Hlt & Hok & Hgas).
  destruct (exec_instr fold cfg code (bump (tip t) (tvis t)) (v_jt m) (tip t) i c1) as [[[[c3 err] serr] k] jt'] eqn:Ex.
  pose proof (exec_instr_ctl _ _ _ _ _ _ _ _ _ _ Ex) as Hk.
  assert (Hv1 : vsum (bump (tip t) (tvis t)) = vsum (tvis t) + 1)
    by (unfold vsum; apply sumc_bump_in; unfold len in Hip; lia).
  pose proof (vsum_le _ Hok1) as Hle1.
  assert (Hphi : phi m = term t + qsum rest + (F * len - sumc (v_jt m) (length code)) * cap)
    by (unfold phi; rewrite Eq; cbn [qsum]; lia).
  assert (Hgen : forall errors2 killed gas' pth (k0 : ctl),
    k0 = k ->
    phi (advance (mk_vm code (t :: rest) (v_stored m) jt' killed errors2 (o_id c3) (o_polls c3) (v_counter m + 1) (v_retired m) (v_paths m) cfg)
           (mk_thread (o_st c3) (bump (tip t) (tvis t)) (match k0 with CJump target => target | _ => tip t end) gas' pth) rest
           (match k0 with CFork target => [mk_thread (with_fork_point (o_st c3) (tip t)) (bump (tip t) (tvis t)) target (tgas t) (tpath t ++ [true])] | _ => [] end))
    < phi m).
  2: { destruct err as [e|]; cbv beta iota zeta; intros [= <-]; apply Hgen; reflexivity. }
  intros errors2 killed gas' pth k0 ->.
  match goal with |- phi (advance ?mm ?tt ?rr ?ff) < _ =>
    pose proof (phi_advance mm tt rr ff eq_refl eq_refl) as P end.
  proj. cbn [v_jt] in P. unfold term in P at 1. cbn [tvis] in P. rewrite Hphi. unfold term at 1.
  unfold cap in *.
  destruct k as [|target|target]; cbn in Hk.
  - subst jt'. cbn [qsum] in P. lia.
  - destruct Hk as [-> _]. cbn [qsum] in P. lia.
  - destruct Hk as (Ht & Hv & Hj & -> & _ & _).
    cbn [qsum] in P. unfold term in P. cbn [tvis] in P. unfold cap in P.
    assert (Hs1 : sumc (bump target (v_jt m)) (length code) = sumc (v_jt m) (length code) + 1)
      by (apply sumc_bump_in; unfold len in Ht; lia).
    assert (Hs2 : sumc (bump target (v_jt m)) (length code) <= F * len).
    { unfold len. apply sumc_le_const. intros o. rewrite count_bump.
      destruct (o =? target) eqn:E; [apply N.eqb_eq in E; subst; lia|apply Hf]. }
    rewrite Hs1 in *.
    remember (sumc (v_jt m) (length code)) as s. remember (F * len) as FL. remember (I * len) as IL.
    assert (Hx : (FL - (s + 1)) * (IL + 1) + (IL + 1) = (FL - s) * (IL + 1)) by nia.
    lia.
Qed.

Theorem run_terminates_from n : forall m, Inv m -> phi m < N.of_nat n ->
  match run fold n m with ROutOfFuel _ => False | _ => True end.
Proof.
  induction n as [|n IH]; intros m Hi Hp; [lia|]. cbn [run].
  destruct (vm_step fold m) as [m'|m'|ip m'] eqn:Es; [|exact Logic.I|exact Logic.I].
  apply IH; [eapply vm_step_inv; eauto|].
  pose proof (vm_step_decreases _ _ Hi Es). lia.
Qed.

Definition step_bound : N := (1 + F * len) * (I * len + 1).

Theorem execute_terminates :
  match run fold (S (N.to_nat step_bound)) (init_vm code cfg) with ROutOfFuel _ => False | _ => True end.
Proof.
  apply run_terminates_from; [apply init_inv|].
  unfold phi, init_vm, step_bound; proj. cbn [qsum]. unfold term, vsum, cap; proj. rewrite !sumc_nil. lia.
Qed.

End Bounds.

(* ---- the binary-fuel evaluator agrees with `run` ---- *)
Section RunP.
Variable fold : sv -> sv.

Lemma run_add a : forall b m,
  run fold (a + b) m = match run fold a m with ROutOfFuel m' => run fold b m' | r => r end.
Proof.
  induction a as [|a IH]; intros b m; cbn [run Nat.add]; [reflexivity|].
  destruct (vm_step fold m); auto.
Qed.

Lemma run_one m : run fold 1 m = run1 fold m.
Proof. unfold run1. cbn [run]. destruct (vm_step fold m); reflexivity. Qed.

Lemma run_p_run p : forall m, run_p fold p m = run fold (Pos.to_nat p) m.
Proof.
  induction p as [p IH|p IH|]; intros m; cbn [run_p].
  - rewrite Pos2Nat.inj_xI. replace (S (2 * Pos.to_nat p)) with (Pos.to_nat p + (Pos.to_nat p + 1))%nat by lia.
    rewrite run_add, IH. destruct (run fold (Pos.to_nat p) m) as [| |m']; auto.
    rewrite run_add, IH. destruct (run fold (Pos.to_nat p) m') as [| |m'']; auto; now rewrite run_one.
  - rewrite Pos2Nat.inj_xO. replace (2 * Pos.to_nat p)%nat with (Pos.to_nat p + Pos.to_nat p)%nat by lia.
    rewrite run_add, IH. destruct (run fold (Pos.to_nat p) m); auto.
  - now rewrite run_one.
Qed.
End RunP.
