(* C02 end to end (props/C02_pipeline.v): on the fragment `order_fragment` the back half of the composed model --
   unification::unify under any hash-order hooks, then the layout loop over the constant storage slots in any
   order -- returns the same layout, or fails in both runs.

   How.  UnifyOrderProofs.v: on `order_free` the two forests have the same partition (the congruence closure CC st) and
   related class data.  UnifyTotal.v: every registered variable's class has a data entry.  AbiOrder.v: abi_type_for on
   two class tables that are related this way returns the same AbiValue, PROVIDED equal type constructors inside one
   table belong to one class -- which is `seen_safe` (`run_inj`).  LayoutProofs.v: the layout is a sorted permutation
   of the rows. *)
From Coq Require Import String Permutation.
From SLX Require Import Base gen.Constants gen.ValueSig gen.WordUseTable gen.RulesSig gen.LayoutKey SymVal TypeExpr Merge VectorMap
  DisjointSet Register Unify UnifyOrder AbiT Layout Abi NoPanic Pipeline PipelineOrderDefs.
From SLX.proofs Require Import VecMapProofs DsuProofs MergeEquivProofs UnifyProofs UnifyOrderProofs UnifyTotal LayoutProofs
  AbiOrder PipelineProofs.
Open Scope N_scope.

(* ========================================================================================== *)
(* 1. the split model is the composed model                                                    *)

Lemma analyze_mixed_same keccak table m fu stored :
  analyze_mixed keccak table m m fu stored = analyze_plain keccak table m fu stored.
Proof.
  unfold analyze_mixed, front_plain, analyze_plain, back_run. cbv zeta.
  destruct (fold_e (lift_body keccak table) (unique (all_values m stored)) ([], false)) as [[acc failed]|e]; [|reflexivity].
  destruct failed; [reflexivity|].
  destruct (fold_e reg_body (rev acc) empty_tcs) as [st|e]; [|reflexivity].
  destruct (fold_e (infer_body m) (tc_values m (Register.values st)) st) as [st'|e]; reflexivity.
Qed.

Lemma orders_of_ok' mode : orders_ok (orders_of mode).
Proof. destruct mode; cbn [orders_of]; [apply sorted_orders_ok|apply sorted_orders_ok|apply seeded_orders_ok]. Qed.

Lemma err_kind_eq e : err_kind e = abi_err_kind e.
Proof. destruct e; reflexivity. Qed.

(* ========================================================================================== *)
(* 2. well-formed judgement sets: related variables are both allocated                         *)

Section WF.
  Variable st : tstate.
  Hypothesis Hwf : wf_b st = true.
  Let n := ts_next st.

  Lemma wf_parts :
    (forall p e, In p (ts_inf st) -> In e (snd p) -> te_closed n e = true) /\
    (forall v, In v (ts_vars st) -> v < n) /\
    (forall v, v < n -> In v (ts_vars st)).
  Proof.
    unfold wf_b in Hwf. apply andb_true_iff in Hwf as [H12 H3]. apply andb_true_iff in H12 as [H1 H2].
    rewrite forallb_forall in H1, H2, H3. split; [|split].
    - intros p e Hp He. specialize (H1 p Hp). rewrite forallb_forall in H1. apply H1, He.
    - intros v Hv. apply N.ltb_lt, H2, Hv.
    - intros v Hv. assert (Hin : In v (vars_below (ts_next st))).
      { unfold vars_below. apply in_map_iff. exists (N.to_nat v). split; [apply N2Nat.id|]. apply in_seq. fold n. lia. }
      specialize (H3 v Hin). unfold ts_registered in H3. apply existsb_exists in H3 as (w & Hw & E).
      apply N.eqb_eq in E. subst w. exact Hw.
  Qed.

  Lemma ts_get_in v e : In e (ts_get st v) -> exists p, In p (ts_inf st) /\ In e (snd p).
  Proof.
    unfold ts_get. destruct (find (fun p => fst p =? v) (ts_inf st)) as [p|] eqn:E; [|intros []].
    apply find_some in E as [Hp _]. intros He. exists p. auto.
  Qed.

  Lemma closed_var e v : te_closed n e = true -> In v (te_vars e) -> v < n.
  Proof. unfold te_closed. rewrite forallb_forall. intros H Hv. apply N.ltb_lt, H, Hv. Qed.

  Lemma ev_closed x e : In (x, e) (ev_list st) -> x < n /\ te_closed n e = true.
  Proof.
    destruct wf_parts as (W1 & W2 & _). unfold ev_list. rewrite in_flat_map. intros (v & Hv & Hin).
    apply in_map_iff in Hin as (e0 & [= -> ->] & Hf). apply filter_In in Hf as [He _].
    split; [apply W2, Hv|]. destruct (ts_get_in _ _ He) as (p & Hp & Hep). eapply W1; eassumption.
  Qed.

  Lemma decl_below x y : In (x, y) (decl_eqs st) -> x < n /\ y < n.
  Proof.
    destruct wf_parts as (W1 & W2 & _). unfold decl_eqs. rewrite in_flat_map. intros (v & Hv & Hin).
    unfold pairs_of_eq in Hin. apply in_flat_map in Hin as (e & He & Hin).
    destruct e; try (destruct Hin; fail). destruct Hin as [[= -> ->]|[]].
    split; [apply W2, Hv|]. destruct (ts_get_in _ _ He) as (p & Hp & Hep).
    apply (closed_var (Equal y)); [eapply W1; eassumption|left; reflexivity].
  Qed.

  Lemma comp_vars e1 e2 p : In p (comp_pairs e1 e2) -> In (fst p) (te_vars e1) /\ In (snd p) (te_vars e2).
  Proof.
    destruct e1; cbn [comp_pairs]; try (intros []; fail); destruct e2; try (intros []; fail); cbn [te_vars].
    - destruct (length =? length0); [|intros []]. intros [<-|[]]. cbn. auto.
    - intros [<-|[<-|[]]]; cbn; auto.
    - intros [<-|[]]. cbn. auto.
  Qed.

  Lemma CC_below x y : CC st x y -> x = y \/ (x < n /\ y < n).
  Proof.
    induction 1 as [x y Hd|x e1 y e2 p H1 H2 _ _ Hp|x|x y _ IH|x y z _ IH1 _ IH2].
    - right. apply decl_below, Hd.
    - right. destruct (comp_vars _ _ _ Hp) as [V1 V2].
      destruct (ev_closed _ _ H1) as [_ C1]. destruct (ev_closed _ _ H2) as [_ C2].
      split; [apply (closed_var e1 _ C1 V1)|apply (closed_var e2 _ C2 V2)].
    - left. reflexivity.
    - destruct IH as [->|[A B]]; [left; reflexivity|right; auto].
    - destruct IH1 as [->|[A B]]; [exact IH2|]. destruct IH2 as [<-|[C D]]; right; auto.
  Qed.

  Lemma CC_ltb x y : CC st x y -> (x <? n) = (y <? n).
  Proof.
    intros H. destruct (CC_below x y H) as [->|[A B]]; [reflexivity|].
    apply N.ltb_lt in A, B. congruence.
  Qed.
End WF.

(* ========================================================================================== *)
(* 3. one run on the fragment: what the data of a class can be                                 *)

Lemma forallb_false_ex {A} (f : A -> bool) l : forallb f l = false -> exists x, In x l /\ f x = false.
Proof.
  induction l as [|x t IH]; [discriminate|]. cbn [forallb]. destruct (f x) eqn:E.
  - intros H. destruct (IH H) as (y & Hy & Fy). exists y. split; [right; exact Hy|exact Fy].
  - intros _. exists x. split; [left; reflexivity|exact E].
Qed.

Section Run.
  Variable st : tstate.
  Hypothesis Hfrag : order_free st = true.
  Hypothesis Hsafe : seen_safe st = true.
  Variable o : orders.
  Variable fuel : nat.
  Variable a : astate iset.
  Variable n : N.
  Hypothesis Ho : orders_ok o.
  Hypothesis Ea : a_unify fuel o st = Ok (a, n).

  Lemma ctor_match_shape t e : is_ctor e = true -> ctor_match (CC st) t e ->
    is_type_constructor t = true /\ te_plain t = true.
  Proof.
    intros Hc Hm. destruct e; try discriminate Hc; cbn [ctor_match] in Hm.
    - destruct Hm as (x' & -> & _). split; reflexivity.
    - destruct Hm as (k' & v' & -> & _). split; reflexivity.
    - destruct Hm as (x' & -> & _). split; reflexivity.
  Qed.

  Lemma data_cases x t : run_data a x = Some [t] ->
    (is_type_constructor t = false /\ te_plain t = true) \/
    (exists e, In e (cc_evidence st x) /\ is_ctor e = true /\ ctor_match (CC st) t e).
  Proof.
    intros D. destruct (forallb wordlike_b (cc_evidence st x)) eqn:Ew.
    - left. rewrite forallb_forall in Ew.
      assert (Hw : forall e, In e (cc_evidence st x) -> wordlike e) by (intros e He; apply wordlike_b_spec, Ew, He).
      pose proof (frag_words st Hfrag o fuel a n Ho Ea x Hw) as H. rewrite D in H. unfold resolves_to_join in H.
      destruct (words_of (cc_evidence st x)) as [|w l].
      + destruct (cc_evidence st x); [destruct H; discriminate|]. injection H as ->. split; reflexivity.
      + destruct (wordev_join_all w l) as [j|].
        * injection H as ->. split; reflexivity.
        * destruct H as (c & [= ->] & Hc). destruct c; try discriminate Hc. split; reflexivity.
    - right. destruct (forallb_false_ex _ _ Ew) as (e & Hin & Hnw).
      assert (Hn : ~ wordlike e) by (intros H; apply wordlike_b_spec in H; congruence).
      destruct (frag_nonword st Hfrag o fuel a n Ho Ea x e Hin Hn) as (Hc & t' & D' & Hm).
      rewrite D in D'. injection D' as <-. exists e. auto.
  Qed.

  Lemma data_plain x t : run_data a x = Some [t] -> te_plain t = true.
  Proof.
    intros D. destruct (data_cases x t D) as [[_ H]|(e & _ & Hc & Hm)]; [exact H|].
    apply (ctor_match_shape t e Hc Hm).
  Qed.

  Lemma ev_in x e : In e (cc_evidence st x) -> exists u, In (u, e) (ev_list st) /\ CC st u x.
  Proof.
    unfold cc_evidence. rewrite in_flat_map. intros ([u e0] & Hin & H). cbn [fst snd] in H.
    destruct (same_in (part_of (cc st)) u x) eqn:Es; [|destruct H]. destruct H as [<-|[]].
    exists u. split; [exact Hin|]. apply (cc_spec st u x (frag_closed st Hfrag)), Es.
  Qed.

  Lemma same_of_cc x y : CC st x y -> same_in (part_of (cc st)) x y = true.
  Proof. apply (cc_spec st x y (frag_closed st Hfrag)). Qed.

  (* two constructed evidence items answered by ONE type have their components pairwise in one class *)
  Lemma comps_same_of_match t e1 e2 : is_ctor e1 = true -> is_ctor e2 = true ->
    ctor_match (CC st) t e1 -> ctor_match (CC st) t e2 -> comps_same (part_of (cc st)) e1 e2 = true.
  Proof.
    intros C1 C2 M1 M2.
    destruct e1; try discriminate C1; destruct e2; try discriminate C2; cbn [ctor_match comps_same] in *.
    - destruct M1 as (x1 & -> & R1), M2 as (x2 & [= <- <-] & R2). rewrite N.eqb_refl. cbn [andb].
      apply same_of_cc. eapply cc_trans; [exact R1|apply cc_sym, R2].
    - destruct M1 as (x1 & -> & _), M2 as (k2 & v2 & E & _). discriminate E.
    - destruct M1 as (x1 & -> & _), M2 as (x2 & E & _). discriminate E.
    - destruct M1 as (k1 & v1 & -> & _), M2 as (x2 & E & _). discriminate E.
    - destruct M1 as (k1 & v1 & -> & R1 & R1'), M2 as (k2 & v2 & [= <- <-] & R2 & R2').
      apply andb_true_iff. split; apply same_of_cc; (eapply cc_trans; [eassumption|apply cc_sym; eassumption]).
    - destruct M1 as (k1 & v1 & -> & _), M2 as (x2 & E & _). discriminate E.
    - destruct M1 as (x1 & -> & _), M2 as (x2 & E & _). discriminate E.
    - destruct M1 as (x1 & -> & _), M2 as (k2 & v2 & E & _). discriminate E.
    - destruct M1 as (x1 & -> & R1), M2 as (x2 & [= <-] & R2).
      apply same_of_cc. eapply cc_trans; [exact R1|apply cc_sym, R2].
  Qed.

  (* THE use of seen_safe: inside one run, equal type constructors belong to one class *)
  Lemma run_inj x y e : run_data a x = Some [e] -> run_data a y = Some [e] -> is_type_constructor e = true -> CC st x y.
  Proof.
    intros Dx Dy Hc.
    destruct (data_cases x e Dx) as [[H _]|(ex & Hx & Cx & Mx)]; [congruence|].
    destruct (data_cases y e Dy) as [[H _]|(ey & Hy & Cy & My)]; [congruence|].
    destruct (ev_in x ex Hx) as (ux & Ux & Rx). destruct (ev_in y ey Hy) as (uy & Uy & Ry).
    pose proof (comps_same_of_match e ex ey Cx Cy Mx My) as Hcs.
    unfold seen_safe in Hsafe. rewrite forallb_forall in Hsafe.
    assert (Ix : In (ux, ex) (ctor_ev st)) by (apply filter_In; split; [exact Ux|exact Cx]).
    assert (Iy : In (uy, ey) (ctor_ev st)) by (apply filter_In; split; [exact Uy|exact Cy]).
    specialize (Hsafe _ Ix). rewrite forallb_forall in Hsafe. specialize (Hsafe _ Iy). cbn [fst snd] in Hsafe.
    rewrite Hcs in Hsafe. cbn [negb orb] in Hsafe.
    apply (cc_spec st ux uy (frag_closed st Hfrag)) in Hsafe.
    eapply cc_trans; [apply cc_sym, Rx|]. eapply cc_trans; [exact Hsafe|exact Ry].
  Qed.

  Lemma run_const x y : CC st x y -> run_data a x = run_data a y.
  Proof.
    intros H. unfold run_data. rewrite (proj2 (frag_partition st Hfrag o fuel a n Ho Ea x y) H). reflexivity.
  Qed.
End Run.

(* ========================================================================================== *)
(* 4. sorted permutations without two different rows at one key are equal                      *)

Lemma le_io_trans a b c : le_io a b -> le_io b c -> le_io a c.
Proof. unfold le_io. lia. Qed.

Lemma le_io_antisym (a b : entry) : le_io a b -> le_io b a -> fst a = fst b.
Proof.
  destruct a as [[i1 o1] t1], b as [[i2 o2] t2]. unfold le_io. cbn [fst snd]. intros H1 H2.
  assert (E : i1 = i2 /\ o1 = o2) by lia. destruct E as [-> ->]. reflexivity.
Qed.

Lemma sorted_tail x l : sorted_io (x :: l) -> sorted_io l.
Proof. inversion 1; subst; [constructor|assumption]. Qed.

Lemma sorted_head l : forall x z, sorted_io (x :: l) -> In z l -> le_io x z.
Proof.
  induction l as [|y t IH]; intros x z S Hz; [destruct Hz|].
  inversion S as [| |? ? ? Hxy Sy]; subst. destruct Hz as [<-|Hz]; [exact Hxy|].
  eapply le_io_trans; [exact Hxy|apply IH; assumption].
Qed.

Lemma sorted_perm_eq l1 : forall l2, sorted_io l1 -> sorted_io l2 -> Permutation l1 l2 -> key_functional l1 -> l1 = l2.
Proof.
  induction l1 as [|x t IH]; intros l2 S1 S2 P F.
  - apply Permutation_nil in P. auto.
  - destruct l2 as [|y u]; [apply Permutation_sym, Permutation_nil in P; discriminate|].
    assert (E : x = y).
    { assert (Hx : In x (y :: u)) by (eapply Permutation_in; [exact P|left; reflexivity]).
      assert (Hy : In y (x :: t)) by (eapply Permutation_in; [apply Permutation_sym, P|left; reflexivity]).
      destruct Hx as [->|Hx]; [reflexivity|]. destruct Hy as [->|Hy]; [reflexivity|].
      apply F; [left; reflexivity|right; exact Hy|].
      apply le_io_antisym; [apply (sorted_head _ _ _ S1), Hy|apply (sorted_head _ _ _ S2), Hx]. }
    subst y. f_equal. apply IH.
    + eapply sorted_tail, S1.
    + eapply sorted_tail, S2.
    + eapply Permutation_cons_inv, P.
    + intros p q Hp Hq. apply F; right; assumption.
Qed.

Lemma perm_filter {A} (f : A -> bool) l1 l2 : Permutation l1 l2 -> Permutation (filter f l1) (filter f l2).
Proof.
  induction 1 as [|x l l' _ IH|x y l|l l' l'' _ IH1 _ IH2]; cbn [filter].
  - constructor.
  - destruct (f x); [constructor; exact IH|exact IH].
  - destruct (f x), (f y); try reflexivity. apply perm_swap.
  - eapply Permutation_trans; eassumption.
Qed.

(* ========================================================================================== *)
(* 5. the layout loop, slot by slot                                                            *)

Section Slots.
  Variable env : abi_env.
  Variable fuel : nat.

  Definition slot_rows (x : tsv) : outcome (list entry) abi_err :=
    match const_slot_key x with
    | None => Ok []
    | Some index =>
        match abi_type_for abi_nested_add abi_nested_fit env fuel (tv_of x) with
        | Ok v => Ok (rows_of index v)
        | Err e => Err e
        | Panic p => Panic p
        end
    end.

  Lemma layout_body_rows x layout :
    layout_body env fuel x layout =
    match slot_rows x with
    | Ok rows => inl (fold_left layout_add rows layout)
    | Err e => inr (PErrAbi e)
    | Panic p => inr (PPanic p)
    end.
  Proof.
    unfold layout_body, slot_rows. cbn [build_layout].
    destruct (const_slot_key x) as [index|]; [|reflexivity].
    destruct (abi_type_for abi_nested_add abi_nested_fit env fuel (tv_of x)); reflexivity.
  Qed.

  Definition rows_or_nil (x : tsv) : list entry := match slot_rows x with Ok r => r | _ => [] end.
  Definition slot_ok (x : tsv) : Prop := exists r, slot_rows x = Ok r.

  Lemma add_fold_perm rows : forall layout, Permutation (fold_left layout_add rows layout) (layout ++ rows).
  Proof.
    induction rows as [|e t IH]; intros layout; cbn [fold_left]; [rewrite app_nil_r; reflexivity|].
    rewrite IH. unfold layout_add. rewrite stable_sort_perm, <- app_assoc. reflexivity.
  Qed.

  Lemma add_fold_sorted rows : forall layout, sorted_io layout -> sorted_io (fold_left layout_add rows layout).
  Proof.
    induction rows as [|e t IH]; intros layout S; cbn [fold_left]; [exact S|].
    apply IH. unfold layout_add. apply stable_sort_sorted.
  Qed.

  Lemma fold_layout_ok slots : forall layout l, fold_e (layout_body env fuel) slots layout = inl l ->
    (forall x, In x slots -> slot_ok x) /\ Permutation l (layout ++ flat_map rows_or_nil slots) /\
    (sorted_io layout -> sorted_io l).
  Proof.
    induction slots as [|x t IH]; intros layout l; cbn [fold_e flat_map].
    - intros [= <-]. split; [intros x []|]. split; [rewrite app_nil_r; reflexivity|auto].
    - rewrite layout_body_rows. unfold rows_or_nil at 1. destruct (slot_rows x) as [rows| |] eqn:Ex; try discriminate.
      intros E. destruct (IH _ _ E) as (H1 & H2 & H3). split; [|split].
      + intros y [<-|Hy]; [exists rows; exact Ex|apply H1, Hy].
      + rewrite H2, add_fold_perm, <- app_assoc. reflexivity.
      + intros S. apply H3, add_fold_sorted, S.
  Qed.

  Lemma fold_layout_fail slots : forall layout e, fold_e (layout_body env fuel) slots layout = inr e ->
    (exists x, In x slots /\ ~ slot_ok x) /\ is_layout e = false.
  Proof.
    induction slots as [|x t IH]; intros layout e; cbn [fold_e]; [discriminate|].
    rewrite layout_body_rows. destruct (slot_rows x) as [rows| |] eqn:Ex.
    - intros E. destruct (IH _ _ E) as ((y & Hy & Hn) & He). split; [|exact He]. exists y. split; [right; exact Hy|exact Hn].
    - intros [= <-]. split; [|reflexivity]. exists x. split; [left; reflexivity|]. intros (r & Hr). congruence.
    - intros [= <-]. split; [|reflexivity]. exists x. split; [left; reflexivity|]. intros (r & Hr). congruence.
  Qed.
End Slots.

(* ========================================================================================== *)
(* 6. two runs                                                                                 *)

Lemma env_data s a n v : fsim s a ->
  ty_data (env_of_forest s n) v = if v <? n then run_data a v else None.
Proof.
  intros S. cbn [env_of_forest ty_data]. destruct (get_data_refines s a v S) as (s' & G & _). rewrite G. reflexivity.
Qed.

Section Two.
  Variable st : tstate.
  Hypothesis Hfrag : order_fragment st = true.
  Variables o1 o2 : orders.
  Hypothesis Ho1 : orders_ok o1.
  Hypothesis Ho2 : orders_ok o2.
  Variable fuel : nat.
  Variables s1 s2 : dsu iset.
  Let n := ts_next st.
  Hypothesis U1 : unify fuel o1 st = Ok (s1, n).
  Hypothesis U2 : unify fuel o2 st = Ok (s2, n).

  Let env1 := env_of_forest s1 n.
  Let env2 := env_of_forest s2 n.

  Lemma frag_of : order_free st = true /\ seen_safe st = true /\ wf_b st = true.
  Proof.
    unfold order_fragment in Hfrag. apply andb_true_iff in Hfrag as [H12 H3]. apply andb_true_iff in H12 as [H1 H2]. auto.
  Qed.

  Lemma two_envs_related :
    (forall x y, CC st x y -> has_expr env1 x = has_expr env2 y) /\
    (forall x y, CC st x y -> drel (CC st) (ty_data env1 x) (ty_data env2 y)) /\
    (forall x y, CC st x y -> ty_data env1 x = ty_data env1 y) /\
    (forall x y, CC st x y -> ty_data env2 x = ty_data env2 y) /\
    (forall x y e, ty_data env1 x = Some [e] -> ty_data env1 y = Some [e] -> is_type_constructor e = true -> CC st x y) /\
    (forall x y e, ty_data env2 x = Some [e] -> ty_data env2 y = Some [e] -> is_type_constructor e = true -> CC st x y).
  Proof.
    destruct frag_of as (Hof & Hsafe & Hwf).
    destruct (unify_ok_refines _ _ _ _ _ U1) as (a1 & E1 & S1). destruct (unify_ok_refines _ _ _ _ _ U2) as (a2 & E2 & S2).
    assert (D1 : forall v, ty_data env1 v = if v <? n then run_data a1 v else None) by (intros v; apply env_data, S1).
    assert (D2 : forall v, ty_data env2 v = if v <? n then run_data a2 v else None) by (intros v; apply env_data, S2).
    assert (C1 : forall x y, CC st x y -> ty_data env1 x = ty_data env1 y).
    { intros x y H. pose proof (CC_ltb st Hwf x y H) as L. fold n in L. rewrite !D1, L, (run_const st Hof o1 fuel a1 n Ho1 E1 x y H). reflexivity. }
    assert (C2 : forall x y, CC st x y -> ty_data env2 x = ty_data env2 y).
    { intros x y H. pose proof (CC_ltb st Hwf x y H) as L. fold n in L. rewrite !D2, L, (run_const st Hof o2 fuel a2 n Ho2 E2 x y H). reflexivity. }
    split; [|split; [|split; [exact C1|split; [exact C2|split]]]].
    - intros x y H. cbn [env1 env2 env_of_forest has_expr]. apply (CC_ltb st Hwf x y H).
    - intros x y H. rewrite <- (C2 x y H), D1, D2.
      destruct (x <? n) eqn:Ex; [|exact I]. apply N.ltb_lt in Ex.
      destruct (wf_parts st Hwf) as (_ & _ & W3). pose proof (W3 x Ex) as Hin.
      pose proof (a_unify_total o1 fuel st a1 n x Ho1 E1 Hin) as T1.
      pose proof (a_unify_total o2 fuel st a2 n x Ho2 E2 Hin) as T2.
      destruct (frag_two_runs st o1 o2 fuel fuel a1 a2 n n Hof Ho1 Ho2 E1 E2) as [_ Hd]. specialize (Hd x).
      unfold run_data in *.
      destruct (fm_get (a_rep iset a1 x) (a_data a1)) as [d1|] eqn:G1; [|congruence].
      destruct (fm_get (a_rep iset a2 x) (a_data a2)) as [d2|] eqn:G2; [|congruence].
      destruct d1 as [|t1 [|t1' l1]], d2 as [|t2 [|t2' l2]]; cbn [data_rel] in Hd; try contradiction; cbn [drel]; [exact I|].
      split; [exact Hd|]. split.
      + apply (data_plain st Hof o1 fuel a1 n Ho1 E1 x t1). exact G1.
      + apply (data_plain st Hof o2 fuel a2 n Ho2 E2 x t2). exact G2.
    - intros x y e Hx Hy Hc. rewrite D1 in Hx, Hy.
      destruct (x <? n); [|discriminate]. destruct (y <? n); [|discriminate].
      apply (run_inj st Hof Hsafe o1 fuel a1 n Ho1 E1 x y e Hx Hy Hc).
    - intros x y e Hx Hy Hc. rewrite D2 in Hx, Hy.
      destruct (x <? n); [|discriminate]. destruct (y <? n); [|discriminate].
      apply (run_inj st Hof Hsafe o2 fuel a2 n Ho2 E2 x y e Hx Hy Hc).
  Qed.

  Lemma slot_rows_two f x : out_rel eq (slot_rows env1 f x) (slot_rows env2 f x).
  Proof.
    destruct two_envs_related as (H1 & H2 & H3 & H4 & H5 & H6).
    unfold slot_rows. destruct (const_slot_key x) as [index|]; [|reflexivity].
    pose proof (abi_type_for_rel abi_nested_add abi_nested_fit env1 env2 (CC st) (cc_sym st) (cc_trans st)
                  H1 H2 H3 H4 H5 H6 f (tv_of x) (tv_of x) (cc_refl st _)) as H.
    destruct (abi_type_for abi_nested_add abi_nested_fit env1 f (tv_of x)) as [v1| |],
             (abi_type_for abi_nested_add abi_nested_fit env2 f (tv_of x)) as [v2| |]; cbn in H |- *; try contradiction; try exact H.
    subst v2. reflexivity.
  Qed.

  Lemma slot_ok_two f x : slot_ok env1 f x <-> slot_ok env2 f x.
  Proof.
    pose proof (slot_rows_two f x) as H. unfold slot_ok.
    destruct (slot_rows env1 f x) as [r1| |], (slot_rows env2 f x) as [r2| |]; cbn in H; try contradiction;
      split; intros (r & Hr); try discriminate Hr; eauto.
  Qed.

  Lemma rows_two f x : rows_or_nil env1 f x = rows_or_nil env2 f x.
  Proof.
    pose proof (slot_rows_two f x) as H. unfold rows_or_nil.
    destruct (slot_rows env1 f x) as [r1| |], (slot_rows env2 f x) as [r2| |]; cbn in H; try contradiction; auto.
  Qed.

  (* the same slots in the same order *)
  Lemma fold_same f slots : forall layout,
    match fold_e (layout_body env1 f) slots layout, fold_e (layout_body env2 f) slots layout with
    | inl l1, inl l2 => l1 = l2
    | inr r1, inr r2 => results_same r1 r2
    | _, _ => False
    end.
  Proof.
    induction slots as [|x t IH]; intros layout; cbn [fold_e]; [reflexivity|].
    rewrite !layout_body_rows. pose proof (slot_rows_two f x) as H.
    destruct (slot_rows env1 f x) as [r1| |], (slot_rows env2 f x) as [r2| |]; cbn in H; try contradiction.
    - subst r2. apply IH.
    - cbn [results_same]. rewrite <- !err_kind_eq. exact H.
    - cbn [results_same]. exact H.
  Qed.

  (* the same slots in two orders *)
  Lemma fold_perm f slots1 slots2 : Permutation slots1 slots2 ->
    match fold_e (layout_body env1 f) slots1 [], fold_e (layout_body env2 f) slots2 [] with
    | inl l1, inl l2 => Permutation l1 l2 /\ (key_functional l1 -> l1 = l2)
    | inr r1, inr r2 => is_layout r1 = false /\ is_layout r2 = false
    | _, _ => False
    end.
  Proof.
    intros P.
    destruct (fold_e (layout_body env1 f) slots1 []) as [l1|r1] eqn:F1, (fold_e (layout_body env2 f) slots2 []) as [l2|r2] eqn:F2.
    - destruct (fold_layout_ok _ _ _ _ _ F1) as (_ & P1 & S1). destruct (fold_layout_ok _ _ _ _ _ F2) as (_ & P2 & S2).
      cbn [app] in P1, P2.
      assert (PP : Permutation l1 l2).
      { rewrite P1, P2. rewrite (flat_map_ext _ _ (rows_two f)). apply Permutation_flat_map, P. }
      split; [exact PP|]. intros Fk. apply sorted_perm_eq; [apply S1; constructor|apply S2; constructor|exact PP|exact Fk].
    - destruct (fold_layout_ok _ _ _ _ _ F1) as (A1 & _). destruct (fold_layout_fail _ _ _ _ _ F2) as ((x & Hx & Hn) & _).
      apply Hn, slot_ok_two, A1. eapply Permutation_in; [apply Permutation_sym, P|exact Hx].
    - destruct (fold_layout_ok _ _ _ _ _ F2) as (A2 & _). destruct (fold_layout_fail _ _ _ _ _ F1) as ((x & Hx & Hn) & _).
      apply Hn, slot_ok_two, A2. eapply Permutation_in; [exact P|exact Hx].
    - destruct (fold_layout_fail _ _ _ _ _ F1) as (_ & E1). destruct (fold_layout_fail _ _ _ _ _ F2) as (_ & E2). auto.
  Qed.
End Two.

(* ========================================================================================== *)
(* 7. the theorems                                                                             *)

(* the unifier's hash orders alone: the same rows in the same order, or the same failure *)
Theorem back_unify_order_independent_lemma st' o1 o2 arr fuel :
  order_fragment (tstate_of st') = true -> orders_ok o1 -> orders_ok o2 ->
  (length (ts_vars (tstate_of st')) + 2 <= fuel)%nat ->
  results_same (back_run o1 arr fuel st') (back_run o2 arr fuel st').
Proof.
  intros Hf Ho1 Ho2 Hfuel. unfold back_run.
  assert (Hof : order_free (tstate_of st') = true).
  { unfold order_fragment in Hf. apply andb_true_iff in Hf as [H _]. apply andb_true_iff in H as [H _]. exact H. }
  destruct (unify_order_independent_proof (tstate_of st') o1 o2 fuel Hof Ho1 Ho2 Hfuel) as (s1 & s2 & U1 & U2 & _).
  rewrite U1, U2. cbn [ures_res].
  set (slots := filter is_const_slot _).
  pose proof (fold_same (tstate_of st') Hf o1 o2 Ho1 Ho2 fuel s1 s2 U1 U2 (S (N.to_nat (ts_next (tstate_of st')))) slots []) as H.
  destruct (fold_e (layout_body (env_of_forest s1 (ts_next (tstate_of st'))) _) slots []) as [l1|r1],
           (fold_e (layout_body (env_of_forest s2 (ts_next (tstate_of st'))) _) slots []) as [l2|r2]; try contradiction.
  - cbn [results_same]. exact H.
  - exact H.
Qed.

(* the unifier's hash orders and the order of the layout loop *)
Theorem back_order_independent_lemma st' o1 o2 arr1 arr2 fuel :
  order_fragment (tstate_of st') = true -> orders_ok o1 -> orders_ok o2 ->
  (forall l, Permutation (arr1 l) l) -> (forall l, Permutation (arr2 l) l) ->
  (length (ts_vars (tstate_of st')) + 2 <= fuel)%nat ->
  results_agree (back_run o1 arr1 fuel st') (back_run o2 arr2 fuel st').
Proof.
  intros Hf Ho1 Ho2 Ha1 Ha2 Hfuel. unfold back_run.
  assert (Hof : order_free (tstate_of st') = true).
  { unfold order_fragment in Hf. apply andb_true_iff in Hf as [H _]. apply andb_true_iff in H as [H _]. exact H. }
  destruct (unify_order_independent_proof (tstate_of st') o1 o2 fuel Hof Ho1 Ho2 Hfuel) as (s1 & s2 & U1 & U2 & _).
  rewrite U1, U2. cbn [ures_res].
  set (vals := Register.values st' ++ synthetic_values (next st') (ts_next (tstate_of st'))).
  assert (P : Permutation (filter is_const_slot (arr1 vals)) (filter is_const_slot (arr2 vals))).
  { apply perm_filter. rewrite Ha1, Ha2. reflexivity. }
  pose proof (fold_perm (tstate_of st') Hf o1 o2 Ho1 Ho2 fuel s1 s2 U1 U2 (S (N.to_nat (ts_next (tstate_of st')))) _ _ P) as H.
  destruct (fold_e (layout_body (env_of_forest s1 (ts_next (tstate_of st'))) _) (filter is_const_slot (arr1 vals)) []) as [l1|r1],
           (fold_e (layout_body (env_of_forest s2 (ts_next (tstate_of st'))) _) (filter is_const_slot (arr2 vals)) []) as [l2|r2];
    try contradiction.
  - cbn [results_agree]. exact H.
  - destruct H as [E1 E2]. destruct r1; try discriminate E1; destruct r2; try discriminate E2; exact I.
Qed.

Lemma results_agree_refl_fail r : is_layout r = false -> results_agree r r.
Proof. destruct r; try discriminate; intros _; exact I. Qed.

(* a failure of the front half is never a layout *)
Lemma front_fail_not_layout keccak table mf stored e : front_plain keccak table mf stored = inr e -> is_layout e = false.
Proof.
  intros Ef. unfold front_plain in Ef. cbv zeta in Ef.
  destruct (fold_e (lift_body keccak table) (unique (all_values mf stored)) ([], false)) as [[acc failed]|e0] eqn:E1.
  + destruct failed; [injection Ef as <-; reflexivity|].
    destruct (fold_e reg_body (rev acc) empty_tcs) as [st|e1] eqn:E2.
    * clear E1 E2. revert Ef. generalize (tc_values mf (Register.values st)). generalize st. intros st0 l. revert st0.
      induction l as [|x t IH]; intros st0; cbn [fold_e]; [discriminate|].
      unfold infer_body at 1. destruct (Rules.infer_value (pipeline_rules mf) x st0) as [st1| |].
      -- apply IH.
      -- intros [= <-]. reflexivity.
      -- intros [= <-]. reflexivity.
    * exfalso. clear E1 Ef. revert E2. generalize empty_tcs. induction (rev acc) as [|x t IH]; intros s0; cbn [fold_e]; [discriminate|].
      unfold reg_body at 1. apply IH.
  + injection Ef as <-. revert E1. generalize (([], false) : list sv * bool).
    induction (unique (all_values mf stored)) as [|x t IH]; intros s0; cbn [fold_e]; [discriminate|].
    unfold lift_body at 1. destruct (lift_value keccak table x) as [v'| |].
    * apply IH.
    * apply IH.
    * intros [= <-]. reflexivity.
Qed.

Lemma mixed_agree keccak table mf1 mf2 mb1 mb2 fu stored :
  front_plain keccak table mf1 stored = front_plain keccak table mf2 stored ->
  (forall st', front_plain keccak table mf1 stored = inl st' ->
     order_fragment (tstate_of st') = true /\ (length (ts_vars (tstate_of st')) + 2 <= f_rounds fu)%nat) ->
  results_agree (analyze_mixed keccak table mf1 mb1 fu stored) (analyze_mixed keccak table mf2 mb2 fu stored).
Proof.
  intros Hfront H. unfold analyze_mixed. rewrite <- Hfront. destruct (front_plain keccak table mf1 stored) as [st'|e] eqn:Ef.
  - destruct (H st' eq_refl) as [Hf Hfuel].
    apply back_order_independent_lemma; try assumption; try apply orders_of_ok'.
    + intros l. apply arrange_perm.
    + intros l. apply arrange_perm.
  - apply results_agree_refl_fail. eapply front_fail_not_layout, Ef.
Qed.

(* the composed model: for a fixed order of collection / registration / inference (mode mf), the order modes of
   unification and of the layout loop do not matter *)
Theorem pipeline_order_independent_lemma keccak table mf mb1 mb2 fu stored :
  (forall st', front_plain keccak table mf stored = inl st' ->
     order_fragment (tstate_of st') = true /\ (length (ts_vars (tstate_of st')) + 2 <= f_rounds fu)%nat) ->
  results_agree (analyze_mixed keccak table mf mb1 fu stored) (analyze_mixed keccak table mf mb2 fu stored).
Proof. intros H. apply mixed_agree; [reflexivity|exact H]. Qed.

(* two modes of the WHOLE type checker whose front halves hand the same judgement set to unification *)
Theorem pipeline_order_independent_modes_lemma keccak table m1 m2 fu stored :
  front_plain keccak table m1 stored = front_plain keccak table m2 stored ->
  (forall st', front_plain keccak table m1 stored = inl st' ->
     order_fragment (tstate_of st') = true /\ (length (ts_vars (tstate_of st')) + 2 <= f_rounds fu)%nat) ->
  results_agree (analyze_plain keccak table m1 fu stored) (analyze_plain keccak table m2 fu stored).
Proof. intros Hfront H. rewrite <- !analyze_mixed_same. apply mixed_agree; assumption. Qed.

(* ========================================================================================== *)
(* 8. the hypotheses are needed                                                                *)

Definition arr_id (l : list tsv) : list tsv := l.

Theorem pipeline_order_dependent_refuted_proof :
  (* inside order_free (and well formed), outside seen_safe: the value of the mapping at slot 0 is a mapping under
     one order and InfiniteType under the other *)
  (order_free (tstate_of seen_witness) = true /\ wf_b (tstate_of seen_witness) = true /\
   seen_safe (tstate_of seen_witness) = false /\
   back_run orders_sorted arr_id 10 seen_witness =
     PLayout [(0, 0, AT "Mapping" [] [AT "Mapping" [] [a_any; a_any]; a_infinite])] /\
   back_run orders_sorted_rev arr_id 10 seen_witness =
     PLayout [(0, 0, AT "Mapping" [] [AT "Mapping" [] [a_any; a_any]; AT "Mapping" [] [a_any; a_any]])]) /\
  (* outside order_free (C16's K1 as the type of a slot): a dynamic array under one order, a conflict under the other *)
  (order_free (tstate_of k1_witness) = false /\ seen_safe (tstate_of k1_witness) = true /\ wf_b (tstate_of k1_witness) = true /\
   back_run orders_sorted arr_id 10 k1_witness = PLayout [(0, 0, AT "DynArray" [] [a_any])] /\
   back_run orders_sorted_rev arr_id 10 k1_witness = PLayout [(0, 0, a_conflict)]).
Proof. repeat split; vm_compute; reflexivity. Qed.

(* non-vacuity *)
Lemma fragment_example_ok :
  order_fragment (tstate_of fragment_example) = true /\
  (length (ts_vars (tstate_of fragment_example)) + 2 <= 11)%nat /\
  is_layout (back_run orders_sorted arr_id 11 fragment_example) = true /\
  back_run orders_sorted arr_id 11 fragment_example = back_run orders_sorted_rev (@rev tsv) 11 fragment_example.
Proof. repeat split; vm_compute; reflexivity. Qed.
