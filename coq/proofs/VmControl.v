(* C08: which control transfers the symbolic machine performs. *)
From SLX Require Import Base gen.Constants gen.ValueSig gen.OpcodeTable SymVal Micro gen.OpcodeSem Disasm VM
                        proofs.DisasmProofs proofs.VmBounds.
Open Scope N_scope.

Definition is_kill (m : mop) : bool := match m with MKill => true | _ => false end.

Section Control.
Variable fold : sv -> sv.
Variable code : list instr.

(* a target accepted by validate_jump is the FULL word on the stack (after constant folding), below 2^32,
   inside the code, and names a JUMPDEST instruction *)
Lemma validate_jump_exact counter t :
  validate_jump fold code counter = inl t ->
  as_word (fold counter) = Some t /\ t < two32 /\ t < N.of_nat (length code) /\
  nth_error code (N.to_nat t) = Some (IOp control_JumpDest).
Proof.
  unfold validate_jump. destruct (as_word (fold counter)) as [w|]; [|discriminate].
  destruct (two32 <=? w) eqn:E1; [discriminate|].
  destruct (N.of_nat (length code) <=? w) eqn:E2; [discriminate|].
  destruct (nth_error code (N.to_nat w)) as [i|] eqn:E; [|discriminate].
  destruct (is_jumpdest i) eqn:Ej; [|discriminate]. intros [= <-].
  apply N.leb_gt in E1, E2. repeat split; auto.
  rewrite E. f_equal. unfold is_jumpdest in Ej. destruct i as [o| | | | | |]; try discriminate.
  f_equal. destruct o; try discriminate; reflexivity.
Qed.

(* JUMP: the only way to get a CJump request *)
Lemma exec_jump_target c c' e t :
  exec_jump fold code c = (c', e, CJump t) ->
  exists counter s, stack (o_st c) = counter :: s /\ validate_jump fold code counter = inl t /\ e = None.
Proof.
  unfold exec_jump. destruct (stack (o_st c)) as [|counter s]; [discriminate|].
  destruct (validate_jump fold code counter) as [t'|er] eqn:Ev.
  - intros [= <- <- <-]. eauto.
  - destruct er; discriminate.
Qed.

(* JUMPI: a fork happens exactly when the target is valid and both limits allow it *)
Lemma exec_jumpi_fork cfg vis jt c counter cond s :
  stack (o_st c) = counter :: cond :: s ->
  forall t, validate_jump fold code counter = inl t ->
  count_of t vis < iter_limit cfg -> count_of t jt < fork_limit cfg ->
  exists c', exec_jumpi fold cfg code vis jt c = (c', None, None, CFork t, bump t jt).
Proof.
  intros Hs t Hv H1 H2. unfold exec_jumpi. rewrite Hs, Hv.
  replace (iter_limit cfg <=? count_of t vis) with false by (symmetry; apply N.leb_gt; exact H1).
  replace (fork_limit cfg <=? count_of t jt) with false by (symmetry; apply N.leb_gt; exact H2).
  eexists. reflexivity.
Qed.

Lemma exec_jumpi_target cfg vis jt c c' e se t jt' :
  exec_jumpi fold cfg code vis jt c = (c', e, se, CFork t, jt') ->
  exists counter cond s, stack (o_st c) = counter :: cond :: s /\ validate_jump fold code counter = inl t.
Proof.
  unfold exec_jumpi. destruct (stack (o_st c)) as [|counter s]; [discriminate|].
  destruct s as [|cond s']; [discriminate|].
  destruct (validate_jump fold code counter) as [t'|er] eqn:Ev; [|discriminate].
  destruct (iter_limit cfg <=? count_of t' vis); [discriminate|].
  destruct (fork_limit cfg <=? count_of t' jt); [discriminate|].
  intros [= <- <- <- <- <-]. eauto.
Qed.

(* ---- halting instructions ---- *)

Lemma build_exec_kill cfg c v : o_kill (snd (build_exec cfg c v)) = o_kill c.
Proof. unfold build_exec. destruct (build_limited (size_limit cfg) (o_id c) v). reflexivity. Qed.

Lemma copy_loop_kill cfg body : (forall c io, o_kill (body c io) = o_kill c) ->
  forall n count off limit c, o_kill (fst (copy_loop cfg body n count off limit c)) = o_kill c.
Proof.
  intros Hb. induction n as [|n IH]; intros count off limit c; cbn [copy_loop]; [reflexivity|].
  destruct (off <? limit); [|reflexivity].
  destruct (count mod poll_every cfg =? 0).
  - unfold poll. destruct (match stop_at cfg with Some k => k <=? o_polls c | None => false end); cbn [fst].
    + reflexivity.
    + rewrite IH, Hb. reflexivity.
  - rewrite IH, Hb. reflexivity.
Qed.

Lemma store_return_data_kill cfg c a b : o_kill (fst (store_return_data fold cfg c a b)) = o_kill c.
Proof.
  unfold store_return_data. destruct (as_word (fold a)).
  - apply copy_loop_kill. intros c0 io.
    pose proof (build_exec_kill cfg c0 (Node T_Add [] [fold b; Known io])) as H1.
    destruct (build_exec cfg c0 (Node T_Add [] [fold b; Known io])) as [dest c1]. cbn [snd] in H1.
    pose proof (build_exec_kill cfg c1 (Node T_ReturnData [] [Known io; Known 32])) as H2.
    destruct (build_exec cfg c1 (Node T_ReturnData [] [Known io; Known 32])) as [value c2]. cbn [snd] in H2.
    cbn. congruence.
  - pose proof (build_exec_kill cfg (ctx_id c (o_id c + 1)) (Val (o_id c))) as H1.
    destruct (build_exec cfg (ctx_id c (o_id c + 1)) (Val (o_id c))) as [rv c1]. cbn in *. exact H1.
Qed.

(* no micro-operation other than MKill touches the kill flag *)
Lemma run_mop_kill cfg ie m c : is_kill m = false -> o_kill (fst (run_mop fold cfg ie m c)) = o_kill c.
Proof.
  destruct m; intros Hk; try discriminate; cbn [run_mop].
  - destruct (stack (o_st c)); reflexivity.
  - pose proof (build_exec_kill cfg c (Node t [] (map (env_get c) args))) as H.
    destruct (build_exec cfg c (Node t [] (map (env_get c) args))). exact H.
  - pose proof (build_exec_kill cfg (ctx_id c (o_id c + 1)) (Node T_CallData [o_id c] [env_get c a; env_get c b])) as H.
    destruct (build_exec cfg (ctx_id c (o_id c + 1)) (Node T_CallData [o_id c] [env_get c a; env_get c b])). exact H.
  - pose proof (build_exec_kill cfg c (Known w)) as H. destruct (build_exec cfg c (Known w)). exact H.
  - pose proof (build_exec_kill cfg c (Known (i_ip ie))) as H. destruct (build_exec cfg c (Known (i_ip ie))). exact H.
  - pose proof (build_exec_kill cfg c (Known (i_code_len ie))) as H. destruct (build_exec cfg c (Known (i_code_len ie))). exact H.
  - pose proof (build_exec_kill cfg c (Known (i_self_word ie))) as H. destruct (build_exec cfg c (Known (i_self_word ie))). exact H.
  - reflexivity.
  - destruct (stack_push (stack (o_st c)) (env_get c x)); reflexivity.
  - reflexivity.
  - reflexivity.
  - destruct (mem_load_slice fold (mem_limit cfg) (o_st c) (env_get c a) (env_get c b)). reflexivity.
  - destruct (mem_load fold (o_st c) (env_get c a)). reflexivity.
  - reflexivity.
  - reflexivity.
  - destruct (sto_load _ _ _ _) as [[v st'] n]. reflexivity.
  - reflexivity.
  - apply store_return_data_kill.
  - destruct (N.of_nat (length (stack (o_st c))) <=? _); [reflexivity|].
    destruct (stack_push _ _); reflexivity.
  - destruct (stack (o_st c)) as [|top rest]; [reflexivity|].
    destruct (N.of_nat (length rest) + 1 <=? i_self_n ie); [reflexivity|].
    destruct (i_self_n ie); [reflexivity|]. destruct (swap_nth _ _ _) as [[o rest']|]; reflexivity.
Qed.

Lemma run_mops_kill_mono cfg ie ms : forall c, o_kill c = true -> o_kill (fst (run_mops fold cfg ie ms c)) = true.
Proof.
  induction ms as [|m ms IH]; intros c Hk; cbn [run_mops]; [exact Hk|].
  destruct (run_mop fold cfg ie m c) as [c' e] eqn:Em.
  assert (Hk' : o_kill c' = true).
  { destruct (is_kill m) eqn:Ek.
    - destruct m; try discriminate. cbn in Em. now injection Em as <- <-.
    - pose proof (run_mop_kill cfg ie m c Ek) as H. rewrite Em in H. cbn in H. congruence. }
  destruct e; [exact Hk'|]. now apply IH.
Qed.

(* a micro-program containing MKill either raises an error or leaves the kill flag set *)
Lemma run_mops_kills cfg ie ms : existsb is_kill ms = true ->
  forall c, snd (run_mops fold cfg ie ms c) <> None \/ o_kill (fst (run_mops fold cfg ie ms c)) = true.
Proof.
  induction ms as [|m ms IH]; intros Hex c; [discriminate|]. cbn [run_mops existsb] in *.
  destruct (run_mop fold cfg ie m c) as [c' e] eqn:Em.
  destruct e as [e|]; [left; discriminate|].
  destruct (is_kill m) eqn:Ek.
  - right. destruct m; try discriminate. cbn in Em. injection Em as <-.
    apply run_mops_kill_mono. reflexivity.
  - cbn [orb] in Hex. apply IH. exact Hex.
Qed.

(* the halting instructions: STOP RETURN REVERT SELFDESTRUCT (table entries) and INVALID (any byte) *)
Definition halting (i : instr) : bool :=
  match i with
  | IOp o => existsb (fun h => op_idx o =? op_idx h) [control_Stop; control_Return; control_Revert; environment_SelfDestruct]
  | IInvalid _ => true
  | _ => false
  end.

Lemma halting_sem_kills : forallb (fun o => match op_sem o with Some ms => existsb is_kill ms | None => false end)
                                  [control_Stop; control_Return; control_Revert; environment_SelfDestruct] = true
                          /\ existsb is_kill invalid_sem = true.
Proof. split; vm_compute; reflexivity. Qed.

Lemma exec_instr_halting cfg vis jt ip i c c' e se k jt' :
  halting i = true -> exec_instr fold cfg code vis jt ip i c = (c', e, se, k, jt') ->
  (e <> None \/ o_kill c' = true) /\ k = CNone.
Proof.
  destruct halting_sem_kills as [H1 H2].
  intros Hh. unfold exec_instr. destruct i as [o| | | | | |b]; try discriminate.
  - unfold halting in Hh. rewrite forallb_forall in H1.
    assert (Ho : exists h, In h [control_Stop; control_Return; control_Revert; environment_SelfDestruct] /\ o = h).
    { apply existsb_exists in Hh. destruct Hh as (h & Hin & Heq). exists h. split; [exact Hin|].
      apply N.eqb_eq in Heq. cbn [In] in Hin.
      destruct Hin as [<-|[<-|[<-|[<-|[]]]]]; destruct o; try discriminate Heq; reflexivity. }
    destruct Ho as (h & Hin & ->). specialize (H1 h Hin).
    destruct (op_sem h) as [ms|]; [|discriminate].
    match goal with |- context [run_mops ?a ?b ?c ?d ?e] => remember (run_mops a b c d e) as r eqn:Er end.
    intros [= <- <- <- <- <-]. split; [|reflexivity]. rewrite Er. apply run_mops_kills. exact H1.
  - match goal with |- context [run_mops ?a ?b ?c ?d ?e] => remember (run_mops a b c d e) as r eqn:Er end.
    intros [= <- <- <- <- <-]. split; [|reflexivity]. rewrite Er. apply run_mops_kills. exact H2.
Qed.

Ltac proj := cbn [v_code v_queue v_stored v_jt v_killed v_errors v_next_id v_polls v_counter v_retired v_paths v_cfg
                  tip tvis tgas tstate tpath snd fst].

(* STOP, RETURN, REVERT, SELFDESTRUCT, INVALID and unassigned bytes end the path: after the iteration the
   thread is retired and nothing was forked from it *)
Theorem halting_retires m m' t rest i :
  vm_step fold m = SRunning m' -> v_code m = code -> v_queue m = t :: rest ->
  nth_error code (N.to_nat (tip t)) = Some i -> halting i = true ->
  v_queue m' = rest /\ exists st, v_stored m' = v_stored m ++ [st].
Proof.
  intros Hs Hc Hq Hi Hh. unfold vm_step in Hs. rewrite Hq, Hc, Hi in Hs.
  destruct (if v_counter m mod poll_every (v_cfg m) =? 0 then _ else _) as [stopped c1]. destruct stopped; [discriminate|].
  destruct (exec_instr fold (v_cfg m) code (bump (tip t) (tvis t)) (v_jt m) (tip t) i c1) as [[[[c3 err] serr] k] jt'] eqn:Ex.
  destruct (exec_instr_halting _ _ _ _ _ _ _ _ _ _ _ Hh Ex) as [Hk ->].
  assert (Hkilled : match err with None => o_kill c3 | Some _ => true end = true).
  { destruct err; [reflexivity|]. destruct Hk as [Hk|Hk]; [congruence|exact Hk]. }
  destruct err as [e|]; cbv beta iota zeta in Hs; injection Hs as <-; unfold advance; proj;
    rewrite ?Hkilled, ?orb_true_r; proj; rewrite app_nil_r; split; eauto.
Qed.

(* JUMPI with a valid target explores both outcomes while the limits allow: the jump-taken copy is
   queued at the target, and the fall-through continues at the next offset unless a limit retires it *)
Theorem jumpi_both_branches m m' t rest i counter cond s target :
  vm_step fold m = SRunning m' -> v_code m = code -> v_queue m = t :: rest ->
  nth_error code (N.to_nat (tip t)) = Some i -> is_jumpi i = true ->
  stack (tstate t) = counter :: cond :: s ->
  validate_jump fold code counter = inl target ->
  count_of target (bump (tip t) (tvis t)) < iter_limit (v_cfg m) -> count_of target (v_jt m) < fork_limit (v_cfg m) ->
  (exists th, In th (v_queue m') /\ tip th = target /\ tpath th = tpath t ++ [true] /\ fork_point (tstate th) = tip t) /\
  ((exists th, In th (v_queue m') /\ tip th = tip t + 1 /\ tpath th = tpath t ++ [false]) \/
   (exists st, v_stored m' = v_stored m ++ [st])).
Proof.
  intros Hs Hc Hq Hi Hj Hst Hv H1 H2. unfold vm_step in Hs. rewrite Hq, Hc, Hi in Hs.
  destruct (if v_counter m mod poll_every (v_cfg m) =? 0 then _ else _) as [stopped c1] eqn:Ep. destruct stopped; [discriminate|].
  assert (Hst1 : stack (o_st c1) = counter :: cond :: s).
  { destruct (v_counter m mod poll_every (v_cfg m) =? 0); [|injection Ep as <-; exact Hst].
    unfold poll in Ep. injection Ep as _ <-. exact Hst. }
  assert (Hex : exists c', exec_instr fold (v_cfg m) code (bump (tip t) (tvis t)) (v_jt m) (tip t) i c1
                           = (c', None, None, CFork target, bump target (v_jt m))).
  { unfold exec_instr. unfold is_jumpi in Hj. destruct i as [o| | | | | |]; try discriminate.
    assert (o = control_JumpI) as -> by (apply N.eqb_eq in Hj; destruct o; try discriminate Hj; reflexivity).
    cbn [op_sem]. cbn [op_idx N.eqb Pos.eqb].
    apply (exec_jumpi_fork _ _ _ _ _ _ _ Hst1 _ Hv H1 H2). }
  destruct Hex as (c' & Hex). rewrite Hex in Hs. cbv beta iota zeta in Hs. injection Hs as <-.
  rewrite Hj. unfold advance; proj.
  repeat match goal with |- context [if ?b then _ else _] => destruct b end; proj; split;
    try (eexists; split; [apply in_or_app; right; left; reflexivity|]; proj; repeat split; reflexivity);
    try (right; eexists; reflexivity);
    try (eexists; split; [right; apply in_or_app; right; left; reflexivity|]; proj; repeat split; reflexivity);
    try (left; eexists; split; [left; reflexivity|]; proj; split; reflexivity).
Qed.

End Control.

(* ---- the reference EVM's own JUMPDEST analysis agrees with the disassembler's notion of immediates ---- *)
From SLX Require Import Word256 EvmSpec Evm.

Lemma jumpdests_from_spec bs : forall skip pos t,
  In t (jumpdests_from skip pos bs) <->
  exists k, t = pos + N.of_nat k /\ nth_error bs k = Some 91 /\ nth_error (immediates skip bs) k = Some false.
Proof.
  induction bs as [|b bs IH]; intros skip pos t; cbn [jumpdests_from immediates].
  - split; [intros []|intros (k & _ & H & _); destruct k; discriminate].
  - destruct (0 <? skip) eqn:Es.
    + rewrite IH. split.
      * intros (k & -> & H1 & H2). exists (S k). cbn. repeat split; auto. lia.
      * intros (k & -> & H1 & H2). destruct k as [|k]; cbn in *; [discriminate|]. exists k. repeat split; auto. lia.
    + destruct (b =? 91) eqn:Eb.
      * apply N.eqb_eq in Eb. subst b. cbn [In]. rewrite IH. unfold is_push. cbn.
        split.
        -- intros [<-|(k & -> & H1 & H2)]; [exists 0%nat; cbn; repeat split; auto; lia|].
           exists (S k). cbn. repeat split; auto. lia.
        -- intros (k & -> & H1 & H2). destruct k as [|k]; [left; lia|]. right. cbn in *. exists k. repeat split; auto. lia.
      * rewrite IH. assert (Hp : is_push_byte b = Disasm.is_push b).
        { unfold is_push_byte, Disasm.is_push, in_range. reflexivity. }
        rewrite Hp. replace (b - 95) with (b - PUSH_OPCODE_BASE_VALUE) by reflexivity.
        split.
        -- intros (k & -> & H1 & H2). exists (S k). cbn. repeat split; auto. lia.
        -- intros (k & -> & H1 & H2). destruct k as [|k]; cbn in *.
           ++ injection H1 as ->. discriminate.
           ++ exists k. repeat split; auto. lia.
Qed.

Theorem valid_dest_iff bs t :
  valid_dest bs t = true <->
  nth_error bs (N.to_nat t) = Some 91 /\ nth_error (immediates 0 bs) (N.to_nat t) = Some false.
Proof.
  unfold valid_dest. rewrite existsb_exists. split.
  - intros (x & Hin & Heq). apply N.eqb_eq in Heq. subst x. apply jumpdests_from_spec in Hin.
    destruct Hin as (k & -> & H1 & H2). replace (N.to_nat (0 + N.of_nat k)) with k by lia. auto.
  - intros [H1 H2]. exists t. split; [|apply N.eqb_refl]. apply jumpdests_from_spec.
    exists (N.to_nat t). repeat split; auto. lia.
Qed.

(* a JumpDest entry of a disassembled stream sits on a 0x5b byte that is not push data *)
Theorem jumpdest_entry_is_boundary bs is t :
  bytes_ok bs -> N.of_nat (length bs) <= two32 -> try_from bs = Ok is ->
  nth_error is t = Some (IOp control_JumpDest) ->
  nth_error bs t = Some 91 /\ nth_error (immediates 0 bs) t = Some false.
Proof.
  intros Hb Hl Ht Hn. pose proof (C10_positions_proof _ _ Hb Hl Ht) as F.
  destruct (C10_lossless_proof _ _ Hb Hl Ht) as [Hlen _].
  assert (Hlt : (t < length bs)%nat) by (rewrite <- Hlen; apply nth_error_Some; congruence).
  destruct (nth_error bs t) as [b|] eqn:Eb; [|apply nth_error_None in Eb; lia].
  destruct (nth_error (immediates 0 bs) t) as [imm|] eqn:Ei; [|apply nth_error_None in Ei; rewrite immediates_length in Ei; lia].
  destruct (Forall2_nth_error _ _ _ F t (b, imm) (nth_error_combine _ _ _ _ _ Eb Ei)) as (x & Hx & Hp).
  rewrite Hn in Hx. injection Hx as <-. destruct Hp as (P1 & P2 & P3).
  destruct imm.
  { destruct (P1 eq_refl) as [H|H]; discriminate. }
  split; [|reflexivity]. f_equal.
  destruct (is_push b) eqn:Epb.
  { destruct (P3 eq_refl eq_refl) as [(d & H)|H]; discriminate. }
  destruct (P2 eq_refl eq_refl) as [Hd _].
  assert (Hb1 : b < 256). { unfold bytes_ok in Hb. rewrite Forall_forall in Hb. apply Hb. eapply nth_error_In; eauto. }
  destruct (plain_ok b Hb1 Epb) as (i' & Hi' & He & _). rewrite Hi' in Hd. injection Hd as ->.
  cbn in He. injection He as <-. reflexivity.
Qed.
