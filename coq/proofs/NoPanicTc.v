(* C01 end to end (props/C01_pipeline.v), stages 5-6 of `Pipeline.analyze_model`: registration and the inference rules.

   Registration copies constructor and payload of every node of every lifted value into the expression table, so every
   registered node is `tnode_ok` when the lifted values are `spans_small`; `allocate_ty_var` adds `Value` nodes only.
   Every rule (`rule_bounded`) emits, on a registered node that is `tnode_ok`, only type expressions that are
     - `te_bounded`: word widths come from constants, from `SubWord.size` (<= 256), from the saturating call-data product
       (<= usize::MAX); spans come from `SubWord{offset,size}` / `Packed` payloads (offset + size <= 256) and from the
       mapping projection, where the guard of fix 66cf5b5 (`checked_mul` + `checked_add`) leaves offset + 256 < 2^64;
     - closed: they name only variables of the value's own sub-terms or the variable the rule allocated.
   Hence the judgement set handed to `unify` is `tstate_ok` (`registered_state_closed`). *)
From Coq Require Import String.
From SLX Require Import Base Word256 gen.Constants gen.ValueSig gen.WordUseTable gen.RulesSig SymVal Fold PassesPacking TypeExpr Merge
  Register Rules Unify NoPanic.
From SLX.proofs Require Import RegisterProofs RulesProofs PassesPackingProofs.
Open Scope N_scope.
Set Default Timeout 300.

(* ================================================================================================ arithmetic *)
Lemma wsb_le_usize : WORD_SIZE_BITS <= usize_max.
Proof. vm_compute. discriminate. Qed.

Lemma calldata_bits_bound n b : calldata_bits n = Ok b -> b <= usize_max.
Proof. unfold calldata_bits, usize_sat_mul, usize_max. intros [= <-]. apply N.le_min_r. Qed.

Lemma mapping_span_offset_bound p off : mapping_span_offset p = Ok (Some off) -> off + WORD_SIZE_BITS <= usize_max.
Proof.
  unfold mapping_span_offset, usize_max. destruct (p * WORD_SIZE_BITS + WORD_SIZE_BITS <? two64) eqn:E; [|discriminate].
  intros [= <-]. apply N.ltb_lt in E. lia.
Qed.

Lemma te_closed_mono n n' e : n <= n' -> te_closed n e = true -> te_closed n' e = true.
Proof.
  unfold te_closed. intros Hn H. apply forallb_forall. intros v Hv. rewrite forallb_forall in H. specialize (H v Hv).
  apply N.ltb_lt in H. apply N.ltb_lt. lia.
Qed.
Lemma te_ok_mono n n' e : n <= n' -> te_ok n e = true -> te_ok n' e = true.
Proof. unfold te_ok. intros Hn H. apply andb_prop in H as [H1 H2]. rewrite H1, (te_closed_mono n n' e Hn H2). reflexivity. Qed.

Lemma te_ok_intro n e : te_bounded e = true -> (forall w, In w (te_vars e) -> w < n) -> te_ok n e = true.
Proof.
  intros Hb Hv. unfold te_ok. rewrite Hb. cbn [andb]. unfold te_closed. apply forallb_forall. intros w Hw. apply N.ltb_lt. exact (Hv w Hw).
Qed.

(* ================================================================================================ the invariant *)
Definition evar (st : tcs) : Prop := forall v x, In (v, x) (exprs st) -> tv_of x = v.
Definition exprs_ok (st : tcs) : Prop := forall v x, In (v, x) (exprs st) -> tnode_ok x = true.
Definition infs_ok (st : tcs) : Prop := forall v l e, In (v, l) (infs st) -> In e l -> te_ok (next st) e = true.

Record tinv (st : tcs) : Prop := {
  ti_w : winv st;
  ti_var : evar st;
  ti_nodes : exprs_ok st;
  ti_infs : infs_ok st }.

(* ================================================================================================ registration *)
Definition node_small (t : tag) (a : list N) : bool := sw_node_ok t a && pk_node_ok t a.

Lemma spans_small_sub v s : spans_small v = true -> In s (subterms v) -> node_small (sv_tag s) (sv_attrs s) = true.
Proof.
  unfold spans_small, subwords_in_slot, packeds_in_slot. intros H Hs. apply andb_prop in H as [H1 H2].
  pose proof (nodes_ok_sub sw_node_ok s v Hs H1) as A. pose proof (nodes_ok_sub pk_node_ok s v Hs H2) as B.
  destruct s as [t a args]. cbn [nodes_ok] in A, B. apply andb_prop in A as [A _]. apply andb_prop in B as [B _].
  unfold node_small. cbn [sv_tag sv_attrs]. rewrite A, B. reflexivity.
Qed.

Definition infs_nil (st : tcs) : Prop := forall v l, In (v, l) (infs st) -> l = [].
Definition reg_inv (st : tcs) : Prop := exprs_ok st /\ infs_nil st.

Lemma reg_reg_inv v : (forall s, In s (subterms v) -> node_small (sv_tag s) (sv_attrs s) = true) ->
  forall st, reg_inv st -> reg_inv (snd (reg v st)).
Proof.
  induction v as [t a args IH] using sv_ind'. intros Hv st Hst. rewrite reg_unfold. cbv zeta.
  destruct (if is_stable (Node t a args) then lookup_stable (Node t a args) (stable st) else None); [exact Hst|].
  assert (A : forall l st0, (forall x, In x l -> In x args) -> reg_inv st0 -> reg_inv (snd (reg_args l st0))).
  { induction l as [|x r IHr]; intros st0 Hsub H0; cbn [reg_args]; [exact H0|].
    assert (Hx : In x args) by (apply Hsub; left; reflexivity).
    rewrite Forall_forall in IH. pose proof (IH x Hx) as IHx.
    assert (Hvx : forall s, In s (subterms x) -> node_small (sv_tag s) (sv_attrs s) = true).
    { intros s Hs. apply Hv. cbn [subterms]. right. apply in_flat_map. exists x. split; assumption. }
    specialize (IHx Hvx st0 H0). destruct (reg x st0) as [tx s1]. cbn [snd] in IHx.
    specialize (IHr s1 (fun y Hy => Hsub y (or_intror Hy)) IHx). destruct (reg_args r s1) as [tr s2]. exact IHr. }
  specialize (A args st (fun x Hx => Hx) Hst). destruct (reg_args args st) as [tas st1]. cbn [snd] in *.
  destruct A as [A1 A2]. split.
  - intros w x [E|Hin]; [|exact (A1 w x Hin)]. inversion E; subst. unfold tnode_ok. cbn [ttag tattrs].
    exact (Hv (Node t a args) (or_introl eq_refl)).
  - intros w l [E|Hin]; [inversion E; reflexivity|exact (A2 w l Hin)].
Qed.

Lemma reg_list_reg_inv l : (forall v s, In v l -> In s (subterms v) -> node_small (sv_tag s) (sv_attrs s) = true) ->
  forall st, reg_inv st -> reg_inv (snd (reg_list l st)).
Proof.
  induction l as [|x r IH]; intros Hl st Hst; cbn [reg_list]; [exact Hst|].
  pose proof (reg_reg_inv x (fun s Hs => Hl x s (or_introl eq_refl) Hs) st Hst) as H1. destruct (reg x st) as [tx s1]. cbn [snd] in H1.
  specialize (IH (fun v s Hv Hs => Hl v s (or_intror Hv) Hs) s1 H1). destruct (reg_list r s1) as [tr s2]. exact IH.
Qed.

(* stage boundary lift -> infer: the state `assign_vars` leaves *)
Theorem assign_vars_tinv lifted : Forall (fun v => spans_small v = true) lifted -> tinv (snd (assign_vars lifted)).
Proof.
  intros Hl. pose proof (register_covers_subterms_lemma lifted) as C.
  assert (R : reg_inv (snd (assign_vars lifted))).
  { unfold assign_vars. apply reg_list_reg_inv.
    - intros v s Hv Hs. rewrite Forall_forall in Hl. exact (spans_small_sub v s (Hl v Hv) Hs).
    - split; [intros w x []|intros w l []]. }
  destruct (assign_vars lifted) as [ts st]. cbn [snd] in *. destruct C as (I & _). destruct R as [R1 R2].
  constructor; [exact (inv_winv st I)|exact (i_var st I)|exact R1|].
  intros v l e Hin He. rewrite (R2 v l Hin) in He. destruct He.
Qed.

(* ================================================================================================ state.infer *)
Lemma set_add_in e l x : In x (set_add e l) -> x = e \/ In x l.
Proof.
  induction l as [|y l IH]; cbn [set_add]; [intros [<-|[]]; left; reflexivity|].
  destruct (te_eqb y e); [intros H; right; exact H|]. intros [<-|H]; [right; left; reflexivity|].
  destruct (IH H) as [->|H']; [left; reflexivity|right; right; exact H'].
Qed.

Lemma add_inf_in l v e : forall l', add_inf l v e = Some l' -> forall w s x, In (w, s) l' -> In x s ->
  x = e \/ exists s0, In (w, s0) l /\ In x s0.
Proof.
  induction l as [|[u s0] l IH]; cbn [add_inf]; [discriminate|]. intros l'. destruct (u =? v).
  - intros [= <-] w s x [E|Hin] Hx.
    + inversion E; subst. apply set_add_in in Hx as [->|Hx]; [left; reflexivity|right; exists s0; split; [left; reflexivity|exact Hx]].
    + right. exists s. split; [right; exact Hin|exact Hx].
  - destruct (add_inf l v e) as [r|] eqn:E; [|discriminate]. cbn [option_map]. intros [= <-] w s x [E1|Hin] Hx.
    + inversion E1; subst. right. exists s. split; [left; reflexivity|exact Hx].
    + destruct (IH r eq_refl w s x Hin Hx) as [->|(s1 & H1 & H2)]; [left; reflexivity|right; exists s1; split; [right; exact H1|exact H2]].
Qed.

Lemma set_infs_tinv st i v e : add_inf (infs st) v e = Some i -> te_ok (next st) e = true -> tinv st -> tinv (set_infs st i).
Proof.
  intros A He [W V Nn If]. constructor.
  - apply (same_but_infs_winv st); [|exact W]. unfold same_but_infs, set_infs. cbn. repeat split. exact (add_inf_keys _ _ _ _ A).
  - exact V.
  - exact Nn.
  - intros w l x Hin Hx. cbn [set_infs infs next] in *. destruct (add_inf_in _ _ _ _ A w l x Hin Hx) as [->|(s0 & H1 & H2)]; [exact He|].
    exact (If w s0 x H1 H2).
Qed.

Lemma st_infer_tinv st v e st' : st_infer st v e = Ok st' -> v < next st -> te_ok (next st) e = true -> tinv st ->
  tinv st' /\ next st' = next st /\ exprs st' = exprs st.
Proof.
  intros E Hv He T. unfold st_infer in E.
  assert (G : forall e', te_ok (next st) e' = true ->
            match add_inf (infs st) v e' with Some i => Ok (set_infs st i) | None => Panic SITE_INFER_VAR end = (Ok st' : outcome tcs unit) ->
            tinv st' /\ next st' = next st /\ exprs st' = exprs st).
  { intros e' He' E'. destruct (add_inf (infs st) v e') as [i|] eqn:A; [|discriminate]. injection E' as <-.
    split; [exact (set_infs_tinv st i v e' A He' T)|split; reflexivity]. }
  destruct e; try (apply (G _ He E)).
  destruct (id =? v); [injection E as <-; auto|].
  destruct (add_inf (infs st) id (Equal v)) as [i1|] eqn:A1; [|discriminate].
  destruct (add_inf i1 v (Equal id)) as [i2|] eqn:A2; [|discriminate]. injection E as <-.
  assert (Hev : te_ok (next st) (Equal v) = true).
  { apply te_ok_intro; [reflexivity|]. cbn [te_vars]. intros w [<-|[]]. exact Hv. }
  pose proof (set_infs_tinv st i1 id (Equal v) A1 Hev T) as T1.
  pose proof (set_infs_tinv (set_infs st i1) i2 v (Equal id) A2 He T1) as T2.
  split; [exact T2|split; reflexivity].
Qed.

Lemma apply_js_tinv js : forall st st', apply_js js st = Ok st' ->
  (forall v e, In (v, e) js -> v < next st /\ te_ok (next st) e = true) -> tinv st ->
  tinv st' /\ next st' = next st /\ exprs st' = exprs st.
Proof.
  induction js as [|[v e] js IH]; intros st st'; cbn [apply_js].
  - intros [= <-] _ T. auto.
  - destruct (st_infer st v e) as [s1|x|p] eqn:E; try discriminate. intros H Hjs T.
    destruct (Hjs v e (or_introl eq_refl)) as [Hv He].
    destruct (st_infer_tinv st v e s1 E Hv He T) as (T1 & N1 & X1).
    destruct (IH s1 st' H) as (T2 & N2 & X2); [|exact T1|].
    + intros v' e' Hin. rewrite N1. apply Hjs. right. exact Hin.
    + split; [exact T2|]. split; congruence.
Qed.

(* ================================================================================================ the rules *)
Definition rule_bounded (r : rule) : Prop :=
  forall x fresh ro, tnode_ok x = true -> r x fresh = Ok ro ->
    forall v e, In (v, e) (ro_js ro) ->
      te_bounded e = true /\ forall w, In w (te_vars e) -> allowed x fresh (ro_alloc ro) w.

(* ---- table rules: the rows of the generated tables are words of constant width ---- *)
Definition tbl_plain (tbl : rule_table) : bool :=
  forallb (fun row => forallb (fun fe : string * te =>
                                 te_bounded (snd fe) && match te_vars (snd fe) with [] => true | _ => false end) (snd row)) tbl.

Lemma sign_extend_arm_plain x v e : In (v, e) (sign_extend_arm x) -> te_bounded e = true /\ te_vars e = [].
Proof.
  destruct x as [w t a args]. unfold sign_extend_arm. intros H.
  destruct t; try (cbn in H; contradiction). destruct a; [|cbn in H; contradiction].
  destruct args as [|size [|value [|]]]; try (cbn in H; contradiction).
  cbn [In] in H. destruct H as [Hq|[Hq|[Hq|[]]]]; inversion Hq; subst; (split; [|reflexivity]); try reflexivity.
  destruct size as [sv st sa sargs]. destruct st; try reflexivity. destruct sa as [|w0 [|? ?]]; try reflexivity.
  destruct sargs; try reflexivity. destruct (as_usize w0 <=? WORD_SIZE_BITS) eqn:E; [|reflexivity].
  cbn [te_bounded]. apply N.leb_le. apply N.leb_le in E. pose proof wsb_le_usize. lia.
Qed.

Lemma table_rule_bounded tbl sp : tbl_plain tbl = true -> sp_known sp = true -> rule_bounded (table_rule tbl sp).
Proof.
  intros HT HS x fresh ro _. unfold table_rule. destruct (find_special sp (ttag x)) as [n|] eqn:Fs.
  - destruct (find_special_in _ _ _ Fs) as (t' & Hin). unfold sp_known in HS. rewrite forallb_forall in HS.
    specialize (HS _ Hin). cbn [snd] in HS. unfold special_arm. rewrite HS. intros [= <-] v e Hve. cbn [ro_js js_out] in Hve.
    destruct (sign_extend_arm_plain x v e Hve) as [A B]. split; [exact A|]. rewrite B. intros w [].
  - destruct (find_row tbl (ttag x)) as [row|] eqn:Fr.
    + intros [= <-] v e Hve. cbn [ro_js js_out] in Hve.
      destruct (find_row_in _ _ _ Fr) as (t' & Hin). unfold tbl_plain in HT. rewrite forallb_forall in HT.
      specialize (HT _ Hin). cbn [snd] in HT. rewrite forallb_forall in HT.
      unfold row_judgements in Hve. apply in_flat_map in Hve as (fe & Hfe & Hve). specialize (HT fe Hfe).
      apply andb_prop in HT as [H1 H2].
      assert (Ee : e = snd fe).
      { destruct (String.eqb (fst fe) "self").
        - destruct Hve as [Hve|[]]. inversion Hve. reflexivity.
        - destruct (field_arg (ttag x) (fst fe) (targs x)); [|destruct Hve]. destruct Hve as [Hve|[]]. inversion Hve. reflexivity. }
      subst e. split; [exact H1|]. destruct (te_vars (snd fe)); [intros w []|discriminate].
    + intros [= <-] v e [].
Qed.

Lemma tables_plain :
  forallb (fun p : rule_table * list (tag * string) => tbl_plain (fst p) && sp_known (snd p))
    [(table_ArithmeticOperationRule, special_ArithmeticOperationRule); (table_BitShiftRule, special_BitShiftRule);
     (table_BooleanOpsRule, special_BooleanOpsRule); (table_CreateContractRule, special_CreateContractRule);
     (table_EnvironmentCodesRule, special_EnvironmentCodesRule); (table_ExternalCallRule, special_ExternalCallRule);
     (table_HashRule, special_HashRule); (table_OffsetSizeRule, special_OffsetSizeRule);
     (table_ExtCodeRule, special_ExtCodeRule)] = true.
Proof. vm_compute. reflexivity. Qed.

Ltac table_bounded :=
  apply table_rule_bounded;
  [ pose proof tables_plain as H_; cbn [forallb] in H_; rewrite !andb_true_iff in H_; tauto
  | pose proof tables_plain as H_; cbn [forallb] in H_; rewrite !andb_true_iff in H_; tauto ].

(* ---- hand-written rules ---- *)
(* take the equation `rule x fresh = Ok ro` apart until the rule's output is explicit *)
Ltac crack_rule E :=
  repeat match type of E with
         | context [match ?x with _ => _ end] => destruct x eqn:?; try discriminate E
         end;
  injection E as <-.

Ltac js_cases Hin := cbn [ro_js js_out no_out In] in Hin; repeat (destruct Hin as [Hin|Hin]; [inversion Hin; subst; clear Hin|]); try destruct Hin.

Ltac vars_allowed := cbn [te_vars packed_of map s_typ In ro_alloc js_out no_out]; intros w_ Hw_;
  repeat (destruct Hw_ as [Hw_|Hw_]; [subst w_; allowed_var|]); try destruct Hw_.

Lemma call_data_rule_bounded : rule_bounded call_data_rule.
Proof.
  intros x fresh ro _ E v e Hin. unfold call_data_rule in E. crack_rule E; js_cases Hin.
  split; [|vars_allowed]. cbn [te_bounded]. apply N.leb_le. eapply calldata_bits_bound. eassumption.
Qed.

Lemma dynamic_array_write_rule_bounded : rule_bounded dynamic_array_write_rule.
Proof.
  intros x fresh ro _ E v e Hin. unfold dynamic_array_write_rule in E. crack_rule E; js_cases Hin; (split; [reflexivity|vars_allowed]).
Qed.

Lemma mapping_access_rule_bounded : rule_bounded mapping_access_rule.
Proof.
  intros x fresh ro _ E v e Hin. unfold mapping_access_rule in E. crack_rule E; js_cases Hin; (split; [|vars_allowed]); try reflexivity.
  all: cbn [te_bounded packed_of forallb]; unfold span_fits; cbn [s_off s_sz]; rewrite andb_true_r; apply N.leb_le;
    eapply mapping_span_offset_bound; eassumption.
Qed.

Lemma masked_word_rule_bounded : rule_bounded masked_word_rule.
Proof.
  intros x fresh ro Hx E v e Hin. unfold masked_word_rule in E. crack_rule E; js_cases Hin.
  all: unfold tnode_ok in Hx; cbn [ttag tattrs] in Hx; apply andb_prop in Hx as [Hx _];
    unfold sw_node_ok in Hx; cbn [tag_eqb] in Hx; rewrite tag_eqb_refl in Hx; unfold subword_ok in Hx;
    apply andb_prop in Hx as [_ Hx]; apply N.leb_le in Hx; pose proof wsb_le_usize as Hw; unfold WORD_SIZE_BITS in Hw.
  - split; [|vars_allowed]. cbn [te_bounded]. apply N.leb_le. lia.
  - split; [|vars_allowed]. cbn [te_bounded packed_of forallb]. unfold span_fits. cbn [s_off s_sz]. rewrite andb_true_r. apply N.leb_le. lia.
Qed.

Lemma packed_spans_props attrs : forall args last, spans_ok last attrs = true ->
  forallb span_fits (packed_spans attrs args) = true /\
  forall s, In s (packed_spans attrs args) -> exists y, In y args /\ s_typ s = tv_of y.
Proof.
  induction attrs as [attrs IH] using (well_founded_induction (Wf_nat.well_founded_ltof _ (@length N))).
  intros args last H. destruct attrs as [|o [|n attrs']]; cbn [packed_spans]; try (split; [reflexivity|intros s []]).
  destruct args as [|y args']; [split; [reflexivity|intros s []]|].
  cbn [spans_ok] in H. apply andb_prop in H as [H H3]. apply andb_prop in H as [_ H2].
  destruct (IH attrs') with (args := args') (last := o + n) as [A B]; [unfold ltof; cbn [length]; lia|exact H3|].
  split.
  - cbn [forallb]. rewrite A, andb_true_r. unfold span_fits. cbn [s_off s_sz]. apply N.leb_le. apply N.leb_le in H2.
    pose proof wsb_le_usize as Hw. unfold WORD_SIZE_BITS in Hw. lia.
  - intros s [<-|Hs]; [exists y; split; [left; reflexivity|reflexivity]|].
    destruct (B s Hs) as (y' & Hy' & E). exists y'. split; [right; exact Hy'|exact E].
Qed.

Lemma packed_encoding_rule_bounded : rule_bounded packed_encoding_rule.
Proof.
  intros x fresh ro Hx E v e Hin. unfold packed_encoding_rule in E. destruct x as [xv t a args].
  destruct t; injection E as <-; js_cases Hin.
  unfold tnode_ok in Hx. cbn [ttag tattrs] in Hx. apply andb_prop in Hx as [_ Hx]. unfold pk_node_ok in Hx. rewrite tag_eqb_refl in Hx.
  destruct (packed_spans_props a args 0 Hx) as [A B]. split; [exact A|].
  cbn [te_vars packed_of]. intros w Hw. apply in_map_iff in Hw as (s & <- & Hs). destruct (B s Hs) as (y & Hy & ->).
  right. apply arg_var_in. exact Hy.
Qed.

Lemma s_load_rule_bounded : rule_bounded s_load_rule.
Proof.
  intros x fresh ro _ E v e Hin. unfold s_load_rule in E. crack_rule E; js_cases Hin; (split; [reflexivity|vars_allowed]).
Qed.

Lemma storage_key_rule_bounded : rule_bounded storage_key_rule.
Proof.
  intros x fresh ro _ E v e Hin. unfold storage_key_rule in E. crack_rule E; js_cases Hin; (split; [reflexivity|vars_allowed]).
Qed.

Lemma storage_write_rule_bounded : rule_bounded storage_write_rule.
Proof.
  intros x fresh ro _ E v e Hin. unfold storage_write_rule in E. crack_rule E; js_cases Hin; (split; [reflexivity|vars_allowed]).
Qed.

(* ---- the rules of InferenceRules::default() ---- *)
Lemma bounded_ArithmeticOperationRule : rule_bounded (rule_named "ArithmeticOperationRule").
Proof. change (rule_named "ArithmeticOperationRule") with (table_rule table_ArithmeticOperationRule special_ArithmeticOperationRule). table_bounded. Qed.
Lemma bounded_BitShiftRule : rule_bounded (rule_named "BitShiftRule").
Proof. change (rule_named "BitShiftRule") with (table_rule table_BitShiftRule special_BitShiftRule). table_bounded. Qed.
Lemma bounded_BooleanOpsRule : rule_bounded (rule_named "BooleanOpsRule").
Proof. change (rule_named "BooleanOpsRule") with (table_rule table_BooleanOpsRule special_BooleanOpsRule). table_bounded. Qed.
Lemma bounded_CreateContractRule : rule_bounded (rule_named "CreateContractRule").
Proof. change (rule_named "CreateContractRule") with (table_rule table_CreateContractRule special_CreateContractRule). table_bounded. Qed.
Lemma bounded_EnvironmentCodesRule : rule_bounded (rule_named "EnvironmentCodesRule").
Proof. change (rule_named "EnvironmentCodesRule") with (table_rule table_EnvironmentCodesRule special_EnvironmentCodesRule). table_bounded. Qed.
Lemma bounded_ExternalCallRule : rule_bounded (rule_named "ExternalCallRule").
Proof. change (rule_named "ExternalCallRule") with (table_rule table_ExternalCallRule special_ExternalCallRule). table_bounded. Qed.
Lemma bounded_HashRule : rule_bounded (rule_named "HashRule").
Proof. change (rule_named "HashRule") with (table_rule table_HashRule special_HashRule). table_bounded. Qed.
Lemma bounded_OffsetSizeRule : rule_bounded (rule_named "OffsetSizeRule").
Proof. change (rule_named "OffsetSizeRule") with (table_rule table_OffsetSizeRule special_OffsetSizeRule). table_bounded. Qed.
Lemma bounded_CallDataRule : rule_bounded (rule_named "CallDataRule").
Proof. change (rule_named "CallDataRule") with call_data_rule. exact call_data_rule_bounded. Qed.
Lemma bounded_DynamicArrayWriteRule : rule_bounded (rule_named "DynamicArrayWriteRule").
Proof. change (rule_named "DynamicArrayWriteRule") with dynamic_array_write_rule. exact dynamic_array_write_rule_bounded. Qed.
Lemma bounded_MappingAccessRule : rule_bounded (rule_named "MappingAccessRule").
Proof. change (rule_named "MappingAccessRule") with mapping_access_rule. exact mapping_access_rule_bounded. Qed.
Lemma bounded_MaskedWordRule : rule_bounded (rule_named "MaskedWordRule").
Proof. change (rule_named "MaskedWordRule") with masked_word_rule. exact masked_word_rule_bounded. Qed.
Lemma bounded_PackedEncodingRule : rule_bounded (rule_named "PackedEncodingRule").
Proof. change (rule_named "PackedEncodingRule") with packed_encoding_rule. exact packed_encoding_rule_bounded. Qed.
Lemma bounded_SLoadIsInnerTypesRule : rule_bounded (rule_named "SLoadIsInnerTypesRule").
Proof. change (rule_named "SLoadIsInnerTypesRule") with s_load_rule. exact s_load_rule_bounded. Qed.
Lemma bounded_StorageKeyRule : rule_bounded (rule_named "StorageKeyRule").
Proof. change (rule_named "StorageKeyRule") with storage_key_rule. exact storage_key_rule_bounded. Qed.
Lemma bounded_StorageWriteRule : rule_bounded (rule_named "StorageWriteRule").
Proof. change (rule_named "StorageWriteRule") with storage_write_rule. exact storage_write_rule_bounded. Qed.

Lemma default_rules_bounded : Forall rule_bounded default_rule_set.
Proof.
  unfold default_rule_set. rewrite default_rules_are_expected. unfold expected_rules. cbn [map].
  repeat (apply Forall_cons); [ exact bounded_ArithmeticOperationRule | exact bounded_BitShiftRule | exact bounded_BooleanOpsRule | exact bounded_CallDataRule
    | exact bounded_CreateContractRule | exact bounded_DynamicArrayWriteRule | exact bounded_EnvironmentCodesRule
    | exact bounded_ExternalCallRule | exact bounded_HashRule | exact bounded_MappingAccessRule | exact bounded_MaskedWordRule
    | exact bounded_OffsetSizeRule | exact bounded_PackedEncodingRule | exact bounded_SLoadIsInnerTypesRule
    | exact bounded_StorageKeyRule | exact bounded_StorageWriteRule | apply Forall_nil ].
Qed.

(* ================================================================================================ applying rules *)
Lemma allocate_tinv st : tinv st -> tinv (snd (allocate st)).
Proof.
  intros [W V Nn If]. constructor.
  - exact (allocate_winv st W).
  - intros v x [E|Hin]; [inversion E; reflexivity|exact (V v x Hin)].
  - intros v x [E|Hin]; [inversion E; reflexivity|exact (Nn v x Hin)].
  - intros v l e [E|Hin] He; [inversion E; subst; destruct He|].
    cbn [allocate snd next]. apply (te_ok_mono (next st)); [lia|]. exact (If v l e Hin He).
Qed.

Lemma apply_rule_tinv r x st st' : rule_good r -> rule_bounded r -> tinv st -> In (tv_of x, x) (exprs st) ->
  apply_rule r x st = Ok st' -> tinv st' /\ next st <= next st' /\ (forall p, In p (exprs st) -> In p (exprs st')).
Proof.
  intros G B T Hx. unfold apply_rule. destruct (r x (next st)) as [ro|e|p] eqn:Er; try discriminate.
  destruct (G x (next st)) as (ro' & Er' & Hjs). rewrite Er in Er'. injection Er' as <-.
  pose proof (B x (next st) ro (ti_nodes st T _ _ Hx) Er) as Hb.
  set (st1 := if ro_alloc ro then snd (allocate st) else st).
  assert (T1 : tinv st1) by (subst st1; destruct (ro_alloc ro); [apply allocate_tinv|]; exact T).
  assert (K1 : forall w, allowed x (next st) (ro_alloc ro) w -> w < next st1).
  { intros w Hw. apply (w_lt st1 (ti_w st1 T1)). rewrite (w_keys st1 (ti_w st1 T1)).
    destruct Hw as [[A ->]|Hw]; subst st1.
    - rewrite A. cbn. left. reflexivity.
    - pose proof (winv_vars st x (ti_w st T) Hx w Hw). destruct (ro_alloc ro); [cbn; right|]; assumption. }
  intros E. destruct (apply_js_tinv (ro_js ro) st1 st' E) as (T2 & N2 & X2); [|exact T1|].
  - intros v e Hin. destruct (Hjs v e Hin) as (Hv & _). destruct (Hb v e Hin) as (Hbe & Hve). split; [exact (K1 v Hv)|].
    apply te_ok_intro; [exact Hbe|]. intros w Hw. exact (K1 w (Hve w Hw)).
  - split; [exact T2|]. split.
    + rewrite N2. subst st1. destruct (ro_alloc ro); cbn; lia.
    + intros p0 Hp. rewrite X2. subst st1. destruct (ro_alloc ro); [cbn; right|]; exact Hp.
Qed.

Lemma infer_value_tinv rs : Forall rule_good rs -> Forall rule_bounded rs -> forall x st st', tinv st -> In (tv_of x, x) (exprs st) ->
  infer_value rs x st = Ok st' -> tinv st' /\ next st <= next st' /\ (forall p, In p (exprs st) -> In p (exprs st')).
Proof.
  induction rs as [|r rs IH]; intros HG HB x st st' T Hx; cbn [infer_value].
  - intros [= <-]. split; [exact T|]. split; [lia|auto].
  - inversion HG as [|? ? Gr Grs]; subst. inversion HB as [|? ? Br Brs]; subst.
    destruct (apply_rule r x st) as [s1|e|p] eqn:E; try discriminate. intros H.
    destruct (apply_rule_tinv r x st s1 Gr Br T Hx E) as (T1 & N1 & K1).
    destruct (IH Grs Brs x s1 st' T1 (K1 _ Hx) H) as (T2 & N2 & K2). split; [exact T2|]. split; [lia|auto].
Qed.

Lemma infer_values_tinv rs : Forall rule_good rs -> Forall rule_bounded rs -> forall xs st st', tinv st ->
  (forall x, In x xs -> In (tv_of x, x) (exprs st)) ->
  infer_values rs xs st = Ok st' -> tinv st' /\ next st <= next st' /\ (forall p, In p (exprs st) -> In p (exprs st')).
Proof.
  intros HG HB. induction xs as [|x xs IH]; intros st st' T Hxs; cbn [infer_values].
  - intros [= <-]. split; [exact T|]. split; [lia|auto].
  - destruct (infer_value rs x st) as [s1|e|p] eqn:E; try discriminate. intros H.
    destruct (infer_value_tinv rs HG HB x st s1 T (Hxs x (or_introl eq_refl)) E) as (T1 & N1 & K1).
    destruct (IH s1 st' T1) as (T2 & N2 & K2); [intros y Hy; apply K1, Hxs; right; exact Hy|exact H|].
    split; [exact T2|]. split; [lia|auto].
Qed.

(* ================================================================================================ the judgement set *)
(* what `unify` receives from a state satisfying the invariant *)
Lemma tinv_tstate_ok st : tinv st -> tstate_ok (mk_tstate (infs st) (next st)) = true.
Proof.
  intros T. unfold tstate_ok. cbn [ts_inf ts_next]. apply forallb_forall. intros [v l] Hin. cbn [snd].
  apply forallb_forall. intros e He. exact (ti_infs st T v l e Hin He).
Qed.

Lemma tstate_ok_get st v e : tstate_ok st = true -> In e (ts_get st v) -> te_ok (ts_next st) e = true.
Proof.
  unfold tstate_ok, ts_get. intros H He. destruct (find (fun p => fst p =? v) (ts_inf st)) as [p|] eqn:F; [|destruct He].
  apply find_some in F as [Hin _]. rewrite forallb_forall in H. specialize (H p Hin). rewrite forallb_forall in H. exact (H e He).
Qed.

(* every registered value carries a variable below the counter *)
Lemma tinv_values_lt st x : tinv st -> In x (values st) -> tv_of x < next st.
Proof.
  intros T Hx. unfold values in Hx. apply in_rev in Hx. apply in_map_iff in Hx as ([v y] & <- & Hin). cbn [snd].
  rewrite (ti_var st T v y Hin). apply (w_lt st (ti_w st T)). apply in_map_iff. exists (v, y). split; [reflexivity|exact Hin].
Qed.
