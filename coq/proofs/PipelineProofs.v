(* Proofs about the composed model `Pipeline.analyze_model` (all stages, sorted iteration orders): inversion of a
   run that returned a layout into the facts each stage contributed, then the end-to-end theorems
     pipeline_layout_sorted        (C12, ordering half)
     pipeline_storage_free_empty   (C05)
     pipeline_literal_key_row      (C06)
   composed from the stage theorems (LayoutProofs, PassesSlotsProofs, PassesPackingProofs, RegisterProofs, RulesProofs,
   AbiProofs, TcStagesProofs, VmBounds) and a VM invariant proved here for every micro-operation. *)
From Coq Require Import String.
From SLX Require Import Base Word256 PackingArith gen.Constants gen.ValueSig gen.OpcodeTable gen.PassOrder gen.RulesSig
  SymVal Micro gen.OpcodeSem Disasm VM Fold PassesSlots PassesPacking TypeExpr Merge VectorMap DisjointSet Register Rules
  Unify AbiT Layout Abi PolledLoop Pipeline.
From Coq Require Import Permutation.
From SLX Require Import TcCases gen.FoldTable.
From SLX.proofs Require Import PipelinePolls LayoutProofs VmBounds FoldProofs RegisterProofs RulesProofs AbiProofs UnifyProofs PassesSlotsProofs PassesPackingProofs TcStagesProofs.
Open Scope N_scope.

(* what translator step T10 (tools/tr_pipeline.py) read from the source on this run is what Pipeline.v composes:
   the stage order of `Extractor::analyze` and `TypeChecker::run`, the collections `VMState::all_values` hands over (in
   this order: `Pipeline.state_values`), and the hook points whose order `Pipeline.v` models outside `unify` *)
From SLX Require Import gen.PipelineGlue.
Lemma glue_as_modelled :
  analyze_stages = ["disassemble"; "prepare_vm"; "execute"; "prepare_unifier"; "infer"]%string /\
  tc_run_stages = ["lift"; "assign_vars"; "infer"; "unify"]%string /\
  state_value_sources = ["stack"; "memory"; "storage"; "recorded"; "logged"]%string /\
  hook_points = ["memory.constant_offsets"; "memory.symbolic_offsets"; "storage.stores_as_values"; "tc.rules"; "tc.values";
                 "tc.variables"]%string.
Proof. repeat split; reflexivity. Qed.

(* the order the sorted hook gives the rule set is the order `InferenceRules::default()` lists them in *)
Lemma sorted_rules_are_default : pipeline_rules MSorted = default_rule_set.
Proof. unfold pipeline_rules, default_rule_set, sorted_rules. f_equal. Qed.

(* every mode of the hook only permutes *)
Lemma arrange_perm {A} m point (l : list A) : Permutation (arrange m point l) l.
Proof.
  destruct m; cbn [arrange]; [apply Permutation_refl|apply Permutation_sym, Permutation_rev|apply seeded_perm, Permutation_refl].
Qed.
Lemma arrange_in {A} m point (l : list A) x : In x (arrange m point l) <-> In x l.
Proof.
  split; intros H; [eapply Permutation_in; [apply arrange_perm|exact H]|
                    eapply Permutation_in; [apply Permutation_sym, arrange_perm|exact H]].
Qed.

(* ================================================================================================ inversion *)
(* what a run that returned a layout went through *)
Inductive layout_run (keccak : list byte -> N) (table : list (N * N)) (mode : order_mode) (fu : fuels) (bytes : list byte)
    (cfg : config) (l : list entry) : Prop :=
| mk_layout_run (code : list instr) (m : vm) (lifted : list sv) (st : tcs) (s : dsu iset) (n : N)
    (lr_dis : try_from bytes = Ok code)
    (lr_vm : run_p constant_fold (f_vm fu) (init_vm code cfg) = RDone m)
    (lr_noerr : v_errors m = [])
    (lr_lift : Forall2 (fun v v' => lift_value keccak table v = Ok v') (unique (all_values mode (v_stored m))) lifted)
    (lr_infer : infer_values (pipeline_rules mode) (tc_values mode (Register.values (snd (assign_vars lifted))))
                  (snd (assign_vars lifted)) = Ok st)
    (lr_layout : build_layout abi_nested_add abi_nested_fit (env_of_forest s n) (S (N.to_nat n))
                   (tc_values mode (Register.values st ++ synthetic_values (next st) n)) [] = Ok l).

(* the unmonitored type checker returned a layout *)
Lemma analyze_plain_inv keccak table mode fu stored l :
  analyze_plain keccak table mode fu stored = PLayout l ->
  exists lifted st s n,
    Forall2 (fun v v' => lift_value keccak table v = Ok v') (unique (all_values mode stored)) lifted /\
    infer_values (pipeline_rules mode) (tc_values mode (Register.values (snd (assign_vars lifted)))) (snd (assign_vars lifted)) = Ok st /\
    build_layout abi_nested_add abi_nested_fit (env_of_forest s n) (S (N.to_nat n))
      (tc_values mode (Register.values st ++ synthetic_values (next st) n)) [] = Ok l.
Proof.
  unfold analyze_plain. cbv zeta.
  destruct (fold_e (lift_body keccak table) (unique (all_values mode stored)) ([], false)) as [[acc failed]|e] eqn:E1.
  2: { intros ->. destruct (unique (all_values mode stored)); discriminate E1 || idtac.
       exfalso. revert E1. generalize (@nil sv, false). generalize (s :: l0).
       induction l1 as [|v r IH]; intros st0; cbn [fold_e]; [discriminate|].
       unfold lift_body at 1. destruct (lift_value keccak table v); try discriminate; apply IH. }
  destruct failed; [discriminate|].
  destruct (fold_lift keccak table _ _ _ _ _ E1 eq_refl) as (_ & ls & Ea & F). rewrite app_nil_r in Ea. subst acc. rewrite rev_involutive.
  rewrite fold_reg. fold (assign_vars ls). rewrite fold_infer.
  destruct (infer_values (pipeline_rules mode) (tc_values mode (Register.values (snd (assign_vars ls)))) (snd (assign_vars ls))) as [st'|e|p] eqn:Ei;
    try discriminate.
  destruct (ures_res (unify (f_rounds fu) (orders_of mode) (tstate_of st'))) as [[s n]|e] eqn:Eu.
  2: { intros ->. destruct (unify (f_rounds fu) (orders_of mode) (tstate_of st')) as [a|[]|p]; discriminate. }
  rewrite fold_layout.
  destruct (build_layout abi_nested_add abi_nested_fit (env_of_forest s n) (S (N.to_nat n))
              (tc_values mode (Register.values st' ++ synthetic_values (next st') n)) []) as [l'|e|p] eqn:Eb; try discriminate.
  intros [= <-]. exists ls, st', s, n. auto.
Qed.

Lemma analyze_layout_inv keccak table mode fu bytes cfg l :
  analyze_model_fuel keccak table mode fu bytes cfg = PLayout l -> layout_run keccak table mode fu bytes cfg l.
Proof.
  unfold analyze_model_fuel, analyze_trace, vm_phase_of.
  destruct (try_from bytes) as [code|e|s] eqn:Ed; cbn [t_result no_trace]; try discriminate.
  destruct (poll_every cfg =? 0); cbn [t_result no_trace]; try discriminate.
  destruct (run_p constant_fold (f_vm fu) (init_vm code cfg)) as [m|ip m|m] eqn:Ev; cbn [t_result no_trace]; try discriminate.
  destruct (v_errors m) eqn:Ee; cbn [t_result no_trace]; try discriminate.
  intros H. pose proof (analyze_tc_spec keccak table mode fu cfg (v_polls m) (order_determined (v_stored m)) (v_stored m)) as G.
  cbv zeta in G. destruct G as ([G|(st & G)] & _); rewrite G in H; [|discriminate].
  destruct (analyze_plain_inv _ _ _ _ _ _ H) as (lifted & st' & s & n & F & Ei & Eb).
  exact (mk_layout_run keccak table mode fu bytes cfg l code m lifted st' s n Ed Ev Ee F Ei Eb).
Qed.

(* ================================================================================================ (a) sorted *)
Lemma layout_add_sorted l e : sorted_io (layout_add l e).
Proof. unfold layout_add. rewrite key_fields_are. apply stable_sort_sorted. Qed.

Lemma fold_layout_add_sorted rows : forall layout, sorted_io layout -> sorted_io (fold_left layout_add rows layout).
Proof.
  induction rows as [|e rows IH]; intros layout H; cbn [fold_left]; [exact H|]. apply IH. apply layout_add_sorted.
Qed.

Lemma build_layout_sorted nested_add fit env fuel : forall vals layout L,
  sorted_io layout -> build_layout nested_add fit env fuel vals layout = Ok L -> sorted_io L.
Proof.
  induction vals as [|x r IH]; intros layout L Hs; cbn [build_layout].
  - intros [= <-]. exact Hs.
  - destruct (const_slot_key x) as [index|]; [|apply IH; exact Hs].
    destruct (abi_type_for nested_add fit env fuel (tv_of x)) as [a|e|p]; try discriminate.
    apply IH. apply fold_layout_add_sorted. exact Hs.
Qed.

Theorem pipeline_layout_sorted_lemma keccak table mode fu bytes cfg l :
  analyze_model_fuel keccak table mode fu bytes cfg = PLayout l -> sorted_io l.
Proof.
  intros H. destruct (analyze_layout_inv _ _ _ _ _ _ _ H) as [code m lifted st s n _ _ _ _ _ Hb].
  eapply build_layout_sorted; [constructor|exact Hb].
Qed.

(* ================================================================================================ a VM invariant *)
(* "every value anywhere in the machine satisfies P, and every storage entry has at least one generation", through
   every micro-operation, every hand-written opcode body, every iteration of the machine -- for the micro-programs
   that only build constructors in `build_ok` (and touch storage only when `storage_ok`).  Which opcode bodies those
   are is a fact computed from the generated table (`instr_okb`). *)
Section VmInv.
  Variable fold : sv -> sv.
  Variable P : sv -> Prop.
  Variable build_ok : tag -> bool.
  Variable storage_ok : bool.
  Hypothesis P_known : forall w, P (Known w).
  Hypothesis P_val : forall id, P (Val id).
  Hypothesis P_fold : forall v, P v -> P (fold v).
  Hypothesis P_build : forall t args, build_ok t = true -> Forall P args -> P (Node t [] args).
  Hypothesis P_calldata : forall id a b, P a -> P b -> P (Node T_CallData [id] [a; b]).
  Hypothesis P_sload : storage_ok = true -> forall k v, P k -> P v -> P (Node T_SLoad [] [k; v]).
  Hypothesis P_unwritten : storage_ok = true -> forall k, P k -> P (Node T_UnwrittenStorageValue [] [k]).
  Hypothesis ok_irregular :
    forallb build_ok [T_Add; T_Concat; T_CodeCopy; T_ExtCodeCopy; T_ReturnData; T_Log] = true.

  Lemma ok_tag t : In t [T_Add; T_Concat; T_CodeCopy; T_ExtCodeCopy; T_ReturnData; T_Log] -> build_ok t = true.
  Proof. intros H. rewrite forallb_forall in ok_irregular. apply ok_irregular. exact H. Qed.

  (* ---- association lists ---- *)
  Section AL.
    Context {K V : Type} (eqb : K -> K -> bool) (QK : K -> Prop) (QV : V -> Prop).
    Definition AL (l : list (K * V)) : Prop := Forall (fun p => QK (fst p) /\ QV (snd p)) l.
    Lemma AL_lookup l k v : AL l -> alookup eqb k l = Some v -> QV v.
    Proof.
      induction l as [|[k' v'] l IH]; cbn; [discriminate|]. intros H. inversion H as [|? ? [_ Hv] Hl]; subst.
      destruct (eqb k k'); [intros [= <-]; exact Hv|apply IH; exact Hl].
    Qed.
    Lemma AL_update l k f : AL l -> QK k -> QV (f None) -> (forall v, QV v -> QV (f (Some v))) -> AL (aupdate eqb k f l).
    Proof.
      intros H Hk Hn Hs. induction l as [|[k' v'] l IH]; cbn.
      - constructor; [split; assumption|constructor].
      - inversion H as [|? ? [Hk' Hv'] Hl]; subst. destruct (eqb k k').
        + constructor; [split; [exact Hk'|apply Hs; exact Hv']|exact Hl].
        + constructor; [split; assumption|apply IH; exact Hl].
    Qed.
    Lemma AL_snoc l k v : AL l -> QK k -> QV v -> AL (l ++ [(k, v)]).
    Proof. intros H Hk Hv. apply Forall_app. split; [exact H|constructor; [split; assumption|constructor]]. Qed.
  End AL.

  Definition gens_ok (g : list memgen) : Prop := Forall (fun x => P (fst x)) g.
  Definition sgens_ok (g : list sv) : Prop := Forall P g /\ g <> [].

  Record Sok (st : vstate) : Prop := mk_Sok {
    s_stack : Forall P (stack st);
    s_mc : AL (fun _ : N => True) gens_ok (mem_const st);
    s_ms : AL P gens_ok (mem_sym st);
    s_sk : AL P sgens_ok (sto_known st);
    s_ss : AL P sgens_ok (sto_sym st);
    s_rec : Forall P (recorded st);
    s_log : Forall P (logged st);
    s_nosto : storage_ok = false -> sto_known st = [] /\ sto_sym st = [] }.

  Lemma Sok_empty : Sok empty_state.
  Proof. constructor; cbn; try (intros _; split; reflexivity); constructor. Qed.

  Lemma gens_snoc g v b : gens_ok g -> P v -> gens_ok (g ++ [(v, b)]).
  Proof. intros H Hv. apply Forall_app. split; [exact H|constructor; [exact Hv|constructor]]. Qed.
  Lemma gens_one v b : P v -> gens_ok [(v, b)].
  Proof. intros Hv. constructor; [exact Hv|constructor]. Qed.
  Lemma gens_last g : gens_ok g -> P (last_data g).
  Proof.
    unfold last_data. intros H. assert (G : P (fst (Known 0, false))) by apply P_known.
    revert G. generalize (Known 0, false). induction H as [|x g Hx Hg IH]; intros d Hd; cbn [last]; [exact Hd|].
    destruct g; [exact Hx|apply IH; exact Hd].
  Qed.
  Lemma last_P g d : Forall P g -> P d -> P (last g d).
  Proof. intros H Hd. induction H as [|x g Hx Hg IH]; cbn [last]; [exact Hd|]. destruct g; [exact Hx|exact IH]. Qed.
  Lemma zero_gen_ok : gens_ok zero_gen.
  Proof. apply gens_one. apply P_known. Qed.

  (* ---- memory ---- *)
  Lemma mem_store_ok st o v b : Sok st -> P o -> P v -> Sok (mem_store fold st o v b).
  Proof.
    intros [H1 H2 H3 H4 H5 H6 H7 H8] Ho Hv. unfold mem_store. destruct (as_word (fold o)); constructor; cbn; auto.
    - apply AL_update; [exact H2|exact I|apply gens_one; exact Hv|intros g Hg; apply gens_snoc; assumption].
    - apply AL_update; [exact H3|apply P_fold; exact Ho|apply gens_one; exact Hv|intros g Hg; apply gens_snoc; assumption].
  Qed.
  Lemma mem_get_const_ok st o : Sok st -> P (fst (mem_get_const st o)) /\ Sok (snd (mem_get_const st o)).
  Proof.
    intros [H1 H2 H3 H4 H5 H6 H7 H8]. unfold mem_get_const. destruct (alookup N.eqb o (mem_const st)) as [g|] eqn:E; cbn.
    - split; [apply gens_last; exact (AL_lookup N.eqb (fun _ => True) gens_ok _ _ _ H2 E)|constructor; auto].
    - split; [apply P_known|constructor; cbn; auto]. apply AL_snoc; auto. apply zero_gen_ok.
  Qed.
  Lemma mem_get_sym_ok st k : Sok st -> P k -> P (fst (mem_get_sym st k)) /\ Sok (snd (mem_get_sym st k)).
  Proof.
    intros [H1 H2 H3 H4 H5 H6 H7 H8] Hk. unfold mem_get_sym. destruct (alookup sv_eqb k (mem_sym st)) as [g|] eqn:E; cbn.
    - split; [apply gens_last; exact (AL_lookup sv_eqb P gens_ok _ _ _ H3 E)|constructor; auto].
    - split; [apply P_known|constructor; cbn; auto]. apply AL_snoc; auto. apply zero_gen_ok.
  Qed.
  Lemma mem_load_ok st o : Sok st -> P o -> P (fst (mem_load fold st o)) /\ Sok (snd (mem_load fold st o)).
  Proof.
    intros H Ho. unfold mem_load. destruct (as_word (fold o)); [apply mem_get_const_ok; exact H|apply mem_get_sym_ok; auto].
  Qed.
  Lemma load_words_ok n : forall off stop st, Sok st ->
    Forall P (fst (load_words n off stop st)) /\ Sok (snd (load_words n off stop st)).
  Proof.
    induction n as [|n IH]; intros off stop st H; cbn [load_words]; [split; [constructor|exact H]|].
    destruct (off <? stop); [|split; [constructor|exact H]].
    pose proof (mem_get_const_ok st off H) as [Hv Hs]. destruct (mem_get_const st off) as [v st1]. cbn [fst snd] in *.
    pose proof (IH (off + 32) stop st1 Hs) as [Hvs Hs2]. destruct (load_words n (off + 32) stop st1) as [vs st2]. cbn [fst snd] in *.
    split; [constructor; assumption|exact Hs2].
  Qed.
  Lemma mem_load_slice_ok mx st o s : Sok st -> P o -> P s ->
    P (fst (mem_load_slice fold mx st o s)) /\ Sok (snd (mem_load_slice fold mx st o s)).
  Proof.
    intros H Ho Hs. unfold mem_load_slice. destruct (as_word (fold o)); [|apply mem_get_sym_ok; auto].
    destruct (as_word (fold s)); [|apply mem_get_const_ok; exact H].
    match goal with |- context [load_words ?n ?a ?b ?c] => pose proof (load_words_ok n a b c H) as [Hv Hst]; destruct (load_words n a b c) end.
    cbn [fst snd] in *. split; [apply P_build; [apply ok_tag; cbn; tauto|exact Hv]|exact Hst].
  Qed.

  (* ---- storage ---- *)
  Lemma sgens_snoc g v : sgens_ok g -> P v -> sgens_ok (g ++ [v]).
  Proof. intros [H Hn] Hv. split; [apply Forall_app; split; [exact H|constructor; [exact Hv|constructor]]|]. destruct g; discriminate. Qed.
  Lemma sgens_one v : P v -> sgens_ok [v].
  Proof. intros Hv. split; [constructor; [exact Hv|constructor]|discriminate]. Qed.

  Lemma sto_store_ok st k v : storage_ok = true -> Sok st -> P k -> P v -> Sok (sto_store st k v).
  Proof.
    intros S [H1 H2 H3 H4 H5 H6 H7 H8] Hk Hv. unfold sto_store. destruct (VM.is_known k); constructor; cbn; auto;
      try (intros E0; rewrite E0 in S; discriminate);
      (apply AL_update; auto; [apply sgens_one; exact Hv|intros g Hg; apply sgens_snoc; assumption]).
  Qed.

  Lemma build_limited_P lim next v : P v -> P (fst (build_limited lim next v)).
  Proof. intros H. unfold build_limited. destruct (lim <? node_count v); cbn; [apply P_val|exact H]. Qed.
  Lemma opt_build_P lim next v : P v -> P (fst (opt_build lim next v)).
  Proof. intros H. destruct lim; cbn [opt_build]; [apply build_limited_P; exact H|exact H]. Qed.

  Lemma sload_wrap_P k v : storage_ok = true -> P k -> P v -> P (sload_wrap k v).
  Proof. intros S Hk Hv. unfold sload_wrap. destruct v as [t a args]. destruct t; try exact Hv; apply P_sload; assumption. Qed.

  Lemma sto_load_ok lim next st k : storage_ok = true -> Sok st -> P k ->
    P (fst (fst (sto_load lim next st k))) /\ Sok (snd (fst (sto_load lim next st k))).
  Proof.
    intros S [H1 H2 H3 H4 H5 H6 H7] Hk. unfold sto_load. destruct (VM.is_known k) eqn:Ek.
    - destruct (alookup sv_eqb k (sto_known st)) as [g|] eqn:E.
      + pose proof (AL_lookup sv_eqb P sgens_ok _ _ _ H4 E) as [Hg _].
        pose proof (opt_build_P lim next (sload_wrap k (last g (Val 0))) (sload_wrap_P _ _ S Hk (last_P _ _ Hg (P_val 0)))) as Hr.
        destruct (opt_build lim next (sload_wrap k (last g (Val 0)))) as [r n]. cbn [fst snd] in *. split; [exact Hr|constructor; auto].
      + pose proof (opt_build_P lim next _ (P_unwritten S k Hk)) as Hu.
        destruct (opt_build lim next (Node T_UnwrittenStorageValue [] [k])) as [u n1]. cbn [fst] in Hu.
        pose proof (opt_build_P lim n1 _ (sload_wrap_P _ _ S Hk Hu)) as Hr.
        destruct (opt_build lim n1 (sload_wrap k u)) as [r n2]. cbn [fst snd] in *. split; [exact Hr|constructor; cbn; auto; try (intros E0; rewrite E0 in S; discriminate)].
        apply AL_snoc; auto. apply sgens_one. exact Hu.
    - destruct (alookup sv_eqb k (sto_sym st)) as [g|] eqn:E.
      + pose proof (AL_lookup sv_eqb P sgens_ok _ _ _ H5 E) as [Hg _].
        pose proof (opt_build_P lim next (sload_wrap k (last g (Val 0))) (sload_wrap_P _ _ S Hk (last_P _ _ Hg (P_val 0)))) as Hr.
        destruct (opt_build lim next (sload_wrap k (last g (Val 0)))) as [r n]. cbn [fst snd] in *. split; [exact Hr|constructor; auto].
      + pose proof (opt_build_P lim next _ (P_unwritten S k Hk)) as Hu.
        destruct (opt_build lim next (Node T_UnwrittenStorageValue [] [k])) as [u n1]. cbn [fst] in Hu.
        pose proof (opt_build_P lim n1 _ (sload_wrap_P _ _ S Hk Hu)) as Hr.
        destruct (opt_build lim n1 (sload_wrap k u)) as [r n2]. cbn [fst snd] in *. split; [exact Hr|constructor; cbn; auto; try (intros E0; rewrite E0 in S; discriminate)].
        apply AL_snoc; auto. apply sgens_one. exact Hu.
  Qed.

  (* ---- the context an opcode body runs in ---- *)
  Definition Cok (c : octx) : Prop := Sok (o_st c) /\ Forall (fun p => P (snd p)) (o_env c).

  Lemma env_get_P c x : Cok c -> P (env_get c x).
  Proof.
    intros [_ H]. unfold env_get. destruct (alookup N.eqb x (o_env c)) as [v|] eqn:E; [|apply P_val].
    revert E. induction H as [|[y w] l Hw Hl IH]; cbn; [discriminate|]. destruct (x =? y); [intros [= <-]; exact Hw|exact IH].
  Qed.
  Lemma env_set_ok c x v : Cok c -> P v -> Cok (env_set c x v).
  Proof. intros [H1 H2] Hv. split; [exact H1|constructor; [exact Hv|exact H2]]. Qed.
  Lemma ctx_st_ok c st : Cok c -> Sok st -> Cok (ctx_st c st).
  Proof. intros [_ H2] H. split; [exact H|exact H2]. Qed.
  Lemma ctx_id_ok c n : Cok c -> Cok (ctx_id c n).
  Proof. intros H. exact H. Qed.

  Lemma with_stack_ok st s : Sok st -> Forall P s -> Sok (with_stack st s).
  Proof. intros [H1 H2 H3 H4 H5 H6 H7 H8] Hs. constructor; cbn; auto. Qed.
  Lemma with_recorded_ok st v : Sok st -> P v -> Sok (with_recorded st v).
  Proof. intros [H1 H2 H3 H4 H5 H6 H7 H8] Hv. constructor; cbn; auto. apply Forall_app. split; [exact H6|constructor; [exact Hv|constructor]]. Qed.
  Lemma with_logged_ok st v : Sok st -> P v -> Sok (with_logged st v).
  Proof. intros [H1 H2 H3 H4 H5 H6 H7 H8] Hv. constructor; cbn; auto. apply Forall_app. split; [exact H7|constructor; [exact Hv|constructor]]. Qed.
  Lemma with_fork_point_ok st fp : Sok st -> Sok (with_fork_point st fp).
  Proof. intros [H1 H2 H3 H4 H5 H6 H7 H8]. constructor; cbn; auto. Qed.

  Lemma build_exec_ok cfg c v : Cok c -> P v -> P (fst (build_exec cfg c v)) /\ Cok (snd (build_exec cfg c v)).
  Proof.
    intros H Hv. unfold build_exec. pose proof (build_limited_P (size_limit cfg) (o_id c) v Hv) as Hr.
    destruct (build_limited (size_limit cfg) (o_id c) v) as [r n]. cbn [fst snd] in *. split; [exact Hr|exact H].
  Qed.

  Lemma poll_ok cfg c : Cok c -> Cok (snd (poll cfg c)).
  Proof. intros H. exact H. Qed.

  Lemma copy_loop_ok cfg body : (forall c io, Cok c -> Cok (body c io)) ->
    forall n count off limit c, Cok c -> Cok (fst (copy_loop cfg body n count off limit c)).
  Proof.
    intros Hb. induction n as [|n IH]; intros count off limit c H; cbn [copy_loop]; [exact H|].
    destruct (off <? limit); [|exact H].
    destruct (count mod poll_every cfg =? 0).
    - unfold poll. destruct (match stop_at cfg with Some k => k <=? o_polls c | None => false end); cbn [fst].
      + exact H.
      + apply IH. apply Hb. exact H.
    - apply IH. apply Hb. exact H.
  Qed.

  Lemma store_return_data_ok cfg c a b : Cok c -> P a -> P b -> Cok (fst (store_return_data fold cfg c a b)).
  Proof.
    intros H Ha Hb. unfold store_return_data. destruct (as_word (fold a)).
    - apply copy_loop_ok; [|exact H]. intros c0 io H0.
      pose proof (build_exec_ok cfg c0 (Node T_Add [] [fold b; Known io]) H0) as B1.
      destruct (build_exec cfg c0 (Node T_Add [] [fold b; Known io])) as [dest c1]. cbn [fst snd] in B1.
      destruct B1 as [Hd H1]. { apply P_build; [apply ok_tag; cbn; tauto|]. repeat constructor; [apply P_fold; exact Hb|apply P_known]. }
      pose proof (build_exec_ok cfg c1 (Node T_ReturnData [] [Known io; Known 32]) H1) as B2.
      destruct (build_exec cfg c1 (Node T_ReturnData [] [Known io; Known 32])) as [value c2]. cbn [fst snd] in B2.
      destruct B2 as [Hv H2]. { apply P_build; [apply ok_tag; cbn; tauto|]. repeat constructor; apply P_known. }
      apply ctx_st_ok; [exact H2|]. apply mem_store_ok; [exact (proj1 H2)|exact Hd|exact Hv].
    - pose proof (build_exec_ok cfg (ctx_id c (o_id c + 1)) (Val (o_id c)) H (P_val _)) as B.
      destruct (build_exec cfg (ctx_id c (o_id c + 1)) (Val (o_id c))) as [rv c1]. cbn [fst snd] in *. destruct B as [Hr H1].
      apply ctx_st_ok; [exact H1|]. apply mem_store_ok; [exact (proj1 H1)|exact Hb|exact Hr].
  Qed.

  (* ---- micro-operations ---- *)
  Definition mop_ok (m : mop) : bool :=
    match m with
    | MBuild _ t _ => build_ok t
    | MSLoad _ _ _ | MSStore _ _ => storage_ok
    | _ => true
    end.

  Lemma Forall_nth_P s k : Forall P s -> P (nth k s (Val 0)).
  Proof. intros H. revert k. induction H as [|x s Hx Hs IH]; intros [|k]; cbn; auto. Qed.

  Lemma swap_nth_P k : forall top s o s', P top -> Forall P s -> swap_nth k top s = Some (o, s') -> P o /\ Forall P s'.
  Proof.
    induction k as [|k IH]; intros top s o s' Ht Hs; destruct s as [|x r]; cbn [swap_nth]; try discriminate.
    - intros [= <- <-]. inversion Hs; subst. split; [assumption|constructor; assumption].
    - inversion Hs as [|? ? Hx Hr]; subst. destruct (swap_nth k top r) as [[o1 r1]|] eqn:E; [|discriminate].
      intros [= <- <-]. destruct (IH _ _ _ _ Ht Hr E) as [Ho Hr1]. split; [exact Ho|constructor; assumption].
  Qed.

  Lemma stack_push_P s v s' : Forall P s -> P v -> stack_push s v = Some s' -> Forall P s'.
  Proof. unfold stack_push. intros Hs Hv. destruct (_ <? _); [discriminate|]. intros [= <-]. constructor; assumption. Qed.

  Lemma run_mop_ok cfg ie m c : mop_ok m = true -> Cok c -> Cok (fst (run_mop fold cfg ie m c)).
  Proof.
    intros Hm H. pose proof H as [Hst Henv]. pose proof (s_stack _ Hst) as Hstack.
    destruct m; cbn [run_mop mop_ok] in *.
    - (* MPop *) destruct (stack (o_st c)) as [|v s] eqn:Es; cbn [fst]; [exact H|]. inversion Hstack as [|? ? Hv Hs]; subst.
      apply env_set_ok; [apply ctx_st_ok; [exact H|apply with_stack_ok; assumption]|]. destruct fold0; [apply P_fold|]; exact Hv.
    - (* MBuild *)
      pose proof (build_exec_ok cfg c (Node t [] (map (env_get c) args)) H) as B.
      destruct (build_exec cfg c (Node t [] (map (env_get c) args))) as [r c1]. cbn [fst snd] in *.
      destruct B as [Hr H1]. { apply P_build; [exact Hm|]. apply Forall_forall. intros y Hy. apply in_map_iff in Hy as (z & <- & _). apply env_get_P; exact H. }
      apply env_set_ok; assumption.
    - (* MCallData *)
      pose proof (build_exec_ok cfg (ctx_id c (o_id c + 1)) (Node T_CallData [o_id c] [env_get c a; env_get c b]) H) as B.
      destruct (build_exec cfg (ctx_id c (o_id c + 1)) (Node T_CallData [o_id c] [env_get c a; env_get c b])) as [r c1]. cbn [fst snd] in *.
      destruct B as [Hr H1]. { apply P_calldata; apply env_get_P; exact H. } apply env_set_ok; assumption.
    - pose proof (build_exec_ok cfg c (Known w) H (P_known _)) as B. destruct (build_exec cfg c (Known w)) as [r c1]. cbn [fst snd] in *.
      destruct B. apply env_set_ok; assumption.
    - pose proof (build_exec_ok cfg c (Known (i_ip ie)) H (P_known _)) as B. destruct (build_exec cfg c (Known (i_ip ie))) as [r c1]. cbn [fst snd] in *.
      destruct B. apply env_set_ok; assumption.
    - pose proof (build_exec_ok cfg c (Known (i_code_len ie)) H (P_known _)) as B. destruct (build_exec cfg c (Known (i_code_len ie))) as [r c1]. cbn [fst snd] in *.
      destruct B. apply env_set_ok; assumption.
    - pose proof (build_exec_ok cfg c (Known (i_self_word ie)) H (P_known _)) as B. destruct (build_exec cfg c (Known (i_self_word ie))) as [r c1]. cbn [fst snd] in *.
      destruct B. apply env_set_ok; assumption.
    - (* MFresh *) cbn [fst]. apply env_set_ok; [exact H|apply P_val].
    - (* MPush *) destruct (stack_push (stack (o_st c)) (env_get c x)) as [s|] eqn:E; cbn [fst]; [|exact H].
      apply ctx_st_ok; [exact H|]. apply with_stack_ok; [exact Hst|]. eapply stack_push_P; [exact Hstack|apply env_get_P; exact H|exact E].
    - (* MRecord *) cbn [fst]. apply ctx_st_ok; [exact H|]. apply with_recorded_ok; [exact Hst|apply env_get_P; exact H].
    - (* MLog *) cbn [fst]. apply ctx_st_ok; [exact H|]. apply with_logged_ok; [exact Hst|apply env_get_P; exact H].
    - (* MKill *) cbn [fst]. exact H.
    - (* MLoadSlice *)
      pose proof (mem_load_slice_ok (mem_limit cfg) (o_st c) (env_get c a) (env_get c b) Hst (env_get_P c a H) (env_get_P c b H)) as [Hv Hs].
      destruct (mem_load_slice fold (mem_limit cfg) (o_st c) (env_get c a) (env_get c b)) as [v st']. cbn [fst snd] in *.
      apply env_set_ok; [apply ctx_st_ok; assumption|exact Hv].
    - (* MMemLoad *)
      pose proof (mem_load_ok (o_st c) (env_get c a) Hst (env_get_P c a H)) as [Hv Hs].
      destruct (mem_load fold (o_st c) (env_get c a)) as [v st']. cbn [fst snd] in *. apply env_set_ok; [apply ctx_st_ok; assumption|exact Hv].
    - cbn [fst]. apply ctx_st_ok; [exact H|]. apply mem_store_ok; [exact Hst|apply env_get_P; exact H|apply env_get_P; exact H].
    - cbn [fst]. apply ctx_st_ok; [exact H|]. apply mem_store_ok; [exact Hst|apply env_get_P; exact H|apply env_get_P; exact H].
    - (* MSLoad *)
      pose proof (sto_load_ok (if limited then Some (size_limit cfg) else None) (o_id c) (o_st c) (env_get c k) Hm Hst (env_get_P c k H)) as [Hv Hs].
      destruct (sto_load (if limited then Some (size_limit cfg) else None) (o_id c) (o_st c) (env_get c k)) as [[v st'] n]. cbn [fst snd] in *.
      apply env_set_ok; [apply ctx_id_ok; apply ctx_st_ok; assumption|exact Hv].
    - (* MSStore *) cbn [fst]. apply ctx_st_ok; [exact H|]. apply sto_store_ok; [exact Hm|exact Hst|apply env_get_P; exact H|apply env_get_P; exact H].
    - (* MStoreReturnData *) apply store_return_data_ok; [exact H|apply env_get_P; exact H|apply env_get_P; exact H].
    - (* MDupSelf *)
      destruct (N.of_nat (length (stack (o_st c))) <=? _); [exact H|].
      destruct (stack_push (stack (o_st c)) _) as [s'|] eqn:E; cbn [fst]; [|exact H].
      apply ctx_st_ok; [exact H|]. apply with_stack_ok; [exact Hst|]. eapply stack_push_P; [exact Hstack|apply Forall_nth_P; exact Hstack|exact E].
    - (* MSwapSelf *)
      destruct (stack (o_st c)) as [|top rest] eqn:Es; [exact H|]. inversion Hstack as [|? ? Ht Hr]; subst.
      destruct (N.of_nat (length rest) + 1 <=? i_self_n ie); [exact H|].
      destruct (i_self_n ie); [exact H|]. destruct (swap_nth _ top rest) as [[o rest']|] eqn:E; cbn [fst]; [|exact H].
      destruct (swap_nth_P _ _ _ _ _ Ht Hr E) as [Ho Hr']. apply ctx_st_ok; [exact H|]. apply with_stack_ok; [exact Hst|constructor; assumption].
  Qed.

  Lemma run_mops_ok cfg ie ms : forallb mop_ok ms = true -> forall c, Cok c -> Cok (fst (run_mops fold cfg ie ms c)).
  Proof.
    induction ms as [|m ms IH]; intros Hm c H; cbn [run_mops]; [exact H|].
    cbn [forallb] in Hm. apply andb_true_iff in Hm as [H1 H2].
    pose proof (run_mop_ok cfg ie m c H1 H) as Hc. destruct (run_mop fold cfg ie m c) as [c' e]. cbn [fst] in Hc.
    destruct e; [exact Hc|]. apply IH; assumption.
  Qed.

  (* ---- the hand-written opcode bodies ---- *)
  Lemma pop_n_ok k : forall c acc, Cok c -> Forall P acc ->
    Cok (fst (pop_n k c acc)) /\ (forall vals, snd (pop_n k c acc) = Some vals -> Forall P vals).
  Proof.
    induction k as [|k IH]; intros c acc H Ha; cbn [pop_n].
    - split; [exact H|]. intros vals [= <-]. apply Forall_rev. exact Ha.
    - pose proof H as [Hst _]. pose proof (s_stack _ Hst) as Hs. destruct (stack (o_st c)) as [|v s] eqn:Es.
      + split; [exact H|discriminate].
      + inversion Hs; subst. apply IH; [apply ctx_st_ok; [exact H|apply with_stack_ok; assumption]|constructor; assumption].
  Qed.

  Lemma copy_value_ok cfg k addr src size c : Cok c -> P addr -> P src -> P size ->
    P (fst (copy_value cfg k addr src size c)) /\ Cok (snd (copy_value cfg k addr src size c)).
  Proof.
    intros H Ha Hs Hz. destruct k; cbn [copy_value].
    - apply build_exec_ok; [exact H|apply P_calldata; assumption].
    - apply build_exec_ok; [exact H|apply P_build; [apply ok_tag; cbn; tauto|repeat constructor; assumption]].
    - apply build_exec_ok; [exact H|apply P_build; [apply ok_tag; cbn; tauto|repeat constructor; assumption]].
    - apply build_exec_ok; [exact H|apply P_build; [apply ok_tag; cbn; tauto|repeat constructor; assumption]].
  Qed.

  Lemma exec_copy_ok cfg k c : Cok c -> Cok (fst (exec_copy fold cfg k c)).
  Proof.
    intros H. unfold exec_copy.
    pose proof (pop_n_ok (match k with CKExtCode => 4%nat | _ => 3%nat end) c [] H (Forall_nil _)) as [H0 Hv].
    destruct (pop_n (match k with CKExtCode => 4%nat | _ => 3%nat end) c []) as [c0 [vals|]]; cbn [fst snd] in *; [|exact H0].
    specialize (Hv vals eq_refl).
    assert (Hn : forall i, P (nth i vals (Val 0))) by (intros i; apply Forall_nth_P; exact Hv).
    set (addr := match k with CKExtCode => nth 0 vals (Val 0) | _ => Val 0 end).
    assert (Haddr : P addr) by (subst addr; destruct k; try apply P_val; apply Hn).
    set (base := match k with CKExtCode => 1%nat | _ => 0%nat end).
    destruct (as_word (fold (nth (S (S base)) vals (Val 0)))) as [w|].
    - apply copy_loop_ok; [|exact H0]. intros c1 io H1.
      pose proof (build_exec_ok cfg c1 (Node T_Add [] [nth base vals (Val 0); Known io]) H1) as B1.
      destruct (build_exec cfg c1 (Node T_Add [] [nth base vals (Val 0); Known io])) as [dest c2]. cbn [fst snd] in B1.
      destruct B1 as [Hd H2]. { apply P_build; [apply ok_tag; cbn; tauto|repeat constructor; [apply Hn|apply P_known]]. }
      pose proof (build_exec_ok cfg c2 (Node T_Add [] [fold (nth (S base) vals (Val 0)); Known io]) H2) as B2.
      destruct (build_exec cfg c2 (Node T_Add [] [fold (nth (S base) vals (Val 0)); Known io])) as [src c3]. cbn [fst snd] in B2.
      destruct B2 as [Hs H3]. { apply P_build; [apply ok_tag; cbn; tauto|repeat constructor; [apply P_fold; apply Hn|apply P_known]]. }
      pose proof (copy_value_ok cfg k addr src (Known 32) c3 H3 Haddr Hs (P_known _)) as [Hval H4].
      destruct (copy_value cfg k addr src (Known 32) c3) as [value c4]. cbn [fst snd] in *.
      apply ctx_st_ok; [exact H4|]. apply mem_store_ok; [exact (proj1 H4)|exact Hd|exact Hval].
    - pose proof (copy_value_ok cfg k addr (fold (nth (S base) vals (Val 0))) (fold (nth (S (S base)) vals (Val 0))) c0 H0 Haddr
                    (P_fold _ (Hn _)) (P_fold _ (Hn _))) as [Hval H1].
      destruct (copy_value cfg k addr _ _ c0) as [value c1]. cbn [fst snd] in *.
      apply ctx_st_ok; [exact H1|]. apply mem_store_ok; [exact (proj1 H1)|apply Hn|exact Hval].
  Qed.

  Lemma Forall_skipn_P n (l : list sv) : Forall P l -> Forall P (skipn n l).
  Proof. intros H. revert n. induction H as [|x l Hx Hl IH]; intros [|n]; cbn; auto. Qed.

  Lemma exec_log_ok cfg n c : Cok c -> Cok (fst (exec_log fold cfg n c)).
  Proof.
    intros H. unfold exec_log.
    pose proof (pop_n_ok (2 + N.to_nat n) c [] H (Forall_nil _)) as [H0 Hv].
    destruct (pop_n (2 + N.to_nat n) c []) as [c0 [vals|]]; cbn [fst snd] in *; [|exact H0].
    specialize (Hv vals eq_refl).
    pose proof (mem_load_slice_ok (mem_limit cfg) (o_st c0) (nth 0 vals (Val 0)) (nth 1 vals (Val 0)) (proj1 H0)
                  (Forall_nth_P _ _ Hv) (Forall_nth_P _ _ Hv)) as [Hd Hs].
    destruct (mem_load_slice fold (mem_limit cfg) (o_st c0) (nth 0 vals (Val 0)) (nth 1 vals (Val 0))) as [data st']. cbn [fst snd] in *.
    pose proof (build_exec_ok cfg (ctx_st c0 st') (Node T_Log [] (data :: skipn 2 vals)) (ctx_st_ok _ _ H0 Hs)) as B.
    destruct (build_exec cfg (ctx_st c0 st') (Node T_Log [] (data :: skipn 2 vals))) as [lg c1]. cbn [fst snd] in *.
    destruct B as [Hl H1]. { apply P_build; [apply ok_tag; cbn; tauto|constructor; [exact Hd|apply Forall_skipn_P; exact Hv]]. }
    apply ctx_st_ok; [exact H1|]. apply with_logged_ok; [exact (proj1 H1)|exact Hl].
  Qed.

  Lemma exec_jump_ok code c : Cok c -> Cok (fst (fst (exec_jump fold code c))).
  Proof.
    intros H. unfold exec_jump. pose proof H as [Hst _]. pose proof (s_stack _ Hst) as Hs.
    destruct (stack (o_st c)) as [|counter s] eqn:Es; [exact H|]. inversion Hs as [|? ? Hc Hr]; subst.
    assert (H0 : Cok (ctx_st c (with_stack (o_st c) s))) by (apply ctx_st_ok; [exact H|apply with_stack_ok; assumption]).
    destruct (validate_jump fold code counter) as [t|e]; cbn [fst]; [exact H0|].
    assert (H1 : Cok (ctx_st (ctx_st c (with_stack (o_st c) s)) (with_recorded (o_st (ctx_st c (with_stack (o_st c) s))) counter))).
    { apply ctx_st_ok; [exact H0|]. apply with_recorded_ok; [exact (proj1 H0)|exact Hc]. }
    destruct e; cbn [fst]; exact H1.
  Qed.

  Lemma exec_jumpi_ok cfg code vis jt c : Cok c -> Cok (fst (fst (fst (fst (exec_jumpi fold cfg code vis jt c))))).
  Proof.
    intros H. unfold exec_jumpi. pose proof H as [Hst _]. pose proof (s_stack _ Hst) as Hs.
    destruct (stack (o_st c)) as [|counter s] eqn:Es; [exact H|]. inversion Hs as [|? ? Hc Hr]; subst.
    destruct s as [|condition s']; cbn [fst].
    - apply ctx_st_ok; [exact H|apply with_stack_ok; [exact Hst|constructor]].
    - inversion Hr as [|? ? Hcond Hr']; subst.
      assert (H0 : Cok (ctx_st c (with_recorded (with_stack (o_st c) s') condition))).
      { apply ctx_st_ok; [exact H|]. apply with_recorded_ok; [apply with_stack_ok; assumption|exact Hcond]. }
      destruct (validate_jump fold code counter) as [t|e].
      + destruct (iter_limit cfg <=? count_of t vis); [exact H0|]. destruct (fork_limit cfg <=? count_of t jt); exact H0.
      + cbn [fst]. apply ctx_st_ok; [exact H0|]. apply with_recorded_ok; [exact (proj1 H0)|exact Hc].
  Qed.

  (* ---- one instruction ---- *)
  Definition instr_okb (i : instr) : bool :=
    match i with
    | IOp o => match op_sem o with Some ms => forallb mop_ok ms | None => true end
    | IPush _ _ => forallb mop_ok pushn_sem
    | IDup _ => forallb mop_ok dupn_sem
    | ISwap _ => forallb mop_ok swapn_sem
    | ILog _ => true
    | INop => forallb mop_ok nop_sem
    | IInvalid _ => forallb mop_ok invalid_sem
    end.

  Definition ctx_of (r : octx * option exec_err * option exec_err * ctl * list (N * N)) : octx := fst (fst (fst (fst r))).

  Lemma exec_instr_ok cfg code vis jt ip i c : instr_okb i = true -> Cok c -> Cok (ctx_of (exec_instr fold cfg code vis jt ip i c)).
  Proof.
    intros Hi H. unfold exec_instr, ctx_of. destruct i as [o|n d|n|n|n| |b]; cbn [instr_okb] in Hi.
    - destruct (op_sem o) as [ms|].
      + cbn [fst]. apply run_mops_ok; assumption.
      + destruct (op_idx o =? op_idx control_Jump).
        { pose proof (exec_jump_ok code c H) as J. destruct (exec_jump fold code c) as [[c' e] k]. exact J. }
        destruct (op_idx o =? op_idx control_JumpI); [apply exec_jumpi_ok; exact H|].
        destruct (op_idx o =? op_idx memory_CallDataCopy); [cbn [fst]; apply exec_copy_ok; exact H|].
        destruct (op_idx o =? op_idx memory_CodeCopy); [cbn [fst]; apply exec_copy_ok; exact H|].
        destruct (op_idx o =? op_idx memory_ExtCodeCopy); [cbn [fst]; apply exec_copy_ok; exact H|].
        destruct (op_idx o =? op_idx memory_ReturnDataCopy); [cbn [fst]; apply exec_copy_ok; exact H|].
        cbn [fst]. exact H.
    - cbn [fst]. apply run_mops_ok; assumption.
    - cbn [fst]. apply run_mops_ok; assumption.
    - cbn [fst]. apply run_mops_ok; assumption.
    - cbn [fst]. apply exec_log_ok; exact H.
    - cbn [fst]. apply run_mops_ok; assumption.
    - cbn [fst]. apply run_mops_ok; assumption.
  Qed.

  (* ---- the machine ---- *)
  Record Minv (m : vm) : Prop := mk_Minv {
    mi_code : forallb instr_okb (v_code m) = true;
    mi_queue : Forall (fun t => Sok (VM.tstate t)) (v_queue m);
    mi_stored : Forall (fun p => Sok (fst p)) (v_stored m) }.

  Lemma advance_minv m t rest forked :
    forallb instr_okb (v_code m) = true -> Sok (VM.tstate t) -> Forall (fun t => Sok (VM.tstate t)) rest ->
    Forall (fun t => Sok (VM.tstate t)) forked -> Forall (fun p => Sok (fst p)) (v_stored m) -> Minv (advance m t rest forked).
  Proof.
    intros Hc Ht Hr Hf Hs. unfold advance. destruct (_ || _ || _); constructor; cbn; auto.
    - apply Forall_app. split; assumption.
    - apply Forall_app. split; [exact Hs|constructor; [exact Ht|constructor]].
    - constructor; [exact Ht|apply Forall_app; split; assumption].
  Qed.

  Lemma vm_step_minv m m' : Minv m -> VM.vm_step fold m = SRunning m' -> Minv m'.
  Proof.
    intros [Hc Hq Hs]. unfold VM.vm_step. destruct (v_queue m) as [|t rest] eqn:Eq; [discriminate|].
    destruct (nth_error (v_code m) (N.to_nat (tip t))) as [i|] eqn:En; [|discriminate].
    inversion Hq as [|? ? Ht Hrest]; subst.
    set (c0 := mk_octx [] (VM.tstate t) (v_next_id m) (v_killed m) (v_polls m)).
    assert (H0 : Cok c0) by (split; [exact Ht|constructor]).
    destruct (if v_counter m mod poll_every (v_cfg m) =? 0 then poll (v_cfg m) c0 else (false, c0)) as [stopped c1] eqn:Ep.
    assert (H1 : Cok c1).
    { destruct (v_counter m mod poll_every (v_cfg m) =? 0); [|inversion Ep; subst; exact H0].
      unfold poll in Ep. inversion Ep; subst. exact H0. }
    destruct stopped; [discriminate|].
    assert (Hi : instr_okb i = true).
    { rewrite forallb_forall in Hc. apply Hc. eapply nth_error_In; exact En. }
    pose proof (exec_instr_ok (v_cfg m) (v_code m) (bump (tip t) (tvis t)) (v_jt m) (tip t) i c1 Hi H1) as H3.
    destruct (exec_instr fold (v_cfg m) (v_code m) (bump (tip t) (tvis t)) (v_jt m) (tip t) i c1) as [[[[c3 err] serr] k] jt'].
    unfold ctx_of in H3. cbn [fst] in H3. destruct H3 as [Hst3 _].
    assert (Hgen : forall errors2 killed gas' ip' pth fk,
      Forall (fun t0 => Sok (VM.tstate t0)) fk ->
      Minv (advance (mk_vm (v_code m) (t :: rest) (v_stored m) jt' killed errors2 (o_id c3) (o_polls c3) (v_counter m + 1) (v_retired m) (v_paths m) (v_cfg m))
             (mk_thread (o_st c3) (bump (tip t) (tvis t)) ip' gas' pth) rest fk)).
    { intros. apply advance_minv; cbn; auto. }
    assert (Hfk : Forall (fun t0 => Sok (VM.tstate t0))
              (match k with CFork target => [mk_thread (with_fork_point (o_st c3) (tip t)) (bump (tip t) (tvis t)) target (tgas t) (tpath t ++ [true])] | _ => [] end)).
    { destruct k; constructor; [|constructor]. cbn. apply with_fork_point_ok. exact Hst3. }
    destruct err as [e|]; cbv beta iota zeta; intros [= <-]; apply Hgen; exact Hfk.
  Qed.

  Lemma vm_step_minv_done m m' : Minv m -> VM.vm_step fold m = SDone m' -> Minv m'.
  Proof.
    intros Hi. unfold VM.vm_step. destruct (v_queue m) as [|t rest]; [intros [= <-]; exact Hi|].
    destruct (nth_error (v_code m) (N.to_nat (tip t))); [|intros [= <-]; exact Hi].
    destruct (if v_counter m mod poll_every (v_cfg m) =? 0 then _ else _) as [stopped c1]. destruct stopped; [discriminate|].
    destruct (exec_instr _ _ _ _ _ _ _ _) as [[[[c3 err] serr] k] jt']. destruct err; cbv beta iota zeta; discriminate.
  Qed.

  Lemma run_minv n : forall m m', Minv m -> VM.run fold n m = RDone m' -> Minv m'.
  Proof.
    induction n as [|n IH]; intros m m' Hi; cbn [VM.run]; [discriminate|].
    destruct (VM.vm_step fold m) as [m1|m1|ip m1] eqn:Es.
    - apply IH. eapply vm_step_minv; eauto.
    - intros [= <-]. eapply vm_step_minv_done; eauto.
    - discriminate.
  Qed.

  Lemma init_minv code cfg : forallb instr_okb code = true -> Minv (init_vm code cfg).
  Proof. intros H. constructor; cbn; [exact H|constructor; [apply Sok_empty|constructor]|constructor]. Qed.

  (* every retired state of a finished run satisfies the invariant *)
  Theorem run_p_stored_ok code cfg p m : forallb instr_okb code = true ->
    run_p fold p (init_vm code cfg) = RDone m -> Forall (fun s => Sok (fst s)) (v_stored m).
  Proof.
    intros Hc Hr. rewrite VmBounds.run_p_run in Hr. exact (mi_stored _ (run_minv _ _ _ (init_minv code cfg Hc) Hr)).
  Qed.
End VmInv.

(* ================================================================================================ collected values *)
Lemma in_sort_by_text {A} (key : A -> string) (l : list A) x : In x (sort_by_text key l) <-> In x l.
Proof.
  unfold sort_by_text. pose proof (sort_keyed_perm (fun a b : string * A => String.leb (fst a) (fst b)) key l) as Hp.
  split; intros H; [eapply Permutation_in; [exact Hp|exact H]|eapply Permutation_in; [apply Permutation_sym; exact Hp|exact H]].
Qed.

Lemma in_sort_le {A} (le : A -> A -> bool) (l : list A) x : In x (sort_le le l) <-> In x l.
Proof.
  split; intros H; [eapply Permutation_in; [apply sort_le_perm|exact H]|
                    eapply Permutation_in; [apply Permutation_sym, sort_le_perm|exact H]].
Qed.

(* a generation of a storage key is handed to the type checker as a write to that key *)
Lemma stores_as_values_in mode st k g v :
  In (k, g) (sto_known st ++ sto_sym st) -> In v g -> In (Node T_StorageWrite [] [k; v]) (stores_as_values mode st).
Proof.
  intros Hk Hv. unfold stores_as_values, storage_entries. apply in_flat_map. exists (k, g). split.
  - apply arrange_in, in_sort_by_text. exact Hk.
  - cbn [fst snd]. apply in_map_iff. exists v. split; [reflexivity|exact Hv].
Qed.

Lemma state_values_storage mode st v : In v (stores_as_values mode st) -> In v (state_values mode st).
Proof. intros H. unfold state_values. apply in_or_app. right. apply in_or_app. right. apply in_or_app. left. exact H. Qed.

Lemma all_values_in mode stored st vis v : In (st, vis) stored -> In v (state_values mode st) -> In v (all_values mode stored).
Proof. intros Hs Hv. unfold all_values. apply in_flat_map. exists (st, vis). split; [exact Hs|exact Hv]. Qed.

Lemma unique_from_in l : forall seen x, In x l -> In x (unique_from seen l) \/ In x seen.
Proof.
  induction l as [|y l IH]; intros seen x; cbn [unique_from In]; [tauto|].
  intros [<-|H].
  - destruct (existsb (sv_eqb y) seen) eqn:E.
    + right. apply existsb_exists in E as (z & Hz & Ez). apply RegisterProofs.sv_eqb_eq in Ez. subst. exact Hz.
    + left. left. reflexivity.
  - destruct (existsb (sv_eqb y) seen).
    + apply IH. exact H.
    + destruct (IH (y :: seen) x H) as [H1|[<-|H1]]; [left; right; exact H1|left; left; reflexivity|right; exact H1].
Qed.
Lemma unique_in l x : In x l -> In x (unique l).
Proof. intros H. destruct (unique_from_in l [] x H) as [H1|[]]. exact H1. Qed.

Lemma unique_from_sub l : forall seen x, In x (unique_from seen l) -> In x l.
Proof.
  induction l as [|y l IH]; intros seen x; cbn [unique_from]; [tauto|].
  destruct (existsb (sv_eqb y) seen); [intros H; right; eapply IH; exact H|].
  intros [<-|H]; [left; reflexivity|right; eapply IH; exact H].
Qed.
Lemma unique_sub l x : In x (unique l) -> In x l.
Proof. apply unique_from_sub. Qed.

(* ================================================================================================ the lift loop *)
Lemma forall2_in {A B} (R : A -> B -> Prop) l l' x : Forall2 R l l' -> In x l -> exists y, In y l' /\ R x y.
Proof.
  induction 1 as [|a b l l' Hab F IH]; [intros []|]. intros [<-|H].
  - exists b. split; [left; reflexivity|exact Hab].
  - destruct (IH H) as (y & H1 & H2). exists y. split; [right; exact H1|exact H2].
Qed.
Lemma forall2_from {A B} (R : A -> B -> Prop) l l' y : Forall2 R l l' -> In y l' -> exists x, In x l /\ R x y.
Proof.
  induction 1 as [|a b l l' Hab F IH]; [intros []|]. intros [<-|H].
  - exists a. split; [left; reflexivity|exact Hab].
  - destruct (IH H) as (x & H1 & H2). exists x. split; [right; exact H1|exact H2].
Qed.

(* the nine passes, spelled out in the default order *)
Lemma lift_value_unfold keccak table v :
  lift_value keccak table v =
  obind (sub_word (mapping_index (proxy_slots keccak (hashed_slots table v)))) (fun v1 =>
  obind (packed_encoding (mul_shifted v1)) (fun v2 =>
  Ok (mapping_offset (storage_slots (dyn_array v2))))).
Proof.
  unfold lift_value, run_passes9. cbn [default_pass_order fold_left]. unfold pass9. cbn [pass6 obind].
  destruct (sub_word _) as [v1|e|s]; cbn [obind]; [|reflexivity|reflexivity].
  destruct (packed_encoding _) as [v2|e|s]; cbn [obind]; reflexivity.
Qed.

(* ================================================================================================ (c) literal keys *)
Lemma sw_rel_known c k : sw_rel (Known c) k -> k = Known c.
Proof.
  intros R. inversion R as [t a args args' Rs|v x x' o0 o n Ht]; subst.
  - inversion Rs; subst. reflexivity.
  - discriminate Ht.
Qed.
Lemma pe_rel_known c k : pe_rel (Known c) k -> k = Known c.
Proof. intros R. inversion R as [t a args args' Rs|]; subst. inversion Rs; subst. reflexivity. Qed.

(* a write to the literal key c, handed to the nine passes, comes back as a write to StorageSlot (Known c) *)
Lemma lift_value_literal_key keccak table c x v' :
  lookup_hash table c = None ->
  lift_value keccak table (Node T_StorageWrite [] [Known c; x]) = Ok v' ->
  exists x', v' = Node T_StorageWrite [] [Node T_StorageSlot [] [Known c]; x'].
Proof.
  intros Hl. rewrite lift_value_unfold.
  rewrite hashed_keeps_literal_key by (try reflexivity; exact Hl).
  rewrite proxy_keeps_literal_key by reflexivity. rewrite mapping_index_keeps_literal_key by reflexivity.
  set (y := mi_ins (proxy_slots keccak (hashed_slots table x))).
  destruct (sub_word_rel (Node T_StorageWrite [] [Known c; y])) as (v1 & E1 & R1). rewrite E1. cbn [obind].
  assert (S1 : exists y1, v1 = Node T_StorageWrite [] [Known c; y1]).
  { inversion R1 as [t a args args' Rs|v0 x0 x0' o0 o n Ht]; subst; [|discriminate Ht].
    inversion Rs as [|? k' ? l' Rk Rl]; subst. inversion Rl as [|? y1 ? l'' Ry Rn]; subst. inversion Rn; subst.
    rewrite (sw_rel_known _ _ Rk). eexists. reflexivity. }
  destruct S1 as (y1 & ->).
  rewrite mul_shifted_other by discriminate. cbn [map]. rewrite mul_shifted_known.
  pose proof (packed_encoding_rel (Node T_StorageWrite [] [Known c; mul_shifted y1])) as R2.
  destruct (packed_encoding (Node T_StorageWrite [] [Known c; mul_shifted y1])) as [v2|e|s]; cbn [obind]; try discriminate.
  assert (S2 : exists y2, v2 = Node T_StorageWrite [] [Known c; y2]).
  { inversion R2 as [t a args args' Rs|key value attrs kids]; subst.
    - inversion Rs as [|? k' ? l' Rk Rl]; subst. inversion Rl as [|? y2 ? l'' Ry Rn]; subst. inversion Rn; subst.
      rewrite (pe_rel_known _ _ Rk). eexists. reflexivity.
    - eexists. reflexivity. }
  destruct S2 as (y2 & ->). fold (Known c).
  rewrite dyn_array_keeps_literal_key by reflexivity. rewrite storage_slots_wraps_literal_key by reflexivity.
  rewrite mapping_offset_keeps_wrapped_key by reflexivity. intros [= <-]. eexists. reflexivity.
Qed.

(* every opcode body is allowed when nothing is asked of the values *)
Lemma instr_okb_all i : instr_okb (fun _ => true) true i = true.
Proof.
  assert (M : forall ms, forallb (mop_ok (fun _ => true) true) ms = true).
  { induction ms as [|m ms IH]; [reflexivity|]. cbn [forallb]. rewrite IH. destruct m; reflexivity. }
  destruct i; cbn [instr_okb]; try apply M; try reflexivity. destruct (op_sem o); [apply M|reflexivity].
Qed.

(* every storage entry of every retired state of a finished run has at least one generation *)
Lemma stored_generations_nonempty fold code cfg p m st vis k g :
  run_p fold p (init_vm code cfg) = RDone m -> In (st, vis) (v_stored m) -> In (k, g) (sto_known st ++ sto_sym st) -> g <> [].
Proof.
  intros Hr Hs Hk.
  assert (Hc : forallb (instr_okb (fun _ => true) true) code = true) by (apply forallb_forall; intros i _; apply instr_okb_all).
  pose proof (run_p_stored_ok fold (fun _ => True) (fun _ => true) true (fun _ => I) (fun _ => I) (fun _ _ => I)
                (fun _ _ _ _ => I) (fun _ _ _ _ _ => I) (fun _ _ _ _ _ => I) (fun _ _ _ => I) eq_refl code cfg p m Hc Hr) as F.
  rewrite Forall_forall in F. specialize (F _ Hs). cbn [fst] in F.
  apply in_app_or in Hk as [Hk|Hk].
  - pose proof (s_sk _ _ _ F) as A. unfold AL in A. rewrite Forall_forall in A. exact (proj2 (proj2 (A _ Hk))).
  - pose proof (s_ss _ _ _ F) as A. unfold AL in A. rewrite Forall_forall in A. exact (proj2 (proj2 (A _ Hk))).
Qed.

(* the rules in any order of the hook are the sixteen good rules *)
Lemma pipeline_rules_good mode : Forall rule_good (pipeline_rules mode).
Proof.
  pose proof default_rules_good as G. rewrite Forall_forall in *. intros r Hr. apply G.
  unfold pipeline_rules in Hr. apply in_map_iff in Hr as (nm & <- & Hn). apply arrange_in in Hn.
  unfold default_rule_set. apply in_map. unfold sorted_rules in Hn. apply in_sort_le in Hn. exact Hn.
Qed.

Theorem pipeline_literal_key_row_lemma keccak table mode fu bytes cfg l code m st vis c g :
  analyze_model_fuel keccak table mode fu bytes cfg = PLayout l ->
  try_from bytes = Ok code -> run_p constant_fold (f_vm fu) (init_vm code cfg) = RDone m ->
  In (st, vis) (v_stored m) -> In (Known c, g) (sto_known st) -> lookup_hash table c = None ->
  exists off ty, In (c, off, ty) l.
Proof.
  intros H Hd Hr Hs Hk Hl.
  destruct (analyze_layout_inv _ _ _ _ _ _ _ H) as [code' m' lifted st' s n Ed Ev Ee El Ei Eb].
  rewrite Hd in Ed. inversion Ed; subst code'. rewrite Hr in Ev. inversion Ev; subst m'.
  assert (Hg : g <> []).
  { eapply stored_generations_nonempty; [exact Hr|exact Hs|apply in_or_app; left; exact Hk]. }
  destruct g as [|v0 g]; [congruence|].
  assert (Hin : In (Node T_StorageWrite [] [Known c; v0]) (unique (all_values mode (v_stored m)))).
  { apply unique_in. eapply all_values_in; [exact Hs|]. apply state_values_storage.
    eapply stores_as_values_in; [apply in_or_app; left; exact Hk|left; reflexivity]. }
  destruct (forall2_in _ _ _ _ El Hin) as (v' & Hv' & Elv).
  destruct (lift_value_literal_key _ _ _ _ _ Hl Elv) as (x' & ->).
  (* registration gives the slot a typed copy; the rules keep it; the layout loop gives it a row *)
  pose proof (register_covers_subterms_lemma lifted) as C. destruct (assign_vars lifted) as [ts st0] eqn:Ea. cbn [snd] in Ei.
  destruct C as (I & _ & _ & Cov).
  destruct (Cov _ (slot_sv c) Hv') as (y & Iy & Ey). { cbn [subterms flat_map]. right. left. reflexivity. }
  destruct (infer_values_ok (pipeline_rules mode) (pipeline_rules_good mode) (tc_values mode (Register.values st0)) st0 (inv_winv st0 I))
    as (st2 & E2 & _ & _ & K).
  { intros x Hx. unfold tc_values in Hx. apply arrange_in in Hx. exact (values_in_exprs st0 x (inv_winv st0 I) (i_var st0 I) Hx). }
  rewrite Ei in E2. inversion E2; subst st2.
  destruct (layout_row_per_const_slot_gen abi_nested_add _ _ _ _ _ _ Eb) as (_ & Rows).
  apply (Rows y c); [|exact (const_slot_of_erase y c Ey)].
  unfold tc_values. apply arrange_in. apply in_or_app. left. unfold Register.values. rewrite <- in_rev.
  apply in_map_iff. exists (tv_of y, y). split; [reflexivity|exact (K _ Iy)].
Qed.

(* ================================================================================================ (b) no storage opcode *)
(* "clean": no SLoad / StorageWrite / UnwrittenStorageValue and no StorageSlot / MappingIndex / DynamicArrayIndex node *)
Definition clean_tag (t : tag) (a : list N) : bool := negb (is_access_tag t) && negb (is_lifted_tag t).
Definition clean (v : sv) : bool := nodes_ok clean_tag v.

Lemma clean_iff v : clean v = true <-> has_storage_access v = false /\ has_lifted v = false.
Proof.
  unfold clean. induction v as [t a args IH] using sv_ind'. cbn [nodes_ok has_storage_access has_lifted]. unfold clean_tag.
  assert (A : forallb (nodes_ok clean_tag) args = true <->
              existsb has_storage_access args = false /\ existsb has_lifted args = false).
  { induction args as [|x r IHr]; cbn [forallb existsb]; [tauto|]. inversion IH as [|? ? Hx Hr]; subst.
    rewrite andb_true_iff, !orb_false_iff, Hx, (IHr Hr). tauto. }
  rewrite !andb_true_iff, !negb_true_iff, !orb_false_iff, A. tauto.
Qed.

Lemma clean_no_slot v : clean v = true -> forall s, In s (subterms v) -> sv_tag s <> T_StorageSlot.
Proof.
  intros H s Hs. pose proof (nodes_ok_sub clean_tag s v Hs H) as Hc. destruct s as [t a args]. cbn [nodes_ok] in Hc.
  apply andb_prop in Hc as [Hc _]. unfold clean_tag in Hc. intros E. cbn [sv_tag] in E. subst t. discriminate Hc.
Qed.

(* constant folding: the fallback constructors of the generated fold table are all clean *)
Lemma fold_table_clean : forallb (fun r => clean_tag (fa_fallback r) []) fold_table = true.
Proof. vm_compute. reflexivity. Qed.

Lemma fold_clean v : clean v = true -> clean (constant_fold v) = true.
Proof.
  unfold clean. induction v as [t a args IH] using sv_ind'. intros H. cbn [nodes_ok] in H. apply andb_prop in H as [Ht Ha].
  assert (Hf : forallb (nodes_ok clean_tag) (map constant_fold args) = true).
  { apply forallb_forall. intros y Hy. apply in_map_iff in Hy as (x & <- & Hx). rewrite Forall_forall in IH. apply (IH x Hx).
    rewrite forallb_forall in Ha. exact (Ha x Hx). }
  rewrite fold_node.
  assert (Hd : nodes_ok clean_tag (Node (transform_ctor t) a (map constant_fold args)) = true).
  { cbn [nodes_ok]. rewrite transform_ctor_id. unfold clean_tag in *. rewrite Ht, Hf. reflexivity. }
  destruct (find_arm t) as [r|] eqn:E; [|exact Hd]. destruct (arm_matches r a args); [|exact Hd].
  unfold run_arm. destruct (all_words _); [reflexivity|].
  cbn [nodes_ok]. apply andb_true_intro. split.
  - destruct (find_arm_some t r E) as (_ & Hin & _). pose proof fold_table_clean as T. rewrite forallb_forall in T.
    pose proof (T r Hin) as Hr. unfold clean_tag in *. exact Hr.
  - apply forallb_forall. intros y Hy. apply in_map_iff in Hy as (u & <- & _). unfold operand.
    destruct (snd u).
    + destruct (nth_in_or_default (fst u) (map constant_fold args) (Val 0)) as [Hin| ->]; [|reflexivity].
      rewrite forallb_forall in Hf. exact (Hf _ Hin).
    + destruct (nth_in_or_default (fst u) args (Val 0)) as [Hin| ->]; [|reflexivity].
      rewrite forallb_forall in Ha. exact (Ha _ Hin).
Qed.

(* the VM invariant instantiated: values are clean, storage is never touched *)
Definition clean_build (t : tag) : bool := clean_tag t [].

Lemma clean_build_node t args : clean_build t = true -> Forall (fun x => clean x = true) args -> clean (Node t [] args) = true.
Proof.
  intros Ht Ha. unfold clean. cbn [nodes_ok]. unfold clean_build in Ht. unfold clean_tag in *. rewrite Ht. cbn [andb].
  apply forallb_forall. rewrite Forall_forall in Ha. exact Ha.
Qed.

(* established by computation on the generated micro-programs: apart from SLOAD and SSTORE no opcode body touches
   storage or builds a storage-access / slot constructor *)
Lemma storage_free_bodies i : is_storage_op i = false -> instr_okb clean_build false i = true.
Proof. destruct i as [o| | | | | |]; try reflexivity. destruct o; try reflexivity; discriminate. Qed.

Lemma not_storage_op code : ~ In (IOp memory_SLoad) code -> ~ In (IOp memory_SStore) code ->
  forallb (instr_okb clean_build false) code = true.
Proof.
  intros H1 H2. apply forallb_forall. intros i Hi. apply storage_free_bodies.
  destruct i as [o| | | | | |]; try reflexivity. cbn [is_storage_op]. apply orb_false_iff. split; apply N.eqb_neq; intros E.
  - apply H1. replace memory_SLoad with o; [exact Hi|]. destruct o; try discriminate E; reflexivity.
  - apply H2. replace memory_SStore with o; [exact Hi|]. destruct o; try discriminate E; reflexivity.
Qed.

Lemma Forall_perm_clean (l l' : list sv) : Permutation l l' -> Forall (fun x => clean x = true) l -> Forall (fun x => clean x = true) l'.
Proof. intros Hp H. rewrite Forall_forall in *. intros x Hx. apply H. eapply Permutation_in; [apply Permutation_sym; exact Hp|exact Hx]. Qed.

(* what such a retired state hands to the type checker *)
Lemma state_values_clean mode st :
  Sok (fun v => clean v = true) false st -> Forall (fun x => clean x = true) (state_values mode st).
Proof.
  intros [H1 H2 H3 H4 H5 H6 H7 H8]. destruct (H8 eq_refl) as [Ek Es]. unfold state_values.
  assert (Hsto : stores_as_values mode st = []).
  { unfold stores_as_values, storage_entries. rewrite Ek, Es. cbn [app sort_by_text map].
    assert (E : arrange mode "storage.stores_as_values" (@nil (sv * list sv)) = []).
    { destruct (arrange mode "storage.stores_as_values" (@nil (sv * list sv))) as [|x r] eqn:E0; [reflexivity|].
      exfalso. assert (Hx : In x (x :: r)) by (left; reflexivity). rewrite <- E0 in Hx. apply arrange_in in Hx. exact Hx. }
    unfold sort_by_text. cbn [map sort_le fold_left]. rewrite E. reflexivity. }
  rewrite Hsto. cbn [app]. apply Forall_app; split; [apply Forall_rev; exact H1|].
  apply Forall_app; split; [|apply Forall_app; split; assumption].
  unfold memory_values. apply Forall_app. split.
    + apply Forall_forall. intros x Hx. apply in_flat_map in Hx as (p & Hp & Hx). apply arrange_in, in_sort_le in Hp.
      unfold AL in H2. rewrite Forall_forall in H2. destruct (H2 p Hp) as [_ Hg]. unfold gens_ok in Hg. rewrite Forall_forall in Hg.
      apply in_map_iff in Hx as (y & <- & Hy). exact (Hg y Hy).
    + apply Forall_forall. intros x Hx. apply in_flat_map in Hx as (p & Hp & Hx). apply arrange_in, in_sort_by_text in Hp.
      unfold AL in H3. rewrite Forall_forall in H3. destruct (H3 p Hp) as [Hk Hg]. destruct Hx as [<-|Hx]; [exact Hk|].
      unfold gens_ok in Hg. rewrite Forall_forall in Hg. apply in_map_iff in Hx as (y & <- & Hy). exact (Hg y Hy).
Qed.

Lemma storage_free_values mode code cfg p m :
  ~ In (IOp memory_SLoad) code -> ~ In (IOp memory_SStore) code ->
  run_p constant_fold p (init_vm code cfg) = RDone m ->
  Forall (fun x => clean x = true) (unique (all_values mode (v_stored m))).
Proof.
  intros H1 H2 Hr.
  assert (F : Forall (fun s => Sok (fun v => clean v = true) false (fst s)) (v_stored m)).
  { apply (run_p_stored_ok constant_fold (fun v => clean v = true) clean_build false) with (code := code) (cfg := cfg) (p := p).
    - intros w. reflexivity.
    - intros id. reflexivity.
    - exact fold_clean.
    - exact clean_build_node.
    - intros id a b Ha Hb. unfold clean in *. cbn [nodes_ok forallb]. rewrite Ha, Hb. reflexivity.
    - discriminate.
    - discriminate.
    - reflexivity.
    - apply not_storage_op; assumption.
    - exact Hr. }
  apply Forall_forall. intros x Hx. apply unique_sub in Hx. unfold all_values in Hx. apply in_flat_map in Hx as (s & Hs & Hx).
  rewrite Forall_forall in F. pose proof (state_values_clean mode _ (F s Hs)) as C. rewrite Forall_forall in C. exact (C x Hx).
Qed.

(* ---- the nine passes keep a clean value clean ---- *)
Lemma clean_of v : has_storage_access v = false -> no_lift_outside v = true -> clean v = true.
Proof. intros Ha Hn. apply clean_iff. split; [exact Ha|]. rewrite (no_access_nlo v Ha) in Hn. now destruct (has_lifted v). Qed.

Lemma lift_value_clean keccak table v v' : clean v = true -> lift_value keccak table v = Ok v' -> clean v' = true.
Proof.
  intros Hc. apply clean_iff in Hc as [Ha Hl]. rewrite lift_value_unfold.
  assert (Hn : no_lift_outside v = true) by (rewrite (no_access_nlo v Ha), Hl; reflexivity).
  set (v0 := hashed_slots table v).
  assert (C0 : clean v0 = true) by (apply clean_of; [apply hashed_no_access; exact Ha|apply hashed_nlo; exact Hn]).
  pose proof (proj1 (clean_iff v0) C0) as [Ha0 _].
  rewrite (proxy_no_access_id keccak v0 Ha0), (mapping_index_no_access_id v0 Ha0).
  destruct (sub_word_rel v0) as (v1 & E1 & R1). rewrite E1. cbn [obind].
  assert (C1 : clean v1 = true) by (exact (sw_rel_nodes_ok clean_tag (fun _ _ _ _ => eq_refl) v0 v1 R1 C0)).
  assert (C2 : clean (mul_shifted v1) = true) by (exact (ms_rel_nodes_ok_any clean_tag (fun _ => eq_refl) v1 _ (mul_shifted_rel v1) C1)).
  pose proof (packed_encoding_rel (mul_shifted v1)) as R3.
  destruct (packed_encoding (mul_shifted v1)) as [v2|e|s]; cbn [obind]; try discriminate.
  assert (C3 : clean v2 = true) by (exact (pe_rel_nodes_ok clean_tag (fun _ _ => eq_refl) _ v2 R3 C2)).
  intros [= <-]. pose proof (proj1 (clean_iff v2) C3) as [Ha2 Hl2].
  rewrite (dyn_array_no_access_id v2 Ha2).
  assert (Hn2 : no_lift_outside v2 = true) by (rewrite (no_access_nlo v2 Ha2), Hl2; reflexivity).
  apply clean_of.
  - apply mapping_offset_no_access, storage_slots_no_access. exact Ha2.
  - apply mapping_offset_nlo, storage_slots_nlo. exact Hn2.
Qed.

(* ---- registration and the rules create no StorageSlot value ---- *)
Definition no_slot_exprs (st : tcs) : Prop := forall w x, In (w, x) (exprs st) -> ttag x <> T_StorageSlot.

Lemma reg_no_slot v : (forall s, In s (subterms v) -> sv_tag s <> T_StorageSlot) ->
  forall st, no_slot_exprs st -> no_slot_exprs (snd (reg v st)).
Proof.
  induction v as [t a args IH] using sv_ind'. intros Hv st Hst. rewrite reg_unfold. cbv zeta.
  destruct (if is_stable (Node t a args) then lookup_stable (Node t a args) (stable st) else None); [exact Hst|].
  assert (A : forall l st0, (forall x, In x l -> In x args) -> no_slot_exprs st0 -> no_slot_exprs (snd (reg_args l st0))).
  { induction l as [|x r IHr]; intros st0 Hsub H0; cbn [reg_args]; [exact H0|].
    assert (Hx : In x args) by (apply Hsub; left; reflexivity).
    rewrite Forall_forall in IH. pose proof (IH x Hx) as IHx.
    assert (Hvx : forall s, In s (subterms x) -> sv_tag s <> T_StorageSlot).
    { intros s Hs. apply Hv. cbn [subterms]. right. apply in_flat_map. exists x. split; assumption. }
    specialize (IHx Hvx st0 H0). destruct (reg x st0) as [tx s1]. cbn [snd] in IHx.
    specialize (IHr s1 (fun y Hy => Hsub y (or_intror Hy)) IHx). destruct (reg_args r s1) as [tr s2]. exact IHr. }
  specialize (A args st (fun x Hx => Hx) Hst). destruct (reg_args args st) as [tas st1]. cbn [snd] in *.
  intros w x [E|Hin]; [|exact (A w x Hin)]. inversion E; subst. cbn [ttag].
  exact (Hv (Node t a args) (or_introl eq_refl)).
Qed.

Lemma reg_list_no_slot l : (forall v s, In v l -> In s (subterms v) -> sv_tag s <> T_StorageSlot) ->
  forall st, no_slot_exprs st -> no_slot_exprs (snd (reg_list l st)).
Proof.
  induction l as [|x r IH]; intros Hl st Hst; cbn [reg_list]; [exact Hst|].
  pose proof (reg_no_slot x (fun s Hs => Hl x s (or_introl eq_refl) Hs) st Hst) as H1. destruct (reg x st) as [tx s1]. cbn [snd] in H1.
  specialize (IH (fun v s Hv Hs => Hl v s (or_intror Hv) Hs) s1 H1). destruct (reg_list r s1) as [tr s2]. exact IH.
Qed.

Lemma st_infer_exprs st v e st' : st_infer st v e = Ok st' -> exprs st' = exprs st.
Proof.
  unfold st_infer. destruct e; try (destruct (add_inf (infs st) v _); [intros [= <-]; reflexivity|discriminate]).
  destruct (id =? v); [intros [= <-]; reflexivity|].
  destruct (add_inf (infs st) id (Equal v)) as [i1|]; [|discriminate]. destruct (add_inf i1 v (Equal id)); [intros [= <-]; reflexivity|discriminate].
Qed.

Lemma apply_js_exprs js : forall st st', apply_js js st = Ok st' -> exprs st' = exprs st.
Proof.
  induction js as [|[v e] r IH]; intros st st'; cbn [apply_js]; [intros [= <-]; reflexivity|].
  destruct (st_infer st v e) as [s1|x|p] eqn:E; try discriminate. intros H. rewrite (IH _ _ H). exact (st_infer_exprs _ _ _ _ E).
Qed.

Lemma apply_rule_no_slot r x st st' : apply_rule r x st = Ok st' -> no_slot_exprs st -> no_slot_exprs st'.
Proof.
  unfold apply_rule. destruct (r x (next st)) as [ro|e|p]; try discriminate. intros H Hst. apply apply_js_exprs in H.
  intros w y Hin. rewrite H in Hin. destruct (ro_alloc ro); [|exact (Hst w y Hin)].
  unfold allocate in Hin. cbn [snd exprs] in Hin. destruct Hin as [E|Hin]; [inversion E; subst; discriminate|exact (Hst w y Hin)].
Qed.

Lemma infer_value_no_slot rs x : forall st st', infer_value rs x st = Ok st' -> no_slot_exprs st -> no_slot_exprs st'.
Proof.
  induction rs as [|r rs IH]; intros st st'; cbn [infer_value]; [intros [= <-]; auto|].
  destruct (apply_rule r x st) as [s1|e|p] eqn:E; try discriminate. intros H Hst. exact (IH _ _ H (apply_rule_no_slot _ _ _ _ E Hst)).
Qed.

Lemma infer_values_no_slot rs xs : forall st st', infer_values rs xs st = Ok st' -> no_slot_exprs st -> no_slot_exprs st'.
Proof.
  induction xs as [|x xs IH]; intros st st'; cbn [infer_values]; [intros [= <-]; auto|].
  destruct (infer_value rs x st) as [s1|e|p] eqn:E; try discriminate. intros H Hst. exact (IH _ _ H (infer_value_no_slot _ _ _ _ E Hst)).
Qed.

(* ---- the layout loop without constant slots ---- *)
Lemma build_layout_no_slots nested_add fit env fuel : forall vals layout L,
  (forall x, In x vals -> ttag x <> T_StorageSlot) ->
  build_layout nested_add fit env fuel vals layout = Ok L -> L = layout.
Proof.
  induction vals as [|x r IH]; intros layout L Hv; cbn [build_layout]; [intros [= <-]; reflexivity|].
  assert (K : const_slot_key x = None).
  { destruct x as [v t a args]. pose proof (Hv _ (or_introl eq_refl)) as Ht. cbn [ttag] in Ht.
    unfold const_slot_key. destruct t; try reflexivity. congruence. }
  rewrite K. apply IH. intros y Hy. apply Hv. right. exact Hy.
Qed.

Theorem pipeline_storage_free_empty_lemma keccak table mode fu bytes cfg l :
  (forall code, try_from bytes = Ok code -> ~ In (IOp memory_SLoad) code /\ ~ In (IOp memory_SStore) code) ->
  analyze_model_fuel keccak table mode fu bytes cfg = PLayout l -> l = [].
Proof.
  intros Hcode H.
  destruct (analyze_layout_inv _ _ _ _ _ _ _ H) as [code m lifted st' s n Ed Ev Ee El Ei Eb].
  destruct (Hcode code Ed) as [H1 H2].
  pose proof (storage_free_values mode code cfg (f_vm fu) m H1 H2 Ev) as Cv. rewrite Forall_forall in Cv.
  assert (Cl : forall v s0, In v lifted -> In s0 (subterms v) -> sv_tag s0 <> T_StorageSlot).
  { intros v s0 Hv Hs. destruct (forall2_from _ _ _ _ El Hv) as (u & Hu & Eu).
    exact (clean_no_slot v (lift_value_clean _ _ _ _ (Cv u Hu) Eu) s0 Hs). }
  assert (N0 : no_slot_exprs (snd (assign_vars lifted))).
  { unfold assign_vars. apply reg_list_no_slot; [exact Cl|]. intros w x []. }
  pose proof (infer_values_no_slot _ _ _ _ Ei N0) as N1.
  eapply build_layout_no_slots; [|exact Eb].
  intros x Hx. unfold tc_values in Hx. apply arrange_in in Hx. apply in_app_or in Hx as [Hx|Hx].
  - unfold Register.values in Hx. apply in_rev in Hx. apply in_map_iff in Hx as ([w y] & <- & Hin). exact (N1 w y Hin).
  - unfold synthetic_values in Hx. apply in_map_iff in Hx as (k & <- & _). cbn [ttag]. discriminate.
Qed.

(* ================================================================================================ the slot table *)
(* The analysis depends on the slot table only through the constants of the collected values: two tables that answer
   alike on those constants give the same trace.  (PipelineCases.v evaluates the cases with the sub-table of those
   constants, found through an index; `relevant_table_agrees` below closes the argument.) *)
From SLX Require Import PassesSlotsCases PipelineCases.

Lemma all_consts_known w : all_consts (Known w) = [w].
Proof. reflexivity. Qed.

Lemma all_consts_arg t a args x w : In x args -> In w (all_consts x) -> In w (all_consts (Node t a args)).
Proof. intros Hx Hw. cbn [all_consts]. apply in_or_app. right. apply in_flat_map. exists x. split; assumption. Qed.

Lemma hashed_slots_agree t t' v :
  (forall w, In w (all_consts v) -> PassesSlots.lookup_in t w = PassesSlots.lookup_in t' w) -> hashed_slots t v = hashed_slots t' v.
Proof.
  induction v as [tg a args IH] using sv_ind'. intros H. rewrite !hashed_eq.
  destruct (known_view (Node tg a args)) as [w|] eqn:E.
  - apply known_view_some in E. unfold lookup_hash. rewrite (H w); [reflexivity|]. rewrite E. left. reflexivity.
  - unfold generic. f_equal. apply map_ext_in. intros x Hx. rewrite Forall_forall in IH. apply (IH x Hx).
    intros w Hw. apply H. eapply all_consts_arg; eassumption.
Qed.

Lemma lift_value_agree keccak t t' v :
  (forall w, In w (all_consts v) -> PassesSlots.lookup_in t w = PassesSlots.lookup_in t' w) -> lift_value keccak t v = lift_value keccak t' v.
Proof. intros H. rewrite !lift_value_unfold, (hashed_slots_agree t t' v H). reflexivity. Qed.

Theorem analyze_tc_table_agree keccak t t' mode fu lim det stored polls :
  (forall v w, In v (unique (all_values mode stored)) -> In w (all_consts v) -> PassesSlots.lookup_in t w = PassesSlots.lookup_in t' w) ->
  analyze_tc keccak t mode fu lim det stored polls = analyze_tc keccak t' mode fu lim det stored polls.
Proof.
  intros H. unfold analyze_tc. cbv zeta.
  rewrite (ploop_e_ext (lift_body keccak t) (lift_body keccak t') (poll_every lim) (unique (all_values mode stored))); [reflexivity|].
  intros v st Hv. unfold lift_body. rewrite (lift_value_agree keccak t t' v (fun w Hw => H v w Hv Hw)). reflexivity.
Qed.

(* ---- the index: a bucket holds the entries whose hash has the same low bits, in table order ---- *)
Fixpoint eqlow (d : nat) (k k' : N) : bool :=
  match d with O => true | S d' => Bool.eqb (N.odd k) (N.odd k') && eqlow d' (N.div2 k) (N.div2 k') end.
Lemma eqlow_refl d : forall k, eqlow d k k = true.
Proof. induction d as [|d IH]; intros k; cbn [eqlow]; [reflexivity|]. rewrite Bool.eqb_reflx, IH. reflexivity. Qed.

Fixpoint good (d : nat) (t : trie) : Prop :=
  match d, t with
  | O, TLeaf _ => True
  | S d', TLeaf b => b = []
  | S d', TNode l r => good d' l /\ good d' r
  | O, TNode _ _ => False
  end.

Lemma good_empty d : good d (TLeaf []).
Proof. destruct d; cbn; auto. Qed.

Lemma tbucket_empty d k : tbucket d k (TLeaf []) = [].
Proof. destruct d; reflexivity. Qed.

Lemma tinsert_spec d : forall t k e, good d t ->
  good d (tinsert d k e t) /\
  forall k', tbucket d k' (tinsert d k e t) = if eqlow d k k' then tbucket d k' t ++ [e] else tbucket d k' t.
Proof.
  induction d as [|d IH]; intros t k e G.
  - destruct t as [b|l r]; [|contradiction]. cbn. split; [exact I|]. intros k'. reflexivity.
  - cbn [tinsert].
    assert (S : exists l r, good d l /\ good d r /\
                (match t with TNode l0 r0 => (l0, r0) | TLeaf _ => (TLeaf [], TLeaf []) end) = (l, r) /\
                (forall k', tbucket (S d) k' t = if N.odd k' then tbucket d (N.div2 k') r else tbucket d (N.div2 k') l)).
    { destruct t as [b|l r]; cbn [good] in G.
      - subst b. exists (TLeaf []), (TLeaf []). repeat split; try apply good_empty.
        intros k'. cbn [tbucket]. rewrite !tbucket_empty. destruct (N.odd k'); reflexivity.
      - destruct G as [Gl Gr]. exists l, r. repeat split; auto. }
    destruct S as (l & r & Gl & Gr & -> & Hb).
    destruct (N.odd k) eqn:Ok.
    + destruct (IH r (N.div2 k) e Gr) as [G' B']. split; [cbn [good]; split; assumption|].
      intros k'. rewrite Hb. cbn [tbucket eqlow]. rewrite Ok. destruct (N.odd k') eqn:Ok'; cbn [Bool.eqb andb].
      * apply B'.
      * reflexivity.
    + destruct (IH l (N.div2 k) e Gl) as [G' B']. split; [cbn [good]; split; assumption|].
      intros k'. rewrite Hb. cbn [tbucket eqlow]. rewrite Ok. destruct (N.odd k') eqn:Ok'; cbn [Bool.eqb andb].
      * reflexivity.
      * apply B'.
Qed.

Lemma build_index_spec d table : forall t, good d t ->
  let t' := fold_left (fun t e => tinsert d (fst e) e t) table t in
  good d t' /\ forall k', tbucket d k' t' = tbucket d k' t ++ filter (fun e => eqlow d (fst e) k') table.
Proof.
  induction table as [|e table IH]; intros t G; cbn [fold_left filter].
  - split; [exact G|]. intros k'. rewrite app_nil_r. reflexivity.
  - destruct (tinsert_spec d t (fst e) e G) as [G1 B1]. destruct (IH _ G1) as [G2 B2]. split; [exact G2|].
    intros k'. rewrite B2, B1. destruct (eqlow d (fst e) k'); [rewrite <- app_assoc; reflexivity|reflexivity].
Qed.

Lemma lookup_in_filter (p : N * N -> bool) l w : (forall e, fst e = w -> p e = true) -> PassesSlots.lookup_in (filter p l) w = PassesSlots.lookup_in l w.
Proof.
  intros H. unfold PassesSlots.lookup_in. induction l as [|e l IH]; [reflexivity|]. cbn [filter find].
  destruct (fst e =? w) eqn:E.
  - apply N.eqb_eq in E. rewrite (H e E). cbn [find]. apply N.eqb_eq in E. rewrite E. reflexivity.
  - destruct (p e); [cbn [find]; rewrite E|]; exact IH.
Qed.

(* looking a hash up through the index = the table's own linear search *)
Theorem index_lookup_correct table w : index_lookup (build_index table) w = PassesSlots.lookup_in table w.
Proof.
  unfold index_lookup, build_index. destruct (build_index_spec index_depth table (TLeaf []) (good_empty _)) as [_ B].
  rewrite B, tbucket_empty. cbn [app]. apply lookup_in_filter. intros e <-. apply eqlow_refl.
Qed.

Lemma dedupN_in l : forall seen x, In x l -> In x (dedupN seen l) \/ In x seen.
Proof.
  induction l as [|y l IH]; intros seen x; cbn [dedupN In]; [tauto|]. intros [<-|H].
  - destruct (existsb (N.eqb y) seen) eqn:E; [right; apply existsb_exists in E as (z & Hz & Ez); apply N.eqb_eq in Ez; subst; exact Hz|left; left; reflexivity].
  - destruct (existsb (N.eqb y) seen); [apply IH; exact H|].
    destruct (IH (y :: seen) x H) as [H1|[<-|H1]]; [left; right; exact H1|left; left; reflexivity|right; exact H1].
Qed.

Lemma lookup_in_relevant idx (L : list N) w :
  PassesSlots.lookup_in (flat_map (fun w0 => match index_lookup idx w0 with Some i => [(w0, i)] | None => [] end) L) w =
  if existsb (N.eqb w) L then index_lookup idx w else None.
Proof.
  unfold PassesSlots.lookup_in at 1. induction L as [|y L IH]; [reflexivity|]. cbn [flat_map existsb].
  destruct (w =? y) eqn:E.
  - apply N.eqb_eq in E. subst y. cbn [orb]. destruct (index_lookup idx w) as [i|] eqn:Ei.
    + cbn [app find fst]. rewrite N.eqb_refl. reflexivity.
    + cbn [app]. rewrite IH. destruct (existsb (N.eqb w) L); reflexivity.
  - cbn [orb]. destruct (index_lookup idx y) as [i|]; cbn [app find fst]; [|exact IH].
    rewrite N.eqb_sym, E. exact IH.
Qed.

(* the sub-table PipelineCases.v runs the model with answers like the implementation's table on every constant of the values *)
Theorem relevant_table_agrees table values v w :
  In v values -> In w (all_consts v) -> PassesSlots.lookup_in (relevant_table (build_index table) values) w = PassesSlots.lookup_in table w.
Proof.
  intros Hv Hw. unfold relevant_table. rewrite lookup_in_relevant.
  assert (Hin : In w (dedupN [] (flat_map all_consts values))).
  { destruct (dedupN_in (flat_map all_consts values) [] w) as [H|[]]; [|exact H]. apply in_flat_map. exists v. split; assumption. }
  assert (E : existsb (N.eqb w) (dedupN [] (flat_map all_consts values)) = true).
  { apply existsb_exists. exists w. split; [exact Hin|apply N.eqb_refl]. }
  rewrite E. apply index_lookup_correct.
Qed.

(* hence: what check_case evaluates is the model run with the implementation's full table *)
Theorem trace_of_uses_full_table table mode bytes cfg o real d :
  fst (trace_of (build_index table) (PC mode bytes cfg o real d)) = analyze_trace (oracle_keccak o) table mode check_fuels bytes cfg.
Proof.
  unfold trace_of, phase_of, trace_from, analyze_trace. destruct (vm_phase_of check_fuels bytes cfg) as [r polls|stored polls]; cbn [fst snd]; [reflexivity|].
  apply analyze_tc_table_agree. intros v w Hv Hw. exact (relevant_table_agrees table _ v w Hv Hw).
Qed.
