(* C08, converse inclusion: no reachable code is skipped.  Every state the reference EVM can reach when both
   outcomes of every JUMPI are possible is SHADOWED by a thread of the symbolic machine: after the run, its offset
   has a positive visit counter in some retired state, or it is the JUMPDEST a JUMP lands on (which the symbolic
   machine steps over).  Hypotheses, all decidable on the model run: every iteration satisfies the guards of C07's
   simulation, no fork is suppressed by a limit (SimGuards.guards_all), and the run ends with an empty queue. *)
From Coq Require Import String.
From SLX Require Import Base gen.Constants gen.ValueSig gen.OpcodeTable SymVal Micro gen.OpcodeSem Disasm
                        Word256 EvmSpec KnownWord Fold Evm VM Sim SimTrace SimGuards VmCases SimCases.
From SLX Require Import proofs.DisasmProofs proofs.Word256Proofs proofs.FoldProofs proofs.VmBounds proofs.VmControl
                        proofs.VmSimBase proofs.VmSimRel proofs.VmSimOps proofs.VmSimEvm proofs.VmSimStep proofs.VmSim.
Open Scope N_scope.
Set Default Timeout 120.

(* ---- the control-flow graph of the reference EVM ---- *)
Section Graph.
Variable bytes : list byte.

(* one step; at a JUMPI both outcomes are possible, elsewhere the branch flag is irrelevant and fixed to false *)
Definition estep1 (s s' : estate) : Prop :=
  exists b br, byte_at bytes (e_pc s) = Some b /\ estep bytes br s = ENext s' /\ (b <> 87 -> br = false).

Inductive ereach (s : estate) : estate -> Prop :=
| er_refl : ereach s s
| er_step s1 s2 : estep1 s s1 -> ereach s1 s2 -> ereach s s2.

Lemma ereach_snoc s s1 s2 : ereach s s1 -> estep1 s1 s2 -> ereach s s2.
Proof. induction 1 as [|s1 s2' H1 H2 IH]; intros H; [eapply er_step; [exact H|constructor]|eapply er_step; eauto]. Qed.

Lemma ereach_stuck s e : byte_at bytes (e_pc s) = None -> ereach s e -> e = s.
Proof. intros Hn H. destruct H as [|s1 s2 (b & br & Hb & _) _]; [reflexivity|congruence]. Qed.

(* the offsets a JUMP lands on *)
Definition landing (o : N) : Prop :=
  exists e' e'', ereach e_init e' /\ byte_at bytes (e_pc e') = Some 86 /\ estep bytes false e' = ENext e'' /\ e_pc e'' = o.

Definition imm_false (o : N) : Prop := nth_error (immediates 0 bytes) (N.to_nat o) = Some false.
End Graph.

Lemma is_jumpi_inv i : is_jumpi i = true -> i = IOp control_JumpI.
Proof. destruct i as [o| | | | | |]; try discriminate. intros H. f_equal. destruct o; try discriminate H; reflexivity. Qed.

Section Cover.
Variable bytes : list byte.
Variable code : list instr.
Hypothesis Hbytes : bytes_ok bytes.
Hypothesis Hlen : N.of_nat (length bytes) <= two32.
Hypothesis Htry : try_from bytes = Ok code.
Variable cfg : config.

Local Notation ereach := (ereach bytes).
Local Notation landing := (landing bytes).
Local Notation imm_false := (imm_false bytes).
Local Notation R := (R bytes code).

(* some thread, queued or retired, has executed offset o *)
Definition has_visit (m : vm) (o : N) : Prop :=
  (exists t, In t (v_queue m) /\ 0 < count_of o (tvis t)) \/ (exists sv, In sv (v_stored m) /\ 0 < count_of o (snd sv)).

(* e lies ahead of a queued thread: it is reachable from a concrete state that thread is related to *)
Definition ahead (m : vm) (e : estate) : Prop :=
  exists t e0, In t (v_queue m) /\ R t e0 /\ ereach e_init e0 /\ ereach e0 e.

Definition cov (m : vm) (e : estate) : Prop :=
  (has_visit m (e_pc e) /\ imm_false (e_pc e)) \/ landing (e_pc e) \/ ahead m e.

Lemma count_bump_pos o ip vis : 0 < count_of o vis -> 0 < count_of o (bump ip vis).
Proof. intros H. rewrite count_bump. destruct (o =? ip); lia. Qed.

(* any iteration: visits are never lost, the head thread's offset is visited, the other threads stay queued *)
Lemma step_visits m m' t rest :
  vm_step constant_fold m = SRunning m' -> v_queue m = t :: rest ->
  (forall o, has_visit m o -> has_visit m' o) /\ has_visit m' (tip t) /\ (forall t2, In t2 rest -> In t2 (v_queue m')).
Proof.
  intros Hstep Hq.
  destruct (vm_step_decomp _ _ _ _ Hstep Hq)
    as (i & c1 & c3 & err & serr & k & jt' & m1 & Hi & Hc1 & Hc1k & Hex & -> & Hm1c & Hm1f & Hm1s & Hm1p & Hm1k).
  set (t' := post_thread t i c3 err k). set (fk := post_forked t c3 k).
  assert (Hv' : tvis t' = bump (tip t) (tvis t)) by reflexivity.
  destruct (advance_cases m1 t' rest fk) as (_ & _ & _ & [(_ & Hq' & Hs' & _)|(_ & Hq' & Hs' & _)]).
  - split; [|split].
    + intros o [(t0 & Hin & Hc)|(sv & Hin & Hc)].
      * rewrite Hq in Hin. destruct Hin as [<-|Hin].
        -- right. exists (tstate t', tvis t'). split; [rewrite Hs'; apply in_or_app; right; now left|].
           cbn [snd]. rewrite Hv'. now apply count_bump_pos.
        -- left. exists t0. split; [rewrite Hq'; apply in_or_app; now left|exact Hc].
      * right. exists sv. split; [rewrite Hs', Hm1s; apply in_or_app; now left|exact Hc].
    + right. exists (tstate t', tvis t'). split; [rewrite Hs'; apply in_or_app; right; now left|].
      cbn [snd]. rewrite Hv', count_bump_same. lia.
    + intros t2 Hin. rewrite Hq'. apply in_or_app. now left.
  - split; [|split].
    + intros o [(t0 & Hin & Hc)|(sv & Hin & Hc)].
      * rewrite Hq in Hin. destruct Hin as [<-|Hin].
        -- left. eexists. split; [rewrite Hq'; now left|]. cbn [tvis]. rewrite Hv'. now apply count_bump_pos.
        -- left. exists t0. split; [rewrite Hq'; right; apply in_or_app; now left|exact Hc].
      * right. exists sv. split; [rewrite Hs', Hm1s; exact Hin|exact Hc].
    + left. eexists. split; [rewrite Hq'; now left|]. cbn [tvis]. rewrite Hv', count_bump_same. lia.
    + intros t2 Hin. rewrite Hq'. right. apply in_or_app. now left.
Qed.

Lemma imm_false_of_bdry k : bdry bytes code k -> byte_at bytes k <> None -> imm_false k.
Proof.
  intros [_ [Hge|H]] Hb; [|exact H]. exfalso. apply Hb. unfold byte_at.
  destruct (N.of_nat (length bytes) <=? k) eqn:E; [reflexivity|apply N.leb_gt in E; lia].
Qed.

(* the thread continues (and everything ahead of e' is ahead of it) or is retired at the end of the code *)
Lemma advance_ahead m1 t' rest forked e' :
  v_code m1 = code -> v_cfg m1 = cfg -> v_killed m1 = false ->
  (iter_limit cfg <=? count_of (tip t' + 1) (tvis t')) = false -> (gas_limit cfg <? tgas t') = false ->
  Rst (tstate t') e' -> Rpc bytes code (tip t' + 1) (e_pc e') -> ereach e_init e' ->
  forall e, ereach e' e -> byte_at bytes (e_pc e) <> None -> ahead (advance m1 t' rest forked) e.
Proof.
  intros Hc Hcf Hk Hit Hgas HR Hpc Hre e He Hb.
  destruct (advance_cases m1 t' rest forked) as (_ & _ & _ & [(Hret & Hq & _)|(Hret & Hq & _)]).
  - exfalso. rewrite Hc, Hcf, Hit, Hgas, Hk, !orb_false_r in Hret. apply N.leb_le in Hret.
    assert (Hn : byte_at bytes (e_pc e') = None).
    { unfold byte_at. rewrite <- (code_len bytes code Hbytes Hlen Htry). pose proof (rp_le _ _ _ _ Hpc).
      destruct (N.of_nat (length code) <=? e_pc e') eqn:E; [reflexivity|apply N.leb_gt in E; lia]. }
    rewrite (ereach_stuck _ _ _ Hn He) in Hb. contradiction.
  - eexists _, e'. split; [rewrite Hq; now left|]. split; [split; assumption|]. split; assumption.
Qed.

Lemma forked_in_advance m1 t' rest forked f : In f forked -> In f (v_queue (advance m1 t' rest forked)).
Proof.
  intros Hin. destruct (advance_cases m1 t' rest forked) as (_ & _ & _ & [(_ & Hq & _)|(_ & Hq & _)]); rewrite Hq.
  - apply in_or_app. now right.
  - right. apply in_or_app. now right.
Qed.

(* what JUMPI asks the machine to do *)
Lemma jumpi_ctl vis jt ip c c' er se k jt' counter cond s :
  exec_instr constant_fold cfg code vis jt ip (IOp control_JumpI) c = (c', er, se, k, jt') ->
  stack (o_st c) = counter :: cond :: s ->
  match validate_jump constant_fold code counter with
  | inl tg => if (iter_limit cfg <=? count_of tg vis) || (fork_limit cfg <=? count_of tg jt) then k = CNone else k = CFork tg
  | inr _ => k = CNone
  end.
Proof.
  rewrite (exec_jumpi_eq code cfg). unfold exec_jumpi. intros H Hs. rewrite Hs in H.
  destruct (validate_jump constant_fold code counter) as [tg|e0].
  - destruct (iter_limit cfg <=? count_of tg vis); cbn [orb]; [now injection H|].
    destruct (fork_limit cfg <=? count_of tg jt); now injection H.
  - now injection H.
Qed.

(* ---- one guarded iteration: everything ahead of the head thread stays covered ---- *)
Lemma step_ahead m m' t rest e0 :
  v_code m = code -> v_cfg m = cfg -> v_killed m = false -> v_queue m = t :: rest ->
  vm_step constant_fold m = SRunning m' -> step_guard2 bytes code cfg m t = true ->
  R t e0 -> ereach e_init e0 ->
  forall e, ereach e0 e -> byte_at bytes (e_pc e) <> None -> cov m' e.
Proof.
  intros Hcode Hcfg Hkill Hq Hstep Hg2 [HRst HRpc] Hre0 e He Hbe.
  destruct (step_visits _ _ _ _ Hstep Hq) as (_ & Hvt & _).
  destruct (vm_step_decomp _ _ _ _ Hstep Hq)
    as (i & c1 & c3 & err & serr & k & jt' & m1 & Hi & Hc1 & Hc1k & Hex & Hm' & Hm1c & Hm1f & Hm1s & Hm1p & Hm1k).
  rewrite Hcode in *. rewrite Hcfg in *. rewrite Hkill in *.
  unfold step_guard2 in Hg2. rewrite Hi in Hg2. apply orb_true_iff in Hg2 as [Hg2|Hdead].
  2: { (* a JUMP neither machine can take: the path ends here on both sides *)
    unfold dead_jump_guard in Hdead. destruct i as [o| | | | | |]; try discriminate Hdead.
    pose proof (table_fact o) as T. unfold kind_ok in T.
    destruct (classify o) eqn:Hc; try discriminate Hdead. destruct T as (_ & -> & _).
    assert (Heq : tip t = e_pc e0).
    { destruct (N.eq_dec (tip t) (e_pc e0)) as [E|E]; [exact E|]. pose proof (rp_le _ _ _ _ HRpc).
      pose proof (rp_nops _ _ _ _ HRpc (tip t) ltac:(lia)) as Hn. congruence. }
    rewrite Heq in Hi. pose proof (bdry_inv _ _ _ _ (rp_bdry _ _ _ _ HRpc) Hi) as Hat.
    inversion Hat as [b i0 Hnb Hp Hdec _ Hi0| |].
    pose proof (decode_op b control_Jump (byte_lt _ Hbytes _ _ Hnb) Hp Hdec) as Hb.
    pose proof (byte_at_nth bytes Hlen _ _ Hnb) as Hb86. rewrite Hb in Hb86. change (op_byte control_Jump) with 86 in Hb86.
    clear Hb Hnb Hp Hdec Hat b.
    destruct He as [|e1 e He1 He].
    - left. split; [now rewrite <- Heq|]. apply (imm_false_of_bdry _ (rp_bdry _ _ _ _ HRpc) Hbe).
    - exfalso. destruct He1 as (b & br & Hb & Hs & Hbr). rewrite Hb86 in Hb. injection Hb as <-.
      rewrite (Hbr ltac:(discriminate)) in Hs. rewrite (estep_jump _ _ _ Hb86), <- (r_stack _ _ HRst) in Hs.
      destruct (stack (tstate t)) as [|counter s]; [discriminate Hs|]. cbn [map] in Hs.
      destruct (validate_jump constant_fold code counter); [discriminate Hdead|].
      destruct (den counter) as [w|]; [|discriminate Hs]. apply negb_true_iff in Hdead. rewrite Hdead in Hs. discriminate. }
  apply andb_true_iff in Hg2 as [Hg Hfg].
  unfold step_guard in Hg. rewrite Hi in Hg. apply andb_true_iff in Hg as [Hig Hlim].
  unfold limits_guard in Hlim. apply andb_true_iff in Hlim as [Hl1 Hl2]. apply negb_true_iff in Hl1, Hl2.
  destruct (N.eq_dec (tip t) (e_pc e0)) as [Heq|Hne].
  2: { (* stepping through push data: the concrete machine does not move *)
    assert (Hlt : tip t < e_pc e0) by (pose proof (rp_le _ _ _ _ HRpc); lia).
    pose proof (rp_nops _ _ _ _ HRpc (tip t) ltac:(lia)) as Hnop. rewrite Hi in Hnop. injection Hnop as ->.
    change (exec_instr constant_fold cfg code (bump (tip t) (tvis t)) (v_jt m) (tip t) INop c1)
      with (c1, @None exec_err, @None exec_err, CNone, v_jt m) in Hex.
    injection Hex as <- <- <- <- <-. subst m'.
    right. right. apply (advance_ahead m1 (post_thread t INop c1 None CNone) rest [] e0); auto.
    - now rewrite Hm1k, Hc1k.
    - cbn [post_thread tstate]. now rewrite Hc1.
    - cbn [post_thread tip]. constructor; [lia| |apply (rp_bdry _ _ _ _ HRpc)].
      intros j Hj. apply (rp_nops _ _ _ _ HRpc). lia. }
  (* an instruction: both machines execute it *)
  rewrite Heq in Hi, Hig, Hex, Hl1.
  pose proof (exec_sim bytes code Hbytes Hlen Htry cfg c1 e0 i (bump (e_pc e0) (tvis t)) (v_jt m)) as Ho.
  rewrite Hc1 in Ho. specialize (Ho HRst (rp_bdry _ _ _ _ HRpc) Hi Hig). rewrite Hex in Ho.
  (* the state e0 itself is covered by this very iteration *)
  assert (Hself : byte_at bytes (e_pc e0) <> None -> cov m' e0).
  { intros Hb. left. split; [now rewrite <- Heq|]. apply (imm_false_of_bdry _ (rp_bdry _ _ _ _ HRpc) Hb). }
  inversion Ho as [c' e' Hk87 Hb87 Hes HR' Hpc' Hx Hj Hn
                  |c' e' Hk87 Hb87 HbN Hes HR' Hx Hj Hn
                  |c' t0 e1 e2 Hk87 Hb86 Hes1 Hb87' Hes2 HR' Hpc' Hx Hj Hn
                  |c' serr' k' jt'' e' Hk87 Hb87 Hes HR' Hpc' Hfork Hx Hj Hn];
    [subst c' err serr k jt'|subst c' err serr k jt'|subst c' err serr k jt'|subst c' err serr' k' jt''].
  - (* an ordinary instruction *)
    destruct He as [|e1 e He1 He]; [now apply Hself|].
    destruct He1 as (b & br & Hb & Hs & Hbr). rewrite (Hbr ltac:(intros ->; contradiction)) in Hs. rewrite Hes in Hs. injection Hs as <-.
    right. right. subst m'. apply (advance_ahead m1 (post_thread t i c3 None CNone) rest [] e'); auto.
    + now rewrite Hm1k, Hk87, Hc1k.
    + cbn [post_thread tip tvis]. rewrite Heq, Hn. exact Hl1.
    + cbn [post_thread tip]. now rewrite Heq.
    + eapply ereach_snoc; [exact Hre0|]. exists b, false. repeat split; auto.
  - (* a halting instruction: nothing lies beyond *)
    destruct He as [|e1 e He1 He]; [now apply Hself|].
    destruct He1 as (b & br & Hb & Hs & Hbr). rewrite (Hbr ltac:(intros ->; contradiction)) in Hs. rewrite Hes in Hs. discriminate.
  - (* JUMP: the JUMPDEST it lands on, then the code behind it *)
    destruct He as [|e1' e He1 He]; [now apply Hself|].
    destruct He1 as (b & br & Hb & Hs & Hbr). rewrite Hb86 in Hb. injection Hb as <-.
    rewrite (Hbr ltac:(discriminate)) in Hs. rewrite Hes1 in Hs. injection Hs as <-.
    assert (Hre1 : ereach e_init e1).
    { eapply ereach_snoc; [exact Hre0|]. exists 86, false. repeat split; auto. }
    destruct He as [|e2' e He2 He].
    { right. left. exists e0, e1. repeat split; auto. }
    destruct He2 as (b2 & br2 & Hb2 & Hs2 & Hbr2). rewrite (Hbr2 ltac:(intros ->; contradiction)) in Hs2.
    rewrite Hes2 in Hs2. injection Hs2 as <-.
    right. right. subst m'. apply (advance_ahead m1 (post_thread t i c3 None (CJump t0)) rest [] e2); auto.
    + now rewrite Hm1k, Hk87, Hc1k.
    + cbn [post_thread tip tvis]. rewrite Hn, Heq. exact Hl1.
    + eapply ereach_snoc; [exact Hre1|]. exists b2, false. repeat split; auto.
  - (* JUMPI: the fall-through is this thread, the jump-taken successor is the forked thread *)
    destruct He as [|e1 e He1 He]; [now apply Hself|].
    destruct He1 as (b & br & Hb & Hs & Hbr). rewrite Hb87 in Hb. injection Hb as <-.
    assert (Htip : tip (post_thread t i c3 None k) = tip t) by (destruct k; [reflexivity|contradiction|reflexivity]).
    destruct br.
    + (* the jump is taken *)
      pose proof (is_jumpi_inv i (eq_sym Hj)) as ->.
      cbn [instr_guard] in Hig. unfold op_guard in Hig. cbn [classify] in Hig.
      destruct (stack (tstate t)) as [|counter [|cond s]] eqn:Hst; try discriminate Hig.
      assert (Hst1 : stack (o_st c1) = counter :: cond :: s) by now rewrite Hc1.
      pose proof (jumpi_ctl _ _ _ _ _ _ _ _ _ _ _ _ Hex Hst1) as Hk.
      unfold fork_guard in Hfg. rewrite <- Hj, Hst in Hfg. rewrite Heq in Hfg.
      destruct (validate_jump constant_fold code counter) as [tg|er] eqn:Hv.
      * apply andb_true_iff in Hfg as [Hf1 Hf2]. apply negb_true_iff in Hf1, Hf2. rewrite Hf1, Hf2 in Hk. cbn [orb] in Hk.
        subst k. destruct Hfork as (e'' & Hes'' & HR'' & Hpc''). rewrite Hes'' in Hs. injection Hs as <-.
        right. right. subst m'.
        exists (mk_thread (with_fork_point (o_st c3) (tip t)) (bump (tip t) (tvis t)) tg (tgas t) (tpath t ++ [true])), e''.
        split; [apply forked_in_advance; now left|]. split; [split; [now apply Rst_fork_point|exact Hpc'']|].
        split; [|exact He]. eapply ereach_snoc; [exact Hre0|]. exists 87, true. repeat split; auto; intros; congruence.
      * exfalso. rewrite (estep_jumpi _ _ _ Hb87), (estack2 _ _ _ _ _ HRst Hst) in Hs.
        destruct (den counter) as [w|]; [|discriminate]. apply negb_true_iff in Hfg. rewrite Hfg in Hs. discriminate.
    + (* the fall-through *)
      rewrite Hes in Hs. injection Hs as <-.
      right. right. subst m'. apply (advance_ahead m1 (post_thread t i c3 None k) rest (post_forked t c3 k) e'); auto.
      * now rewrite Hm1k, Hk87, Hc1k.
      * rewrite Htip. cbn [post_thread tvis]. rewrite Heq, Hn. exact Hl1.
      * rewrite Htip, Heq. exact Hpc'.
      * eapply ereach_snoc; [exact Hre0|]. exists 87, false. repeat split; auto.
Qed.


(* ---- the invariant of the run ---- *)
Definition CInv (m : vm) : Prop :=
  v_code m = code /\ v_cfg m = cfg /\ v_killed m = false /\
  forall e, ereach e_init e -> byte_at bytes (e_pc e) <> None -> cov m e.

Lemma R_init : R (mk_thread empty_state [] 0 0 []) e_init.
Proof.
  split; [apply Rst_init|]. cbn [tip e_init e_pc]. apply Rpc_same. unfold bdry. cbn [N.to_nat skipn].
  split; [now apply (Hal bytes code)|apply imm_ok_0].
Qed.

Lemma cinv_init : CInv (init_vm code cfg).
Proof.
  repeat split; try reflexivity. intros e He Hb. right. right.
  eexists _, e_init. split; [now left|]. split; [exact R_init|]. split; [constructor|exact He].
Qed.

Lemma cinv_step m m' :
  CInv m -> vm_step constant_fold m = SRunning m' ->
  (forall t rest, v_queue m = t :: rest -> step_guard2 bytes code cfg m t = true) -> CInv m'.
Proof.
  intros (Hc & Hcf & Hk & Hcov) Hstep Hg.
  destruct (v_queue m) as [|t rest] eqn:Hq; [unfold vm_step in Hstep; rewrite Hq in Hstep; discriminate|].
  destruct (vm_step_shape _ _ _ _ Hstep Hq) as (Hc' & Hcf' & Hk' & _).
  destruct (step_visits _ _ _ _ Hstep Hq) as (Hmono & _ & Hrest).
  split; [congruence|]. split; [congruence|]. split; [exact Hk'|].
  intros e He Hb. destruct (Hcov e He Hb) as [[Hv Hi]|[Hl|(t2 & e0 & Hin & HR & Hre0 & Hre)]].
  - left. split; [now apply Hmono|exact Hi].
  - right. now left.
  - rewrite Hq in Hin. destruct Hin as [<-|Hin].
    + apply (step_ahead m m' t rest e0 Hc Hcf Hk Hq Hstep (Hg t rest eq_refl) HR Hre0 e Hre Hb).
    + right. right. exists t2, e0. split; [now apply Hrest|]. split; [exact HR|]. split; assumption.
Qed.

Lemma stopped_same m ip m' : vm_step constant_fold m = SStopped ip m' ->
  v_code m' = v_code m /\ v_cfg m' = v_cfg m /\ v_killed m' = v_killed m /\ v_queue m' = v_queue m /\ v_stored m' = v_stored m.
Proof.
  unfold vm_step. destruct (v_queue m) as [|t rest]; [discriminate|].
  destruct (nth_error (v_code m) (N.to_nat (tip t))); [|discriminate].
  destruct (if v_counter m mod poll_every (v_cfg m) =? 0 then _ else _) as [stopped c1]. destruct stopped.
  - intros [= <- <-]. repeat split; reflexivity.
  - destruct (exec_instr _ _ _ _ _ _ _ _) as [[[[c3 err] serr] k] jt']. destruct err; cbv beta iota zeta; discriminate.
Qed.

Lemma cinv_stopped m ip m' : CInv m -> vm_step constant_fold m = SStopped ip m' -> CInv m'.
Proof.
  intros (Hc & Hcf & Hk & Hcov) Hs. destruct (stopped_same _ _ _ Hs) as (H1 & H2 & H3 & H4 & H5).
  split; [congruence|]. split; [congruence|]. split; [congruence|].
  intros e He Hb. specialize (Hcov e He Hb). unfold cov, has_visit, ahead in *. rewrite H4, H5. exact Hcov.
Qed.

Lemma run_cinv n : forall m, CInv m -> guards_all bytes code cfg n m = true -> CInv (result_state (run constant_fold n m)).
Proof.
  induction n as [|n IH]; intros m Hi Hg; cbn [run result_state]; [exact Hi|]. cbn [guards_all] in Hg.
  destruct (vm_step constant_fold m) as [m'|m'|ip m'] eqn:Es.
  - apply andb_true_iff in Hg as [Hg1 Hg2]. apply IH; [|exact Hg2].
    apply (cinv_step m m' Hi Es). intros t rest Hq. now rewrite Hq in Hg1.
  - cbn [result_state]. now rewrite (vm_step_done_same _ _ Es).
  - cbn [result_state]. eapply cinv_stopped; eauto.
Qed.

(* every state the reference EVM can reach is executed by some retired thread, or is a JUMP landing *)
Theorem reachable_state_executed n mf :
  run constant_fold n (init_vm code cfg) = RDone mf -> v_queue mf = [] ->
  guards_all bytes code cfg n (init_vm code cfg) = true ->
  forall e, ereach e_init e -> byte_at bytes (e_pc e) <> None ->
  ((exists sv, In sv (v_stored mf) /\ 0 < count_of (e_pc e) (snd sv)) /\ imm_false (e_pc e)) \/ landing (e_pc e).
Proof.
  intros Hrun Hq Hg e He Hb. pose proof (run_cinv n _ cinv_init Hg) as (_ & _ & _ & Hcov).
  rewrite Hrun in Hcov. cbn [result_state] in Hcov.
  destruct (Hcov e He Hb) as [[[(t & Hin & _)|Hv] Hi]|[Hl|(t & e0 & Hin & _)]].
  - rewrite Hq in Hin. contradiction.
  - left. now split.
  - now right.
  - rewrite Hq in Hin. contradiction.
Qed.

End Cover.

(* ---- the worklist algorithms of the check (SimCases.explore / landings) versus the graph ---- *)
Section Worklist.
Variable bytes : list byte.

Lemma succs_in r s : In s (succs r) -> r = ENext s.
Proof. destruct r; cbn [succs In]; try contradiction. intros [<-|[]]. reflexivity. Qed.

Lemma mem_N_in x l : mem_N x l = true <-> In x l.
Proof.
  unfold mem_N. rewrite existsb_exists. split.
  - intros (y & Hy & E). apply N.eqb_eq in E. now subst.
  - intros H. exists x. split; [exact H|apply N.eqb_refl].
Qed.

(* every offset `explore` reports is executed by a state reachable from the worklist *)
Lemma explore_sound f : forall work seen reach, explore bytes f work seen = Some reach ->
  forall o, In o reach ->
  In o seen \/ exists s e, In s work /\ ereach bytes s e /\ byte_at bytes (e_pc e) <> None /\ e_pc e = o.
Proof.
  induction f as [|f IH]; intros work seen reach H o Ho; cbn [explore] in H.
  - destruct work; [injection H as <-; now left|discriminate].
  - destruct work as [|s rest]; [injection H as <-; now left|].
    destruct (byte_at bytes (e_pc s)) as [b|] eqn:Eb.
    2: { destruct (IH _ _ _ H o Ho) as [Hl|(s1 & e & Hin & Hr)]; [now left|right]. exists s1, e. split; [now right|exact Hr]. }
    destruct (is_beyond (estep bytes false s)); [discriminate|].
    assert (Hself : In o (e_pc s :: seen) -> In o seen \/ exists s0 e, In s0 (s :: rest) /\ ereach bytes s0 e /\ byte_at bytes (e_pc e) <> None /\ e_pc e = o).
    { intros [<-|Hin]; [right|now left]. exists s, s. split; [now left|]. split; [constructor|]. split; [congruence|reflexivity]. }
    destruct (b =? 87) eqn:E87.
    + apply N.eqb_eq in E87. subst b. destruct (is_beyond (estep bytes true s)); [discriminate|].
      destruct (IH _ _ _ H o Ho) as [Hl|(s1 & e & Hin & Hre & Hr)]; [now apply Hself|right].
      apply in_app_or in Hin as [Hin|Hin]; [|apply in_app_or in Hin as [Hin|Hin]].
      * apply succs_in in Hin. exists s, e. split; [now left|]. split; [|exact Hr].
        eapply er_step; [|exact Hre]. exists 87, true. repeat split; auto; intros; congruence.
      * apply succs_in in Hin. exists s, e. split; [now left|]. split; [|exact Hr].
        eapply er_step; [|exact Hre]. exists 87, false. repeat split; auto.
      * exists s1, e. split; [now right|]. split; assumption.
    + apply N.eqb_neq in E87.
      destruct (IH _ _ _ H o Ho) as [Hl|(s1 & e & Hin & Hre & Hr)]; [now apply Hself|right].
      apply in_app_or in Hin as [Hin|Hin].
      * apply succs_in in Hin. exists s, e. split; [now left|]. split; [|exact Hr].
        eapply er_step; [|exact Hre]. exists b, false. repeat split; auto.
      * exists s1, e. split; [now right|]. split; assumption.
Qed.

Lemma landings_acc f : forall work acc o, In o acc -> In o (landings bytes f work acc).
Proof.
  induction f as [|f IH]; intros work acc o Ho; cbn [landings]; [exact Ho|].
  destruct work as [|s rest]; [exact Ho|]. destruct (byte_at bytes (e_pc s)) as [b|]; [|now apply IH].
  assert (Ho' : In o (if b =? 86 then match estep bytes false s with ENext s' => e_pc s' :: acc | _ => acc end else acc)).
  { destruct (b =? 86); [|exact Ho]. destruct (estep bytes false s); try exact Ho. now right. }
  destruct (b =? 87); now apply IH.
Qed.

(* when `explore` completes within the fuel, `landings` (same worklist order, same fuel) has met every JUMP *)
Lemma landings_complete f : forall work seen reach acc, explore bytes f work seen = Some reach ->
  forall s e' e'', In s work -> ereach bytes s e' -> byte_at bytes (e_pc e') = Some 86 -> estep bytes false e' = ENext e'' ->
  In (e_pc e'') (landings bytes f work acc).
Proof.
  induction f as [|f IH]; intros work seen reach acc H s e' e'' Hin Hre Hb Hs; cbn [explore] in H; cbn [landings].
  - destruct work; [contradiction|discriminate].
  - destruct work as [|s0 rest]; [contradiction|].
    destruct (byte_at bytes (e_pc s0)) as [b|] eqn:Eb.
    2: { destruct Hin as [<-|Hin]; [|eapply IH; eauto].
         rewrite (ereach_stuck _ _ _ Eb Hre) in Hb. congruence. }
    destruct (is_beyond (estep bytes false s0)); [discriminate|].
    destruct (b =? 87) eqn:E87.
    + apply N.eqb_eq in E87. subst b. destruct (is_beyond (estep bytes true s0)); [discriminate|].
      destruct Hin as [<-|Hin].
      * destruct Hre as [|s1 e' (b1 & br & Hb1 & Hs1 & Hbr) Hre]; [congruence|].
        eapply (IH _ _ _ _ H s1); eauto. destruct br.
        -- apply in_or_app. left. rewrite Hs1. now left.
        -- apply in_or_app. right. apply in_or_app. left. rewrite Hs1. now left.
      * eapply (IH _ _ _ _ H s); eauto. apply in_or_app. right. apply in_or_app. now right.
    + apply N.eqb_neq in E87. destruct Hin as [<-|Hin].
      * destruct Hre as [|s1 e' (b1 & br & Hb1 & Hs1 & Hbr) Hre].
        -- rewrite Eb in Hb. injection Hb as ->. cbn [N.eqb Pos.eqb]. rewrite Hs. apply landings_acc. now left.
        -- rewrite Eb in Hb1. injection Hb1 as <-. rewrite (Hbr E87) in Hs1.
           eapply (IH _ _ _ _ H s1); eauto. apply in_or_app. left. rewrite Hs1. now left.
      * eapply (IH _ _ _ _ H s); eauto. apply in_or_app. now right.
Qed.

End Worklist.

(* ---- reach is included in visited + landings: the predicate whose failure is code 51 of SimCases.c08_code ---- *)
Definition visited_offsets (bytes : list byte) (states : list (vstate * list (N * N))) : list N :=
  filter (fun o => negb (nth (N.to_nat o) (immediates 0 bytes) false))
         (flat_map (fun st => map fst (filter (fun p => negb (snd p =? 0)) (snd st))) states).

Lemma visited_offsets_in bytes states sv o :
  In sv states -> 0 < count_of o (snd sv) -> imm_false bytes o -> In o (visited_offsets bytes states).
Proof.
  intros Hin Hc Hi. unfold visited_offsets. apply filter_In. split.
  - apply in_flat_map. exists sv. split; [exact Hin|].
    unfold count_of in Hc. destruct (alookup N.eqb o (snd sv)) as [c|] eqn:E; [|lia].
    apply (alookup_in N.eqb N_eqb_spec) in E. apply in_map_iff. exists (o, c). split; [reflexivity|].
    apply filter_In. split; [exact E|]. cbn [snd]. apply negb_true_iff. apply N.eqb_neq. lia.
  - unfold imm_false in Hi. rewrite (nth_error_nth _ _ false Hi). reflexivity.
Qed.

Theorem reachable_offsets_executed bytes code (cfg : config) :
  bytes_ok bytes -> N.of_nat (length bytes) <= two32 -> try_from bytes = Ok code ->
  forall n mf, run constant_fold n (init_vm code cfg) = RDone mf -> v_queue mf = [] ->
  guards_all bytes code cfg n (init_vm code cfg) = true ->
  forall fuel reach, explore bytes fuel [e_init] [] = Some reach ->
  forallb (fun o => mem_N o (visited_offsets bytes (v_stored mf)) || mem_N o (landings bytes fuel [e_init] [])) reach = true.
Proof.
  intros Hb Hl Ht n mf Hrun Hq Hg fuel reach Hex. apply forallb_forall. intros o Ho.
  destruct (explore_sound bytes fuel _ _ _ Hex o Ho) as [[]|(s & e & Hin & Hre & Hbe & <-)].
  destruct Hin as [<-|[]].
  destruct (reachable_state_executed bytes code Hb Hl Ht cfg n mf Hrun Hq Hg e Hre Hbe) as [[(sv & Hsv & Hc) Hi]|Hland].
  - apply orb_true_iff. left. apply mem_N_in. eapply visited_offsets_in; eauto.
  - apply orb_true_iff. right. apply mem_N_in. destruct Hland as (e' & e'' & Hre' & Hb86 & Hs & <-).
    eapply (landings_complete bytes fuel _ _ _ _ Hex e_init); eauto. now left.
Qed.

(* hence the check's code 51 cannot fire on states equal to the model's *)
Theorem c08_code_not_51 bytes code (cfg : config) :
  bytes_ok bytes -> N.of_nat (length bytes) <= two32 -> try_from bytes = Ok code ->
  forall n mf, run constant_fold n (init_vm code cfg) = RDone mf -> v_queue mf = [] ->
  guards_all bytes code cfg n (init_vm code cfg) = true ->
  forall ok errs jt retired queued polls,
  c08_code (mk_vcase bytes cfg (XRun ok errs (v_stored mf) jt retired queued polls)) <> 51.
Proof.
  intros Hb Hl Ht n mf Hrun Hq Hg ok errs jt retired queued polls. unfold c08_code. cbn [c_run c_code].
  destruct (explore bytes (64 * length bytes + 64) [e_init] []) as [reach|] eqn:Hex; [|discriminate].
  match goal with |- (if negb (forallb ?f ?v) then _ else _) <> _ => destruct (negb (forallb f v)); [discriminate|] end.
  pose proof (reachable_offsets_executed bytes code cfg Hb Hl Ht n mf Hrun Hq Hg _ _ Hex) as H.
  unfold visited_offsets in H. rewrite H. discriminate.
Qed.
