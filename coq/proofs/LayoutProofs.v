From Coq Require Import String Permutation.
From SLX Require Import Base gen.LayoutKey AbiT Layout.
Open Scope N_scope.

Lemma key_fields_are : layout_key_fields = ["index"%string; "offset"%string].
Proof. reflexivity. Qed.

Definition le_io (a b : entry) : Prop :=
  fst (fst a) < fst (fst b) \/ (fst (fst a) = fst (fst b) /\ snd (fst a) <= snd (fst b)).

Lemma key_lt_io a b : key_lt ["index"%string; "offset"%string] a b = true <->
  fst (fst a) < fst (fst b) \/ (fst (fst a) = fst (fst b) /\ snd (fst a) < snd (fst b)).
Proof.
  cbn [key_lt]. unfold field_val. cbn [String.eqb Ascii.eqb Bool.eqb].
  rewrite andb_false_r, orb_false_r, orb_true_iff, andb_true_iff, !N.ltb_lt, N.eqb_eq. tauto.
Qed.

Inductive sorted_io : list entry -> Prop :=
| s_nil : sorted_io []
| s_one x : sorted_io [x]
| s_cons x y l : le_io x y -> sorted_io (y :: l) -> sorted_io (x :: y :: l).

Lemma insert_sorted e l : sorted_io l -> sorted_io (insert_stable ["index"%string; "offset"%string] e l).
Proof.
  induction 1 as [|x|x y l Hxy Hs IH]; cbn [insert_stable].
  - constructor.
  - destruct (key_lt _ e x) eqn:E.
    + apply key_lt_io in E. constructor; [unfold le_io; lia|constructor].
    + constructor; [|constructor]. unfold le_io.
      assert (H : ~ (fst (fst e) < fst (fst x) \/ (fst (fst e) = fst (fst x) /\ snd (fst e) < snd (fst x)))).
      { intros H. apply key_lt_io in H. congruence. } lia.
  - destruct (key_lt _ e x) eqn:E.
    + apply key_lt_io in E. constructor; [unfold le_io; lia|]. now constructor.
    + assert (Hex : le_io x e).
      { unfold le_io. assert (H : ~ (fst (fst e) < fst (fst x) \/ (fst (fst e) = fst (fst x) /\ snd (fst e) < snd (fst x)))).
        { intros H. apply key_lt_io in H. congruence. } lia. }
      cbn [insert_stable] in IH. destruct (key_lt _ e y) eqn:E2.
      * constructor; [exact Hex|exact IH].
      * constructor; [exact Hxy|exact IH].
Qed.

Lemma insert_perm f e l : Permutation (insert_stable f e l) (e :: l).
Proof.
  induction l as [|x l IH]; cbn; [reflexivity|]. destruct (key_lt f e x); [reflexivity|].
  rewrite IH. apply perm_swap.
Qed.

Lemma stable_sort_sorted l : sorted_io (stable_sort ["index"%string; "offset"%string] l).
Proof.
  unfold stable_sort.
  assert (G : forall l acc, sorted_io acc -> sorted_io (fold_left (fun acc e => insert_stable ["index"%string; "offset"%string] e acc) l acc)).
  { induction l0 as [|x l0 IH]; intros acc H; cbn [fold_left]; auto. apply IH, insert_sorted, H. }
  apply G. constructor.
Qed.

Lemma stable_sort_perm f l : Permutation (stable_sort f l) l.
Proof.
  unfold stable_sort.
  assert (G : forall l acc, Permutation (fold_left (fun acc e => insert_stable f e acc) l acc) (acc ++ l)).
  { induction l0 as [|x l0 IH]; intros acc; cbn [fold_left]; [now rewrite app_nil_r|].
    rewrite IH, insert_perm. cbn. apply Permutation_cons_app. reflexivity. }
  apply (G l []).
Qed.

(* every layout the code can build is sorted by (index, offset) and contains exactly the added entries *)
Theorem layout_sorted es : sorted_io (layout_of es).
Proof.
  unfold layout_of.
  assert (G : forall es acc, sorted_io acc -> sorted_io (fold_left layout_add es acc)).
  { induction es0 as [|e es0 IH]; intros acc H; cbn [fold_left]; auto.
    apply IH. unfold layout_add. rewrite key_fields_are. apply stable_sort_sorted. }
  apply G. constructor.
Qed.

Theorem layout_perm es : Permutation (layout_of es) es.
Proof.
  unfold layout_of.
  assert (G : forall es acc, Permutation (fold_left layout_add es acc) (acc ++ es)).
  { induction es0 as [|e es0 IH]; intros acc; cbn [fold_left]; [now rewrite app_nil_r|].
    rewrite IH. unfold layout_add. rewrite stable_sort_perm, <- app_assoc. reflexivity. }
  apply (G es []).
Qed.

(* the boolean check used on the implementation's output agrees with the relation *)
From SLX Require Import gen.Constants gen.ValueSig SymVal VM VmCases LayoutCases.
Lemma sorted_entries_iff l : sorted_entries l = true <-> sorted_io l.
Proof.
  induction l as [|a [|b r] IH]; cbn [sorted_entries].
  - split; constructor.
  - split; constructor.
  - rewrite andb_true_iff, IH. unfold e_index, e_offset. split.
    + intros [H1 H2]. constructor; auto. unfold le_io.
      apply orb_true_iff in H1 as [H|H]; [apply N.ltb_lt in H; lia|].
      apply andb_true_iff in H as [Ha Hb]. apply N.eqb_eq in Ha. apply N.leb_le in Hb. lia.
    + intros H. inversion H as [| |? ? ? Hle Hs]; subst. split; auto.
      apply orb_true_iff. destruct Hle as [Hl|[He Ho]]; [left; now apply N.ltb_lt|].
      right. apply andb_true_iff. split; [now apply N.eqb_eq|now apply N.leb_le].
Qed.
