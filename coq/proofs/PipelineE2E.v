(* C02 end to end (props/C02_e2e.v): composition of
     props/C02_register.v   registration of a permuted value list = a renaming (worlds_of_perm, infer_commutes),
                            the rule set in any order = the same judgement sets (infer_rule_order_independent_lemma)
     PipelineRename.v       the back half is invariant under a renaming (back_ren_agree)
   into `pipeline_value_and_rule_order_independent_lemma`, plus the lifting in front of it
   (`pipeline_collection_order_independent_lemma`: a permuted collection of values). *)
From Coq Require Import String Permutation.
From SLX Require Import Base gen.Constants gen.ValueSig gen.WordUseTable gen.RulesSig SymVal TypeExpr Merge VectorMap
  DisjointSet Register Rules Unify UnifyOrder AbiT Layout Abi NoPanic Pipeline PipelineOrderDefs PipelineE2EDefs.
From SLX.proofs Require Import VecMapProofs DsuProofs MergeEquivProofs UnifyProofs UnifyOrderProofs UnifyTotal LayoutProofs
  AbiOrder AbiRename RegisterProofs RulesProofs RuleOrderProofs RegisterOrderProofs InferOrderProofs PipelinePolls PipelineProofs
  PipelineOrder PipelineRename.
Open Scope N_scope.

(* ========================================================================================== *)
(* 1. a permutation as a list of indices                                                       *)

Lemma map_nth_seq {A} (d : A) l : map (fun i => nth i l d) (seq 0 (length l)) = l.
Proof.
  induction l as [|x t IH]; [reflexivity|]. cbn [length seq map nth]. f_equal.
  rewrite <- seq_shift, map_map. exact IH.
Qed.

Lemma perm_sigma {A} (d : A) l l' : Permutation l l' ->
  exists sigma, Permutation (seq 0 (length l)) sigma /\ l' = map (fun i => nth i l d) sigma.
Proof.
  induction 1 as [|x t t' _ (sg & Ps & E)|x y t|l1 l2 l3 P12 (s1 & P1 & E1) P23 (s2 & P2 & E2)].
  - exists []. split; [constructor|reflexivity].
  - exists (O :: map S sg). split.
    + cbn [length seq]. constructor. rewrite <- seq_shift. apply Permutation_map, Ps.
    + cbn [map nth]. f_equal. rewrite map_map. exact E.
  - exists (1 :: 0 :: map (fun i => S (S i)) (seq 0 (length t)))%nat. split.
    + cbn [length seq]. rewrite <- !seq_shift, map_map. apply perm_swap.
    + cbn [map nth]. f_equal. f_equal. rewrite map_map. symmetry. apply map_nth_seq.
  - exists (map (fun j => nth j s1 O) s2). split.
    + assert (L : length l2 = length s1) by (rewrite E1, map_length; reflexivity).
      rewrite L in P2. rewrite <- (Permutation_map _ P2), map_nth_seq. exact P1.
    + rewrite E2, map_map. apply map_ext_in. intros j Hj. rewrite E1.
      assert (Hlt : (j < length s1)%nat).
      { apply (Permutation_in _ (Permutation_sym P2)) in Hj. apply in_seq in Hj. rewrite E1, map_length in Hj. lia. }
      rewrite (nth_indep _ d (nth O l1 d)) by (rewrite map_length; exact Hlt).
      rewrite (map_nth (fun i => nth i l1 d)). reflexivity.
Qed.

(* ========================================================================================== *)
(* 2. what inference leaves: distinct keys, the same constant slots                            *)

Lemma synth_not_slot f : is_const_slot (snd (synth f)) = false.
Proof. reflexivity. Qed.

Lemma infer_values_shape rs : one_alloc rs -> forall xs st s, winv st -> NoDup (map fst (infs st)) ->
  infer_values rs xs st = Ok s ->
  winv s /\ NoDup (map fst (infs s)) /\
  filter is_const_slot (Register.values s) = filter is_const_slot (Register.values st).
Proof.
  intros OA. induction xs as [|x xs IH]; intros st s W Nd; cbn [infer_values].
  - intros [= <-]. auto.
  - destruct (infer_value rs x st) as [st1| |] eqn:E; try discriminate. intros H.
    pose proof (infer_value_winv rs x st st1 W E) as W1.
    destruct (infer_value_char rs x OA st st1 W E) as (_ & B & C & _). cbv zeta in B, C.
    assert (Nd1 : NoDup (map fst (infs st1))).
    { rewrite C. destruct (existsb _ rs); [|exact Nd]. cbn [app]. constructor; [|exact Nd].
      rewrite <- (w_keys st W). intros Hin. apply (w_lt st W) in Hin. lia. }
    destruct (IH st1 s W1 Nd1 H) as (Ws & Nds & Fs). split; [exact Ws|]. split; [exact Nds|].
    rewrite Fs. unfold Register.values. rewrite B. destruct (existsb _ rs); [|reflexivity].
    cbn [app map rev]. rewrite filter_app. cbn [filter]. rewrite synth_not_slot, app_nil_r. reflexivity.
Qed.

Lemma assign_keys_nodup vs : NoDup (map fst (infs (snd (assign_vars vs)))).
Proof.
  pose proof (w_inv _ _ (assign_vars_world vs)) as I. rewrite <- (i_keys _ I). exact (i_nodup _ I).
Qed.

Lemma assign_winv vs : winv (snd (assign_vars vs)).
Proof. apply inv_winv. exact (w_inv _ _ (assign_vars_world vs)). Qed.

Lemma front_shape names vals s : Permutation names default_rules -> tc_front names vals = Ok s ->
  winv s /\ NoDup (map fst (infs s)) /\
  filter is_const_slot (Register.values s) = filter is_const_slot (Register.values (snd (assign_vars vals))).
Proof.
  intros P H. unfold tc_front, infer_all in H.
  exact (infer_values_shape _ (perm_names_one_alloc names P) _ _ _ (assign_winv vals) (assign_keys_nodup vals) H).
Qed.

(* ========================================================================================== *)
(* 3. judgement sets of a winv state                                                           *)

Lemma ts_get_jset s w : ts_get (tstate_of s) w = jset s w.
Proof. reflexivity. Qed.

Lemma keys_lt s v : winv s -> (In v (ts_vars (tstate_of s)) <-> v < next s).
Proof.
  intros W. pose proof (w_lt s W v) as L. pose proof (w_keys s W) as K. unfold ts_vars, tstate_of. cbn [ts_inf].
  split; intros H.
  - apply L. rewrite K. exact H.
  - apply L in H. rewrite K in H. exact H.
Qed.

(* the inverse of a bijection of [0, m) that is the identity above m *)
Definition inv_of (rho : tyvar -> tyvar) (m : N) (y : tyvar) : tyvar :=
  if y <? m then match find (fun x => rho x =? y) (vars_below m) with Some x => x | None => y end else y.

Lemma in_vars_below m x : In x (vars_below m) <-> x < m.
Proof.
  unfold vars_below. rewrite in_map_iff. split.
  - intros (k & <- & Hk). apply in_seq in Hk. lia.
  - intros H. exists (N.to_nat x). split; [apply N2Nat.id|]. apply in_seq. lia.
Qed.

Lemma inv_of_r rho m : (forall w', w' < m -> exists w, w < m /\ rho w = w') -> (forall w, m <= w -> rho w = w) ->
  forall y, rho (inv_of rho m y) = y.
Proof.
  intros Onto High y. unfold inv_of. destruct (y <? m) eqn:E.
  - apply N.ltb_lt in E. destruct (Onto y E) as (w & Hw & Ew).
    destruct (find _ _) as [x|] eqn:F.
    + apply find_some in F as [_ F]. apply N.eqb_eq, F.
    + exfalso. pose proof (find_none _ _ F w (proj2 (in_vars_below m w) Hw)) as G. cbv beta in G. rewrite Ew, N.eqb_refl in G. discriminate G.
  - apply N.ltb_ge in E. apply High, E.
Qed.

Lemma inv_of_l rho m : (forall a b, rho a = rho b -> a = b) ->
  (forall w', w' < m -> exists w, w < m /\ rho w = w') -> (forall w, m <= w -> rho w = w) ->
  forall x, inv_of rho m (rho x) = x.
Proof. intros Inj Onto High x. apply Inj. apply inv_of_r; assumption. Qed.

(* a bijection of the variables in use + corresponding judgement sets = `ren` *)
Lemma ren_of s1 s2 rho : winv s1 -> winv s2 -> next s2 = next s1 ->
  (forall a b, rho a = rho b -> a = b) ->
  (forall w, w < next s1 -> rho w < next s1) ->
  (forall w', w' < next s1 -> exists w, w < next s1 /\ rho w = w') ->
  (forall w, next s1 <= w -> rho w = w) ->
  (forall w e, In e (jset s1 w) <-> In (rename_te rho e) (jset s2 (rho w))) ->
  ren rho (inv_of rho (next s1)) (tstate_of s1) (tstate_of s2).
Proof.
  intros W1 W2 En Inj Into Onto High J.
  assert (Lt : forall x, rho x < next s1 <-> x < next s1).
  { intros x. split; [|apply Into]. intros H. destruct (N.lt_ge_cases x (next s1)) as [Hx|Hx]; [exact Hx|].
    rewrite (High x Hx) in H. exact H. }
  constructor.
  - apply inv_of_l; assumption.
  - apply inv_of_r; assumption.
  - exact En.
  - exact Lt.
  - intros x. rewrite (keys_lt s2 _ W2), (keys_lt s1 _ W1), En. apply Lt.
  - intros w e. rewrite !ts_get_jset. symmetry. apply J.
Qed.

Lemma rename_tsv_id : forall x, rename_tsv (fun v => v) x = x.
Proof.
  induction x as [v t a args IH] using tsv_ind'. cbn [rename_tsv]. f_equal.
  rewrite <- (map_id args) at 2. apply map_ext_in. intros y Hy. rewrite Forall_forall in IH. apply IH, Hy.
Qed.

(* ========================================================================================== *)
(* 4. results_agree is transitive                                                              *)

Lemma results_agree_trans r1 r2 r3 : results_agree r1 r2 -> results_agree r2 r3 -> results_agree r1 r3.
Proof.
  destruct r1, r2; cbn [results_agree]; try contradiction; destruct r3; cbn [results_agree]; try contradiction; try (intros; exact I).
  intros [P1 F1] [P2 F2]. split; [eapply Permutation_trans; eassumption|].
  intros Fk. pose proof (F1 Fk) as E. subst l0. apply F2, Fk.
Qed.

(* ========================================================================================== *)
(* 5. the rule set in another order: the same judgement sets                                   *)

Lemma rule_order_step names vals s s0 o1 o2 arr1 arr2 rounds :
  Permutation names default_rules -> tc_front names vals = Ok s -> tc_front default_rules vals = Ok s0 ->
  orders_ok o1 -> orders_ok o2 -> (forall l, Permutation (arr1 l) l) -> (forall l, Permutation (arr2 l) l) ->
  (order_fragment (tstate_of s) = true -> (length (ts_vars (tstate_of s)) + 2 <= rounds)%nat ->
     results_agree (back_run o1 arr1 rounds s) (back_run o2 arr2 rounds s0) /\ order_fragment (tstate_of s0) = true /\
     length (ts_vars (tstate_of s0)) = length (ts_vars (tstate_of s))) /\
  (order_fragment (tstate_of s0) = true -> (length (ts_vars (tstate_of s0)) + 2 <= rounds)%nat ->
     results_agree (back_run o1 arr1 rounds s0) (back_run o2 arr2 rounds s) /\ order_fragment (tstate_of s) = true /\
     length (ts_vars (tstate_of s)) = length (ts_vars (tstate_of s0))).
Proof.
  intros P H H0 Ho1 Ho2 Ha1 Ha2.
  destruct (front_shape names vals s P H) as (W & Nd & Fs).
  destruct (front_shape default_rules vals s0 (Permutation_refl _) H0) as (W0 & Nd0 & Fs0).
  unfold tc_front, infer_all in H, H0.
  destruct (infer_rule_order_independent_lemma names P _ _ s s0 (assign_winv vals) H H0) as (En & Ee & Ek & J).
  assert (R1 : ren (fun x => x) (fun x => x) (tstate_of s) (tstate_of s0)).
  { constructor; try reflexivity.
    - symmetry. exact En.
    - intros x. cbv beta. rewrite (keys_lt s0 _ W0), (keys_lt s _ W), En. reflexivity.
    - intros w e. rewrite rename_te_id, !ts_get_jset. symmetry. apply J. }
  assert (Sl : Permutation (filter is_const_slot (Register.values s0)) (map (rename_tsv (fun x => x)) (filter is_const_slot (Register.values s)))).
  { rewrite (map_ext _ (fun x => x) rename_tsv_id), map_id. unfold Register.values. rewrite Ee. reflexivity. }
  assert (Sl' : Permutation (filter is_const_slot (Register.values s)) (map (rename_tsv (fun x => x)) (filter is_const_slot (Register.values s0)))).
  { rewrite (map_ext _ (fun x => x) rename_tsv_id), map_id. unfold Register.values. rewrite Ee. reflexivity. }
  split.
  - intros Hf Hfuel. destruct (back_ren_agree s s0 _ _ o1 o2 arr1 arr2 rounds R1 Nd Nd0 Sl Hf Ho1 Ho2 Ha1 Ha2 Hfuel) as [A B].
    split; [exact A|]. split; [exact B|]. apply (vars_length _ _ _ _ R1 Nd Nd0).
  - intros Hf Hfuel. pose proof (ren_sym _ _ _ _ R1) as R2.
    destruct (back_ren_agree s0 s _ _ o1 o2 arr1 arr2 rounds R2 Nd0 Nd Sl' Hf Ho1 Ho2 Ha1 Ha2 Hfuel) as [A B].
    split; [exact A|]. split; [exact B|]. apply (vars_length _ _ _ _ R2 Nd0 Nd).
Qed.

(* ========================================================================================== *)
(* 6. the values registered in another order: a renaming                                       *)

Lemma value_order_step vals vals' s1 s2 o1 o2 arr1 arr2 rounds :
  Permutation vals vals' -> tc_front default_rules vals = Ok s1 -> tc_front default_rules vals' = Ok s2 ->
  orders_ok o1 -> orders_ok o2 -> (forall l, Permutation (arr1 l) l) -> (forall l, Permutation (arr2 l) l) ->
  order_fragment (tstate_of s1) = true -> (length (ts_vars (tstate_of s1)) + 2 <= rounds)%nat ->
  results_agree (back_run o1 arr1 rounds s1) (back_run o2 arr2 rounds s2) /\ order_fragment (tstate_of s2) = true /\
  length (ts_vars (tstate_of s2)) = length (ts_vars (tstate_of s1)).
Proof.
  intros P H1 H2 Ho1 Ho2 Ha1 Ha2 Hf Hfuel.
  destruct (perm_sigma dsv vals vals' P) as (sigma & Ps & Ev). subst vals'.
  destruct (worlds_of_perm vals sigma Ps) as (W & W' & Hpr & F & S). cbv zeta in *.
  set (vals' := map (fun i => nth i vals dsv) sigma) in *.
  set (prs := root_pairs (fst (assign_vars vals)) (fst (assign_vars vals')) sigma) in *.
  set (st := snd (assign_vars vals)) in *. set (st' := snd (assign_vars vals')) in *.
  pose proof (perm_names_one_alloc default_rules (Permutation_refl _)) as OA.
  destruct (front_shape default_rules vals s1 (Permutation_refl _) H1) as (Ws1 & Nd1 & Fs1).
  destruct (front_shape default_rules vals' s2 (Permutation_refl _) H2) as (Ws2 & Nd2 & Fs2).
  unfold tc_front in H1, H2. fold default_rule_set in H1, H2, OA.
  destruct (infer_commutes st st' prs W W' Hpr default_rule_set OA default_rules_fresh_blind default_rules_equivariant
              (assign_vars_infs_empty vals) (assign_vars_infs_empty vals') s1 s2 H1 H2) as (En & Low & Inj & Into & Onto & High & J).
  set (rho := rho_plus st st' prs default_rule_set) in *.
  pose proof (ren_of s1 s2 rho Ws1 Ws2 En Inj Into Onto High J) as Rn.
  assert (Sl : Permutation (filter is_const_slot (Register.values s2)) (map (rename_tsv rho) (filter is_const_slot (Register.values s1)))).
  { rewrite Fs1, Fs2. fold st st'.
    pose proof (w_inv _ _ W) as I. pose proof (w_inv _ _ W') as I'.
    assert (NdV : forall s, inv s -> NoDup (Register.values s)).
    { intros s0 I0. apply (NoDup_map_inv tv_of). apply values_nodup, I0. }
    apply NoDup_Permutation.
    - apply NoDup_filter, NdV, I'.
    - apply (NoDup_map_inv tv_of). rewrite map_map.
      rewrite (map_ext (fun x => tv_of (rename_tsv rho x)) (fun x => rho (tv_of x))) by (intros; apply tv_rename).
      rewrite <- map_map. apply FinFun.Injective_map_NoDup; [exact Inj|].
      pose proof (values_nodup st I) as Hn. revert Hn. generalize (Register.values st). intros l.
      induction l as [|a l IHl]; cbn [map filter]; intros Hn; [constructor|]. inversion Hn as [|? ? Ha Hl]; subst.
      destruct (is_const_slot a); [|apply IHl, Hl]. cbn [map]. constructor; [|apply IHl, Hl].
      intros Hin. apply Ha. apply in_map_iff in Hin as (b & Eb & Hb). apply filter_In in Hb as [Hb _].
      apply in_map_iff. exists b. auto.
    - intros y. rewrite filter_In, in_map_iff. split.
      + intros [Hy Hs]. destruct (xs'_partner st st' prs W W' Hpr y Hy) as (x & Hx & Ex).
        exists x. split; [unfold rho; rewrite (rename_plus st st' prs W default_rule_set x Hx); exact Ex|].
        apply filter_In. split; [exact Hx|]. rewrite <- Ex, is_const_slot_rename in Hs. exact Hs.
      + intros (x & Ex & Hx). apply filter_In in Hx as [Hx Hs]. fold rho in Ex.
        unfold rho in Ex. rewrite (rename_plus st st' prs W default_rule_set x Hx) in Ex. subst y.
        split; [apply (xs_partner st st' prs W W' Hpr x Hx)|]. rewrite is_const_slot_rename. exact Hs. }
  destruct (back_ren_agree s1 s2 _ _ o1 o2 arr1 arr2 rounds Rn Nd1 Nd2 Sl Hf Ho1 Ho2 Ha1 Ha2 Hfuel) as [A B].
  split; [exact A|]. split; [exact B|]. apply (vars_length _ _ _ _ Rn Nd1 Nd2).
Qed.

(* ========================================================================================== *)
(* 7. THE statement                                                                            *)

Theorem pipeline_value_and_rule_order_independent_lemma vals vals' names1 names2 o1 o2 arr1 arr2 rounds :
  Permutation vals vals' -> Permutation names1 default_rules -> Permutation names2 default_rules ->
  orders_ok o1 -> orders_ok o2 -> (forall l, Permutation (arr1 l) l) -> (forall l, Permutation (arr2 l) l) ->
  (forall s, tc_front names1 vals = Ok s ->
     order_fragment (tstate_of s) = true /\ (length (ts_vars (tstate_of s)) + 2 <= rounds)%nat) ->
  results_agree (tc_run names1 o1 arr1 rounds vals) (tc_run names2 o2 arr2 rounds vals') /\
  (forall s', tc_front names2 vals' = Ok s' -> order_fragment (tstate_of s') = true).
Proof.
  intros Pv P1 P2 Ho1 Ho2 Ha1 Ha2 Hyp.
  destruct (infer_rule_order_total_lemma names1 vals P1) as (sa & Ha).
  destruct (infer_rule_order_total_lemma default_rules vals (Permutation_refl _)) as (sa0 & Ha0).
  destruct (infer_rule_order_total_lemma default_rules vals' (Permutation_refl _)) as (sb0 & Hb0).
  destruct (infer_rule_order_total_lemma names2 vals' P2) as (sb & Hb).
  change (tc_front names1 vals = Ok sa) in Ha. change (tc_front default_rules vals = Ok sa0) in Ha0.
  change (tc_front default_rules vals' = Ok sb0) in Hb0. change (tc_front names2 vals' = Ok sb) in Hb.
  destruct (Hyp sa Ha) as [Hf Hfuel].
  destruct (proj1 (rule_order_step names1 vals sa sa0 o1 o1 arr1 arr1 rounds P1 Ha Ha0 Ho1 Ho1 Ha1 Ha1) Hf Hfuel) as (A1 & F1 & L1).
  assert (Hfuel1 : (length (ts_vars (tstate_of sa0)) + 2 <= rounds)%nat) by (rewrite L1; exact Hfuel).
  destruct (value_order_step vals vals' sa0 sb0 o1 o2 arr1 arr2 rounds Pv Ha0 Hb0 Ho1 Ho2 Ha1 Ha2 F1 Hfuel1) as (A2 & F2 & L2).
  assert (Hfuel2 : (length (ts_vars (tstate_of sb0)) + 2 <= rounds)%nat) by (rewrite L2; exact Hfuel1).
  destruct (proj2 (rule_order_step names2 vals' sb sb0 o2 o2 arr2 arr2 rounds P2 Hb Hb0 Ho2 Ho2 Ha2 Ha2) F2 Hfuel2) as (A3 & F3 & L3).
  split.
  - unfold tc_run. rewrite Ha, Hb. eapply results_agree_trans; [exact A1|]. eapply results_agree_trans; [exact A2|exact A3].
  - intros s' Hs'. rewrite Hb in Hs'. injection Hs' as <-. exact F3.
Qed.

(* ========================================================================================== *)
(* 8. the lifting in front: a permuted collection of values                                    *)

Lemma unique_from_nodup l : forall seen, NoDup (unique_from seen l) /\ forall x, In x (unique_from seen l) -> ~ In x seen.
Proof.
  induction l as [|y r IH]; intros seen; cbn [unique_from]; [split; [constructor|intros x []]|].
  destruct (existsb (sv_eqb y) seen) eqn:E; [apply IH|].
  destruct (IH (y :: seen)) as [Nd Dj]. split.
  - constructor; [|exact Nd]. intros Hin. apply (Dj y Hin). left. reflexivity.
  - intros x [<-|Hx].
    + intros Hin. assert (existsb (sv_eqb y) seen = true); [|congruence].
      apply existsb_exists. exists y. split; [exact Hin|apply sv_eqb_eq; reflexivity].
    + intros Hin. apply (Dj x Hx). right. exact Hin.
Qed.

Lemma unique_perm l1 l2 : Permutation l1 l2 -> Permutation (unique l1) (unique l2).
Proof.
  intros P. apply NoDup_Permutation; try apply unique_from_nodup.
  intros x. split; intros H; apply unique_in; [eapply Permutation_in; [exact P|]|eapply Permutation_in; [apply Permutation_sym, P|]];
    apply unique_sub, H.
Qed.

Section Lift.
  Variable keccak : list byte -> N.
  Variable table : list (N * N).
  Notation lift := (lift_value keccak table).
  Definition lifted_or (v : sv) : sv := match lift v with Ok v' => v' | _ => dsv end.

  Lemma lift_all_ok vals : (forall v, In v vals -> exists v', lift v = Ok v') -> forall acc failed,
    fold_e (lift_body keccak table) vals (acc, failed) = inl (rev (map lifted_or vals) ++ acc, failed).
  Proof.
    induction vals as [|v r IH]; intros H acc failed; cbn [fold_e map rev app]; [reflexivity|].
    unfold lift_body at 1. cbn [fst snd]. destruct (H v (or_introl eq_refl)) as (v' & E). unfold lifted_or at 2. rewrite E.
    rewrite IH by (intros w Hw; apply H; right; exact Hw). rewrite <- app_assoc. reflexivity.
  Qed.

  Lemma lift_inl vals : forall acc failed acc' failed', fold_e (lift_body keccak table) vals (acc, failed) = inl (acc', failed') ->
    (failed = true -> failed' = true) /\
    forall v, In v vals -> (forall s, lift v <> Panic s) /\ (failed' = false -> exists v', lift v = Ok v').
  Proof.
    induction vals as [|v r IH]; intros acc failed acc' failed'; cbn [fold_e].
    - intros [= <- <-]. split; [auto|intros v []].
    - unfold lift_body at 1. cbn [fst snd]. destruct (lift v) as [v'|e|s] eqn:E; [| |discriminate].
      + intros H. destruct (IH _ _ _ _ H) as (M & G). split; [exact M|].
        intros w [<-|Hw]; [|apply G, Hw]. split; [intros s; congruence|eauto].
      + intros H. destruct (IH _ _ _ _ H) as (M & G). split; [intros _; apply M; reflexivity|].
        intros w [<-|Hw]; [|apply G, Hw]. split; [intros s; congruence|].
        intros F. rewrite (M eq_refl) in F. discriminate.
  Qed.

  Lemma lift_inr vals : forall st e, fold_e (lift_body keccak table) vals st = inr e ->
    exists s, e = PPanic s /\ exists v, In v vals /\ lift v = Panic s.
  Proof.
    induction vals as [|v r IH]; intros st e; cbn [fold_e]; [discriminate|].
    unfold lift_body at 1. destruct (lift v) as [v'|e0|s] eqn:E.
    - intros H. destruct (IH _ _ H) as (s & -> & w & Hw & Ew). exists s. split; [reflexivity|]. exists w. split; [right; exact Hw|exact Ew].
    - intros H. destruct (IH _ _ H) as (s & -> & w & Hw & Ew). exists s. split; [reflexivity|]. exists w. split; [right; exact Hw|exact Ew].
    - intros [= <-]. exists s. split; [reflexivity|]. exists v. split; [left; reflexivity|exact E].
  Qed.

  Lemma lift_no_panic vals : (forall v, In v vals -> forall s, lift v <> Panic s) -> forall st,
    exists acc' failed', fold_e (lift_body keccak table) vals st = inl (acc', failed').
  Proof.
    intros H st. destruct (fold_e (lift_body keccak table) vals st) as [[a f]|e] eqn:E; [eauto|].
    destruct (lift_inr _ _ _ E) as (s & _ & v & Hv & Ev). exfalso. exact (H v Hv s Ev).
  Qed.

  Theorem pipeline_collection_order_independent_lemma names1 names2 o1 o2 arr1 arr2 rounds c1 c2 :
    Permutation c1 c2 -> Permutation names1 default_rules -> Permutation names2 default_rules ->
    orders_ok o1 -> orders_ok o2 -> (forall l, Permutation (arr1 l) l) -> (forall l, Permutation (arr2 l) l) ->
    (forall acc s, fold_e (lift_body keccak table) (unique c1) ([], false) = inl (acc, false) -> tc_front names1 (rev acc) = Ok s ->
       order_fragment (tstate_of s) = true /\ (length (ts_vars (tstate_of s)) + 2 <= rounds)%nat) ->
    results_agree (analyze_gen keccak table names1 o1 arr1 rounds c1) (analyze_gen keccak table names2 o2 arr2 rounds c2).
  Proof.
    intros Pc P1 P2 Ho1 Ho2 Ha1 Ha2 Hyp. pose proof (unique_perm _ _ Pc) as Pu. unfold analyze_gen.
    destruct (fold_e (lift_body keccak table) (unique c1) ([], false)) as [[a1 f1]|e1] eqn:F1.
    - destruct (lift_inl _ _ _ _ _ F1) as (_ & G1). destruct f1.
      + (* a pass failed on some value *)
        assert (Np : forall v, In v (unique c2) -> forall s, lift v <> Panic s).
        { intros v Hv. apply (G1 v). eapply Permutation_in; [apply Permutation_sym, Pu|exact Hv]. }
        destruct (lift_no_panic _ Np ([], false)) as (a2 & f2 & F2). rewrite F2. destruct f2; [exact I|]. exfalso.
        destruct (lift_inl _ _ _ _ _ F2) as (_ & G2).
        assert (Ok1 : forall v, In v (unique c1) -> exists v', lift v = Ok v').
        { intros v Hv. apply (G2 v); [eapply Permutation_in; [exact Pu|exact Hv]|reflexivity]. }
        rewrite (lift_all_ok _ Ok1) in F1. discriminate.
      + assert (Ok1 : forall v, In v (unique c1) -> exists v', lift v = Ok v') by (intros v Hv; apply (G1 v Hv); reflexivity).
        assert (Ok2 : forall v, In v (unique c2) -> exists v', lift v = Ok v').
        { intros v Hv. apply Ok1. eapply Permutation_in; [apply Permutation_sym, Pu|exact Hv]. }
        specialize (Hyp a1). rewrite (lift_all_ok _ Ok1) in F1. injection F1 as <-.
        rewrite (lift_all_ok _ Ok2). rewrite !app_nil_r, !rev_involutive in *.
        apply pipeline_value_and_rule_order_independent_lemma; try assumption.
        * apply Permutation_map, Pu.
        * intros s Hs. apply Hyp; [reflexivity|exact Hs].
    - destruct (lift_inr _ _ _ F1) as (s & -> & v & Hv & Ev).
      destruct (fold_e (lift_body keccak table) (unique c2) ([], false)) as [[a2 f2]|e2] eqn:F2.
      + exfalso. destruct (lift_inl _ _ _ _ _ F2) as (_ & G2).
        apply (proj1 (G2 v (Permutation_in _ Pu Hv)) s Ev).
      + destruct (lift_inr _ _ _ F2) as (s2 & -> & _). exact I.
  Qed.
End Lift.

(* ========================================================================================== *)
(* 9. the composed model                                                                       *)

Lemma analyze_plain_is_gen keccak table fu stored :
  analyze_plain keccak table MSorted fu stored =
  analyze_gen keccak table sorted_rules orders_sorted (fun l => l) (f_rounds fu) (all_values MSorted stored).
Proof.
  unfold analyze_plain, analyze_gen. cbv zeta.
  destruct (fold_e (lift_body keccak table) (unique (all_values MSorted stored)) ([], false)) as [[acc failed]|e]; [|reflexivity].
  destruct failed; [reflexivity|]. rewrite fold_reg. unfold tc_run, tc_front, assign_vars, infer_all.
  rewrite fold_infer. unfold tc_values, pipeline_rules. cbn [arrange].
  destruct (infer_values (map rule_named sorted_rules) (Register.values (snd (reg_list (rev acc) empty_tcs))) (snd (reg_list (rev acc) empty_tcs)));
    reflexivity.
Qed.

Lemma sorted_rules_perm : Permutation sorted_rules default_rules.
Proof. apply sort_le_perm. Qed.

Lemma all_values_perm m1 m2 stored : Permutation (all_values m1 stored) (all_values m2 stored).
Proof.
  assert (A : forall {X} (l : list X) p, Permutation (arrange m1 p l) (arrange m2 p l)).
  { intros X l p. rewrite !arrange_perm. reflexivity. }
  unfold all_values. induction stored as [|s r IH]; cbn [flat_map]; [reflexivity|]. apply Permutation_app; [|exact IH].
  unfold state_values. apply Permutation_app_head. apply Permutation_app; [|apply Permutation_app_tail].
  - unfold memory_values. apply Permutation_app; apply Permutation_flat_map, A.
  - unfold stores_as_values, storage_entries. apply Permutation_flat_map, A.
Qed.

(* the sorted run against a run in which every iteration-order point of mode m EXCEPT the visiting order of the values
   inside `infer` follows m *)
Theorem pipeline_sorted_vs_mode_lemma keccak table m fu stored :
  (forall acc s, fold_e (lift_body keccak table) (unique (all_values MSorted stored)) ([], false) = inl (acc, false) ->
     tc_front sorted_rules (rev acc) = Ok s ->
     order_fragment (tstate_of s) = true /\ (length (ts_vars (tstate_of s)) + 2 <= f_rounds fu)%nat) ->
  results_agree (analyze_plain keccak table MSorted fu stored)
                (analyze_gen keccak table (arrange m "tc.rules" sorted_rules) (orders_of m) (tc_values m) (f_rounds fu) (all_values m stored)).
Proof.
  intros Hyp. rewrite analyze_plain_is_gen. apply pipeline_collection_order_independent_lemma.
  - apply all_values_perm.
  - apply sorted_rules_perm.
  - eapply Permutation_trans; [apply arrange_perm|apply sorted_rules_perm].
  - apply sorted_orders_ok.
  - apply orders_of_ok'.
  - intros l. reflexivity.
  - intros l. apply arrange_perm.
  - exact Hyp.
Qed.

(* ========================================================================================== *)
(* 10. non-vacuity                                                                             *)

Definition ex_known (n : N) : sv := Node T_KnownData [n] [].
Definition ex_val (n : N) : sv := Node T_Value [n] [].
(* a read of slot 1, a write to slot 5, a write of a sum to slot 1 *)
Definition ex_b : sv := Node T_SLoad [] [Node T_StorageSlot [] [ex_known 1]; ex_val 9].
Definition ex_c : sv := Node T_StorageWrite [] [Node T_StorageSlot [] [ex_known 5]; ex_val 11].
Definition ex_d : sv := Node T_StorageWrite [] [Node T_StorageSlot [] [ex_known 1]; Node T_Add [] [ex_val 12; ex_val 13]].

Lemma e2e_example_ok :
  Permutation [ex_b; ex_c; ex_d] [ex_d; ex_c; ex_b] /\ Permutation (rev default_rules) default_rules /\
  (exists s, tc_front default_rules [ex_b; ex_c; ex_d] = Ok s /\ order_fragment (tstate_of s) = true /\
             (length (ts_vars (tstate_of s)) + 2 <= 30)%nat /\ jset s 10 = [Word None UNumeric; Equal 1]) /\
  (exists s', tc_front (rev default_rules) [ex_d; ex_c; ex_b] = Ok s' /\ jset s' 4 = [Word None UNumeric; Equal 1]) /\
  tc_run default_rules orders_sorted (fun l => l) 30 [ex_b; ex_c; ex_d] =
    PLayout [(1, 0, AT "Number" [0] []); (5, 0, a_any)] /\
  tc_run (rev default_rules) orders_sorted_rev (@rev tsv) 30 [ex_d; ex_c; ex_b] =
    PLayout [(1, 0, AT "Number" [0] []); (5, 0, a_any)].
Proof.
  split; [|split; [apply Permutation_sym, Permutation_rev|]].
  - apply (Permutation_rev [ex_b; ex_c; ex_d]).
  - split; [eexists; split; [vm_compute; reflexivity|]; split; [vm_compute; reflexivity|]; split; [vm_compute; lia|vm_compute; reflexivity]|].
    split; [eexists; split; [vm_compute; reflexivity|vm_compute; reflexivity]|].
    split; vm_compute; reflexivity.
Qed.
