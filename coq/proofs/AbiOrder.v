(* `abi_type_for` / `build_layout` on two class tables that agree up to the choice of class representatives.

   Two environments env1 env2 and an equivalence R on type variables ("in one class", the same partition in both).
   Hypotheses (Section AbiRel):
     Hexp    related variables have an expression in both or in neither
     Hdata   related variables carry related data: no entry in both, the empty set in both, or one type each, the
             two types equal up to R on their components (Merge.te_rel), neither a Packed nor an Equal
     Hc1/2   inside one environment, related variables carry THE SAME data (data belongs to the class)
     Hinj1/2 inside one environment, two variables carrying the same type constructor are related
             (what makes the syntactic `seen` set of abi_type_for_impl a set of classes)
   Conclusion (`abi_impl_rel`): started on related variables with related `seen` sets the two traversals return the
   same AbiValue and related `seen` sets, or both fail (errors of the same kind / the same panic site).
   `build_layout_rel`: the same list of values gives the same layout; `slot_rows_rel` is the per-slot form used for
   permuted value lists. *)
From Coq Require Import String Permutation.
From SLX Require Import Base gen.Constants gen.RulesSig TypeExpr Merge AbiT Layout Register Abi.
From SLX.proofs Require Import MergeEquivProofs.
Open Scope N_scope.

Definition err_kind (e : abi_err) : N :=
  match e with
  | EUnificationFailure _ => 0 | EUnificationIncomplete _ => 1 | EInvalidInference _ _ => 2 | EOutOfFuel => 3
  end.

(* not a Packed, not an Equal *)
Definition te_plain (e : te) : bool := match e with Packed _ _ | Equal _ => false | _ => true end.

Definition out_rel {A B} (P : A -> B -> Prop) (r1 : outcome A abi_err) (r2 : outcome B abi_err) : Prop :=
  match r1, r2 with
  | Ok a, Ok b => P a b
  | Err e1, Err e2 => err_kind e1 = err_kind e2
  | Panic p1, Panic p2 => p1 = p2
  | _, _ => False
  end.

Lemma forall2_in_l {A B} (P : A -> B -> Prop) l1 l2 a : Forall2 P l1 l2 -> In a l1 -> exists b, In b l2 /\ P a b.
Proof.
  induction 1 as [|x y l l' Hxy _ IH]; intros Hin; [destruct Hin|].
  destruct Hin as [<-|Hin]; [exists y; split; [left; reflexivity|exact Hxy]|].
  destruct (IH Hin) as (b & Hb & Pb). exists b. split; [right; exact Hb|exact Pb].
Qed.
Lemma forall2_in_r {A B} (P : A -> B -> Prop) l1 l2 b : Forall2 P l1 l2 -> In b l2 -> exists a, In a l1 /\ P a b.
Proof.
  induction 1 as [|x y l l' Hxy _ IH]; intros Hin; [destruct Hin|].
  destruct Hin as [<-|Hin]; [exists x; split; [left; reflexivity|exact Hxy]|].
  destruct (IH Hin) as (a & Ha & Pa). exists a. split; [right; exact Ha|exact Pa].
Qed.

Lemma existsb_te_in e l : existsb (te_eqb e) l = true <-> In e l.
Proof.
  rewrite existsb_exists. split.
  - intros (x & Hx & E). apply te_eqb_eq in E. subst x. exact Hx.
  - intros H. exists e. split; [exact H|apply te_eqb_eq; reflexivity].
Qed.

Section AbiRel.
  Variable nested_add : N -> N -> outcome N unit.
  Variable fit : bool.
  Variables env1 env2 : abi_env.
  Variable R : tyvar -> tyvar -> Prop.
  Hypothesis Rrefl : forall x, R x x.
  Hypothesis Rsym : forall x y, R x y -> R y x.
  Hypothesis Rtrans : forall x y z, R x y -> R y z -> R x z.

  Definition drel (d1 d2 : option (list te)) : Prop :=
    match d1, d2 with
    | None, None => True
    | Some [], Some [] => True
    | Some [t1], Some [t2] => te_rel R t1 t2 /\ te_plain t1 = true /\ te_plain t2 = true
    | _, _ => False
    end.

  Hypothesis Hexp : forall x y, R x y -> has_expr env1 x = has_expr env2 y.
  Hypothesis Hdata : forall x y, R x y -> drel (ty_data env1 x) (ty_data env2 y).
  Hypothesis Hc1 : forall x y, R x y -> ty_data env1 x = ty_data env1 y.
  Hypothesis Hc2 : forall x y, R x y -> ty_data env2 x = ty_data env2 y.
  Hypothesis Hinj1 : forall x y e, ty_data env1 x = Some [e] -> ty_data env1 y = Some [e] ->
    is_type_constructor e = true -> R x y.
  Hypothesis Hinj2 : forall x y e, ty_data env2 x = Some [e] -> ty_data env2 y = Some [e] ->
    is_type_constructor e = true -> R x y.

  (* the two `seen` sets, position by position: not type constructors (never looked at), or the data of related
     variables *)
  Definition seen_pair (e1 e2 : te) : Prop :=
    (is_type_constructor e1 = false /\ is_type_constructor e2 = false) \/
    (exists u1 u2, R u1 u2 /\ ty_data env1 u1 = Some [e1] /\ ty_data env2 u2 = Some [e2]).
  Definition SeenRel (s1 s2 : list te) : Prop := Forall2 seen_pair s1 s2.

  Lemma te_rel_itc e1 e2 : te_rel R e1 e2 -> is_type_constructor e1 = is_type_constructor e2.
  Proof. destruct 1; reflexivity. Qed.

  Lemma seen_hit x y e1 e2 s1 s2 : R x y -> ty_data env1 x = Some [e1] -> ty_data env2 y = Some [e2] ->
    te_rel R e1 e2 -> SeenRel s1 s2 ->
    (existsb (te_eqb e1) s1 && is_type_constructor e1) = (existsb (te_eqb e2) s2 && is_type_constructor e2).
  Proof.
    intros Hxy D1 D2 Hr Hs. rewrite <- (te_rel_itc _ _ Hr).
    destruct (is_type_constructor e1) eqn:Ec; [|rewrite !andb_false_r; reflexivity]. rewrite !andb_true_r.
    pose proof (te_rel_itc _ _ Hr) as Ec2. rewrite Ec in Ec2. symmetry in Ec2.
    apply eq_true_iff_eq. rewrite !existsb_te_in. split; intros Hin.
    - destruct (forall2_in_l _ _ _ _ Hs Hin) as (b & Hb & [[H1 _]|(u1 & u2 & Hu & Du1 & Du2)]); [congruence|].
      assert (Hxu : R x u1) by (eapply Hinj1; eassumption).
      assert (Hyu : R y u2) by (eapply Rtrans; [apply Rsym, Hxy|eapply Rtrans; eassumption]).
      rewrite (Hc2 _ _ Hyu), Du2 in D2. injection D2 as <-. exact Hb.
    - destruct (forall2_in_r _ _ _ _ Hs Hin) as (b & Hb & [[_ H2]|(u1 & u2 & Hu & Du1 & Du2)]); [congruence|].
      assert (Hyu : R y u2) by (eapply Hinj2; eassumption).
      assert (Hxu : R x u1) by (eapply Rtrans; [exact Hxy|eapply Rtrans; [exact Hyu|apply Rsym, Hu]]).
      rewrite (Hc1 _ _ Hxu), Du1 in D1. injection D1 as <-. exact Hb.
  Qed.

  Definition res_rel (r1 r2 : outcome (abi_value * list te) abi_err) : Prop :=
    out_rel (fun a b => fst a = fst b /\ SeenRel (snd a) (snd b)) r1 r2.

  Lemma sub_type_rel rec1 rec2 v1 v2 s1 s2 k1 k2 :
    res_rel (rec1 v1 s1) (rec2 v2 s2) ->
    (forall tp t1 t2, SeenRel t1 t2 -> res_rel (k1 tp t1) (k2 tp t2)) ->
    res_rel (sub_type rec1 v1 s1 k1) (sub_type rec2 v2 s2 k2).
  Proof.
    intros Hr Hk. unfold sub_type.
    destruct (rec1 v1 s1) as [[r1 t1]| |], (rec2 v2 s2) as [[r2 t2]| |]; cbn in Hr; try contradiction; try exact Hr.
    destruct Hr as [E Hs]. cbn [fst snd] in *. subst r2. apply Hk, Hs.
  Qed.

  Lemma seen_cons x y e1 e2 s1 s2 : R x y -> ty_data env1 x = Some [e1] -> ty_data env2 y = Some [e2] ->
    SeenRel s1 s2 ->
    SeenRel (if abi_seen_insert then e1 :: s1 else s1) (if abi_seen_insert then e2 :: s2 else s2).
  Proof.
    intros Hxy D1 D2 Hs. destruct abi_seen_insert; [|exact Hs]. constructor; [|exact Hs].
    right. exists x, y. auto.
  Qed.

  Lemma abi_impl_rel fuel : forall x y s1 s2 parent, R x y -> SeenRel s1 s2 ->
    res_rel (abi_impl nested_add fit env1 fuel x s1 parent) (abi_impl nested_add fit env2 fuel y s2 parent).
  Proof.
    induction fuel as [|f IH]; intros x y s1 s2 parent Hxy Hs; cbn [abi_impl]; [reflexivity|].
    pose proof (Hdata x y Hxy) as Hd. pose proof (Hexp x y Hxy) as He. unfold type_of.
    destruct (ty_data env1 x) as [[|t1 [|t1' l1]]|] eqn:D1, (ty_data env2 y) as [[|t2 [|t2' l2]]|] eqn:D2;
      cbn [drel] in Hd; try contradiction.
    - (* the empty set: Any *)
      cbn [is_type_constructor]. rewrite !andb_false_r. rewrite He.
      destruct (has_expr env2 y); cbn [negb]; [|reflexivity]. split; [reflexivity|].
      cbn [snd]. destruct abi_seen_insert; [|exact Hs]. constructor; [left; split; reflexivity|exact Hs].
    - (* one type each *)
      destruct Hd as (Hr & P1 & P2).
      rewrite (seen_hit x y t1 t2 s1 s2 Hxy D1 D2 Hr Hs).
      destruct (existsb (te_eqb t2) s2 && is_type_constructor t2); [split; [reflexivity|exact Hs]|].
      rewrite He. destruct (has_expr env2 y); cbn [negb]; [|reflexivity].
      pose proof (seen_cons x y t1 t2 s1 s2 Hxy D1 D2 Hs) as Hs'.
      set (n1 := if abi_seen_insert then t1 :: s1 else s1) in *.
      set (n2 := if abi_seen_insert then t2 :: s2 else s2) in *.
      destruct Hr; try discriminate P1.
      + split; [reflexivity|exact Hs'].
      + destruct (word_abi (Word w u) w u); cbn; auto.
      + split; [reflexivity|exact Hs'].
      + apply sub_type_rel; [apply IH; assumption|]. intros tp u1 u2 Hu. split; [reflexivity|exact Hu].
      + apply sub_type_rel; [apply IH; assumption|]. intros ktp u1 u2 Hu.
        apply sub_type_rel; [apply IH; assumption|]. intros vtp w1 w2 Hw. split; [reflexivity|exact Hw].
      + apply sub_type_rel; [apply IH; assumption|]. intros tp u1 u2 Hu. split; [reflexivity|exact Hu].
      + split; [reflexivity|exact Hs'].
    - (* no entry *)
      rewrite He. destruct (has_expr env2 y); reflexivity.
  Qed.

  Lemma abi_type_for_rel fuel x y : R x y ->
    out_rel eq (abi_type_for nested_add fit env1 fuel x) (abi_type_for nested_add fit env2 fuel y).
  Proof.
    intros Hxy. unfold abi_type_for.
    pose proof (abi_impl_rel fuel x y [] [] PNone Hxy (Forall2_nil _)) as H. unfold res_rel in H.
    destruct (abi_impl nested_add fit env1 fuel x [] PNone) as [[r1 t1]| |],
             (abi_impl nested_add fit env2 fuel y [] PNone) as [[r2 t2]| |]; cbn in H |- *; try contradiction; try exact H.
    apply H.
  Qed.

  (* the same values in the same order: the same layout *)
  Lemma build_layout_rel fuel vals : forall layout,
    out_rel eq (build_layout nested_add fit env1 fuel vals layout) (build_layout nested_add fit env2 fuel vals layout).
  Proof.
    induction vals as [|x r IH]; intros layout; cbn [build_layout]; [reflexivity|].
    destruct (const_slot_key x) as [index|]; [|apply IH].
    pose proof (abi_type_for_rel fuel (tv_of x) (tv_of x) (Rrefl _)) as H.
    destruct (abi_type_for nested_add fit env1 fuel (tv_of x)) as [a1| |],
             (abi_type_for nested_add fit env2 fuel (tv_of x)) as [a2| |]; cbn in H; try contradiction; try exact H.
    subst a2. apply IH.
  Qed.
End AbiRel.
