(* C06 / C05 (VM level): storage accesses leave generations, keys are never lost, retired states are kept. *)
From SLX Require Import Base gen.Constants gen.ValueSig gen.OpcodeTable SymVal Micro gen.OpcodeSem Disasm VM.
Open Scope N_scope.

(* ---- equality on values is reflexive ---- *)
Lemma list_eqb_N_refl l : list_eqb N.eqb l l = true.
Proof. apply list_eqb_refl. apply N.eqb_refl. Qed.

Lemma sv_eqb_refl v : sv_eqb v v = true.
Proof.
  induction v as [t a args IH] using sv_ind'. cbn [sv_eqb]. unfold tag_eqb. rewrite N.eqb_refl, list_eqb_N_refl. cbn [andb].
  induction args as [|x r IHr]; [reflexivity|]. inversion IH as [|? ? Hx Hr]; subst. rewrite Hx. cbn [andb]. apply IHr. exact Hr.
Qed.

(* ---- association lists ---- *)
Section Assoc.
  Context {K V : Type} (eqb : K -> K -> bool).
  Lemma alookup_aupdate_same k f (l : list (K * V)) : eqb k k = true -> alookup eqb k (aupdate eqb k f l) <> None.
  Proof.
    intros Hr. induction l as [|[k0 v0] l IH]; cbn.
    - rewrite Hr. discriminate.
    - destruct (eqb k k0) eqn:E; cbn; rewrite E; [discriminate|exact IH].
  Qed.
  Lemma alookup_aupdate_keeps k k' f (l : list (K * V)) :
    alookup eqb k' l <> None -> alookup eqb k' (aupdate eqb k f l) <> None.
  Proof.
    induction l as [|[k0 v0] l IH]; cbn; [congruence|].
    destruct (eqb k k0) eqn:E; cbn; destruct (eqb k' k0); auto; discriminate.
  Qed.
  Lemma alookup_app_keeps k' (l m : list (K * V)) : alookup eqb k' l <> None -> alookup eqb k' (l ++ m) <> None.
  Proof. induction l as [|[k0 v0] l IH]; cbn; [congruence|]. destruct (eqb k' k0); auto. Qed.
  Lemma alookup_app_new k v (l : list (K * V)) : eqb k k = true -> alookup eqb k (l ++ [(k, v)]) <> None.
  Proof. intros Hr. induction l as [|[k0 v0] l IH]; cbn; [rewrite Hr; discriminate|]. destruct (eqb k k0); [discriminate|exact IH]. Qed.
End Assoc.

(* the slot of a key in the storage of a state *)
Definition sto_of (st : vstate) (k : sv) : list (sv * list sv) := if is_known k then sto_known st else sto_sym st.
Definition has_key (st : vstate) (k : sv) : Prop := alookup sv_eqb k (sto_of st k) <> None.
Definition keys_kept (a b : vstate) : Prop := forall k, has_key a k -> has_key b k.

Lemma keys_kept_refl a : keys_kept a a. Proof. intros k H; exact H. Qed.
Lemma keys_kept_trans a b c : keys_kept a b -> keys_kept b c -> keys_kept a c.
Proof. intros H1 H2 k H. auto. Qed.
Lemma keys_kept_same_sto a b : sto_known a = sto_known b -> sto_sym a = sto_sym b -> keys_kept a b.
Proof. intros H1 H2 k. unfold has_key, sto_of. rewrite H1, H2. auto. Qed.

Section Storage.
Variable fold : sv -> sv.

Lemma sto_store_has st k v : has_key (sto_store st k v) k.
Proof.
  unfold has_key, sto_of, sto_store. destruct (is_known k); cbn; apply alookup_aupdate_same; apply sv_eqb_refl.
Qed.
Lemma sto_store_keeps st k v : keys_kept st (sto_store st k v).
Proof.
  intros k' H. unfold has_key, sto_of, sto_store in *.
  destruct (is_known k); destruct (is_known k'); cbn; auto; apply alookup_aupdate_keeps; exact H.
Qed.

Lemma sto_load_has lim next st k : has_key (snd (fst (sto_load lim next st k))) k.
Proof.
  unfold sto_load, has_key, sto_of. destruct (is_known k) eqn:Ek.
  - destruct (alookup sv_eqb k (sto_known st)) eqn:E.
    + destruct (opt_build _ _ _). cbn. congruence.
    + destruct (opt_build lim next _) as [u n1]. destruct (opt_build lim n1 _). cbn.
      apply alookup_app_new. apply sv_eqb_refl.
  - destruct (alookup sv_eqb k (sto_sym st)) eqn:E.
    + destruct (opt_build _ _ _). cbn. congruence.
    + destruct (opt_build lim next _) as [u n1]. destruct (opt_build lim n1 _). cbn.
      apply alookup_app_new. apply sv_eqb_refl.
Qed.
Lemma sto_load_keeps lim next st k : keys_kept st (snd (fst (sto_load lim next st k))).
Proof.
  intros k' H. unfold sto_load, has_key, sto_of in *. destruct (is_known k) eqn:Ek.
  - destruct (alookup sv_eqb k (sto_known st)).
    + destruct (opt_build _ _ _). exact H.
    + destruct (opt_build lim next _) as [u n1]. destruct (opt_build lim n1 _). cbn.
      destruct (is_known k'); [apply alookup_app_keeps; exact H|exact H].
  - destruct (alookup sv_eqb k (sto_sym st)).
    + destruct (opt_build _ _ _). exact H.
    + destruct (opt_build lim next _) as [u n1]. destruct (opt_build lim n1 _). cbn.
      destruct (is_known k'); [exact H|apply alookup_app_keeps; exact H].
Qed.

(* memory operations do not touch storage *)
Lemma mem_store_sto st o v b : sto_known (mem_store fold st o v b) = sto_known st /\ sto_sym (mem_store fold st o v b) = sto_sym st.
Proof. unfold mem_store. destruct (as_word (fold o)); split; reflexivity. Qed.
Lemma mem_get_const_sto st o : sto_known (snd (mem_get_const st o)) = sto_known st /\ sto_sym (snd (mem_get_const st o)) = sto_sym st.
Proof. unfold mem_get_const. destruct (alookup _ _ _); split; reflexivity. Qed.
Lemma mem_get_sym_sto st k : sto_known (snd (mem_get_sym st k)) = sto_known st /\ sto_sym (snd (mem_get_sym st k)) = sto_sym st.
Proof. unfold mem_get_sym. destruct (alookup _ _ _); split; reflexivity. Qed.
Lemma mem_load_sto st o : sto_known (snd (mem_load fold st o)) = sto_known st /\ sto_sym (snd (mem_load fold st o)) = sto_sym st.
Proof. unfold mem_load. destruct (as_word _); [apply mem_get_const_sto|apply mem_get_sym_sto]. Qed.
Lemma load_words_sto n : forall off stop st,
  sto_known (snd (load_words n off stop st)) = sto_known st /\ sto_sym (snd (load_words n off stop st)) = sto_sym st.
Proof.
  induction n as [|n IH]; intros off stop st; cbn [load_words]; [split; reflexivity|].
  destruct (off <? stop); [|split; reflexivity].
  pose proof (mem_get_const_sto st off) as [H1 H2]. destruct (mem_get_const st off) as [v st1]. cbn [snd] in *.
  pose proof (IH (off + 32) stop st1) as [H3 H4]. destruct (load_words n (off + 32) stop st1) as [vs st2]. cbn [snd] in *.
  split; congruence.
Qed.
Lemma mem_load_slice_sto mx st o s :
  sto_known (snd (mem_load_slice fold mx st o s)) = sto_known st /\ sto_sym (snd (mem_load_slice fold mx st o s)) = sto_sym st.
Proof.
  unfold mem_load_slice. destruct (as_word (fold o)); [|apply mem_get_sym_sto].
  destruct (as_word (fold s)); [|apply mem_get_const_sto].
  match goal with |- context [load_words ?n ?a ?b ?c] => pose proof (load_words_sto n a b c) as H; destruct (load_words n a b c) end.
  exact H.
Qed.

Lemma build_exec_st cfg c v : o_st (snd (build_exec cfg c v)) = o_st c.
Proof. unfold build_exec. destruct (build_limited _ _ _). reflexivity. Qed.

Ltac same_sto := apply keys_kept_same_sto; cbn; try reflexivity.

Lemma copy_loop_keeps cfg body : (forall c io, keys_kept (o_st c) (o_st (body c io))) ->
  forall n count off limit c, keys_kept (o_st c) (o_st (fst (copy_loop cfg body n count off limit c))).
Proof.
  intros Hb. induction n as [|n IH]; intros count off limit c; cbn [copy_loop]; [apply keys_kept_refl|].
  destruct (off <? limit); [|apply keys_kept_refl].
  destruct (count mod poll_every cfg =? 0).
  - unfold poll. destruct (match stop_at cfg with Some k => k <=? o_polls c | None => false end); cbn [fst].
    + apply keys_kept_refl.
    + eapply keys_kept_trans; [|apply IH]. apply (Hb (mk_octx (o_env c) (o_st c) (o_id c) (o_kill c) (o_polls c + 1))).
  - eapply keys_kept_trans; [|apply IH]. apply Hb.
Qed.

Lemma store_return_data_keeps cfg c a b : keys_kept (o_st c) (o_st (fst (store_return_data fold cfg c a b))).
Proof.
  unfold store_return_data. destruct (as_word (fold a)).
  - apply copy_loop_keeps. intros c0 io.
    pose proof (build_exec_st cfg c0 (Node T_Add [] [fold b; Known io])) as H1.
    destruct (build_exec cfg c0 (Node T_Add [] [fold b; Known io])) as [dest c1]. cbn [snd] in H1.
    pose proof (build_exec_st cfg c1 (Node T_ReturnData [] [Known io; Known 32])) as H2.
    destruct (build_exec cfg c1 (Node T_ReturnData [] [Known io; Known 32])) as [value c2]. cbn [snd] in H2.
    cbn [ctx_st o_st]. destruct (mem_store_sto (o_st c2) dest value false) as [E1 E2].
    apply keys_kept_same_sto; congruence.
  - pose proof (build_exec_st cfg (ctx_id c (o_id c + 1)) (Val (o_id c))) as H1.
    destruct (build_exec cfg (ctx_id c (o_id c + 1)) (Val (o_id c))) as [rv c1]. cbn [snd fst ctx_st o_st ctx_id] in *.
    destruct (mem_store_sto (o_st c1) b rv false) as [E1 E2]. apply keys_kept_same_sto; congruence.
Qed.

(* no micro-operation ever removes a storage key *)
Lemma run_mop_keeps cfg ie m c : keys_kept (o_st c) (o_st (fst (run_mop fold cfg ie m c))).
Proof.
  destruct m; cbn [run_mop].
  - destruct (stack (o_st c)); cbn; [apply keys_kept_refl|same_sto].
  - pose proof (build_exec_st cfg c (Node t [] (map (env_get c) args))) as H.
    destruct (build_exec cfg c (Node t [] (map (env_get c) args))). cbn in *. rewrite H. apply keys_kept_refl.
  - pose proof (build_exec_st cfg (ctx_id c (o_id c + 1)) (Node T_CallData [o_id c] [env_get c a; env_get c b])) as H.
    destruct (build_exec cfg (ctx_id c (o_id c + 1)) (Node T_CallData [o_id c] [env_get c a; env_get c b])). cbn in *. rewrite H. apply keys_kept_refl.
  - pose proof (build_exec_st cfg c (Known w)) as H. destruct (build_exec cfg c (Known w)). cbn in *. rewrite H. apply keys_kept_refl.
  - pose proof (build_exec_st cfg c (Known (i_ip ie))) as H. destruct (build_exec cfg c (Known (i_ip ie))). cbn in *. rewrite H. apply keys_kept_refl.
  - pose proof (build_exec_st cfg c (Known (i_code_len ie))) as H. destruct (build_exec cfg c (Known (i_code_len ie))). cbn in *. rewrite H. apply keys_kept_refl.
  - pose proof (build_exec_st cfg c (Known (i_self_word ie))) as H. destruct (build_exec cfg c (Known (i_self_word ie))). cbn in *. rewrite H. apply keys_kept_refl.
  - cbn. apply keys_kept_refl.
  - destruct (stack_push (stack (o_st c)) (env_get c x)); cbn; [same_sto|apply keys_kept_refl].
  - cbn. same_sto.
  - cbn. same_sto.
  - cbn. apply keys_kept_refl.
  - pose proof (mem_load_slice_sto (mem_limit cfg) (o_st c) (env_get c a) (env_get c b)) as [E1 E2].
    destruct (mem_load_slice fold (mem_limit cfg) (o_st c) (env_get c a) (env_get c b)). cbn in *. apply keys_kept_same_sto; congruence.
  - pose proof (mem_load_sto (o_st c) (env_get c a)) as [E1 E2].
    destruct (mem_load fold (o_st c) (env_get c a)). cbn in *. apply keys_kept_same_sto; congruence.
  - cbn. destruct (mem_store_sto (o_st c) (env_get c a) (env_get c v) false) as [E1 E2]. apply keys_kept_same_sto; congruence.
  - cbn. destruct (mem_store_sto (o_st c) (env_get c a) (env_get c v) true) as [E1 E2]. apply keys_kept_same_sto; congruence.
  - pose proof (sto_load_keeps (if limited then Some (size_limit cfg) else None) (o_id c) (o_st c) (env_get c k)) as H.
    destruct (sto_load _ _ _ _) as [[v st'] n]. cbn in *. exact H.
  - cbn. apply sto_store_keeps.
  - apply store_return_data_keeps.
  - destruct (N.of_nat (length (stack (o_st c))) <=? _); [apply keys_kept_refl|].
    destruct (stack_push _ _); cbn; [same_sto|apply keys_kept_refl].
  - destruct (stack (o_st c)) as [|top rest]; [apply keys_kept_refl|].
    destruct (N.of_nat (length rest) + 1 <=? i_self_n ie); [apply keys_kept_refl|].
    destruct (i_self_n ie); [apply keys_kept_refl|]. destruct (swap_nth _ _ _) as [[o rest']|]; cbn; [same_sto|apply keys_kept_refl].
Qed.

Lemma run_mops_keeps cfg ie ms : forall c, keys_kept (o_st c) (o_st (fst (run_mops fold cfg ie ms c))).
Proof.
  induction ms as [|m ms IH]; intros c; cbn [run_mops]; [apply keys_kept_refl|].
  pose proof (run_mop_keeps cfg ie m c) as H.
  destruct (run_mop fold cfg ie m c) as [c' e]. cbn in H. destruct e; [exact H|].
  eapply keys_kept_trans; [exact H|apply IH].
Qed.

(* SLOAD k and SSTORE k v leave a generation for k in the thread's state, whatever k is *)
Lemma env_get_set c x v : env_get (env_set c x v) x = v.
Proof. unfold env_get, env_set. cbn. rewrite N.eqb_refl. reflexivity. Qed.
Lemma env_get_set_other c x y v : x <> y -> env_get (env_set c y v) x = env_get c x.
Proof. intros H. unfold env_get, env_set. cbn. replace (x =? y) with false by (symmetry; apply N.eqb_neq; exact H). reflexivity. Qed.

Lemma env_get_ctx_st c st x : env_get (ctx_st c st) x = env_get c x.
Proof. reflexivity. Qed.

Lemma sload_program_leaves_key cfg ie c k s x y lim c' :
  stack (o_st c) = k :: s ->
  run_mops fold cfg ie [MPop x false; MSLoad y x lim; MPush y] c = (c', None) -> has_key (o_st c') k.
Proof.
  intros Hs. cbn [run_mops run_mop]. rewrite Hs. rewrite env_get_set.
  set (c0 := env_set (ctx_st c (with_stack (o_st c) s)) x k).
  pose proof (sto_load_has (if lim then Some (size_limit cfg) else None) (o_id c0) (o_st c0) k) as H.
  destruct (sto_load _ _ _ _) as [[v st'] n]. cbn [fst snd] in H.
  rewrite env_get_set. cbn [ctx_id ctx_st env_set o_st]. destruct (stack_push _ _); [|discriminate].
  intros [= <-]. cbn. exact H.
Qed.

Lemma sstore_program_leaves_key cfg ie c k v s x y c' :
  x <> y -> stack (o_st c) = k :: v :: s ->
  run_mops fold cfg ie [MPop x false; MPop y false; MSStore x y] c = (c', None) -> has_key (o_st c') k.
Proof.
  intros Hxy Hs. cbn [run_mops run_mop]. rewrite Hs. cbn [env_set ctx_st o_st with_stack stack].
  intros [= <-]. cbn [ctx_st o_st]. rewrite (env_get_set_other _ x y) by exact Hxy.
  rewrite env_get_ctx_st, !env_get_set. apply sto_store_has.
Qed.

(* the translated bodies of SLOAD and SSTORE have exactly these shapes on this run *)
Lemma sload_sstore_shapes :
  (exists lim, op_sem memory_SLoad = Some [MPop 0 false; MSLoad 1 0 lim; MPush 1]) /\
  op_sem memory_SStore = Some [MPop 0 false; MPop 1 false; MSStore 0 1].
Proof. split; [eexists|]; reflexivity. Qed.

(* a retired thread's state is stored as it is; a forked thread starts from a copy of its parent's state *)
Lemma advance_stores m t rest forked :
  v_stored (advance m t rest forked) = v_stored m \/ v_stored (advance m t rest forked) = v_stored m ++ [(tstate t, tvis t)].
Proof. unfold advance. destruct (_ || _ || _); cbn; auto. Qed.

Lemma advance_queue m t rest forked :
  v_queue (advance m t rest forked) = rest ++ forked \/
  exists t', v_queue (advance m t rest forked) = t' :: rest ++ forked /\ tstate t' = tstate t /\ tpath t' = tpath t.
Proof. unfold advance. destruct (_ || _ || _); cbn; [left; reflexivity|right; eexists; repeat split]. Qed.

End Storage.
