(* `TypeChecker::{abi_type_for, abi_type_for_impl, type_of}`, `AbiValue::expect_type`, `ParentType` and the
   layout-building half of `TypeChecker::unify` (src/tc/mod.rs).

   Input: what unification left behind -- for every type variable the inference set of its class
   (`forest.get_data`; `None` = the forest has no data for the variable) and whether the state has an expression
   for it (`state.value(var)`, `unwrap`ped for the error location).  `unification::unify` itself is modelled
   elsewhere.

   `abi_type_for_impl` recurses through the classes with a set `seen` of type EXPRESSIONS (not variables): a type
   constructor that was already seen anywhere earlier in the traversal (the set is never popped) is reported as
   `InfiniteType`.  The recursion is not structural; it is modelled with fuel and an out-of-fuel error that no
   Rust run produces (`EOutOfFuel`); proofs/AbiProofs.v shows `number of classes + 1` is always enough.

   Reported types are the generic tree of AbiT.v in the shape harness `abi_term` prints.  The nested-offset sum
   is the generated term `abi_nested_add` (checked for the text `ofs + offset`, saturating for
   `ofs.saturating_add(offset)`); `abi_impl` takes it as a parameter so that both can be talked about.  Likewise the
   guard on flattening a nested packed encoding (`abi_nested_fit`: repaired = every nested element must stay inside
   the word its span starts in, pinned = no guard) is a parameter `fit` of `packed_loop` / `abi_impl`. *)
From Coq Require Import String.
From SLX Require Import Base Word256 gen.Constants gen.ValueSig gen.WordUseTable gen.RulesSig SymVal TypeExpr AbiT Layout Register.
Open Scope string_scope.
Open Scope list_scope.
Open Scope N_scope.

Inductive abi_err :=
| EUnificationFailure (v : tyvar)
| EUnificationIncomplete (v : tyvar)
| EInvalidInference (e : te) (what : N)      (* 0 Bool, 1 Address, 2 Selector, 3 Function, 4 Equal *)
| EOutOfFuel.

Inductive parent_type := PPacked | POther | PNone.
Definition parent_eqb (a b : parent_type) : bool :=
  match a, b with PPacked, PPacked | POther, POther | PNone, PNone => true | _, _ => false end.

Inductive abi_value := AType (t : aty) | APacked (l : list (aty * N)).

Record abi_env := mk_env {
  ty_data : tyvar -> option (list te);
  has_expr : tyvar -> bool
}.

Definition SITE_TYPE_OF_VALUE : N := 9201.    (* type_of: self.state.value_unchecked(tv) for the error location *)
Definition SITE_ABI_VALUE : N := 9202.        (* abi_type_for_impl: self.state.value(var).unwrap() *)

(* ---- AbiType constructors in the printed shape ---- *)
Definition optn (o : option N) : list N := match o with None => [0] | Some n => [1; n] end.
Definition a_any := AT "Any" [] [].
Definition a_infinite := AT "InfiniteType" [] [].
Definition a_conflict := AT "ConflictedType" [] [].
Definition a_dynbytes := AT "DynBytes" [] [].
Definition a_bytes (l : option N) := AT "Bytes" (optn l) [].
Definition a_struct (els : list (aty * N)) := AT "Struct" (map snd els) (map fst els).

(* expression.rs is_type_constructor *)
Definition is_type_constructor (e : te) : bool :=
  match e with
  | Any | Word _ _ | Conflict _ _ | Bytes => false
  | FixedArray _ _ | Mapping _ _ | DynamicArray _ | Equal _ | Packed _ _ => true
  end.

(* type_of *)
Definition type_of (env : abi_env) (v : tyvar) : outcome te abi_err :=
  match ty_data env v with
  | None => if has_expr env v then Err (EUnificationFailure v) else Panic SITE_TYPE_OF_VALUE
  | Some [] => Ok Any
  | Some [e] => Ok e
  | Some _ => if has_expr env v then Err (EUnificationIncomplete v) else Panic SITE_TYPE_OF_VALUE
  end.

(* the Word arm *)
Definition word_abi (e : te) (width : option N) (usage : wuse) : outcome aty abi_err :=
  let sized (name : string) (what : N) :=
    if optN_eqb width (wuse_size usage) then Ok (AT name [] []) else Err (EInvalidInference e what) in
  match usage with
  | UBytes => match width with
              | Some w => if w mod BYTE_SIZE_BITS =? 0 then Ok (a_bytes (Some (w / BYTE_SIZE_BITS)))
                          else Ok (AT "Bits" (optn (Some w)) [])
              | None => Ok (a_bytes None)
              end
  | UNumeric => Ok (AT "Number" (optn width) [])
  | UUnsignedNumeric => Ok (AT "UInt" (optn width) [])
  | USignedNumeric => Ok (AT "Int" (optn width) [])
  | UBool => sized "Bool" 0%N
  | UAddress => sized "Address" 1%N
  | USelector => sized "Selector" 2%N
  | UFunction => sized "Function" 3%N
  end.

(* AbiValue::expect_type *)
Definition expect_type (a : abi_value) : aty :=
  match a with
  | AType t => t
  | APacked tps =>
      match tps with
      | (_, off) :: _ => if off =? 0 then a_struct tps
                         else a_struct ((a_bytes (Some (off / BYTE_SIZE_BITS)), 0%N) :: tps)
      | [] => a_struct tps
      end
  end.

(* what a `Packed` class turns into once its spans are resolved *)
Definition packed_result (parent : parent_type) (is_struct : bool) (pairs : list (aty * N)) : abi_value :=
  if parent_eqb parent PPacked then APacked pairs
  else match pairs with
       | [] => AType a_any
       | [(typ, offset)] =>
           if offset =? 0 then AType typ
           else APacked [(a_bytes (Some (offset / BYTE_SIZE_BITS)), 0%N); (typ, offset)]
       | _ => if is_struct then AType (a_struct pairs) else APacked pairs
       end.

(* pairs.extend(xs.into_iter().map(|(ty, ofs)| (ty, ofs + offset))) with the generated sum *)
Fixpoint shift_pairs (nested_add : N -> N -> outcome N unit) (offset : N) (xs : list (aty * N))
  : outcome (list (aty * N)) abi_err :=
  match xs with
  | [] => Ok []
  | (ty, ofs) :: xs' =>
      match nested_add ofs offset with
      | Ok o => match shift_pairs nested_add offset xs' with
                | Ok r => Ok ((ty, o) :: r)
                | Err e => Err e
                | Panic p => Panic p
                end
      | Err _ => Err EOutOfFuel      (* the generated sums never return Err *)
      | Panic p => Panic p
      end
  end.

(* AbiType::bit_width (src/tc/abi.rs), driven by the table of arms read from the source (gen/RulesSig.v
   `bit_width_table`): the declared size/length field, 8 * length (saturating) for Bytes, a constant, else None *)
Fixpoint bw_lookup (l : list (string * bw_kind)) (name : string) : option bw_kind :=
  match l with
  | [] => None
  | (n, k) :: r => if String.eqb name n then Some k else bw_lookup r name
  end.

Definition bit_width (a : aty) : option N :=
  match a with
  | AT name nums _ =>
      match bw_lookup bit_width_table name with
      | Some BwField => opt_num nums
      | Some BwBytes => option_map (fun l => usize_sat_mul l BYTE_SIZE_BITS) (opt_num nums)
      | Some (BwConst n) => Some n
      | None => None
      end
  end.

(* the test applied to every element (ty, ofs) of a nested encoding, for a span starting at bit `start_in_word` of
   its word:  let start = start_in_word.saturating_add(ofs);
              start < WORD_SIZE_BITS && ty.bit_width().map_or(true, |w| start.saturating_add(w) <= WORD_SIZE_BITS) *)
Definition pair_fits (start_in_word : N) (p : aty * N) : bool :=
  let start := usize_sat_add start_in_word (snd p) in
  (start <? WORD_SIZE_BITS) &&
  match bit_width (fst p) with None => true | Some w => usize_sat_add start w <=? WORD_SIZE_BITS end.

(* the loop over the spans of a Packed class; `rec v seen` resolves the class of a span's type with
   ParentType::Packed.  `fit` = the generated anchor `abi_nested_fit`: true for the repaired text (a nested
   encoding is flattened only if all its elements stay inside the word the span starts in, otherwise the span
   contributes the single pair (Any, offset)); false for the pinned text (always flattened). *)
Fixpoint packed_loop (nested_add : N -> N -> outcome N unit) (fit : bool)
    (rec : tyvar -> list te -> outcome (abi_value * list te) abi_err)
    (l : list span) (sn : list te) (pairs : list (aty * N)) : outcome (list (aty * N) * list te) abi_err :=
  match l with
  | [] => Ok (pairs, sn)
  | s :: l' =>
      match rec (s_typ s) sn with
      | Err x => Err x
      | Panic p => Panic p
      | Ok (APacked xs, sn') =>
          if negb fit || forallb (pair_fits (s_off s mod WORD_SIZE_BITS)) xs then
            match shift_pairs nested_add (s_off s) xs with
            | Ok sh => packed_loop nested_add fit rec l' sn' (pairs ++ sh)
            | Err x => Err x
            | Panic p => Panic p
            end
          else packed_loop nested_add fit rec l' sn' (pairs ++ [(a_any, s_off s)])
      | Ok (AType ty, sn') => packed_loop nested_add fit rec l' sn' (pairs ++ [(ty, s_off s)])
      end
  end.

Section AbiImpl.
  Variable nested_add : N -> N -> outcome N unit.
  Variable fit : bool.
  Variable env : abi_env.

  (* a component type: the recursive call with ParentType::Other, then expect_type *)
  Definition sub_type (rec : tyvar -> list te -> outcome (abi_value * list te) abi_err) (v : tyvar) (sn : list te)
      (k : aty -> list te -> outcome (abi_value * list te) abi_err) : outcome (abi_value * list te) abi_err :=
    match rec v sn with
    | Ok (r, sn') => k (expect_type r) sn'
    | Err x => Err x
    | Panic s => Panic s
    end.

  (* the result and the grown `seen` set *)
  Fixpoint abi_impl (fuel : nat) (var : tyvar) (seen : list te) (parent : parent_type)
    : outcome (abi_value * list te) abi_err :=
    match fuel with
    | O => Err EOutOfFuel
    | S f =>
        match type_of env var with
        | Err e => Err e
        | Panic s => Panic s
        | Ok e =>
            if existsb (te_eqb e) seen && is_type_constructor e then Ok (AType a_infinite, seen)
            else
              let seen := if abi_seen_insert then e :: seen else seen in
              if negb (has_expr env var) then Panic SITE_ABI_VALUE
              else
                let other := fun v sn => abi_impl f v sn POther in
                match e with
                | Any => Ok (AType a_any, seen)
                | Word width usage =>
                    match word_abi e width usage with
                    | Ok t => Ok (AType t, seen)
                    | Err x => Err x
                    | Panic s => Panic s
                    end
                | Bytes => Ok (AType a_dynbytes, seen)
                | FixedArray element length =>
                    sub_type other element seen (fun tp sn => Ok (AType (AT "Array" [length] [tp]), sn))
                | Mapping key value =>
                    sub_type other key seen (fun ktp sn1 =>
                    sub_type other value sn1 (fun vtp sn2 => Ok (AType (AT "Mapping" [] [ktp; vtp]), sn2)))
                | DynamicArray element =>
                    sub_type other element seen (fun tp sn => Ok (AType (AT "DynArray" [] [tp]), sn))
                | Packed types is_struct =>
                    match packed_loop nested_add fit (fun v sn => abi_impl f v sn PPacked) types seen [] with
                    | Ok (pairs, sn) => Ok (packed_result parent is_struct pairs, sn)
                    | Err x => Err x
                    | Panic p => Panic p
                    end
                | Equal id => Err (EInvalidInference (Equal id) 4%N)
                | Conflict _ _ => Ok (AType a_conflict, seen)
                end
        end
    end.

  Definition abi_type_for (fuel : nat) (var : tyvar) : outcome abi_value abi_err :=
    match abi_impl fuel var [] PNone with
    | Ok (r, _) => Ok r
    | Err e => Err e
    | Panic s => Panic s
    end.

  (* ---- the layout-building loop of TypeChecker::unify (after unification::unify) ---- *)
  Definition const_slot_key (x : tsv) : option N :=
    match x with
    | TN _ T_StorageSlot _ [TN _ T_KnownData [w] _] => Some w
    | _ => None
    end.

  Definition rows_of (index : N) (a : abi_value) : list entry :=
    match a with
    | AType t => [(index, 0%N, t)]
    | APacked tps => map (fun p : aty * N => (index, snd p, fst p)) tps
    end.

  Fixpoint build_layout (fuel : nat) (vals : list tsv) (layout : list entry) : outcome (list entry) abi_err :=
    match vals with
    | [] => Ok layout
    | x :: r =>
        match const_slot_key x with
        | None => build_layout fuel r layout
        | Some index =>
            match abi_type_for fuel (tv_of x) with
            | Ok a => build_layout fuel r (fold_left layout_add (rows_of index a) layout)
            | Err e => Err e
            | Panic s => Panic s
            end
        end
    end.
End AbiImpl.

(* ---- an executable environment: the inference set of every class member, and the expression table ---- *)
Fixpoint assoc_tv {A} (l : list (tyvar * A)) (v : tyvar) : option A :=
  match l with
  | [] => None
  | (w, a) :: r => if w =? v then Some a else assoc_tv r v
  end.

Definition env_of (data : list (tyvar * list te)) (expr_vars : list tyvar) : abi_env :=
  mk_env (assoc_tv data) (fun v => existsb (N.eqb v) expr_vars).

(* fuel that always suffices: one more than the number of classes with data *)
Definition abi_fuel (data : list (tyvar * list te)) : nat := S (length data).

(* the state after trivial unification: every variable is its own class and keeps its inference set *)
Definition env_of_state (st : tcs) : abi_env := env_of (infs st) (map fst (exprs st)).

Definition layout_of_state (st : tcs) : outcome (list entry) abi_err :=
  build_layout abi_nested_add abi_nested_fit (env_of_state st) (abi_fuel (infs st)) (values st) [].

(* the pinned variant (before the nested-encoding repair): nested encodings are always flattened *)
Definition layout_of_state_pinned (st : tcs) : outcome (list entry) abi_err :=
  build_layout abi_nested_add false (env_of_state st) (abi_fuel (infs st)) (values st) [].

(* ---- the span discipline under which reported offsets stay inside the slot (C12) ----
   Over an explicit class table `cls` (variable -> resolved type expression).  `wd_min v` is the least width a
   class can be given: the largest span end of a Packed class, the width of a sized word.  The discipline
   (`wd_hyp`) asks, for every class that is reachable from the queried variable through Packed spans: spans are
   not empty and the class of a span's type fits into the span (`wd_min (typ) <= size`); and the queried class
   itself fits into the 256-bit slot.  `known_nested_spans` is the recorded class of finding C12:K-nested:
   every individual span (and sized word) of the reachable classes ends inside the slot, yet the discipline
   fails -- a narrow span whose type was equated with a wider class. *)
Definition te_min_width (e : te) : N :=
  match e with
  | Packed ts _ => fold_right (fun s m => N.max (s_off s + s_sz s) m) 0 ts
  | Word (Some w) _ => w
  | _ => 0
  end.

Definition wd_min (cls : list (tyvar * te)) (v : tyvar) : N :=
  match assoc_tv cls v with Some e => te_min_width e | None => 0 end.

Definition class_spans (cls : list (tyvar * te)) (v : tyvar) : list span :=
  match assoc_tv cls v with Some (Packed ts _) => ts | _ => [] end.

(* the variables reachable from v0 through Packed spans (v0 included) *)
Fixpoint packed_reach_from (cls : list (tyvar * te)) (fuel : nat) (todo : list tyvar) (acc : list tyvar) : list tyvar :=
  match fuel with
  | O => acc
  | S f =>
      match todo with
      | [] => acc
      | v :: r => if existsb (N.eqb v) acc then packed_reach_from cls f r acc
                  else packed_reach_from cls f (map s_typ (class_spans cls v) ++ r) (v :: acc)
      end
  end.
Definition total_spans (cls : list (tyvar * te)) : nat :=
  fold_right (fun p n => (match snd p with Packed ts _ => length ts | _ => O end + n)%nat) O cls.
Definition packed_reach (cls : list (tyvar * te)) (v0 : tyvar) : list tyvar :=
  packed_reach_from cls (S (S (length cls + total_spans cls))) [v0] [].

Definition spans_fit (cls : list (tyvar * te)) (v : tyvar) : bool :=
  forallb (fun s => (0 <? s_sz s) && (wd_min cls (s_typ s) <=? s_sz s)) (class_spans cls v).

(* R contains v0 and is closed under "type of a span of a class in R" (checked, so that nothing rests on the
   search above being complete) *)
Definition reach_closed (cls : list (tyvar * te)) (R : list tyvar) (v0 : tyvar) : bool :=
  existsb (N.eqb v0) R &&
  forallb (fun v => forallb (fun s => existsb (N.eqb (s_typ s)) R) (class_spans cls v)) R.

Definition wd_hyp (cls : list (tyvar * te)) (v0 : tyvar) : bool :=
  reach_closed cls (packed_reach cls v0) v0 &&
  (wd_min cls v0 <=? WORD_SIZE_BITS) && forallb (spans_fit cls) (packed_reach cls v0).

Definition single_spans_ok (cls : list (tyvar * te)) (v0 : tyvar) : bool :=
  forallb (fun v => (wd_min cls v <=? WORD_SIZE_BITS) && forallb (fun s => 0 <? s_sz s) (class_spans cls v))
          (packed_reach cls v0).

Definition known_nested_spans (cls : list (tyvar * te)) (v0 : tyvar) : bool :=
  single_spans_ok cls v0 && negb (wd_hyp cls v0).
