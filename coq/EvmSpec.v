(* Yellow-Paper semantics (Appendix H.2) of the arithmetic, comparison and bitwise instructions,
   as functions on words n < 2^256.  Written from the Yellow Paper, INDEPENDENTLY of
   src/vm/value/known.rs: nothing here mentions the implementation, ethnum, or the fold table.
   Operand names follow the stack: `spec_o a b` has a = mu_s[0] (top of stack), b = mu_s[1].

   This file is the oracle of C09 (and C07).  The definitions favour the mathematical
   formula of the paper; four of them (EXP, SHL, SHR, SAR) use an unbounded power and are not
   meant to be executed on large operands -- `xspec_*` at the end are executable versions
   (proofs/EvmSpecProofs.v proves them equal on words). *)
From SLX Require Import Base Word256.
Open Scope N_scope.

(* signed reading of a word and the word of a signed number (two's complement, YP section H.2
   "all arithmetic is modulo 2^256", signed values "are treated as two's complement") *)
Definition sgn256 (x : N) : Z := if x <? 2 ^ 255 then Z.of_N x else (Z.of_N x - 2 ^ 256)%Z.
Definition word_of_Z (z : Z) : N := Z.to_N (z mod 2 ^ 256).
Definition bit (b : bool) : N := if b then 1 else 0.

(* 0x01 ADD   mu'_s[0] = mu_s[0] + mu_s[1] *)
Definition spec_add (a b : N) : N := (a + b) mod 2 ^ 256.
(* 0x02 MUL *)
Definition spec_mul (a b : N) : N := (a * b) mod 2 ^ 256.
(* 0x03 SUB   mu_s[0] - mu_s[1] *)
Definition spec_sub (a b : N) : N := word_of_Z (Z.of_N a - Z.of_N b).
(* 0x04 DIV   0 if mu_s[1] = 0, floor(mu_s[0] / mu_s[1]) otherwise *)
Definition spec_div (a b : N) : N := if b =? 0 then 0 else a / b.
(* 0x05 SDIV  0 if mu_s[1] = 0; -2^255 if mu_s[0] = -2^255 and mu_s[1] = -1;
              sgn(mu_s[0] / mu_s[1]) * floor(|mu_s[0] / mu_s[1]|) otherwise (signed operands) *)
Definition spec_sdiv (a b : N) : N :=
  let sa := sgn256 a in
  let sb := sgn256 b in
  if (sb =? 0)%Z then 0
  else if ((sa =? - 2 ^ 255) && (sb =? -1))%Z then word_of_Z (- 2 ^ 255)
  else word_of_Z (Z.sgn sa * Z.sgn sb * (Z.abs sa / Z.abs sb)).
(* 0x06 MOD   0 if mu_s[1] = 0, mu_s[0] mod mu_s[1] otherwise *)
Definition spec_mod (a b : N) : N := if b =? 0 then 0 else a mod b.
(* 0x07 SMOD  0 if mu_s[1] = 0, sgn(mu_s[0]) * (|mu_s[0]| mod |mu_s[1]|) otherwise *)
Definition spec_smod (a b : N) : N :=
  let sa := sgn256 a in
  let sb := sgn256 b in
  if (sb =? 0)%Z then 0
  else word_of_Z (Z.sgn sa * (Z.abs sa mod Z.abs sb)).
(* 0x08 ADDMOD  0 if mu_s[2] = 0, (mu_s[0] + mu_s[1]) mod mu_s[2] otherwise -- the intermediate sum is not reduced mod 2^256 *)
Definition spec_addmod (a b m : N) : N := if m =? 0 then 0 else (a + b) mod m.
(* 0x09 MULMOD *)
Definition spec_mulmod (a b m : N) : N := if m =? 0 then 0 else (a * b) mod m.
(* 0x0a EXP   mu_s[0] ^ mu_s[1] (mod 2^256), exponent of any size *)
Definition spec_exp (a b : N) : N := (a ^ b) mod 2 ^ 256.
(* 0x0b SIGNEXTEND  mu_s[0] = index b of the byte holding the sign (0 = least significant byte),
   mu_s[1] = x; bits above bit t = 8 b + 7 become copies of bit t; b >= 31 leaves x unchanged *)
Definition spec_signextend (b x : N) : N :=
  if b <? 31 then
    let t := 8 * b + 7 in
    let low := x mod 2 ^ (t + 1) in
    if N.testbit x t then low + (2 ^ 256 - 2 ^ (t + 1)) else low
  else x.
(* 0x10 LT, 0x11 GT (unsigned), 0x12 SLT, 0x13 SGT (signed), 0x14 EQ, 0x15 ISZERO *)
Definition spec_lt (a b : N) : N := bit (a <? b).
Definition spec_gt (a b : N) : N := bit (b <? a).
Definition spec_slt (a b : N) : N := bit (sgn256 a <? sgn256 b)%Z.
Definition spec_sgt (a b : N) : N := bit (sgn256 b <? sgn256 a)%Z.
Definition spec_eq (a b : N) : N := bit (a =? b).
Definition spec_iszero (a : N) : N := bit (a =? 0).
(* 0x16 AND, 0x17 OR, 0x18 XOR: bit by bit; 0x19 NOT: mu'_s[0]_i = 1 - mu_s[0]_i for the 256 bits *)
Definition spec_and (a b : N) : N := N.land a b.
Definition spec_or (a b : N) : N := N.lor a b.
Definition spec_xor (a b : N) : N := N.lxor a b.
Definition spec_not (a : N) : N := 2 ^ 256 - 1 - a.
(* 0x1a BYTE  mu_s[0] = i, mu_s[1] = x: the i-th byte counting from the most significant; 0 for i >= 32 *)
Definition spec_byte (i x : N) : N := if i <? 32 then (x / 2 ^ (8 * (31 - i))) mod 256 else 0.
(* 0x1b SHL   mu_s[0] = shift, mu_s[1] = value: (value * 2^shift) mod 2^256
   0x1c SHR   floor(value / 2^shift)
   0x1d SAR   floor(signed value / 2^shift), as a word -- any shift amount, no special cases needed *)
Definition spec_shl (s v : N) : N := (v * 2 ^ s) mod 2 ^ 256.
Definition spec_shr (s v : N) : N := v / 2 ^ s.
Definition spec_sar (s v : N) : N := word_of_Z (sgn256 v / 2 ^ Z.of_N s).

(* ---- executable versions for evaluating the oracle on concrete 256-bit operands ---- *)

(* the low 256 bits, as a mask (linear time; = n mod 2^256) *)
Definition low256 (n : N) : N := N.land n (N.ones 256).
(* left-to-right (most significant bit first) modular exponentiation *)
Fixpoint powmod_pos (a : N) (e : positive) : N :=
  match e with
  | xH => low256 a
  | xO e' => let h := powmod_pos a e' in low256 (h * h)
  | xI e' => let h := powmod_pos a e' in low256 (a * low256 (h * h))
  end.
Definition xspec_exp (a b : N) : N := match b with N0 => 1 | Npos e => powmod_pos a e end.
Definition xspec_shl (s v : N) : N := if 256 <=? s then 0 else (v * 2 ^ s) mod 2 ^ 256.
Definition xspec_shr (s v : N) : N := if 256 <=? s then 0 else v / 2 ^ s.
Definition xspec_sar (s v : N) : N :=
  if 256 <=? s then (if v <? 2 ^ 255 then 0 else 2 ^ 256 - 1)
  else word_of_Z (sgn256 v / 2 ^ Z.of_N s).
