(* Correspondence + property evaluation for the `unify` suite: each case carries the inference sets the real
   `unification::unify` started from and what it left behind (harness/src/cmd_unify.rs).  Depends on the
   models only (not on the proofs), so the search still runs when a proof obligation is broken. *)
From Coq Require Import String.
From SLX Require Import Base VectorMap DisjointSet gen.Constants gen.WordUseTable TypeExpr Merge MergeCases Unify UnifyOrder.
Open Scope N_scope.

Inductive omode := OSorted | OSortedRev | OSeeded (seed : N) | OOther.

Inductive uout :=
| UOk (next polls : N) (rows : list (N * N * list xte))   (* counter, class visits; member, its root, its class's inference set *)
| UBudget (polls : N)                                (* abandoned after that many watchdog polls *)
| UPanic (msg : string)
| UStageErr (stage : string).                        (* program input: a stage before unification failed *)

Inductive ucase :=
| UCase (m : omode) (n0 : N) (inf : list (N * list xte)) (out : uout) (text : string)
| UDebug (l : list (xte * string)).

(* what a generator knows about the intended typing of some variables (C15-style sets):
   (v, 0) the class of v must not be a conflict; (v, 1) it must be one *)
Definition expectation := list (N * N).

Definition rounds_fuel : nat := 64.
(* a run the implementation abandoned: the model must still be making progress after this many rounds *)
Definition budget_rounds : nat := 10.
Definition k2_rounds : nat := 10.
Definition heavy_limit : N := 1000.

Definition state_of (n0 : N) (inf : list (N * list xte)) : tstate :=
  mk_tstate (map (fun p => (fst p, map conv (snd p))) inf) n0.

Definition orders_of (m : omode) : option orders :=
  match m with
  | OSorted => Some orders_sorted | OSortedRev => Some orders_sorted_rev | OSeeded n => Some (orders_seeded n)
  | OOther => None
  end.

(* ---- sets of expressions, model against printed ---- *)
Definition set_matches (xs : list xte) (d : iset) : bool :=
  Nat.eqb (length xs) (length d)
  && forallb (fun x => existsb (xte_matches x) d) xs
  && forallb (fun t => existsb (fun x => xte_matches x t) xs) d.

(* the implementation prints a class's inference set in the row of the root only *)
Definition row_matches (x : N * N * list xte) (m : tyvar * tyvar * iset) : bool :=
  (fst (fst x) =? fst (fst m)) && (snd (fst x) =? snd (fst m))
  && (if fst (fst m) =? snd (fst m) then set_matches (snd x) (snd m) else true).

(* 0 same; 1 model fails where the implementation returned; 2 model still running after `rounds_fuel`
   rounds; 3 members differ; 4 a root or an inference set differs; 5 fresh-variable counter differs;
   6 implementation panicked, model did not; 7 implementation over budget, model terminated;
   8 Debug text differs *)
Definition corr_code (o : orders) (st : tstate) (out : uout) : N :=
  match out with
  | UBudget _ => match unify budget_rounds o st with Err URounds => 0 | _ => 7 end
  | _ =>
  match out, unify rounds_fuel o st with
  | UOk nx _ rows, Ok (s, n) =>
      match observe s with
      | Ok mrows =>
          if negb (Nat.eqb (length rows) (length mrows)) then 3
          else if negb (list_match row_matches rows mrows) then
                 (if list_eqb N.eqb (map (fun r => fst (fst r)) rows) (map (fun r => fst (fst r)) mrows) then 4 else 3)
          else if negb (nx =? n) then 5 else 0
      | _ => 1
      end
  | UOk _ _ _, Err URounds => 2
  | UOk _ _ _, _ => 1
  | UPanic _, Panic _ => 0
  | UPanic _, _ => 6
  | UBudget _, _ => 0
  | UStageErr _, _ => 0
  end
  end.

(* ---- the property, evaluated on what the implementation printed ---- *)
Definition root_in (rows : list (N * N * list xte)) (v : N) : option N :=
  option_map (fun r => snd (fst r)) (find (fun r => fst (fst r) =? v) rows).
(* a value the forest never met is a class of its own *)
Definition same_root (rows : list (N * N * list xte)) (a b : N) : bool :=
  (a =? b) ||
  match root_in rows a, root_in rows b with
  | Some x, Some y => x =? y
  | _, _ => false
  end.

Definition is_xequal (x : xte) : bool := match x with XEqual _ => true | _ => false end.

(* every piece of non-equality evidence given for members of the class with this root *)
Definition class_evidence (rows : list (N * N * list xte)) (inf : list (N * list xte)) (root : N) : list te :=
  flat_map (fun p => match root_in rows (fst p) with
                     | Some r => if r =? root then map conv (filter (fun x => negb (is_xequal x)) (snd p)) else []
                     | None => []
                     end) inf.

(* 13: the class resolved to a constructed type but a component of some constructed evidence of the
   same kind is not in the class of the resolved type's component *)
Definition components_ok (rows : list (N * N * list xte)) (resolved : te) (ev : list te) : bool :=
  forallb (fun e =>
             match resolved, e with
             | Mapping k v, Mapping k' v' => same_root rows k k' && same_root rows v v'
             | FixedArray x l, FixedArray x' l' => negb (l =? l') || same_root rows x x'
             | DynamicArray x, DynamicArray x' => same_root rows x x'
             | _, _ => true
             end) ev.

(* 51 (known, K1): a class that resolved to dynamic bytes although it holds two dynamic arrays whose
   elements were never unified -- whether they meet depends on the order of the fold *)
Definition bytes_hides_arrays (rows : list (N * N * list xte)) (resolved : te) (ev : list te) : bool :=
  match resolved with
  | Bytes =>
      let els := flat_map (fun e => match e with DynamicArray x => [x] | _ => [] end) ev in
      match els with
      | [] => false
      | x :: r => negb (forallb (same_root rows x) r)
      end
  | _ => false
  end.

(* C15 at the level of unification: a class whose evidence is words / Any only (in a judgement set
   without packed encodings, so that no evidence arrives from other classes) resolves to the lattice
   join of ALL of it; a conflict exactly when the join is the top element *)
Definition words_join_ok (resolved : option te) (ev : list te) : bool :=
  if negb (forallb (fun t => is_word t || is_any t) ev) then true else
  match flat_map (fun t => match t with Word w u => [(w, u)] | _ => [] end) ev with
  | [] => match resolved with None | Some Any => true | _ => false end
  | x :: fam =>
      match resolved, wordev_join_all_s x fam with
      | Some e, Some j => te_eqb e (word_of j)
      | Some e, None => is_conflict e
      | None, _ => false
      end
  end.

Definition prop_rows (inf : list (N * list xte)) (pf : bool) (rows : list (N * N * list xte)) : N :=
  (* 10: a class with more than one expression; 11: an equality left behind *)
  if existsb (fun r => Nat.ltb 1 (length (snd r))) rows then 10
  else if existsb (fun r => existsb (fun x => is_equal (conv x)) (snd r)) rows then 11
  (* 12: variables declared equal end in different classes *)
  else if existsb (fun p => existsb (fun x => match x with XEqual j => negb (same_root rows (fst p) j) | _ => false end)
                              (snd p)) inf then 12
  else
    let per_class (r : N * N * list xte) : N :=
      let root := snd (fst r) in
      let ev := class_evidence rows inf root in
      let resolved := match snd r with [x] => Some (conv x) | _ => None end in
      match resolved with
      | Some t =>
          if negb (components_ok rows t ev) then 13
          else if pf && negb (words_join_ok resolved ev) then 20
          else if bytes_hides_arrays rows t ev then 51
          else 0
      | None => if pf && negb (words_join_ok None ev) then 20 else 0
      end in
    match filter (fun c => negb (c =? 0)) (map per_class (filter (fun r => fst (fst r) =? snd (fst r)) rows)) with
    | [] => 0
    | c :: rest => if existsb (fun d => d <? 50) (c :: rest) then
                     match filter (fun d => d <? 50) (c :: rest) with d :: _ => d | [] => c end
                   else c
    end.

Definition starts_with (p s : string) : bool := String.eqb (substring 0 (String.length p) s) p.

(* the known class K2, decided in the iteration orders the implementation ran in (the collections' own hash
   order cannot be replayed: both sorted orders are tried) *)
Definition in_k2 (m : omode) (st : tstate) : bool :=
  match orders_of m with
  | Some o => k2_class_in o k2_rounds st
  | None => k2_class_in orders_sorted k2_rounds st || k2_class_in orders_sorted_rev k2_rounds st
  end.

Definition prop_code (m : omode) (n0 : N) (inf : list (N * list xte)) (out : uout) : N :=
  let st := state_of n0 inf in
  match out with
  | UOk _ _ rows => prop_rows inf (packed_free st) rows
  | UBudget _ => if in_k2 m st then 50 else 40
  | UPanic msg => if starts_with "Equalities should not exist" msg then 14 else 0
  | UStageErr _ => 0
  end.

(* expectations of a generator that knows the intended typing: 21 unexpected conflict, 22 missing conflict *)
Definition expect_code (ex : expectation) (out : uout) : N :=
  match out with
  | UOk _ _ rows =>
      let one (p : N * N) : N :=
        match option_map (fun root => find (fun r => fst (fst r) =? root) rows) (root_in rows (fst p)) with
        | Some (Some r) =>
            let confl := match snd r with [x] => is_conflict (conv x) | _ => false end in
            if (snd p =? 0) && confl then 21 else if (snd p =? 1) && negb confl then 22 else 0
        | _ => 0
        end in
      match filter (fun c => negb (c =? 0)) (map one ex) with c :: _ => c | [] => 0 end
  | _ => 0
  end.

(* 0 ok; 1..9 model <> implementation (same order mode on both sides); 10..49 the implementation's own
   result violates the property outside the known classes; 50.. inside a known class (50: K2, 51: K1) *)
Definition check_case_ex (c : ucase) (ex : expectation) : N :=
  match c with
  | UDebug l => if forallb (fun p => String.eqb (te_debug (conv (fst p))) (snd p)) l then 0 else 8
  | UCase m n0 inf out _ =>
      let p := prop_code m n0 inf out in
      let e := expect_code ex out in
      if negb (p =? 0) && (p <? 50) then p
      else if negb (e =? 0) then e
      else
        (* the model is not run on results with more than `heavy_limit` fresh variables (self-referential packed
           encodings can blow a two-variable judgement set up to thousands of variables; the list-based model
           is too slow there) -- the property predicates above are evaluated all the same *)
        let heavy := match out with UOk nx _ _ => heavy_limit <? nx - n0 | _ => false end in
        let c := if heavy then 0 else
                 match orders_of m with Some o => corr_code o (state_of n0 inf) out | None => 0 end in
        if negb (c =? 0) then c else p
  end.

Definition check_case (c : ucase) : N := check_case_ex c [].
Definition check_case_with (ce : ucase * expectation) : N := check_case_ex (fst ce) (snd ce).

(* ------------------------------------------------------------------------------------------ *)
(* C02 at the unification stage: the same judgement set run by the implementation in two iteration orders
   (Sorted and SortedReversed).  When the judgement set lies in the fragment `order_free` (UnifyOrder.v) on
   which unification is PROVED independent of every order (props/C02_unify.v), the two results must agree:
   same members, same classes -- and exactly the classes of the computed congruence closure --, same data up to
   class representatives and conflict payloads.
     0 inside the fragment and the results agree; 99 outside the fragment (nothing claimed);
     60 inside the fragment, a run did not return; 61 members differ; 62 classes differ between the orders;
     63 the classes are not the congruence closure; 64 a class's data differs. *)
Definition data_sim (c : N -> N) (d1 d2 : list xte) : bool :=
  match d1, d2 with
  | [], [] => true
  | [x1], [x2] => te_sim c (conv x1) (conv x2)
  | _, _ => false
  end.

Definition order_pair_code (c1 : ucase) (out2 : uout) : N :=
  match c1 with
  | UCase _ n0 inf out1 _ =>
      let st := state_of n0 inf in
      if negb (order_free st) then 99 else
      match out1, out2 with
      | UOk _ _ rows1, UOk _ _ rows2 =>
          let mem1 := map (fun r => fst (fst r)) rows1 in
          let root1 (v : N) : N := match root_in rows1 v with Some r => r | None => v end in
          let root2 (v : N) : N := match root_in rows2 v with Some r => r | None => v end in
          let cl := part_of (cc st) in
          if negb (list_eqb N.eqb mem1 (map (fun r => fst (fst r)) rows2)) then 61
          else if negb (forallb (fun v => forallb (fun w => Bool.eqb (root1 v =? root1 w) (root2 v =? root2 w)) mem1) mem1) then 62
          else if negb (forallb (fun v => forallb (fun w => Bool.eqb (root1 v =? root1 w) (same_in cl v w)) mem1) mem1) then 63
          else if negb (forallb (fun r => negb (fst (fst r) =? snd (fst r))
                                          || match find (fun r2 => fst (fst r2) =? root2 (fst (fst r))) rows2 with
                                             | Some r2 => data_sim root1 (snd r) (snd r2)
                                             | None => false
                                             end) rows1) then 64
          else 0
      | _, _ => 60
      end
  | _ => 99
  end.
(* the Sorted run as a whole case, the outcome of the SortedReversed run of the same judgement set *)
Definition check_order_pair (cc2 : ucase * uout) : N := order_pair_code (fst cc2) (snd cc2).
