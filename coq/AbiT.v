(* The reported ABI types as a generic tree (printed by harness/src/cmd_analyze.rs::abi_term), and what
   the whole-pipeline command returns. *)
From Coq Require Import String.
From SLX Require Import Base.
Open Scope N_scope.

Inductive aty := AT (name : string) (nums : list N) (kids : list aty).

Fixpoint aty_eqb (a b : aty) : bool :=
  match a, b with
  | AT n1 l1 k1, AT n2 l2 k2 =>
      String.eqb n1 n2 && list_eqb N.eqb l1 l2 &&
      ((fix go (x y : list aty) : bool :=
          match x, y with
          | [], [] => true
          | p :: x', q :: y' => aty_eqb p q && go x' y'
          | _, _ => false
          end) k1 k2)
  end.

(* width in bits when the type has a known width *)
Definition opt_num (l : list N) : option N := match l with [1; n] => Some n | _ => None end.
Definition aty_width (a : aty) : option N :=
  match a with
  | AT name nums _ =>
      if String.eqb name "Number" || String.eqb name "UInt" || String.eqb name "Int" || String.eqb name "Bits" then opt_num nums
      else if String.eqb name "Bytes" then option_map (N.mul 8) (opt_num nums)
      else if String.eqb name "Address" then Some 160
      else if String.eqb name "Selector" then Some 32
      else if String.eqb name "Function" then Some 192
      else if String.eqb name "Bool" then Some 8
      else None
  end.

Definition entry := (N * N * aty)%type.       (* slot index, bit offset, type *)
Definition entry_eqb (a b : entry) : bool :=
  (fst (fst a) =? fst (fst b)) && (snd (fst a) =? snd (fst b)) && aty_eqb (snd a) (snd b).

(* class: 0 = layout returned, 1 = structured error, 2 = panic, 3 = poll budget exceeded *)
Inductive xa := XA (class : N) (layout : list entry) (errors : list (N * N * string)) (polls : N)
                   (stage : string) (panic : string).
Definition xa_class (x : xa) : N := match x with XA c _ _ _ _ _ => c end.
Definition xa_layout (x : xa) : list entry := match x with XA _ l _ _ _ _ => l end.
Definition xa_errors (x : xa) : list (N * N * string) := match x with XA _ _ e _ _ _ => e end.
