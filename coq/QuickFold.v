(* TEMPORARY stand-in for Fold.constant_fold (property C09's verified model) used to run the VM
   model until that development is merged: the 21 foldable operators by direct arithmetic. *)
From SLX Require Import Base gen.ValueSig SymVal.
Open Scope N_scope.

Definition M : N := two256.
Definition sgn (a : N) : Z := if a <? 2 ^ 255 then Z.of_N a else (Z.of_N a - Z.of_N M)%Z.
Definition usg (z : Z) : N := Z.to_N (z mod Z.of_N M).
Definition b2n (b : bool) : N := if b then 1 else 0.

Fixpoint powmod_pos (a : N) (p : positive) : N :=
  match p with
  | xH => a mod M
  | xO q => let r := powmod_pos a q in (r * r) mod M
  | xI q => let r := powmod_pos a q in (((r * r) mod M) * a) mod M
  end.
Definition powmod (a b : N) : N := match b with N0 => 1 | Npos p => powmod_pos a p end.

Definition q_op (t : tag) (a b : N) : option N :=
  match t with
  | T_Add => Some ((a + b) mod M)
  | T_Multiply => Some ((a * b) mod M)
  | T_Subtract => Some ((a + M - b) mod M)
  | T_Divide => Some (if b =? 0 then 0 else a / b)
  | T_SignedDivide => Some (if b =? 0 then 0 else usg (Z.quot (sgn a) (sgn b)))
  | T_Modulo => Some (if b =? 0 then 0 else a mod b)
  | T_SignedModulo => Some (if b =? 0 then 0 else usg (Z.rem (sgn a) (sgn b)))
  | T_Exp => Some (powmod a b)
  | T_LessThan => Some (b2n (a <? b))
  | T_GreaterThan => Some (b2n (b <? a))
  | T_SignedLessThan => Some (b2n (Z.ltb (sgn a) (sgn b)))
  | T_SignedGreaterThan => Some (b2n (Z.ltb (sgn b) (sgn a)))
  | T_Equals => Some (b2n (a =? b))
  | T_And => Some (N.land a b)
  | T_Or => Some (N.lor a b)
  | T_Xor => Some (N.lxor a b)
  | _ => None
  end.

(* shifts: fields are (shift, value) *)
Definition q_shift (t : tag) (s v : N) : option N :=
  match t with
  | T_LeftShift => Some (if 256 <=? s then 0 else (N.shiftl v s) mod M)
  | T_RightShift => Some (if 256 <=? s then 0 else N.shiftr v s)
  | T_ArithmeticRightShift =>
      Some (if 256 <=? s then (if v <? 2 ^ 255 then 0 else M - 1)
            else usg (Z.shiftr (sgn v) (Z.of_N s)))
  | _ => None
  end.

Fixpoint qfold (v : sv) : sv :=
  match v with
  | Node t a args =>
      let args' := map qfold args in
      match args' with
      | [x; y] =>
          match as_word x, as_word y with
          | Some p, Some q =>
              match q_op t p q with
              | Some r => Known r
              | None => match q_shift t p q with Some r => Known r | None => Node t a args' end
              end
          | _, _ => Node t a args'
          end
      | [x] =>
          match t with
          | T_IsZero => match as_word x with Some p => Known (b2n (p =? 0)) | None => Node t a args' end
          | T_Not => match as_word x with Some p => Known (M - 1 - p) | None => Node t a args' end
          | _ => Node t a args'
          end
      | _ => Node t a args'
      end
  end.
