(* Sized symbolic values (property C18): the model of `SymbolicValue { data, size, .. }`.

   A sized value `ssv` carries, at every node, the payload (tag, attributes, children in declaration
   order -- exactly the generic tree of SymVal.v) AND the size that the Rust code RECORDED for that node.
   Nothing here recomputes a size by walking a tree: `child_size` adds up the sizes recorded on the
   children, field by field, following the field list that the translator read from the arm of
   `SymbolicValueData::child_size()` for that constructor (gen/ValueSig.v: `child_size_fields`).  An arm
   that forgets or double-counts a field therefore yields a different number than the tree contains.

   The allocation sites are modelled with the expressions the translator read from them
   (gen/SizeAnchors.v): RSV::new (size, comparison with the limit, replacement and ITS size), TCSV::new,
   SymbolicValue::constant_fold, SymbolicValue::transform_data. *)
From Coq Require Import String.
From SLX Require Import Base gen.ValueSig gen.SizeAnchors SymVal.
Open Scope N_scope.

Inductive ssv := SNode (t : tag) (attrs : list N) (size : N) (args : list ssv).

(* the payload `SymbolicValueData`: what a constructor receives and what a transform function returns *)
Inductive sdata := SData (t : tag) (attrs : list N) (args : list ssv).

Section SsvInd.
  Variable P : ssv -> Prop.
  Hypothesis H : forall t a s args, Forall P args -> P (SNode t a s args).
  Fixpoint ssv_ind' (v : ssv) : P v :=
    match v with
    | SNode t a s args =>
        H t a s args ((fix go (l : list ssv) : Forall P l :=
                         match l with [] => Forall_nil P | x :: r => Forall_cons x (ssv_ind' x) (go r) end) args)
    end.
End SsvInd.

Definition recorded (v : ssv) : N := match v with SNode _ _ s _ => s end.   (* SymbolicValue::size() *)
Definition s_tag (v : ssv) : tag := match v with SNode t _ _ _ => t end.
Definition s_args (v : ssv) : list ssv := match v with SNode _ _ _ l => l end.
Definition data_of (v : ssv) : sdata := match v with SNode t a _ l => SData t a l end.   (* SymbolicValue::data() *)
Definition d_tag (d : sdata) : tag := match d with SData t _ _ => t end.
Definition d_args (d : sdata) : list ssv := match d with SData _ _ l => l end.

Fixpoint erase (v : ssv) : sv := match v with SNode t a _ args => Node t a (map erase args) end.

(* ------------------------------------------------------------------------------------------------
   Field layout: the children of a node, in declaration order, are split among the child-carrying
   fields of its constructor; a Vec field takes every child the later single-child fields do not need. *)
Definition is_vec (k : fkind) : bool := match k with FChildren | FSpans => true | _ => false end.

Definition child_decl (t : tag) : list (string * fkind) :=
  filter (fun p => is_childish (snd p)) (tag_fields t).

Definition count_fixed (fs : list (string * fkind)) : nat :=
  length (filter (fun p => negb (is_vec (snd p))) fs).

Fixpoint slices {A} (fs : list (string * fkind)) (args : list A) : list (string * list A) * list A :=
  match fs with
  | [] => ([], args)
  | (n, k) :: r =>
      let take := if is_vec k then (length args - count_fixed r)%nat else 1%nat in
      let (sl, rest) := slices r (skipn take args) in
      ((n, firstn take args) :: sl, rest)
  end.

Fixpoint lookup {A} (n : string) (sl : list (string * list A)) : list A :=
  match sl with
  | [] => []
  | (m, l) :: r => if String.eqb m n then l else lookup n r
  end.

(* a node has exactly the children its constructor declares *)
Definition arity_ok (t : tag) (n : nat) : bool :=
  let fs := child_decl t in
  if existsb (fun p => is_vec (snd p)) fs then Nat.leb (count_fixed fs) n else Nat.eqb n (count_fixed fs).

Definition sum_recorded (l : list ssv) : N := sum_N (map recorded l).

(* SymbolicValueData::child_size(): the arm's fields, each contributing the sizes RECORDED on its values *)
Definition child_size_of (fields : list string) (t : tag) (args : list ssv) : N :=
  let sl := fst (slices (child_decl t) args) in
  sum_N (map (fun f => sum_recorded (lookup f sl)) fields).

Definition child_size (d : sdata) : N :=
  match d with SData t _ args => child_size_of (child_size_fields t) t args end.

(* ------------------------------------------------------------------------------------------------
   Allocation sites *)
Definition alloc (size : N) (d : sdata) : ssv := match d with SData t a args => SNode t a size args end.

(* TCSV::new *)
Definition tcsv_new (d : sdata) : ssv := alloc (tcsv_new_size 0 (child_size d)) d.

(* RSV::new, parametrised by the three anchors so that the pinned variant can be stated too *)
Definition rsv_new_gen (size_of : N -> N -> N) (cond : N -> N -> bool) (csize : N -> N -> N)
           (limit : option N) (fresh : N) (d : sdata) : ssv :=
  let size := size_of 0 (child_size d) in
  match limit with
  | Some l => if cond size l then SNode T_Value [fresh] (csize size l) [] else alloc size d
  | None => alloc size d
  end.

Definition rsv_new := rsv_new_gen rsv_new_size cull_cond cull_size.

(* the builder as pinned at ccf401a: the replacement keeps the oversized size *)
Definition rsv_new_pinned := rsv_new_gen (fun _ cs => cs + 1) (fun size limit => limit <? size) (fun size _ => size).

Definition is_culled (limit : option N) (d : sdata) : bool :=
  match limit with Some l => cull_cond (rsv_new_size 0 (child_size d)) l | None => false end.

(* which argument positions transform() hands to transform_data: the fields named in its arm *)
Fixpoint mask_of (fs : list (string * fkind)) (fields : list string) (n : nat) : list bool :=
  match fs with
  | [] => []
  | (f, k) :: r =>
      let take := if is_vec k then (n - count_fixed r)%nat else 1%nat in
      repeat (existsb (String.eqb f) fields) (Nat.min take n) ++ mask_of r fields (n - take)
  end.

Definition transform_mask (t : tag) (n : nat) : list bool := mask_of (child_decl t) (transform_fields t) n.

Section Transform.
  (* the caller's function: Fn(&SymbolicValueData) -> Option<SymbolicValueData> *)
  Variable f : sdata -> option sdata.

  (* SymbolicValue::transform_data composed with SymbolicValueData::transform *)
  Fixpoint transform_data (v : ssv) : ssv :=
    match v with
    | SNode t a old args =>
        let d' := match f (SData t a args) with
                  | Some d => d
                  | None =>
                      SData (transform_ctor t) a
                        ((fix go (l : list ssv) (m : list bool) : list ssv :=
                            match l, m with
                            | x :: l', b :: m' => (if b then transform_data x else x) :: go l' m'
                            | l, [] => l
                            | [], _ => []
                            end) args (transform_mask t (length args)))
                  end in
        alloc (transform_size old (child_size d')) d'
    end.
End Transform.

(* mapping over the masked positions, as a stand-alone function (used to state lemmas) *)
Fixpoint map_masked (g : ssv -> ssv) (l : list ssv) (m : list bool) : list ssv :=
  match l, m with
  | x :: l', b :: m' => (if b then g x else x) :: map_masked g l' m'
  | l, [] => l
  | [], _ => []
  end.

Definition s_as_word (v : ssv) : option N :=
  match v with SNode T_KnownData [w] _ [] => Some w | _ => None end.

Fixpoint all_words (l : list ssv) : option (list N) :=
  match l with
  | [] => Some []
  | x :: r => match s_as_word x, all_words r with Some w, Some ws => Some (w :: ws) | _, _ => None end
  end.

Section Fold.
  (* the arithmetic of KnownWord is irrelevant to sizes: an arbitrary function of the operator and operands *)
  Variable fold_word : tag -> list N -> N.

  (* SymbolicValue::constant_fold = SymbolicValue { data: self.data.transform(constant_folder), size: .. }.
     The folder calls `transform_data(constant_folder)` on every operand of its 21 operators itself, so the
     recursion is written out here (Coq cannot pass the fixpoint to an abstract function). *)
  Fixpoint constant_fold (v : ssv) : ssv :=
    match v with
    | SNode t a old args =>
        let d' := match fold_rebuild t with
                  | Some t' =>
                      let args' := map constant_fold args in
                      match all_words args' with
                      | Some ws => SData T_KnownData [fold_word t ws] []
                      | None => SData t' a args'
                      end
                  | None =>
                      SData (transform_ctor t) a
                        ((fix go (l : list ssv) (m : list bool) : list ssv :=
                            match l, m with
                            | x :: l', b :: m' => (if b then constant_fold x else x) :: go l' m'
                            | l, [] => l
                            | [], _ => []
                            end) args (transform_mask t (length args)))
                  end in
        alloc (fold_size old (child_size d')) d'
    end.
End Fold.

(* ------------------------------------------------------------------------------------------------
   The invariant: at every node the recorded size is the number of nodes, and the node has the
   children its constructor declares. *)
Fixpoint well_sized (v : ssv) : bool :=
  match v with
  | SNode t a s args =>
      (s =? node_count (erase v)) && arity_ok t (length args) && forallb well_sized args
  end.

Definition data_ok (d : sdata) : bool :=
  match d with SData t _ args => arity_ok t (length args) && forallb well_sized args end.

(* a transform function is admissible when it returns payloads whose children are well-sized values
   whenever it is given one (it builds them through the constructors above) *)
Definition f_ok (f : sdata -> option sdata) : Prop :=
  forall d d', data_ok d = true -> f d = Some d' -> data_ok d' = true.

(* all sub-nodes, pre-order *)
Fixpoint ssubterms (v : ssv) : list ssv :=
  match v with SNode _ _ _ args => v :: flat_map ssubterms args end.

(* the values that can be built: leaves and nodes through RSV::new / TCSV::new, then any number of
   constant_fold / transform_data *)
Inductive Built (fw : tag -> list N -> N) : ssv -> Prop :=
| B_rsv limit fresh t a args :
    (forall x, In x args -> Built fw x) -> arity_ok t (length args) = true ->
    Built fw (rsv_new limit fresh (SData t a args))
| B_tcsv t a args :
    (forall x, In x args -> Built fw x) -> arity_ok t (length args) = true ->
    Built fw (tcsv_new (SData t a args))
| B_fold v : Built fw v -> Built fw (constant_fold fw v)
| B_transform f v : Built fw v -> f_ok f -> Built fw (transform_data f v).

(* the three per-constructor field enumerations agree with the declaration (a Boolean, checked over
   all constructors by computation) *)
Fixpoint nodupb (l : list string) : bool :=
  match l with [] => true | x :: r => negb (existsb (String.eqb x) r) && nodupb r end.
Definition count_str (x : string) (l : list string) : nat := length (filter (String.eqb x) l).
Definition permb (a b : list string) : bool :=
  Nat.eqb (length a) (length b) && forallb (fun x => Nat.eqb (count_str x a) (count_str x b)) (a ++ b).
Definition declared_names (t : tag) : list string := map fst (child_decl t).
Definition sig_row_ok (t : tag) : bool :=
  nodupb (declared_names t) &&
  permb (children_fields t) (declared_names t) &&
  permb (child_size_fields t) (declared_names t) &&
  permb (transform_fields t) (declared_names t) &&
  tag_eqb (transform_ctor t) t.
