(* Correspondence + property evaluation for the `merge` suite: each case carries the operands and
   what the real `unification::merge` returned (harness/src/cmd_merge.rs), for both orders of a pair
   or both groupings of a triple.  Depends on the model only (not on the proofs), so the search still
   runs when a proof obligation is broken. *)
From Coq Require Import String.
From SLX Require Import Base gen.Constants gen.WordUseTable TypeExpr Merge.
Open Scope N_scope.

(* ---- what the implementation printed ---- *)
Inductive xreason := XRText (s : string) | XRInput (n : N).

Inductive xte :=
| XAny | XEqual (i : N) | XWord (w : option N) (u : wuse) | XBytes
| XFixed (e len : N) | XMapping (k v : N) | XDyn (e : N)
| XPacked (ts : list span) (st : bool)
| XConflict (cs : list xte) (rs : list xreason).

Record xres := mk_xres { x_expr : xte; x_eqs : list (N * N); x_judg : list (N * xte); x_newv : list N }.
Inductive xout := IOk (r : xres) | IPanic.
(* the calls made, in order, up to and including the first panic; the counter afterwards *)
Record xchain := mk_chain { steps : list xout; final_next : N }.

Inductive mcase :=
| CPair (p n : N) (a b : xte) (ab ba : xchain)        (* merge(a,b) and merge(b,a), fresh state each *)
| CTriple (p n : N) (a b c : xte) (l r : xchain)      (* merge(merge(a,b),c) and merge(a,merge(b,c)) *)
| CFold (p n : N) (xs : list xte) (ch : xchain).      (* the left fold of `unify` over xs, one state *)

(* ---- reading it ---- *)
Definition reason_of_text (s : string) : option reason :=
  find (fun r => String.eqb (reason_text r) s) merge_reasons.

Definition conv_reason (x : xreason) : reason :=
  match x with
  | XRInput n => RInput n
  | XRText s => match reason_of_text s with Some r => r | None => RInput 0 end
  end.

Fixpoint conv (x : xte) : te :=
  match x with
  | XAny => Any | XEqual i => Equal i | XWord w u => Word w u | XBytes => Bytes
  | XFixed e l => FixedArray e l | XMapping k v => Mapping k v | XDyn e => DynamicArray e
  | XPacked ts st => Packed ts st
  | XConflict cs rs => Conflict (map conv cs) (map conv_reason rs)
  end.

(* model expression against printed expression: exact, except that an explanation whose wording the
   model does not know matches any explanation (wording is not part of any property) *)
Definition reason_matches (x : xreason) (r : reason) : bool :=
  match x with
  | XRInput n => reason_eqb (RInput n) r
  | XRText s => match reason_of_text s with Some r' => reason_eqb r' r | None => true end
  end.

Fixpoint list_match {A B} (f : A -> B -> bool) (a : list A) (b : list B) : bool :=
  match a, b with
  | [], [] => true
  | x :: a', y :: b' => f x y && list_match f a' b'
  | _, _ => false
  end.

Fixpoint xte_matches (x : xte) (t : te) : bool :=
  match x, t with
  | XConflict cs rs, Conflict cs' rs' =>
      (fix go (l : list xte) (l' : list te) : bool :=
         match l, l' with
         | [], [] => true
         | a :: r, b :: r' => xte_matches a b && go r r'
         | _, _ => false
         end) cs cs' && list_match reason_matches rs rs'
  | XConflict _ _, _ => false
  | _, Conflict _ _ => false
  | _, _ => te_eqb (conv x) t
  end.

Definition pair_eqb (a b : N * N) : bool := (fst a =? fst b) && (snd a =? snd b).

(* 0 = same; 1 expression, 2 equalities, 3 judgements, 4 fresh variables *)
Definition res_diff (x : xres) (m : mres) : N :=
  if negb (xte_matches (x_expr x) (expr m)) then 1
  else if negb (list_eqb pair_eqb (x_eqs x) (eqs m)) then 2
  else if negb (list_match (fun a b => (fst a =? fst b) && xte_matches (snd a) (snd b)) (x_judg x) (judg m)) then 3
  else if negb (list_eqb N.eqb (x_newv x) (newv m)) then 4
  else 0.

(* compares a chain of calls with the model; `inputs` gives, for each step, how to build the operands
   from the previous model result.  Returns (code, model's counter at the end). *)
Definition step_diff (x : xout) (m : mresult) : N :=
  match x, m with
  | IOk xr, Ok mr => res_diff xr mr
  | IPanic, Panic _ => 0
  | _, _ => 5
  end.

(* the model's two-step chains *)
Definition model_chain2 (first : mresult) (second : mres -> mresult) : list mresult * option N :=
  match first with
  | Ok r1 => let s := second r1 in ([first; s], match s with Ok r2 => Some (next r2) | _ => Some (next r1) end)
  | _ => ([first], None)
  end.

Definition chain_diff (x : xchain) (ms : list mresult) (final : N) : N :=
  if negb (Nat.eqb (length (steps x)) (length ms)) then 6
  else
    let codes := map (fun p => step_diff (fst p) (snd p)) (combine (steps x) ms) in
    match filter (fun c => negb (c =? 0)) codes with
    | c :: _ => c
    | [] => if final_next x =? final then 0 else 4
    end.

(* the model's left fold: the calls made, up to and including the first panic, and the counter *)
Fixpoint model_fold (acc : te) (l : list te) (p n : N) : list mresult * N :=
  match l with
  | [] => ([], n)
  | x :: r =>
      let s := merge acc x p n in
      match s with
      | Ok m => let '(rest, k) := model_fold (expr m) r p (next m) in (s :: rest, k)
      | _ => ([s], n)
      end
  end.

(* ---- the implementation's results as combination outcomes ---- *)
Definition xout_comb1 (x : xchain) : option comb :=
  match steps x with
  | [IOk r] => Some (Ok (mk_cres (conv (x_expr r)) (x_eqs r) (map (fun j => (fst j, conv (snd j))) (x_judg r))))
  | [IPanic] => Some (Panic 0)
  | _ => None
  end.

Definition xout_comb2 (x : xchain) : option comb :=
  match steps x with
  | [IOk r1; IOk r2] =>
      Some (Ok (mk_cres (conv (x_expr r2)) (x_eqs r1 ++ x_eqs r2)
                  (map (fun j => (fst j, conv (snd j))) (x_judg r1 ++ x_judg r2))))
  | [IPanic] | [IOk _; IPanic] => Some (Panic 0)
  | _ => None
  end.

(* the expression the implementation ended with (None: panic) *)
Definition final_expr (x : xchain) : option te :=
  match rev (steps x) with
  | IOk r :: _ => Some (conv (x_expr r))
  | _ => None
  end.

Definition has_packed (ts : list te) : bool := existsb is_packed ts.

Definition chain_touches_packed (x : xchain) : bool :=
  existsb (fun s => match s with IOk r => is_packed (conv (x_expr r)) | IPanic => false end) (steps x).

(* ---- C16: 0 ok; 1..9 model <> implementation; 10.. the implementation's own results violate the
   property outside the known class; 50/51 inside K1/K2 ---- *)
Definition check_case (c : mcase) : N :=
  match c with
  | CPair p n xa xb ab ba =>
      let a := conv xa in let b := conv xb in
      let d1 := chain_diff ab [merge a b p n] (match merge a b p n with Ok r => next r | _ => n end) in
      let d2 := chain_diff ba [merge b a p n] (match merge b a p n with Ok r => next r | _ => n end) in
      match xout_comb1 ab, xout_comb1 ba with
      | Some r1, Some r2 =>
          if negb (comb_equivb r1 r2) then 10          (* commutativity, on the implementation's outputs *)
          else if negb (d1 =? 0) then d1 else d2
      | _, _ => 6
      end
  | CTriple p n xa xb xc l r =>
      let a := conv xa in let b := conv xb in let c := conv xc in
      let '(ml, fl) := model_chain2 (merge a b p n) (fun r1 => merge (expr r1) c p (next r1)) in
      let '(mr, fr) := model_chain2 (merge b c p n) (fun r1 => merge a (expr r1) p (next r1)) in
      let d1 := chain_diff l ml (match fl with Some k => k | None => n end) in
      let d2 := chain_diff r mr (match fr with Some k => k | None => n end) in
      match xout_comb2 l, xout_comb2 r with
      | Some r1, Some r2 =>
          (* associativity is claimed for evidence without packed encodings *)
          if has_packed [a; b; c] || chain_touches_packed l || chain_touches_packed r then
            (if negb (d1 =? 0) then d1 else d2)
          else if negb (comb_equivb r1 r2) then
            (if K1 a b c then 50 else if K2 a b c then 51 else 11)
          else if negb (d1 =? 0) then d1 else d2
      | _, _ => 6
      end
  | CFold p n xs ch =>
      match map conv xs with
      | [] => 6
      | a :: l => let '(ms, k) := model_fold a l p n in chain_diff ch ms k
      end
  end.

(* ---- C15 (merge level): the join laws evaluated on the implementation's outputs.
   12 Any is not an identity; 13 a conflict does not absorb; 14 words: result is not the lattice join
   (a width or a more specific usage lost, a compatible pair reported as conflict, or an incompatible
   pair not reported); 15 constructor mismatch not reported as a conflict;
   16 three words: the fold is not the join of the three; 17 a contradiction among three pieces of
   evidence is silently dropped outside the known class; 52 the same inside the known class K1. ---- *)
Definition word_join (a b : te) : option te :=     (* None = top *)
  match a, b with
  | Word wl ul, Word wr ur => option_map word_of (wordev_join_s (wl, ul) (wr, ur))   (* the SPECIFICATION's join *)
  | _, _ => None
  end.

Definition pair_law_code (a b : te) (res : option te) : N :=
  match res with
  | None => if is_equal a || is_equal b then 0 else 12     (* a panic without an Equal operand *)
  | Some e =>
      if is_equal a || is_equal b then 0
      else if is_any b && negb (te_sim (fun x => x) e a) then 12
      else if is_any a && negb (te_sim (fun x => x) e b) then 12
      else if (is_conflict a || is_conflict b) && negb (is_conflict e) then 13
      else if is_word a && is_word b then
        match word_join a b with
        | Some j => if te_eqb e j then 0 else 14
        | None => if is_conflict e then 0 else 14
        end
      else if ctor_mismatch a b && negb (is_conflict e) then 15
      else 0
  end.

Definition check_case15 (c : mcase) : N :=
  match c with
  | CPair p n xa xb ab ba =>
      let a := conv xa in let b := conv xb in
      if has_packed [a; b] then 0 else
      let c1 := pair_law_code a b (final_expr ab) in
      if negb (c1 =? 0) then c1 else pair_law_code b a (final_expr ba)
  | CTriple p n xa xb xc l r =>
      let a := conv xa in let b := conv xb in let c := conv xc in
      if has_packed [a; b; c] || is_equal a || is_equal b || is_equal c then 0 else
      let chk (res : option te) : N :=
        match res with
        | None => 12
        | Some e =>
            if is_word a && is_word b && is_word c then
              match word_join a b with
              | Some ab => match word_join ab c with
                           | Some j => if te_eqb e j then 0 else 16
                           | None => if is_conflict e then 0 else 16
                           end
              | None => if is_conflict e then 0 else 16
              end
            else if (contradicts a b || contradicts a c || contradicts b c) && negb (is_conflict e) then
              (if K1 a b c then 52 else 17)
            else 0
        end in
      let c1 := chk (final_expr l) in
      if negb (c1 =? 0) then c1 else chk (final_expr r)
  | CFold p n xs ch =>
      (* a family of words (Any allowed in between): the fold must be the lattice join *)
      let ts := map conv xs in
      if negb (forallb (fun t => is_word t || is_any t) ts) then 0 else
      match filter is_word ts with
      | [] => 0
      | Word w u :: ws =>
          let fam := flat_map (fun t => match t with Word w' u' => [(w', u')] | _ => [] end) ws in
          match final_expr ch, wordev_join_all_s (w, u) fam with
          | Some e, Some j => if te_eqb e (word_of j) then 0 else 16
          | Some e, None => if is_conflict e then 0 else 16
          | None, _ => 12
          end
      | _ => 0
      end
  end.
