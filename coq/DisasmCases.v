(* Correspondence + property evaluation for the `disasm` suite: each case carries the input and
   what InstructionStream::try_from returned on the real code. *)
From Coq Require Import String.
From SLX Require Import Base gen.Constants gen.OpcodeTable Disasm.
Open Scope N_scope.

Inductive xinstr :=
| XOp (name : string) | XPush (n : N) (d : list byte) | XDup (n : N) | XSwap (n : N) | XLog (n : N)
| XNop | XInvalid (b : byte).

Inductive dres :=
| ROk (is : list xinstr) (encs : list (list byte)) (reenc : list byte)
| RErr (kind : string) (loc : N)
| RPanic.

Record dcase := mk_dcase { d_in : list byte; d_res : dres }.

Definition conv (x : xinstr) : option instr :=
  match x with
  | XOp s => option_map IOp (op_of_name s)
  | XPush n d => Some (IPush n d) | XDup n => Some (IDup n) | XSwap n => Some (ISwap n)
  | XLog n => Some (ILog n) | XNop => Some INop | XInvalid b => Some (IInvalid b)
  end.

Definition instr_eqb (a b : instr) : bool :=
  match a, b with
  | IOp x, IOp y => op_idx x =? op_idx y
  | IPush n d, IPush m e => (n =? m) && list_eqb N.eqb d e
  | IDup n, IDup m | ISwap n, ISwap m | ILog n, ILog m | IInvalid n, IInvalid m => n =? m
  | INop, INop => true
  | _, _ => false
  end.

Definition err_name (e : dis_err) : string :=
  match e with
  | EmptyBytecode => "EmptyBytecode" | BytecodeTooLarge => "BytecodeTooLarge"
  | InvalidPushSize _ => "InvalidPushSize" | InvalidStackItem _ => "InvalidStackItem"
  | InvalidTopicCount _ => "InvalidTopicCount" end.

Fixpoint all_some {A} (l : list (option A)) : option (list A) :=
  match l with
  | [] => Some []
  | Some x :: r => option_map (cons x) (all_some r)
  | None :: _ => None
  end.

(* the property itself, evaluated on what the implementation returned (independent of `disasm`) *)
Fixpoint positions_ok (bs : list byte) (imm : list bool) (is : list instr) : bool :=
  match bs, imm, is with
  | [], [], [] => true
  | b :: bs', m :: imm', i :: is' =>
      (if m then (match i with INop => true | IInvalid b' => b' =? b | _ => false end)
       else if is_push b then
              match i with IPush n _ => n =? b - PUSH_OPCODE_BASE_VALUE | IInvalid b' => b' =? b | _ => false end
            else if assigned b then negb (is_filler i) || (match i with IInvalid _ => true | _ => false end)
                 else match i with IInvalid b' => b' =? b | _ => false end)
      && positions_ok bs' imm' is'
  | _, _, _ => false
  end.

(* 0 = fine; 1..9 = model and implementation disagree; >= 10 = the implementation's result violates C10 *)
Definition check_case (c : dcase) : N :=
  let bs := d_in c in
  match d_res c with
  | RPanic => match bs with [] => 3 | _ => 11 end
  | RErr k loc =>
      match bs with
      | [] => match try_from bs with Err e => if String.eqb (err_name e) k then 0 else 2 | _ => 2 end
      | _ => 10      (* a non-empty byte string must disassemble *)
      end
  | ROk xs encs reenc =>
      match all_some (map conv xs) with
      | None => 4
      | Some is =>
          if negb (Nat.eqb (length is) (length bs)) then 12
          else if negb (list_eqb N.eqb reenc bs) then 13
          else if negb (list_eqb (list_eqb N.eqb) encs (map encode is)) then 5
          else if negb (list_eqb N.eqb (enc_all is) bs) then 13
          else if negb (positions_ok bs (immediates 0 bs) is) then 14
          else match try_from bs with
               | Ok ms => if list_eqb instr_eqb ms is then 0 else 1
               | _ => 1
               end
      end
  end.
