(* C02 end to end: the vocabulary of props/C02_pipeline.v.  Definitions only; proofs are in proofs/PipelineOrder.v
   (with proofs/AbiOrder.v: abi_type_for on two related class tables; proofs/UnifyTotal.v: every class has a data
   entry after `unify`).

   `Pipeline.analyze_plain` takes ONE order mode for every iteration point.  Here the composed model is split after
   inference:
     front_plain keccak table mode stored    lift, assign_vars, infer: the judgement set (a `tcs`), or the failure
     back_run o arrange rounds st'           unification::unify under the hash-order hooks `o`, then the layout loop
                                             over the constant storage slots in the order `arrange` leaves them in
     analyze_mixed keccak table mf mb ..     front half under mode mf, back half under mode mb
                                             (analyze_mixed .. m m = analyze_plain .. m: `analyze_mixed_same`)
   The fragment of judgement sets on which the back half does not depend on `o` and `arrange`:
     order_fragment st = order_free st && seen_safe st && wf_b st
   `order_free` is UnifyOrder.v's (no packed encodings, the congruence closure is homogeneous).
   `seen_safe`: two constructed types whose components lie pairwise in one class are themselves in one class.
     abi_type_for_impl keeps a set `seen` of type EXPRESSIONS that is never popped: a class whose resolved type is
     syntactically equal to the resolved type of ANOTHER class visited earlier is reported as InfiniteType.  Which
     member of a class's evidence becomes its resolved type depends on the fold order, so without `seen_safe` the
     reported type does too (`seen_witness`, props `pipeline_order_dependent_refuted`).
   `wf_b`: the judgement set names only allocated variables and has an entry for every allocated variable (true for
     everything registration + inference produce). *)
From Coq Require Import String Permutation.
From SLX Require Import Base gen.Constants gen.ValueSig gen.WordUseTable SymVal TypeExpr Merge VectorMap DisjointSet Register Unify UnifyOrder
  AbiT Layout Abi NoPanic Pipeline.
Open Scope N_scope.

(* ---- the fragment ---- *)
Definition comps_same (a : part) (e1 e2 : te) : bool :=
  match e1, e2 with
  | Mapping k1 v1, Mapping k2 v2 => same_in a k1 k2 && same_in a v1 v2
  | FixedArray x1 l1, FixedArray x2 l2 => (l1 =? l2) && same_in a x1 x2
  | DynamicArray x1, DynamicArray x2 => same_in a x1 x2
  | _, _ => false
  end.

Definition seen_safe (st : tstate) : bool :=
  let a := part_of (cc st) in
  forallb (fun p1 => forallb (fun p2 => negb (comps_same a (snd p1) (snd p2)) || same_in a (fst p1) (fst p2)) (ctor_ev st))
          (ctor_ev st).

Definition wf_b (st : tstate) : bool :=
  forallb (fun p : tyvar * iset => forallb (te_closed (ts_next st)) (snd p)) (ts_inf st) &&
  forallb (fun v => v <? ts_next st) (ts_vars st) &&
  forallb (ts_registered st) (vars_below (ts_next st)).

Definition order_fragment (st : tstate) : bool := order_free st && seen_safe st && wf_b st.

(* ---- the composed model, split after inference ---- *)
Definition front_plain (keccak : list byte -> N) (table : list (N * N)) (mode : order_mode)
    (stored : list (VM.vstate * list (N * N))) : tcs + pipeline_result :=
  let values := unique (all_values mode stored) in
  match fold_e (lift_body keccak table) values ([], false) with
  | inr e => inr e
  | inl (acc, failed) =>
      if failed : bool then inr PErrLift else
      match fold_e reg_body (rev acc) empty_tcs with
      | inr e => inr e
      | inl st => fold_e (infer_body mode) (tc_values mode (Register.values st)) st
      end
  end.

Definition back_run (o : orders) (arr : list tsv -> list tsv) (rounds : nat) (st' : tcs) : pipeline_result :=
  match ures_res (unify rounds o (tstate_of st')) with
  | inr e => e
  | inl (s, n) =>
      match fold_e (layout_body (env_of_forest s n) (S (N.to_nat n)))
              (filter is_const_slot (arr (Register.values st' ++ synthetic_values (next st') n))) [] with
      | inr e => e
      | inl l => PLayout l
      end
  end.

Definition analyze_mixed (keccak : list byte -> N) (table : list (N * N)) (mf mb : order_mode) (fu : fuels)
    (stored : list (VM.vstate * list (N * N))) : pipeline_result :=
  match front_plain keccak table mf stored with
  | inr e => e
  | inl st' => back_run (orders_of mb) (tc_values mb) (f_rounds fu) st'
  end.

(* ---- comparing two results ---- *)
Definition abi_err_kind (e : abi_err) : N :=
  match e with
  | EUnificationFailure _ => 0 | EUnificationIncomplete _ => 1 | EInvalidInference _ _ => 2 | EOutOfFuel => 3
  end.

(* the same rows in the same order, or the same kind of type-checker error, or the same panic site *)
Definition results_same (r1 r2 : pipeline_result) : Prop :=
  match r1, r2 with
  | PLayout l1, PLayout l2 => l1 = l2
  | PErrAbi e1, PErrAbi e2 => abi_err_kind e1 = abi_err_kind e2
  | PPanic p1, PPanic p2 => p1 = p2
  | _, _ => False
  end.

Definition is_layout (r : pipeline_result) : bool := match r with PLayout _ => true | _ => false end.

(* no two different rows at one (slot, offset) *)
Definition key_functional (l : list entry) : Prop :=
  forall a b, In a l -> In b l -> fst a = fst b -> a = b.

(* the same rows (as a multiset, both lists sorted by key -- hence the same list when no two different rows share a key),
   or both runs fail *)
Definition results_agree (r1 r2 : pipeline_result) : Prop :=
  match r1, r2 with
  | PLayout l1, PLayout l2 => Permutation l1 l2 /\ (key_functional l1 -> l1 = l2)
  | PLayout _, _ | _, PLayout _ => False
  | _, _ => True
  end.

(* ---- witnesses ---- *)
Definition slot_value (v k : tyvar) (key : N) : tsv := TN v T_StorageSlot [] [TN k T_KnownData [key] []].

(* inside order_free, outside seen_safe: the class of 2 resolves to Mapping 4 5 or to Mapping 6 7 depending on the
   fold order; the class of 3 is Mapping 4 5 *)
Definition seen_witness : tcs :=
  mk_tcs 8 [(0, slot_value 0 1 0)] []
    [(0, [Mapping 2 3]); (1, []); (2, [Mapping 4 5; Mapping 6 7]); (3, [Mapping 4 5]); (4, []); (5, []); (6, []); (7, [])].

(* outside order_free: UnifyOrderProofs.wit_k1 (C16's K1: a dynamic array and two contradicting words) as the type
   of a storage slot *)
Definition k1_witness : tcs :=
  mk_tcs 3 [(0, slot_value 0 1 0)] []
    [(0, [DynamicArray 2; Word (Some 8) UBool; Word (Some 160) UAddress]); (1, []); (2, [])].

(* inside the fragment: a self-referential mapping, mappings spread over equated variables, an array, contradicting
   words (props/C02_unify.v `C02_unify_hyps_met`), as the types of three storage slots *)
Definition fragment_example : tcs :=
  mk_tcs 9 [(5, slot_value 5 8 2); (1, slot_value 1 7 1); (0, slot_value 0 6 0)] []
    [(0, [Equal 1; Mapping 2 0]); (1, [Equal 0; Mapping 3 4]); (2, [Word (Some 8) UBool]);
     (3, [Word (Some 160) UAddress]); (4, []); (5, [DynamicArray 2; DynamicArray 3]); (6, []); (7, []); (8, [])].
