(* Additive helper for C07/C08: the OFFSETS the reference EVM executes along a path (Sim.executed lists the
   opcode bytes; this lists the program counters, the halting instruction included). *)
From SLX Require Import Base Word256 EvmSpec Evm.
Open Scope N_scope.

Fixpoint epcs (code : list byte) (fuel : nat) (path : list bool) (s : estate) : list N :=
  match fuel with
  | O => []
  | S f =>
      match byte_at code (e_pc s) with
      | None => []
      | Some b =>
          let '(br, path') := if b =? 87 then match path with x :: r => (x, r) | [] => (false, []) end else (false, path) in
          e_pc s :: match estep code br s with ENext s' => epcs code f path' s' | _ => [] end
      end
  end.
