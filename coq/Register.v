(* Value registration (src/tc/state/mod.rs): `TypeCheckerState::{register, register_internal, is_stable_typed,
   allocate_ty_var, infer, infer_for}` and `TypeChecker::assign_vars`.

   Typed values: the tree of `SymVal.v` with the type variable (`aux_data`) at every node.  The state keeps
     next      the `TypeVariableSource` counter (sequential `usize`; `fetch_add` cannot realistically wrap:
               2^64 registrations -- modelled as unbounded `N`)
     exprs     `expressions : HashMap<TypeVariable, TCBoxedVal>`, newest first
     stable    `stable_types : HashMap<RuntimeBoxedVal, TCBoxedVal>`, newest first; keys are compared with the
               derived `PartialEq` of `SymbolicValue`, i.e. structurally on `data` (instruction pointer and
               provenance are ignored; the recorded `size` is part of the comparison in Rust and is a function of
               the structure by C18 `recorded size = node count`)
     infs      `inferences : HashMap<TypeVariable, InferenceSet>`, newest variable first, each set as a
               duplicate-free list.
   The constructors that make a value stably typed (gen/RulesSig.v `stable_tags`) and the fact that
   `register_internal` registers the child fields in declaration order, looks the value up BEFORE descending and
   inserts it AFTER building, are read from the source by tools/tr_rules.py on every run. *)
From Coq Require Import String.
From SLX Require Import Base gen.ValueSig gen.RulesSig SymVal TypeExpr.
Open Scope N_scope.

Inductive tsv := TN (v : tyvar) (t : tag) (attrs : list N) (args : list tsv).

Section TsvInd.
  Variable P : tsv -> Prop.
  Hypothesis H : forall v t a args, Forall P args -> P (TN v t a args).
  Fixpoint tsv_ind' (x : tsv) : P x :=
    match x with
    | TN v t a args =>
        H v t a args ((fix go (l : list tsv) : Forall P l :=
                         match l with [] => Forall_nil P | y :: r => Forall_cons y (tsv_ind' y) (go r) end) args)
    end.
End TsvInd.

Definition tv_of (x : tsv) : tyvar := match x with TN v _ _ _ => v end.
Definition ttag (x : tsv) : tag := match x with TN _ t _ _ => t end.
Definition tattrs (x : tsv) : list N := match x with TN _ _ a _ => a end.
Definition targs (x : tsv) : list tsv := match x with TN _ _ _ l => l end.

(* forget the type variables *)
Fixpoint erase (x : tsv) : sv := match x with TN _ t a args => Node t a (map erase args) end.

(* all typed sub-terms, pre-order, with multiplicity *)
Fixpoint tsubterms (x : tsv) : list tsv := match x with TN _ _ _ args => x :: flat_map tsubterms args end.

(* children() order (differs from declaration order for Create2) *)
Definition tpermute (p : option (list nat)) (args : list tsv) : list tsv :=
  match p with None => args | Some ix => map (fun i => nth i args (TN 0 T_Value [0] [])) ix end.
Definition tchildren (x : tsv) : list tsv :=
  match x with TN _ t _ args => tpermute (field_perm (children_fields t) t) args end.

(* is_stable_typed: one of the listed constructors, or any child is.  (Rust iterates `children()`, a
   permutation of the declared child fields: proofs/RegisterProofs.v `is_stable_children`.) *)
Fixpoint is_stable (v : sv) : bool :=
  match v with
  | Node t _ args => existsb (tag_eqb t) stable_tags || existsb is_stable args
  end.

Record tcs := mk_tcs {
  next : N;
  exprs : list (tyvar * tsv);
  stable : list (sv * tsv);
  infs : list (tyvar * list te)
}.

Definition empty_tcs : tcs := mk_tcs 0 [] [] [].

Fixpoint lookup_stable (v : sv) (l : list (sv * tsv)) : option tsv :=
  match l with
  | [] => None
  | (k, x) :: r => if sv_eqb k v then Some x else lookup_stable v r
  end.

(* register_internal *)
Fixpoint reg (v : sv) (st : tcs) : tsv * tcs :=
  match v with
  | Node t a args =>
      let stab := is_stable v in
      match (if stab then lookup_stable v (stable st) else None) with
      | Some r => (r, st)
      | None =>
          let '(targs, st1) :=
            (fix go (l : list sv) (s : tcs) : list tsv * tcs :=
               match l with
               | [] => ([], s)
               | x :: r => let '(tx, s1) := reg x s in
                           let '(tr, s2) := go r s1 in (tx :: tr, s2)
               end) args st in
          let tv := next st1 in
          let nv := TN tv t a targs in
          (nv, mk_tcs (tv + 1) ((tv, nv) :: exprs st1)
                      (if stab then (v, nv) :: stable st1 else stable st1)
                      ((tv, []) :: infs st1))
      end
  end.

Fixpoint reg_list (l : list sv) (s : tcs) : list tsv * tcs :=
  match l with
  | [] => ([], s)
  | x :: r => let '(tx, s1) := reg x s in
              let '(tr, s2) := reg_list r s1 in (tx :: tr, s2)
  end.

(* `register` returns the variable of the top-level value *)
Definition register (v : sv) (st : tcs) : tyvar * tcs := let '(x, st') := reg v st in (tv_of x, st').

(* TypeChecker::assign_vars: the values are registered in queue order (watchdog polls: C13) *)
Definition assign_vars (vs : list sv) : list tsv * tcs := reg_list vs empty_tcs.

(* `values()` under the sorted order hook: by type variable, i.e. in creation order *)
Definition values (st : tcs) : list tsv := rev (map snd (exprs st)).

(* allocate_ty_var: a fresh variable standing for a synthetic `Value` (its uuid is not observable here) *)
Definition allocate (st : tcs) : tyvar * tcs :=
  let tv := next st in
  (tv, mk_tcs (tv + 1) ((tv, TN tv T_Value [two64 + tv] []) :: exprs st) (stable st) ((tv, []) :: infs st)).

(* ---- `infer`: insertion into the inference set of a variable; `unwrap` panics on an unknown variable *)
Fixpoint set_add (e : te) (l : list te) : list te :=
  match l with
  | [] => [e]
  | x :: r => if te_eqb x e then l else x :: set_add e r
  end.

Fixpoint add_inf (l : list (tyvar * list te)) (v : tyvar) (e : te) : option (list (tyvar * list te)) :=
  match l with
  | [] => None
  | (w, s) :: r => if w =? v then Some ((w, set_add e s) :: r)
                   else option_map (cons (w, s)) (add_inf r v e)
  end.

Definition set_infs (st : tcs) (i : list (tyvar * list te)) : tcs := mk_tcs (next st) (exprs st) (stable st) i.

Definition SITE_INFER_ID : N := 9001.      (* self.inferences.get_mut(id).unwrap() *)
Definition SITE_INFER_VAR : N := 9002.     (* self.inferences.get_mut(&variable).unwrap() *)

Definition st_infer (st : tcs) (v : tyvar) (e : te) : outcome tcs unit :=
  match e with
  | Equal id =>
      if id =? v then Ok st
      else match add_inf (infs st) id (Equal v) with
           | None => Panic SITE_INFER_ID
           | Some i1 => match add_inf i1 v e with
                        | None => Panic SITE_INFER_VAR
                        | Some i2 => Ok (set_infs st i2)
                        end
           end
  | _ => match add_inf (infs st) v e with
         | None => Panic SITE_INFER_VAR
         | Some i => Ok (set_infs st i)
         end
  end.

Definition inferences_of (st : tcs) (v : tyvar) : option (list te) :=
  option_map snd (find (fun p => fst p =? v) (infs st)).
