(* Model of the symbolic virtual machine: src/vm/mod.rs (VM::execute, advance), src/vm/data.rs
   (VisitedOpcodes, JumpTargets), src/vm/thread.rs, src/vm/state/{mod,stack,memory,storage}.rs and the
   `execute` bodies in src/opcode/*.rs.

   - straight-line opcode bodies are NOT written here: they are micro-programs regenerated from the
     Rust source on every run (gen/OpcodeSem.v, translator T9) and interpreted by `run_mops`;
   - the irregular bodies (JUMP, JUMPI, the four bulk copies, LOGn, store_return_data) and the
     machine itself are hand-written and tied to the code by the `vm` correspondence suite;
   - `fold` (constant folding) is a parameter; the run-time instance is Fold.constant_fold;
   - hash maps are association lists in insertion order (lookups only; iteration order matters
     only when values are collected, which takes an explicit order);
   - fresh identities come from a counter (hook H2 makes the implementation do the same);
   - the watchdog is an answer stream "false^k true^omega": `stop_at = Some k` answers true from
     the k-th poll (0-based) on; `None` never stops. *)
From SLX Require Import Base gen.Constants gen.ValueSig gen.OpcodeTable SymVal Micro gen.OpcodeSem Disasm.
Open Scope N_scope.

Inductive exec_err :=
| EInstructionPointerOutOfBounds | EStackDepthExceeded | ENoSuchStackFrame | ENoSuchThread | EInvalidStep
| EInvalidOffsetForJump | EInvalidJumpTarget | ENonExistentJumpTarget | ENoConcreteJumpDestination
| EGasLimitExceeded | ENotJumpTarget | ENotJumpSource | EStoppedByWatchdog.

Definition err_idx (e : exec_err) : N :=
  match e with
  | EInstructionPointerOutOfBounds => 0 | EStackDepthExceeded => 1 | ENoSuchStackFrame => 2 | ENoSuchThread => 3
  | EInvalidStep => 4 | EInvalidOffsetForJump => 5 | EInvalidJumpTarget => 6 | ENonExistentJumpTarget => 7
  | ENoConcreteJumpDestination => 8 | EGasLimitExceeded => 9 | ENotJumpTarget => 10 | ENotJumpSource => 11
  | EStoppedByWatchdog => 12 end.

(* the four kinds that `permissive_errors` gates (VM::execute and JumpI::execute) *)
Definition is_jump_err (e : exec_err) : bool :=
  match e with
  | EInvalidOffsetForJump | EInvalidJumpTarget | ENonExistentJumpTarget | ENoConcreteJumpDestination => true
  | _ => false end.

(* everything the machine and the opcode bodies read ... *)
Record limits := mk_limits {
  gas_limit : N; iter_limit : N; fork_limit : N; size_limit : N; mem_limit : N;
  poll_every : N; stop_at : option N }.
(* ... and the one flag that only gates the RECORDING of jump-target errors *)
Record config := mk_config' { lim :> limits; permissive : bool }.
Definition mk_config (gas iter fork size mem : N) (perm : bool) (poll : N) (stop : option N) : config :=
  mk_config' (mk_limits gas iter fork size mem poll stop) perm.

Definition memgen := (sv * bool)%type.          (* value, is_byte_store *)

Record vstate := mk_vstate {
  fork_point : N;
  stack : list sv;                              (* head = top of stack *)
  mem_const : list (N * list memgen);           (* usize offset -> generations, oldest first *)
  mem_sym : list (sv * list memgen);
  sto_known : list (sv * list sv);
  sto_sym : list (sv * list sv);
  recorded : list sv;                           (* oldest first *)
  logged : list sv }.

Definition empty_state : vstate :=
  mk_vstate 0 [] [] [] [] [] [] [].

(* VMState also carries the per-thread visit counters; they are kept beside the rest of the state
   because no opcode body touches them (only the main loop does) *)
(* tpath is a ghost: the outcomes of the conditional jumps this thread has passed (true = it is the forked,
   jump-taken copy), used to line a retired state up with the path of the reference EVM *)
Record thread := mk_thread { tstate : vstate; tvis : list (N * N); tip : N; tgas : N; tpath : list bool }.

(* ---- association lists -------------------------------------------------------------------- *)
Section Assoc.
  Context {K V : Type} (eqb : K -> K -> bool).
  Fixpoint alookup (k : K) (l : list (K * V)) : option V :=
    match l with [] => None | (k', v) :: r => if eqb k k' then Some v else alookup k r end.
  Fixpoint aupdate (k : K) (f : option V -> V) (l : list (K * V)) : list (K * V) :=
    match l with
    | [] => [(k, f None)]
    | (k', v) :: r => if eqb k k' then (k', f (Some v)) :: r else (k', v) :: aupdate k f r
    end.
End Assoc.

Definition count_of (ip : N) (l : list (N * N)) : N :=
  match alookup N.eqb ip l with Some c => c | None => 0 end.
Definition bump (ip : N) (l : list (N * N)) : list (N * N) :=
  aupdate N.eqb ip (fun o => match o with Some c => c + 1 | None => 1 end) l.

Definition FIRST_ID : N := 1000000.     (* verif::FIRST_ID (hook H2) *)

Definition usize_of (w : N) : N := w mod two64.            (* U256::as_usize *)
Definition sat_add_usize (a b : N) : N := N.min (a + b) (two64 - 1).

Section WithFold.
Variable fold : sv -> sv.

(* ---- value construction -------------------------------------------------------------------- *)
(* RSV::new(.., Some(limit)): an oversized payload is replaced by a fresh opaque value *)
Definition build_limited (limit : N) (next : N) (v : sv) : sv * N :=
  if limit <? node_count v then (Val next, next + 1) else (v, next).

(* ---- stack (src/vm/state/stack.rs) ----------------------------------------------------------- *)
Definition stack_push (s : list sv) (v : sv) : option (list sv) :=
  if MAXIMUM_STACK_DEPTH <? N.of_nat (length s) + 1 then None else Some (v :: s).

Fixpoint swap_nth (k : nat) (top : sv) (s : list sv) : option (sv * list sv) :=
  (* replaces the k-th element of s (0-based) by top, returns the old one *)
  match s, k with
  | [], _ => None
  | x :: r, O => Some (x, top :: r)
  | x :: r, S k' => match swap_nth k' top r with Some (o, r') => Some (o, x :: r') | None => None end
  end.

(* ---- memory (src/vm/state/memory.rs) --------------------------------------------------------- *)
Definition zero_gen : list memgen := [(Known 0, false)].

Definition last_data (g : list memgen) : sv := fst (last g (Known 0, false)).

Definition mem_store (st : vstate) (offset value : sv) (is_byte : bool) : vstate :=
  let off := fold offset in
  match as_word off with
  | Some w =>
      mk_vstate (fork_point st) (stack st)
        (aupdate N.eqb (usize_of w) (fun o => match o with Some g => g ++ [(value, is_byte)] | None => [(value, is_byte)] end) (mem_const st))
        (mem_sym st) (sto_known st) (sto_sym st) (recorded st) (logged st)
  | None =>
      mk_vstate (fork_point st) (stack st) (mem_const st)
        (aupdate sv_eqb off (fun o => match o with Some g => g ++ [(value, is_byte)] | None => [(value, is_byte)] end) (mem_sym st))
        (sto_known st) (sto_sym st) (recorded st) (logged st)
  end.

(* get_or_initialize on the constant-offset map *)
Definition mem_get_const (st : vstate) (o : N) : sv * vstate :=
  match alookup N.eqb o (mem_const st) with
  | Some g => (last_data g, st)
  | None => (Known 0,
             mk_vstate (fork_point st) (stack st) (mem_const st ++ [(o, zero_gen)]) (mem_sym st)
               (sto_known st) (sto_sym st) (recorded st) (logged st))
  end.

Definition mem_get_sym (st : vstate) (k : sv) : sv * vstate :=
  match alookup sv_eqb k (mem_sym st) with
  | Some g => (last_data g, st)
  | None => (Known 0,
             mk_vstate (fork_point st) (stack st) (mem_const st) (mem_sym st ++ [(k, zero_gen)])
               (sto_known st) (sto_sym st) (recorded st) (logged st))
  end.

Definition mem_load (st : vstate) (offset : sv) : sv * vstate :=
  let off := fold offset in
  match as_word off with
  | Some w => mem_get_const st (usize_of w)
  | None => mem_get_sym st off
  end.

(* the words at off, off+32, ... below `stop` (at most n of them) *)
Fixpoint load_words (n : nat) (off stop : N) (st : vstate) : list sv * vstate :=
  match n with
  | O => ([], st)
  | S n' => if off <? stop then
              let (v, st1) := mem_get_const st off in
              let (vs, st2) := load_words n' (off + 32) stop st1 in
              (v :: vs, st2)
            else ([], st)
  end.

Definition mem_load_slice (max_bytes : N) (st : vstate) (offset size : sv) : sv * vstate :=
  let off := fold offset in
  match as_word off with
  | Some w =>
      match as_word (fold size) with
      | Some sz =>
          let o := usize_of w in
          let bounded := N.min (usize_of sz) max_bytes in
          let stop := sat_add_usize o bounded in
          let (vs, st') := load_words (N.to_nat (bounded / 32 + 1)) o stop st in
          (Node T_Concat [] vs, st')
      | None => mem_get_const st (usize_of w)
      end
  | None => mem_get_sym st off
  end.

(* ---- storage (src/vm/state/storage.rs) -------------------------------------------------------- *)
Definition is_known (v : sv) : bool := match as_word v with Some _ => true | None => false end.

Definition sto_store (st : vstate) (key value : sv) : vstate :=
  let upd := aupdate sv_eqb key (fun o => match o with Some g => g ++ [value] | None => [value] end) in
  if is_known key then
    mk_vstate (fork_point st) (stack st) (mem_const st) (mem_sym st) (upd (sto_known st)) (sto_sym st)
      (recorded st) (logged st)
  else
    mk_vstate (fork_point st) (stack st) (mem_const st) (mem_sym st) (sto_known st) (upd (sto_sym st))
      (recorded st) (logged st).

Definition sload_wrap (key most_recent : sv) : sv :=
  match most_recent with
  | Node T_SLoad _ _ => most_recent
  | _ => Node T_SLoad [] [key; most_recent]
  end.

(* Storage::load_with_limit: `lim = None` is the unlimited Storage::load *)
Definition opt_build (lim : option N) (next : N) (v : sv) : sv * N :=
  match lim with Some l => build_limited l next v | None => (v, next) end.

Definition sto_load (lim : option N) (next : N) (st : vstate) (key : sv) : sv * vstate * N :=
  let m := if is_known key then sto_known st else sto_sym st in
  match alookup sv_eqb key m with
  | Some g => let (r, n) := opt_build lim next (sload_wrap key (last g (Val 0))) in (r, st, n)
  | None =>
      let (unwritten, n1) := opt_build lim next (Node T_UnwrittenStorageValue [] [key]) in
      let m' := m ++ [(key, [unwritten])] in
      let (r, n2) := opt_build lim n1 (sload_wrap key unwritten) in
      (r,
       if is_known key then
         mk_vstate (fork_point st) (stack st) (mem_const st) (mem_sym st) m' (sto_sym st) (recorded st) (logged st)
       else
         mk_vstate (fork_point st) (stack st) (mem_const st) (mem_sym st) (sto_known st) m' (recorded st) (logged st),
       n2)
  end.

Definition with_stack (st : vstate) (s : list sv) : vstate :=
  mk_vstate (fork_point st) s (mem_const st) (mem_sym st) (sto_known st) (sto_sym st) (recorded st) (logged st).
Definition with_recorded (st : vstate) (v : sv) : vstate :=
  mk_vstate (fork_point st) (stack st) (mem_const st) (mem_sym st) (sto_known st) (sto_sym st) (recorded st ++ [v]) (logged st).
Definition with_logged (st : vstate) (v : sv) : vstate :=
  mk_vstate (fork_point st) (stack st) (mem_const st) (mem_sym st) (sto_known st) (sto_sym st) (recorded st) (logged st ++ [v]).
Definition with_fork_point (st : vstate) (fp : N) : vstate :=
  mk_vstate fp (stack st) (mem_const st) (mem_sym st) (sto_known st) (sto_sym st) (recorded st) (logged st).

(* ---- the context an opcode body runs in ------------------------------------------------------- *)
Record octx := mk_octx {
  o_env : list (N * sv);
  o_st : vstate;
  o_id : N;                (* next fresh identity *)
  o_kill : bool;           (* current_thread_killed *)
  o_polls : N }.           (* watchdog polls made so far *)

Definition env_get (c : octx) (x : N) : sv :=
  match alookup N.eqb x (o_env c) with Some v => v | None => Val 0 end.
Definition env_set (c : octx) (x : N) (v : sv) : octx :=
  mk_octx ((x, v) :: o_env c) (o_st c) (o_id c) (o_kill c) (o_polls c).
Definition ctx_st (c : octx) (st : vstate) : octx := mk_octx (o_env c) st (o_id c) (o_kill c) (o_polls c).
Definition ctx_id (c : octx) (n : N) : octx := mk_octx (o_env c) (o_st c) n (o_kill c) (o_polls c).

(* should_stop(): consumes one answer of the stream *)
Definition poll (cfg : limits) (c : octx) : bool * octx :=
  let stop := match stop_at cfg with Some k => k <=? o_polls c | None => false end in
  (stop, mk_octx (o_env c) (o_st c) (o_id c) (o_kill c) (o_polls c + 1)).

(* a bulk copy loop: for (count, internal_offset) in (0..size_limit).step_by(32).enumerate()
   `body c internal_offset` performs one iteration *)
Fixpoint copy_loop (cfg : limits) (body : octx -> N -> octx) (n : nat) (count off limit : N) (c : octx)
  : octx * option exec_err :=
  match n with
  | O => (c, None)
  | S n' =>
      if off <? limit then
        let '(stopped, c1) := if (count mod poll_every cfg =? 0) then poll cfg c else (false, c) in
        if stopped then (c1, Some EStoppedByWatchdog)
        else copy_loop cfg body n' (count + 1) (off + 32) limit (body c1 off)
      else (c, None)
  end.

Definition build_exec (cfg : limits) (c : octx) (v : sv) : sv * octx :=
  let (r, n) := build_limited (size_limit cfg) (o_id c) v in (r, ctx_id c n).

(* control.rs: store_return_data *)
Definition store_return_data (cfg : limits) (c : octx) (ret_size ret_offset : sv) : octx * option exec_err :=
  match as_word (fold ret_size) with
  | Some w =>
      let limit := N.min (usize_of w) (mem_limit cfg) in
      let body := fun (c : octx) (io : N) =>
        let (dest, c1) := build_exec cfg c (Node T_Add [] [fold ret_offset; Known io]) in
        let (value, c2) := build_exec cfg c1 (Node T_ReturnData [] [Known io; Known 32]) in
        ctx_st c2 (mem_store (o_st c2) dest value false) in
      copy_loop cfg body (N.to_nat (limit / 32 + 1)) 0 0 limit c
  | None =>
      (* vm.build().symbolic(ip, RSVD::new_value(), MessageCall): new_value consumes an id first *)
      let id := o_id c in
      let (rv, c1) := build_exec cfg (ctx_id c (id + 1)) (Val id) in
      (ctx_st c1 (mem_store (o_st c1) ret_offset rv false), None)
  end.

(* ---- micro-operations -------------------------------------------------------------------------- *)
Record ienv := mk_ienv { i_ip : N; i_code_len : N; i_self_word : N; i_self_n : N }.

Definition run_mop (cfg : limits) (ie : ienv) (m : mop) (c : octx) : octx * option exec_err :=
  match m with
  | MPop x f =>
      match stack (o_st c) with
      | [] => (c, Some ENoSuchStackFrame)
      | v :: s => (env_set (ctx_st c (with_stack (o_st c) s)) x (if f then fold v else v), None)
      end
  | MBuild x t args =>
      let (r, c1) := build_exec cfg c (Node t [] (map (env_get c) args)) in (env_set c1 x r, None)
  | MCallData x a b =>
      let id := o_id c in
      let (r, c1) := build_exec cfg (ctx_id c (id + 1)) (Node T_CallData [id] [env_get c a; env_get c b]) in
      (env_set c1 x r, None)
  | MConst x w => let (r, c1) := build_exec cfg c (Known w) in (env_set c1 x r, None)
  | MConstIp x => let (r, c1) := build_exec cfg c (Known (i_ip ie)) in (env_set c1 x r, None)
  | MConstCodeSize x => let (r, c1) := build_exec cfg c (Known (i_code_len ie)) in (env_set c1 x r, None)
  | MConstSelfWord x => let (r, c1) := build_exec cfg c (Known (i_self_word ie)) in (env_set c1 x r, None)
  | MFresh x => (env_set (ctx_id c (o_id c + 1)) x (Val (o_id c)), None)
  | MPush x =>
      match stack_push (stack (o_st c)) (env_get c x) with
      | Some s => (ctx_st c (with_stack (o_st c) s), None)
      | None => (c, Some EStackDepthExceeded)
      end
  | MRecord x => (ctx_st c (with_recorded (o_st c) (env_get c x)), None)
  | MLog x => (ctx_st c (with_logged (o_st c) (env_get c x)), None)
  | MKill => (mk_octx (o_env c) (o_st c) (o_id c) true (o_polls c), None)
  | MLoadSlice x a b =>
      let (v, st') := mem_load_slice (mem_limit cfg) (o_st c) (env_get c a) (env_get c b) in
      (env_set (ctx_st c st') x v, None)
  | MMemLoad x a => let (v, st') := mem_load (o_st c) (env_get c a) in (env_set (ctx_st c st') x v, None)
  | MMemStore a v => (ctx_st c (mem_store (o_st c) (env_get c a) (env_get c v) false), None)
  | MMemStore8 a v => (ctx_st c (mem_store (o_st c) (env_get c a) (env_get c v) true), None)
  | MSLoad x k limited =>
      let '(v, st', n) := sto_load (if limited then Some (size_limit cfg) else None) (o_id c) (o_st c) (env_get c k) in
      (env_set (ctx_id (ctx_st c st') n) x v, None)
  | MSStore k v => (ctx_st c (sto_store (o_st c) (env_get c k) (env_get c v)), None)
  | MStoreReturnData sz off => store_return_data cfg c (env_get c sz) (env_get c off)
  | MDupSelf minus_one =>
      let frame := if minus_one then i_self_n ie - 1 else i_self_n ie in
      let s := stack (o_st c) in
      if N.of_nat (length s) <=? frame then (c, Some ENoSuchStackFrame)
      else match stack_push s (nth (N.to_nat frame) s (Val 0)) with
           | Some s' => (ctx_st c (with_stack (o_st c) s'), None)
           | None => (c, Some EStackDepthExceeded)
           end
  | MSwapSelf =>
      let frame := i_self_n ie in
      match stack (o_st c) with
      | [] => (c, Some ENoSuchStackFrame)
      | top :: rest =>
          if N.of_nat (length rest) + 1 <=? frame then (c, Some ENoSuchStackFrame)
          else match frame with
               | 0 => (c, None)
               | _ => match swap_nth (N.to_nat (frame - 1)) top rest with
                      | Some (o, rest') => (ctx_st c (with_stack (o_st c) (o :: rest')), None)
                      | None => (c, Some ENoSuchStackFrame)
                      end
               end
      end
  end.

Fixpoint run_mops (cfg : limits) (ie : ienv) (ms : list mop) (c : octx) : octx * option exec_err :=
  match ms with
  | [] => (c, None)
  | m :: r => match run_mop cfg ie m c with
              | (c', None) => run_mops cfg ie r c'
              | res => res
              end
  end.

(* ---- the irregular bodies ---------------------------------------------------------------------- *)
(* pops k values; on underflow the values popped so far stay popped *)
Fixpoint pop_n (k : nat) (c : octx) (acc : list sv) : octx * option (list sv) :=
  match k with
  | O => (c, Some (rev acc))
  | S k' => match stack (o_st c) with
            | [] => (c, None)
            | v :: s => pop_n k' (ctx_st c (with_stack (o_st c) s)) (v :: acc)
            end
  end.

Inductive copy_kind := CKCallData | CKCode | CKExtCode | CKReturnData.

Definition copy_value (cfg : limits) (k : copy_kind) (addr src size : sv) (c : octx) : sv * octx :=
  match k with
  | CKCallData =>
      let id := o_id c in build_exec cfg (ctx_id c (id + 1)) (Node T_CallData [id] [src; size])
  | CKCode => build_exec cfg c (Node T_CodeCopy [] [src; size])
  | CKExtCode => build_exec cfg c (Node T_ExtCodeCopy [] [addr; src; size])
  | CKReturnData => build_exec cfg c (Node T_ReturnData [] [src; size])
  end.

(* CallDataCopy / CodeCopy / ExtCodeCopy / ReturnDataCopy *)
Definition exec_copy (cfg : limits) (k : copy_kind) (c : octx) : octx * option exec_err :=
  let npop := match k with CKExtCode => 4%nat | _ => 3%nat end in
  match pop_n npop c [] with
  | (c0, None) => (c0, Some ENoSuchStackFrame)
  | (c0, Some vals) =>
      let addr := match k with CKExtCode => nth 0 vals (Val 0) | _ => Val 0 end in
      let base := match k with CKExtCode => 1%nat | _ => 0%nat end in
      let dest_offset := nth base vals (Val 0) in
      let offset := fold (nth (S base) vals (Val 0)) in
      let size := fold (nth (S (S base)) vals (Val 0)) in
      match as_word size with
      | Some w =>
          let cap := match k with CKCallData | CKReturnData => mem_limit cfg | _ => CONTRACT_MAXIMUM_SIZE_BYTES end in
          let limit := N.min (usize_of w) cap in
          let body := fun (c : octx) (io : N) =>
            let (dest, c1) := build_exec cfg c (Node T_Add [] [dest_offset; Known io]) in
            let (src, c2) := build_exec cfg c1 (Node T_Add [] [offset; Known io]) in
            let (value, c3) := copy_value cfg k addr src (Known 32) c2 in
            ctx_st c3 (mem_store (o_st c3) dest value false) in
          copy_loop cfg body (N.to_nat (limit / 32 + 1)) 0 0 limit c0
      | None =>
          let (value, c1) := copy_value cfg k addr offset size c0 in
          (ctx_st c1 (mem_store (o_st c1) dest_offset value false), None)
      end
  end.

Definition exec_log (cfg : limits) (n : N) (c : octx) : octx * option exec_err :=
  match pop_n (2 + N.to_nat n) c [] with
  | (c0, None) => (c0, Some ENoSuchStackFrame)
  | (c0, Some vals) =>
      let offset := nth 0 vals (Val 0) in
      let size := nth 1 vals (Val 0) in
      let topics := skipn 2 vals in
      let (data, st') := mem_load_slice (mem_limit cfg) (o_st c0) offset size in
      let (lg, c1) := build_exec cfg (ctx_st c0 st') (Node T_Log [] (data :: topics)) in
      (ctx_st c1 (with_logged (o_st c1) lg), None)
  end.

(* opcode::util::validate_jump_destination *)
Definition is_jumpdest (i : instr) : bool :=
  match i with IOp o => op_idx o =? op_idx control_JumpDest | _ => false end.
Definition is_jumpi (i : instr) : bool :=
  match i with IOp o => op_idx o =? op_idx control_JumpI | _ => false end.

Definition validate_jump (code : list instr) (counter : sv) : N + exec_err :=
  match as_word (fold counter) with
  | None => inr ENoConcreteJumpDestination
  | Some w =>
      if two32 <=? w then inr EInvalidOffsetForJump
      else if N.of_nat (length code) <=? w then inr ENonExistentJumpTarget   (* never convert a large word to nat *)
      else match nth_error code (N.to_nat w) with
           | None => inr ENonExistentJumpTarget
           | Some i => if is_jumpdest i then inl w else inr EInvalidJumpTarget
           end
  end.

(* what an opcode asks the machine to do with the current thread afterwards *)
Inductive ctl := CNone | CJump (target : N) | CFork (target : N).

Record vm := mk_vm {
  v_code : list instr;
  v_queue : list thread;
  v_stored : list (vstate * list (N * N));   (* state and visit counters, in the order the threads were retired *)
  v_jt : list (N * N);           (* JumpTargets: forks taken per JUMPDEST *)
  v_killed : bool;
  v_errors : list (N * exec_err);   (* (location, kind), in the order of the Errors container *)
  v_next_id : N;
  v_polls : N;
  v_counter : N;                 (* iterations of the main loop so far *)
  v_retired : list (N * N);      (* (instruction pointer, gas used) of every retired thread, in order *)
  v_paths : list (list bool);    (* ghost: tpath of every retired thread, in order *)
  v_cfg : config }.

Definition exec_jump (code : list instr) (c : octx) : octx * option exec_err * ctl :=
  match stack (o_st c) with
  | [] => (c, Some ENoSuchStackFrame, CNone)
  | counter :: s =>
      let c0 := ctx_st c (with_stack (o_st c) s) in
      match validate_jump code counter with
      | inl t => (c0, None, CJump t)
      | inr e =>
          let c1 := ctx_st c0 (with_recorded (o_st c0) counter) in
          match e with
          | ENoConcreteJumpDestination => (mk_octx (o_env c1) (o_st c1) (o_id c1) true (o_polls c1), None, CNone)
          | _ => (c1, Some e, CNone)
          end
      end
  end.

(* JumpI: returns the context, an error that kills the thread (stack underflow only), an error to
   *store* while the thread continues (the machine records it unless `permissive`), and the fork request.  `jt` is the fork tracker. *)
Definition exec_jumpi (cfg : limits) (code : list instr) (vis jt : list (N * N)) (c : octx)
  : octx * option exec_err * option exec_err * ctl * list (N * N) :=
  match stack (o_st c) with
  | [] => (c, Some ENoSuchStackFrame, None, CNone, jt)
  | counter :: s =>
      match s with
      | [] => (ctx_st c (with_stack (o_st c) []), Some ENoSuchStackFrame, None, CNone, jt)
      | condition :: s' =>
          let c0 := ctx_st c (with_recorded (with_stack (o_st c) s') condition) in
          match validate_jump code counter with
          | inl t =>
              let target_at_limit := iter_limit cfg <=? count_of t vis in
              if target_at_limit then (c0, None, None, CNone, jt)
              else if fork_limit cfg <=? count_of t jt then (c0, None, None, CNone, jt)
              else (c0, None, None, CFork t, bump t jt)
          | inr e =>
              let c1 := ctx_st c0 (with_recorded (o_st c0) counter) in
              (c1, None, Some e, CNone, jt)
          end
      end
  end.

(* ---- the machine -------------------------------------------------------------------------------- *)
Definition push_word (data : list byte) : N :=
  fold_left (fun acc b => acc * 256 + b) data 0.

Definition instr_gas (i : instr) : N :=
  match i with
  | IOp o => op_gas o | IPush n _ => pushn_gas n | IDup n => dupn_gas n | ISwap n => swapn_gas n
  | ILog n => logn_gas n | INop => 0 | IInvalid _ => 0 end.

Definition instr_args (i : instr) : N :=
  match i with
  | IOp o => op_args o | IPush n _ => pushn_args n | IDup n => dupn_args n | ISwap n => swapn_args n
  | ILog n => logn_args n | INop => 0 | IInvalid _ => 0 end.

(* executes one instruction body *)
Definition exec_instr (cfg : limits) (code : list instr) (vis jt : list (N * N)) (ip : N) (i : instr) (c : octx)
  : octx * option exec_err * option exec_err * ctl * list (N * N) :=
  let ie := mk_ienv ip (N.of_nat (length code))
              (match i with IPush _ d => push_word d | _ => 0 end)
              (match i with IDup n | ISwap n => n | _ => 0 end) in
  let plain := fun (r : octx * option exec_err) => (fst r, snd r, @None exec_err, CNone, jt) in
  match i with
  | IOp o =>
      match op_sem o with
      | Some ms => plain (run_mops cfg ie ms c)
      | None =>
          if op_idx o =? op_idx control_Jump then
            let '(c', e, k) := exec_jump code c in (c', e, None, k, jt)
          else if op_idx o =? op_idx control_JumpI then exec_jumpi cfg code vis jt c
          else if op_idx o =? op_idx memory_CallDataCopy then plain (exec_copy cfg CKCallData c)
          else if op_idx o =? op_idx memory_CodeCopy then plain (exec_copy cfg CKCode c)
          else if op_idx o =? op_idx memory_ExtCodeCopy then plain (exec_copy cfg CKExtCode c)
          else if op_idx o =? op_idx memory_ReturnDataCopy then plain (exec_copy cfg CKReturnData c)
          else plain (c, None)       (* unreachable: irregular_ops is checked against this list *)
      end
  | IPush _ _ => plain (run_mops cfg ie pushn_sem c)
  | IDup _ => plain (run_mops cfg ie dupn_sem c)
  | ISwap _ => plain (run_mops cfg ie swapn_sem c)
  | ILog n => plain (exec_log cfg n c)
  | INop => plain (run_mops cfg ie nop_sem c)
  | IInvalid _ => plain (run_mops cfg ie invalid_sem c)
  end.

Definition handled_irregular : list opname :=
  [memory_CallDataCopy; memory_CodeCopy; memory_ExtCodeCopy; control_Jump; control_JumpI; memory_ReturnDataCopy].

(* Errors::add_located keeps the container sorted by location (stable) *)
Fixpoint insert_sorted (e : N * exec_err) (l : list (N * exec_err)) : list (N * exec_err) :=
  match l with
  | [] => [e]
  | x :: r => if fst e <? fst x then e :: x :: r else x :: insert_sorted e r
  end.
Definition sort_errors (l : list (N * exec_err)) : list (N * exec_err) :=
  fold_left (fun acc e => insert_sorted e acc) l [].

Inductive step_result :=
| SRunning (m : vm)
| SDone (m : vm)                               (* the queue is empty: the while loop ends *)
| SStopped (ip : N) (m : vm).                  (* the watchdog said stop at a poll of the main loop *)

(* VM::advance *)
Definition advance (m : vm) (t : thread) (rest : list thread) (forked : list thread) : vm :=
  let cfg := v_cfg m in
  let ip := tip t in
  let next := ip + 1 in
  let len := N.of_nat (length (v_code m)) in
  let exceeded := (len <=? next) || (iter_limit cfg <=? count_of next (tvis t)) in
  let out_of_gas := gas_limit cfg <? tgas t in
  if exceeded || out_of_gas || v_killed m then
    mk_vm (v_code m) (rest ++ forked) (v_stored m ++ [(tstate t, tvis t)]) (v_jt m) false
      (if out_of_gas then sort_errors (v_errors m ++ [(ip, EGasLimitExceeded)]) else v_errors m)
      (v_next_id m) (v_polls m) (v_counter m) (v_retired m ++ [(ip, tgas t)]) (v_paths m ++ [tpath t]) cfg
  else
    mk_vm (v_code m) (mk_thread (tstate t) (tvis t) next (tgas t) (tpath t) :: rest ++ forked) (v_stored m) (v_jt m) false
      (v_errors m) (v_next_id m) (v_polls m) (v_counter m) (v_retired m) (v_paths m) cfg.

(* one iteration of the `while let Ok(instruction) = self.current_instruction()` loop *)
Definition vm_step (m : vm) : step_result :=
  match v_queue m with
  | [] => SDone m
  | t :: rest =>
      let cfg := v_cfg m in
      let ip := tip t in
      match nth_error (v_code m) (N.to_nat ip) with
      | None => SDone m        (* unreachable: the instruction pointer always names an instruction *)
      | Some i =>
          let c0 := mk_octx [] (tstate t) (v_next_id m) (v_killed m) (v_polls m) in
          let '(stopped, c1) := if (v_counter m mod poll_every cfg =? 0) then poll cfg c0 else (false, c0) in
          if stopped then SStopped ip (mk_vm (v_code m) (v_queue m) (v_stored m) (v_jt m) (v_killed m)
                                         (v_errors m) (v_next_id m) (o_polls c1) (v_counter m) (v_retired m) (v_paths m) cfg)
          else
            let vis := bump ip (tvis t) in           (* mark_visited *)
            let '(c3, err, stored_err, k, jt') := exec_instr cfg (v_code m) vis (v_jt m) ip i c1 in
            match err with
            | _ =>
              let errors1 := match stored_err with
                             | Some e => if permissive cfg then v_errors m else v_errors m ++ [(ip, e)]
                             | None => v_errors m end in
              let '(errors2, killed, gas') :=
                match err with
                | None => (errors1, o_kill c3, tgas t + instr_gas i)
                | Some e => ((if is_jump_err e && permissive cfg then errors1 else errors1 ++ [(ip, e)]), true, tgas t)
                end in
              let ip' := match k with CJump target => target | _ => ip end in
              let at_jumpi := is_jumpi i in
              let t' := mk_thread (o_st c3) vis ip' gas' (if at_jumpi then tpath t ++ [false] else tpath t) in
              let forked := match k with
                            | CFork target => [mk_thread (with_fork_point (o_st c3) ip) vis target (tgas t) (tpath t ++ [true])]
                            | _ => [] end in
              let m1 := mk_vm (v_code m) (v_queue m) (v_stored m) jt' killed errors2 (o_id c3) (o_polls c3)
                          (v_counter m + 1) (v_retired m) (v_paths m) cfg in
              SRunning (advance m1 t' rest forked)
            end
      end
  end.

Inductive exec_result :=
| RDone (m : vm)
| RStopped (ip : N) (m : vm)
| ROutOfFuel (m : vm).

Fixpoint run (fuel : nat) (m : vm) : exec_result :=
  match fuel with
  | O => ROutOfFuel m
  | S f => match vm_step m with
           | SRunning m' => run f m'
           | SDone m' => RDone m'
           | SStopped ip m' => RStopped ip m'
           end
  end.

(* the same loop with binary fuel, for evaluation: `run_p p` performs at most p steps *)
Definition run1 (m : vm) : exec_result :=
  match vm_step m with SRunning m' => ROutOfFuel m' | SDone m' => RDone m' | SStopped ip m' => RStopped ip m' end.
Fixpoint run_p (p : positive) (m : vm) : exec_result :=
  match p with
  | xH => run1 m
  | xO q => match run_p q m with ROutOfFuel m' => run_p q m' | r => r end
  | xI q => match run_p q m with
            | ROutOfFuel m' => match run_p q m' with ROutOfFuel m'' => run1 m'' | r => r end
            | r => r end
  end.

Definition init_vm (code : list instr) (cfg : config) : vm :=
  mk_vm code [mk_thread empty_state [] 0 0 []] [] [] false [] FIRST_ID 0 0 [] [] cfg.

End WithFold.
