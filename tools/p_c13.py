"""C13 -- the watchdog can stop analysis at any poll and is polled as often as promised."""
import collections
import json
import re

import gen
import vlib

MANIFEST = {
    "text": "Coq theorems over the VM model (main loop and the four bulk-copy loops + return-data copy inside opcode bodies), for every program, configuration and folding function: a never-stopping watchdog influences nothing but the poll counter (machines differing only in the polling interval stay equal in all states and errors); once the answer stream has turned to stop, the next main-loop poll ends the run at once and comes within one polling interval of iterations; iterations <= polls * interval along every run; opcode bodies never un-make polls. The eleven polled loops of all stages are inventoried from the Rust source on every run (counter, interval binding, stop branch, and that no `continue`/`break` lies between the poll and the counter bump, so the counter advances on EVERY iteration); for that loop scheme (PolledLoop.v) Coq proves, for every item list, body, interval and counter: never told to stop => the plain fold's result, polls = the poll points; a watchdog that has turned to stop ends the loop at the next poll point with exactly one more poll; n iterations make between n div k and n div k + 1 polls. For the WHOLE analysis the composed model (coq/Pipeline.v: every stage's loop is an instance of that scheme, unification's rounds wrapped without touching Unify.v) carries the end-to-end theorems, for every program, configuration, iteration-order mode and fuel: pipeline_never_stop_interval_irrelevant (never told to stop => the result does not depend on the interval), pipeline_stop_is_error (more polls made than the stop index => the result is the StoppedByWatchdog error, never a layout from partial work), pipeline_stops_within_bound (at most poll_every + 1 polls after the turn); the model is tied to the code by stopping the real analysis at every poll index of small programs (intervals 1, 3, 7, 100) and comparing outcome, stage reached and polls made inside Coq. The later stages' behaviour is also searched directly: the whole analysis is stopped at EVERY poll index k of small contracts (stratified on larger ones) and intervals 1..1000, checking stopped-by-watchdog error, no layout, bounded further polls, and equality with the unmonitored result when never stopped; per-stage poll counts are compared with independent work measures. Dispatcher programs with 8..14 short branches (every path shorter than the larger intervals) are part of the stop-at-k and poll-rate suites: the main loop's counter counts iterations of the loop over all threads.",
    "note": "Trusted: Coq kernel; translator T1/T9/T7; harness CountingWatchdog. The type-checker stages' polling is now a theorem "
            "about the composed model (all five loops modelled as PolledLoop instances); what ties that model to the code is the "
            "source inventory + the stop-at-k correspondence (differential, not a proof).",
    "technique": "Coq proof (relational invariance under the polling interval, poll accounting invariant, stop-within-interval by "
                 "induction) on the VM model; source inventory of polled loops; exhaustive stop-at-every-poll search on the implementation",
}


def parse_xa(l):
    m = re.match(r'XA (\d+) (\[.*\]) (\[.*\]) (\d+) "([^"]*)" "(.*)"$', l)
    if not m:
        return None
    cls, layout, errs, polls, stage, panic = m.groups()
    slots = sorted(re.findall(r"\((\d+),(\d+),\(AT", layout))
    return {"class": int(cls), "layout": layout, "slots": slots, "errors": errs, "polls": int(polls), "stage": stage}


def check(ctx):
    vlib.translate(ctx)
    vlib.prove(ctx, "props/C13.v")
    hb = vlib.harness_bin(ctx)
    rng = ctx.rng
    bw = gen.boundary_words()
    small = []
    try:
        for l in open(vlib.ROOT + "/corpus/C13.txt"):
            l = l.split("#")[0].strip()
            if l:
                small.append(bytes.fromhex(l.split()[0]))
    except FileNotFoundError:
        pass
    # small contracts that spend time in each polled loop
    a = gen.Asm()
    a.push(0).op("SLOAD").push(2 ** 160 - 1).op("AND").push(1).op("SSTORE").push(0x20).push(0).push(0).op("CALLDATACOPY")
    a.push(0x40).push(0).push(0x40).op("CODECOPY").push(0x20).push(0).op("SHA3").push(2).op("SSTORE")
    a.op("CALLVALUE").push_label("X").op("JUMPI").push(3).op("SLOAD").op("POP").op("STOP").label("X")
    a.push(0x20).push(0).push(0).op("RETURNDATACOPY").push(0x20).push(0).push(0).op("CALLER").op("EXTCODECOPY")
    a.push(0x40).push(0).push(0).push(0).push(0).op("CALLER").op("GAS").op("CALL").push(4).op("SSTORE").op("STOP")
    small.append(a.assemble())
    # a bulk copy as the very first work of the only thread (nothing recorded before it): a stop first seen by the copy
    # loop's own poll must still surface, whatever happens afterwards
    for opn, npre in (("CODECOPY", 3), ("CALLDATACOPY", 3), ("RETURNDATACOPY", 3), ("EXTCODECOPY", 4)):
        for size in (0x20, 0x80, 0x400):
            b = gen.Asm()
            b.push(size).push(0).push(0)
            if npre == 4:
                b.op("CALLER")
            b.op(opn).push(1).push(0).op("SSTORE").op("STOP")
            small.append(b.assemble())
    b = gen.Asm()
    b.push(0x40).push(0).push(0).push(0).push(0).op("CALLER").op("GAS").op("CALL").op("STOP")
    small.append(b.assemble())
    # many short paths: a dispatcher with 8..14 branches, every root-to-STOP path shorter than the larger polling intervals --
    # the main loop's poll counter counts ITERATIONS OF THE LOOP (all threads together), not the steps of one thread
    many_paths = set()
    for nv in ((8, 12) if ctx.quick else (6, 8, 10, 12, 14, 14)):
        many_paths.add(gen.compile_layout(gen.random_vars(rng, nv), rng, dispatcher="selector"))
    small += sorted(many_paths)
    small += gen.loop_programs(rng, bw, 4 if ctx.quick else 20)
    small += gen.c07_programs(rng, bw, 4 if ctx.quick else 20)
    real = [bytes.fromhex(h) for _, h in gen.real_contracts()]
    real.sort(key=len)
    big = real[:1] if ctx.quick else real[:4]
    cfg = (30000000, 3, 5, 250, 394, 1)
    evals = 0
    nontrivial = 0
    stopped_stage = collections.Counter()
    if hb:
        # 1. unmonitored runs and total polls for each interval
        plan = []     # (program, interval, k)
        base = {}
        intervals = [1, 3, 7] if ctx.quick else [1, 2, 3, 7, 10, 100, 1000]
        lines = []
        idx = []
        for pi, code in enumerate(small + big):
            for p in intervals:
                lines.append(gen.vm_line(code, cfg, poll_every=p) + " all sorted")
                idx.append((pi, p))
        ok, out, diag = vlib.run_harness_sharded(hb, ["analyze"], lines, timeout=1500)
        ctx.oblige("harness:analyze-unmonitored", "search", ok, diag)
        for (pi, p), l in zip(idx, out):
            base[(pi, p)] = parse_xa(l)
        # never-stop result must not depend on the interval
        for pi, code in enumerate(small + big):
            ref = base.get((pi, intervals[0]))
            for p in intervals[1:]:
                b = base.get((pi, p))
                if ref and b and (ref["class"], ref["slots"]) != (b["class"], b["slots"]):
                    ctx.violate("C13:interval-changes-result:%s" % code.hex()[:40],
                                "unmonitored result differs between poll intervals %d and %d on %s" % (intervals[0], p, code.hex()[:100]),
                                {"code": code.hex(), "config": list(cfg), "intervals": [intervals[0], p]})
        # 2. stop at every poll index
        lines, idx = [], []
        for pi, code in enumerate(small + big):
            for p in intervals:
                b = base.get((pi, p))
                if not b:
                    continue
                total = b["polls"]
                if pi < len(small) and total <= (400 if ctx.quick else 4000):
                    ks = range(0, total + 2)
                else:
                    ks = sorted(set([0, 1, 2, total - 1, total, total + 1] + [rng.randrange(0, total + 1) for _ in range(40 if ctx.quick else 400)]))
                for k in ks:
                    if k < 0:
                        continue
                    lines.append(gen.vm_line(code, cfg, poll_every=p, stop_at=k) + " all sorted")
                    idx.append((pi, p, k))
        ok, out, diag = vlib.run_harness_sharded(hb, ["analyze"], lines, timeout=2400)
        ctx.oblige("harness:analyze-stopped", "search", ok, diag)
        codes = small + big
        for (pi, p, k), l in zip(idx, out):
            evals += 1
            r = parse_xa(l)
            b = base[(pi, p)]
            rep = {"code": codes[pi].hex(), "config": list(cfg), "poll_every": p, "stop_at": k, "observed": l[:400],
                   "how": "echo '<code> 30000000 3 5 250 394 1 <poll_every> <stop_at> all' | build/harness-target/debug/slxh analyze"}
            key = "%s:p%d:k%d" % (codes[pi].hex()[:32], p, k)
            if r is None or r["class"] == 2:
                ctx.violate("C13:panic:" + key, "panic or child death when stopped at poll %d" % k, rep)
                continue
            if r["polls"] > k:          # the watchdog answered "stop" at least once
                nontrivial += 1
                stopped_stage[r["stage"]] += 1
                if r["class"] != 1 or "StoppedByWatchdog" not in r["errors"]:
                    ctx.violate("C13:not-stopped:" + key, "watchdog said stop at poll %d but the analysis returned class %d errors %s"
                                % (k, r["class"], r["errors"][:120]), rep)
                elif r["layout"] != "[]":
                    ctx.violate("C13:partial-layout:" + key, "a layout was returned from partial work", rep)
                elif r["polls"] > k + 1 + p + 1:
                    ctx.violate("C13:late-stop:" + key, "%d polls were made although the watchdog said stop from poll %d on (interval %d)"
                                % (r["polls"], k, p), rep)
            else:                        # never told to stop: must equal the unmonitored result
                if (r["class"], r["slots"]) != (b["class"], b["slots"]):
                    ctx.violate("C13:differs-when-not-stopped:" + key, "never stopped, yet result differs from the unmonitored run", rep)
        # 3. per-stage polls against independent work measures (interval 1: one poll per iteration)
        lines = [gen.vm_line(code, cfg, poll_every=1) for code in codes]
        ok, out, diag = vlib.run_harness_sharded(hb, ["polls"], lines, timeout=1500)
        ctx.oblige("harness:polls", "search", ok, diag)
        stage_names = ["vm", "lift", "assign", "infer"]
        at1 = {}
        for code, l in zip(codes, out):
            m = re.match(r"XP \[([\d;]*)\] (\d)", l)
            if not m or m.group(2) != "0" or not m.group(1):
                continue
            v = [int(x) for x in m.group(1).split(";")]
            at1[code] = v
            evals += 1
            for si, name in enumerate(stage_names):
                polls, work = v[2 * si], v[2 * si + 1]
                if polls < work:
                    ctx.violate("C13:poll-rate:%s:%s" % (name, code.hex()[:32]),
                                "stage %s made %d polls for %d iterations at interval 1" % (name, polls, work),
                                {"code": code.hex(), "stage": name, "polls": polls, "work": work})
            if v[7] > 0 and v[8] < 1:      # values to unify, yet no poll at all
                ctx.violate("C13:poll-rate:unify:%s" % code.hex()[:32], "unification/layout made no poll", {"code": code.hex()})
        # 4. the same stages at larger intervals: at interval 1 every iteration of every polled loop polls, so the polls
        #    made then ARE the iteration count N of the stage; "polls once per p iterations" requires at least N div p polls
        #    (each loop with its own counter makes ceil(n_i/p); the sum is >= floor(N/p))
        rate_checked = 0
        for p in ([3, 7, 100] if ctx.quick else [2, 3, 7, 10, 100, 1000]):
            lines = [gen.vm_line(code, cfg, poll_every=p) for code in codes]
            ok, out, diag = vlib.run_harness_sharded(hb, ["polls"], lines, timeout=1500)
            ctx.oblige("harness:polls:%d" % p, "search", ok, diag)
            for code, l in zip(codes, out):
                m = re.match(r"XP \[([\d;]*)\] (\d)", l)
                if not m or m.group(2) != "0" or not m.group(1) or code not in at1:
                    continue
                v = [int(x) for x in m.group(1).split(";")]
                evals += 1
                for name, i in (("vm", 0), ("lift", 2), ("assign", 4), ("infer", 6), ("unify", 8)):
                    if name == "unify" and code in many_paths:
                        # the number of class visits of unification depends on the hash iteration order of THIS run (it
                        # has no independent work measure in the `polls` output): on programs with many variables two
                        # runs differ by a few visits, so the relation between two runs is not evaluated for them
                        continue
                    n1, np_ = at1[code][i], v[i]
                    rate_checked += 1
                    if np_ < n1 // p:
                        ctx.violate("C13:poll-rate:%s:p%d:%s" % (name, p, code.hex()[:32]),
                                    "stage %s ran %d loop iterations (polls at interval 1) but polled only %d times at interval %d (< %d)"
                                    % (name, n1, np_, p, n1 // p),
                                    {"code": code.hex(), "config": list(cfg), "stage": name, "interval": p, "iterations": n1, "polls": np_,
                                     "how": "echo '<code> 30000000 3 5 250 394 1 <interval> -1' | build/harness-target/debug/slxh polls"})
        # 5. every bulk-copy loop has its own counter starting at 0, so a copy of n >= 1 words polls ceil(n / p) >= 1 times
        #    whatever the interval: k short copies in a straight line must add at least k polls to the main loop's
        #    ceil(instructions / p)
        copy_lines, copy_meta = [], []
        for opn in ("CODECOPY", "CALLDATACOPY", "RETURNDATACOPY", "EXTCODECOPY"):
            for size, k in ((0x20, 6), (0x60, 10), (0x40, 14)):
                b = gen.Asm()
                for _ in range(k):
                    b.push(size).push(0).push(0)
                    if opn == "EXTCODECOPY":
                        b.op("CALLER")
                    b.op(opn)
                b.op("STOP")
                ninstr = k * (5 if opn == "EXTCODECOPY" else 4) + 1
                for p in (4, 7, 100):
                    copy_lines.append(gen.vm_line(b.assemble(), cfg, poll_every=p))
                    copy_meta.append((opn, size, k, p, ninstr))
        ok, out, diag = vlib.run_harness_sharded(hb, ["polls"], copy_lines, timeout=600)
        ctx.oblige("harness:polls:copies", "search", ok, diag)
        for line, (opn, size, k, p, ninstr), l in zip(copy_lines, copy_meta, out):
            m = re.match(r"XP \[([\d;]*)\] (\d)", l)
            if not m or m.group(2) != "0" or not m.group(1):
                continue
            vm_polls = int(m.group(1).split(";")[0])
            evals += 1
            need = -(-ninstr // p) + k
            if vm_polls < need:
                ctx.violate("C13:copy-poll-rate:%s:%d:%d:p%d" % (opn, size, k, p),
                            "%d x %s of %d bytes at interval %d: the VM stage polled %d times, fewer than the %d of the main loop "
                            "plus one per copy loop" % (k, opn, size, p, vm_polls, need),
                            {"code": line.split(" ")[0], "config": list(cfg), "interval": p, "polls": vm_polls, "needed": need,
                             "how": "echo '<code> 30000000 3 5 250 394 1 <interval> -1' | build/harness-target/debug/slxh polls"})
        ctx.coverage["copy_loop_poll_cases"] = len(copy_lines)
        ctx.coverage["stage_poll_rates_checked"] = rate_checked
        ctx.coverage.update({"evaluations": evals, "distinct_nontrivial": nontrivial,
                             "programs": len(codes), "intervals": intervals,
                             "stage_in_which_the_stop_landed": dict(stopped_stage),
                             "exhaustive": True,
                             "exhaustive_note": "every poll index 0..total+1 for the small contracts; stratified sample for the large ones"})
    # the composed model of the whole analysis with the watchdog in EVERY stage: end-to-end theorems + stop-at-every-poll
    # correspondence (outcome, stage reached, polls made) + the C13 predicates on the implementation's own output
    import p_pipeline
    p_pipeline.suite(ctx, translate=False, codes={13, 14}, cov_key="whole_pipeline_model",
                     only=r"^(pipeline_never_stop|pipeline_stop_is|pipeline_stops_within|pipeline_tc_plain_or_stop|"
                          r"pipeline_polled_loops|pipeline_unify_wrapper|pipeline_glue|pipeline_rule_order)",
                     part=(0, 2), focus="watchdog")
    return vlib.finish(ctx, rule="(program, interval, stop index k) triples; non-trivial = the watchdog actually answered stop during "
                       "the run (polls made > k)", samples=[c.hex()[:80] for c in (small + big)[:3]])
