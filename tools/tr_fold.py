"""T2: the arms of `constant_folder` in src/vm/value/mod.rs  ->  coq/gen/FoldTable.v

For every arm the table records, in terms of the *declared* child positions of the matched constructor:
which operands are scrutinised with `as_word()` (and whether each was folded recursively first), which
KnownWord operation is applied to which of them in which order, and which constructor the fallback
arm rebuilds from which operands.  Nothing is assumed: a fallback that names another constructor, swaps
two fields, or uses an operand that was not folded is written into the table as it is, and the
theorems about the table then fail.  Text that does not have the expected shape is a problem (strict)."""
import os
import re

from translate import HEADER, match_brace, norm, read, write_if_changed
from tr_knownword import ARITY, norm2
from tr_valuesig import parse_enum

BINOPS = {"+": "add", "-": "sub", "*": "mul", "/": "div", "%": "rem", "&": "bitand", "|": "bitor", "^": "bitxor",
          "<<": "shl", ">>": "shr"}
METHOD_OPS = {"signed_div", "signed_rem", "exp", "lt", "gt", "signed_lt", "signed_gt", "eq", "is_zero", "sar",
              "add", "sub", "mul", "div", "rem", "bitand", "bitor", "bitxor", "not", "shl", "shr"}


def split_top(s, sep=","):
    parts, depth, cur = [], 0, ""
    for c in s:
        if c in "({[":
            depth += 1
        elif c in ")}]":
            depth -= 1
        if c == sep and depth == 0:
            parts.append(cur)
            cur = ""
        else:
            cur += c
    if cur.strip():
        parts.append(cur)
    return [p.strip() for p in parts]


def parse_fields(text):
    """`a, b: c` -> [(field, local)]"""
    out = []
    for p in split_top(text):
        if not p:
            continue
        m = re.fullmatch(r"(\w+)(?::(\w+))?", p)
        if not m:
            return None
        out.append((m.group(1), m.group(2) or m.group(1)))
    return out


def parse_expr(e, pvars):
    """folding expression over the pattern variables -> (op, [indices into the scrutinee tuple])"""
    v = "|".join(map(re.escape, pvars))
    m = re.fullmatch(r"(%s)(<<|>>|[-+*/%%&|^])(%s)" % (v, v), e)
    if m:
        return BINOPS[m.group(2)], [pvars.index(m.group(1)), pvars.index(m.group(3))]
    m = re.fullmatch(r"!(%s)" % v, e)
    if m:
        return "not", [pvars.index(m.group(1))]
    m = re.fullmatch(r"(%s)\.(\w+)\((%s)?\)" % (v, v), e)
    if m and m.group(2) in METHOD_OPS:
        ix = [pvars.index(m.group(1))] + ([pvars.index(m.group(3))] if m.group(3) else [])
        return m.group(2), ix
    m = re.fullmatch(r"KnownWord::from\((%s)==(%s)\)" % (v, v), e)
    if m:
        return "from_eq", [pvars.index(m.group(1)), pvars.index(m.group(2))]
    return None


def t2_fold(repo, out, consts):
    problems = []
    src = read(repo, "src/vm/value/mod.rs")
    variants = dict(parse_enum(src))
    # SVD::new_known
    m = re.search(r"pub fn new_known\(value:\s*KnownWord\)\s*->\s*Self\s*\{", src)
    if not m or norm2(src[m.end():match_brace(src, m.end() - 1) - 1]) not in ("Self::KnownData{value}", "SymbolicValueData::KnownData{value}", "SVD::KnownData{value}"):
        problems.append("SVD::new_known not recognised")
    # SymbolicValue::as_word
    m = re.search(r"pub fn as_word\(&self\)\s*->\s*Option<KnownWord>\s*\{", src)
    if not m or norm2(src[m.end():match_brace(src, m.end() - 1) - 1]) != \
            "match&self.data{SymbolicValueData::KnownData{value}=>Some(*value),_=>None}":
        problems.append("SymbolicValue::as_word not recognised")
    # SymbolicValue::transform_data applies SymbolicValueData::transform to the payload
    m = re.search(r"pub fn transform_data\(", src)
    ok = False
    if m:
        b = src.index("{", src.index("->", m.end()))
        body = norm2(src[b + 1:match_brace(src, b) - 1])
        ok = body.startswith("let data=self.data.transform(transform);")
    if not ok:
        problems.append("SymbolicValue::transform_data not recognised")
    # constant_fold = self.clone().transform(constant_folder)
    m = re.search(r"pub fn constant_fold\(&self\)\s*->\s*Self\s*\{", src)
    if not m:
        problems.append("SymbolicValueData::constant_fold not found")
        return problems, {}
    e = match_brace(src, m.end() - 1)
    cf = src[m.end():e - 1]
    fm = re.search(r"fn constant_folder<AuxData>\(data:\s*&SVD<AuxData>\)\s*->\s*Option<SVD<AuxData>>\s*where\s*AuxData:\s*Clone \+ PartialEq,?\s*\{", cf)
    if not fm:
        problems.append("fn constant_folder signature not recognised")
        return problems, {}
    fe = match_brace(cf, fm.end() - 1)
    folder = cf[fm.end():fe - 1]
    rest = norm2(re.sub(r"#\[[^\]]*\]", "", cf[:fm.start()] + cf[fe:]))
    if rest != "self.clone().transform(constant_folder)":
        problems.append("constant_fold body around constant_folder not recognised: %r" % rest)
    mm = re.fullmatch(r"\s*match data\.clone\(\)\s*\{(.*)\}\s*", folder, flags=re.S)
    if not mm:
        problems.append("constant_folder is not a single `match data.clone()`")
        return problems, {}
    arms_src = mm.group(1)
    rows = []
    default_none = False
    i, n = 0, len(arms_src)
    pat = re.compile(r"\s*(?:SVD|Self|SymbolicValueData)::(\w+)\s*\{([^}]*)\}\s*=>\s*\{")
    while i < n:
        if not arms_src[i:].strip():
            break
        dm = re.compile(r"\s*_\s*=>\s*None\s*,?\s*").match(arms_src, i)
        if dm:
            default_none = True
            i = dm.end()
            if arms_src[i:].strip():
                problems.append("arms after the default arm")
            break
        m = pat.match(arms_src, i)
        if not m:
            problems.append("unparsed arm text: %r" % norm2(arms_src[i:i + 80]))
            break
        ctor = m.group(1)
        e = match_brace(arms_src, m.end() - 1)
        body = norm2(arms_src[m.end():e - 1])
        i = e
        cm = re.compile(r"\s*,").match(arms_src, i)
        if cm:
            i = cm.end()
        if ctor not in variants:
            problems.append("arm for unknown constructor %s" % ctor)
            continue
        decl = variants[ctor]
        if any(re.sub(r"\s+", "", ty) != "BoxedVal<AuxData>" for _, ty in decl):
            problems.append("%s: a field is not a single child value" % ctor)
            continue
        dnames = [f for f, _ in decl]
        binds = parse_fields(m.group(2))
        if binds is None or sorted(f for f, _ in binds) != sorted(dnames):
            problems.append("%s: pattern does not bind exactly the declared fields: %r" % (ctor, m.group(2)))
            continue
        env = {loc: (dnames.index(f), False) for f, loc in binds}   # local -> (declared position, folded?)
        # let x = y.transform_data(constant_folder);
        pos = 0
        bad = False
        while True:
            lm = re.compile(r"let (\w+)=(\w+)\.transform_data\(constant_folder\);").match(body, pos)
            if not lm:
                break
            x, y = lm.group(1), lm.group(2)
            if y not in env or env[y][1]:
                problems.append("%s: `let %s = %s.transform_data(..)` on an unknown or already folded local" % (ctor, x, y))
                bad = True
                break
            src_pos = env[y][0]
            env[x] = (src_pos, True)
            pos = lm.end()
        if bad:
            continue
        tail = body[pos:]
        tm = re.fullmatch(r"Some\(match(.*?)\{(.*)\}\)", tail)
        if not tm:
            problems.append("%s: arm tail not recognised: %s" % (ctor, tail))
            continue
        scrut_txt, alts = tm.group(1).strip(), tm.group(2)
        sm = re.fullmatch(r"\((.*)\)", scrut_txt)
        scrut_items = split_top(sm.group(1)) if sm else [scrut_txt]
        scrut = []
        for it in scrut_items:
            im = re.fullmatch(r"(\w+)\.as_word\(\)", it)
            if not im or im.group(1) not in env:
                problems.append("%s: scrutinee item not recognised: %s" % (ctor, it))
                bad = True
                break
            scrut.append(env[im.group(1)])
        if bad:
            continue
        alts_l = split_top(alts)
        if len(alts_l) != 2:
            problems.append("%s: expected two match alternatives, got %r" % (ctor, alts_l))
            continue
        am = re.fullmatch(r"(.*?)=>SVD::new_known\((.*)\)", alts_l[0])
        if not am:
            problems.append("%s: constant alternative not recognised: %s" % (ctor, alts_l[0]))
            continue
        ptxt = am.group(1)
        pm = re.fullmatch(r"\((.*)\)", ptxt)
        pitems = split_top(pm.group(1)) if pm else [ptxt]
        pvars = []
        for it in pitems:
            vm = re.fullmatch(r"Some\((\w+)\)", it)
            if not vm:
                problems.append("%s: pattern item not recognised: %s" % (ctor, it))
                bad = True
                break
            pvars.append(vm.group(1))
        if bad or len(pvars) != len(scrut) or len(set(pvars)) != len(pvars):
            problems.append("%s: pattern / scrutinee mismatch" % ctor)
            continue
        pe = parse_expr(am.group(2), pvars)
        if pe is None:
            problems.append("%s: folding expression not recognised: %s" % (ctor, am.group(2)))
            continue
        op, operands = pe
        if ARITY.get(op) != len(operands):
            problems.append("%s: %s applied to %d operands" % (ctor, op, len(operands)))
            continue
        fm2 = re.fullmatch(r"_=>(?:SVD|Self|SymbolicValueData)::(\w+)\{(.*)\}", alts_l[1])
        if not fm2 or fm2.group(1) not in variants:
            problems.append("%s: fallback alternative not recognised: %s" % (ctor, alts_l[1]))
            continue
        fctor = fm2.group(1)
        fdecl = [f for f, _ in variants[fctor]]
        if any(re.sub(r"\s+", "", ty) != "BoxedVal<AuxData>" for _, ty in variants[fctor]):
            problems.append("%s: fallback constructor %s has non-child fields" % (ctor, fctor))
            continue
        ff = parse_fields(fm2.group(2))
        if ff is None or sorted(f for f, _ in ff) != sorted(fdecl) or any(loc not in env for _, loc in ff):
            problems.append("%s: fallback fields not recognised: %s" % (ctor, fm2.group(2)))
            continue
        fmap = dict(ff)
        fb = [env[fmap[f]] for f in fdecl]
        rows.append((ctor, len(dnames), scrut, op, operands, fctor, fb))
    if not default_none:
        problems.append("default arm `_ => None` not found")

    def uses(l):
        return "[" + "; ".join("(%d%%nat, %s)" % (p, "true" if f else "false") for p, f in l) + "]"

    s = HEADER + "From SLX Require Import Base gen.ValueSig gen.KnownWordSel.\n\n"
    s += "(* One row per arm of `constant_folder`, in source order.  Operands are named by their position among the\n"
    s += "   DECLARED fields of the matched constructor; `(p, true)` = operand p after `transform_data(constant_folder)`,\n"
    s += "   `(p, false)` = operand p as matched.\n"
    s += "   fa_scrut    : the operands whose `as_word()` is scrutinised, in tuple order\n"
    s += "   fa_op       : the KnownWord operation of the all-constant alternative\n"
    s += "   fa_operands : receiver, then argument, as indices into fa_scrut\n"
    s += "   fa_fallback : the constructor rebuilt by the `_ =>` alternative, fa_fb: the operand supplying each of ITS\n"
    s += "                 declared fields, in its declaration order *)\n"
    s += "Record fold_arm := mk_arm {\n  fa_tag : tag; fa_arity : nat; fa_scrut : list (nat * bool); fa_op : kwop;\n"
    s += "  fa_operands : list nat; fa_fallback : tag; fa_fb : list (nat * bool) }.\n\n"
    s += "Definition fold_table : list fold_arm := [\n"
    s += ";\n".join("  mk_arm T_%s %d %s K_%s [%s] T_%s %s" % (
        c, ar, uses(sc), op, "; ".join("%d%%nat" % x for x in opnds), fc, uses(fb))
        for c, ar, sc, op, opnds, fc, fb in rows)
    s += "\n].\n\n(* every other constructor: `_ => None` *)\nDefinition fold_default_is_none : bool := %s.\n" % (
        "true" if default_none else "false")
    write_if_changed(os.path.join(out, "FoldTable.v"), s)
    return problems, {"arms": len(rows), "ops": {c: op for c, _, _, op, _, _, _ in rows}}


steps = [("T2-fold-table", t2_fold)]
