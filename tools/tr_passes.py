"""T8 (passes): the table-like parts of the slot-related lifting passes  ->  coq/gen/PassOrder.v

Re-read on every run (strict, whitespace/comment-normalised):
  * the default pass order of `impl Default for LiftingPasses` (src/tc/lift/mod.rs), all nine passes;
  * `SLOT_COUNT`, the argument `StorageSlotHashes::new` hands to `make_hashes`, the range and the pre-image
    encoding of `make_hashes` (src/tc/lift/recognise_hashed_slots.rs);
  * the constants of proxy_slots.rs (printable-ASCII bounds, the minimum number of words of an ABI-encoded
    string, the positions of pointer / length / data, the pointer constant's name);
  * the pattern shapes the model relies on where they are single expressions: the `[key, slot]` slice pattern of
    mapping_index.rs, the one-element Concat arm and the `index: right` field of dynamic_array_access.rs,
    the constructors guarded by the two guards and handled by storage_slots.rs, the or-pattern and the
    `value.into()` projection of mapping_offset.rs.
The bodies of the six `impl Lift for X` blocks are additionally pinned as a whole (normalised text hash): a change
anywhere in them breaks the translation obligation and says which pass has to be re-read against coq/PassesSlots.v."""
import hashlib
import os
import re

from translate import HEADER, match_brace, norm, parse_int, read, write_if_changed

LIFT = "src/tc/lift/"

# struct name -> (module file, pass_id constructor)
PASSES = {
    "StorageSlotHashes": ("recognise_hashed_slots.rs", "P_StorageSlotHashes"),
    "ProxySlots": ("proxy_slots.rs", "P_ProxySlots"),
    "MappingIndex": ("mapping_index.rs", "P_MappingIndex"),
    "SubWordValue": ("sub_word.rs", "P_SubWordValue"),
    "MulShiftedValue": ("mul_shifted.rs", "P_MulShiftedValue"),
    "PackedEncoding": ("packed_encoding.rs", "P_PackedEncoding"),
    "DynamicArrayIndex": ("dynamic_array_access.rs", "P_DynamicArrayIndex"),
    "StorageSlots": ("storage_slots.rs", "P_StorageSlots"),
    "MappingOffset": ("mapping_offset.rs", "P_MappingOffset"),
}
SIX = ["StorageSlotHashes", "ProxySlots", "MappingIndex", "DynamicArrayIndex", "StorageSlots", "MappingOffset"]

# sha256 of the normalised `impl Lift for X {..}` block the hand-written model was read from
PINNED = {
    "StorageSlotHashes": "f867739eda96b3df",
    "ProxySlots": "956c160a9fe8fb3c",
    "MappingIndex": "1e556a2d0dd501a6",
    "DynamicArrayIndex": "884fac744165ba8e",
    "StorageSlots": "a72941572ecec669",
    "MappingOffset": "fde567a83febb341",
}
# helper functions of ProxySlots outside the `impl Lift` block that the model mirrors
PINNED_FNS = {
    "sha3_known_words": "83c43d2d41c191eb",
    "is_likely_string": "050a870d0e274a93",
    "has_correct_number_of_bytes": "8e9a195c38ce2731",
    "strip_trailing_nuls": "4754d15436865abc",
    "make_hashes": "9e41216b22cfe677",
}


def non_test(src):
    i = src.find("#[cfg(test)]")
    return src if i < 0 else src[:i]


def impl_block(src, name):
    m = re.search(r"impl Lift for %s\s*\{" % name, src)
    if not m:
        return None
    return src[m.start():match_brace(src, m.end() - 1)]


def fn_block(src, name):
    m = re.search(r"fn %s\s*(?:<[^>]*>)?\s*\(" % name, src)
    if not m:
        return None
    b = src.find("{", m.end())
    return src[m.start():match_brace(src, b)]


def digest(text):
    return hashlib.sha256(norm(text).encode()).hexdigest()[:16]


def arms(fn_text):
    """constructors of the `RSVD::X {` arms of the first `match data {` of a function, in order"""
    m = re.search(r"match data\s*\{", fn_text)
    if not m:
        return None
    body = fn_text[m.end():match_brace(fn_text, m.end() - 1) - 1]
    out = []
    depth = 0
    i = 0
    while i < len(body):
        c = body[i]
        if c in "({[":
            depth += 1
        elif c in ")}]":
            depth -= 1
        elif depth == 0:
            mm = re.match(r"RSVD::(\w+)\s*\{[^}]*\}\s*=>", body[i:])
            if mm:
                out.append(mm.group(1))
                i += mm.end() - 1
                continue
        i += 1
    return out


def step_passes(repo, out, consts):
    problems = []
    info = {}
    # ---- default order
    mod = read(repo, LIFT + "mod.rs")
    m = re.search(r"impl Default for LiftingPasses\s*\{", mod)
    order = []
    if not m:
        problems.append("mod.rs: `impl Default for LiftingPasses` not found")
    else:
        blk = norm(mod[m.start():match_brace(mod, m.end() - 1)])
        mm = re.fullmatch(r"impl Default for LiftingPasses\{fn default\(\)->Self\{Self\{passes:vec!\[(.*)\]\}\}\}", blk)
        if not mm:
            problems.append("mod.rs: default() is not `Self { passes: vec![..] }`: " + blk[:200])
        else:
            for item in mm.group(1).split(","):
                im = re.fullmatch(r"(\w+)::new\(\)", item)
                if not im or im.group(1) not in PASSES:
                    problems.append("mod.rs: unrecognised pass in default(): %r" % item)
                else:
                    order.append(im.group(1))
    # run(): passes applied in list order, the value threaded through
    rm = re.search(r"pub fn run\s*\(", mod)
    if rm:
        rb = norm(mod[rm.start():match_brace(mod, mod.find("{", rm.end()))])
        if "for pass in&mut self.passes{value=pass.run(value,state)?;}Ok(value)" not in rb:
            problems.append("mod.rs: LiftingPasses::run is not the in-order fold: " + rb[-160:])
    else:
        problems.append("mod.rs: LiftingPasses::run not found")
    info["order"] = order

    # ---- recognise_hashed_slots
    hs = non_test(read(repo, LIFT + "recognise_hashed_slots.rs"))
    m = re.search(r"pub const SLOT_COUNT\s*:\s*usize\s*=\s*([0-9_xa-fA-F]+)\s*;", hs)
    slot_count = None
    if not m:
        problems.append("recognise_hashed_slots.rs: SLOT_COUNT literal not found")
    else:
        slot_count = parse_int(m.group(1))
    nh = norm(hs)
    if "pub fn new()->Box<Self>{let hashes=Arc::new(RwLock::new(Self::make_hashes(SLOT_COUNT)));Self::new_with_hashes(hashes)}" not in nh:
        problems.append("recognise_hashed_slots.rs: new() does not build make_hashes(SLOT_COUNT)")
    for need, what in (("for slot_ix in 0..count{", "range 0..count"),
                       ("hasher.update(U256::from(slot_ix as u64).to_be_bytes());", "pre-image = 32 big-endian bytes of the index"),
                       ("let key=U256::from_be_bytes(", "hash read big-endian"),
                       ("data.insert(key,slot_ix);", "BiMap insert hash -> index"),
                       ("hashes.get_by_left(&known_value.value_le())", "lookup by hash"),
                       ("KnownWord::from(*slot_index)", "pre-image constant"),
                       ("Some(RSVD::Sha3{data})", "result is Sha3 of the pre-image")):
        if need not in nh:
            problems.append("recognise_hashed_slots.rs: expected `%s` (%s)" % (need, what))

    # ---- proxy_slots constants
    px = non_test(read(repo, LIFT + "proxy_slots.rs"))
    np_ = norm(px)
    lo = hi = minw = None
    m = re.search(r"stripped\.iter\(\)\.all\(\|byte\|byte>&(0x[0-9a-fA-F]+|\d+)&&byte<&(0x[0-9a-fA-F]+|\d+)\)&&msb_non_zero", np_)
    if not m:
        problems.append("proxy_slots.rs: printable-ASCII test not recognised")
    else:
        lo, hi = parse_int(m.group(1)), parse_int(m.group(2))
    m = re.search(r"if words\.len\(\)>=(\d+)&&words\[(\d+)\]==KnownWord::from\((\w+)\)\{let length=words\[(\d+)\];let string_data=&words\[(\d+)\.\.\];", np_)
    ptr_ix = len_ix = data_ix = None
    if not m:
        problems.append("proxy_slots.rs: ABI string encoding test not recognised")
    else:
        minw, ptr_ix, ptr_name, len_ix, data_ix = int(m.group(1)), int(m.group(2)), m.group(3), int(m.group(4)), int(m.group(5))
        if ptr_name != "SOLIDITY_STRING_POINTER":
            problems.append("proxy_slots.rs: pointer constant is %s" % ptr_name)
    for need, what in (("matches!(first.bytes_be().first(),Some(first_byte)if first_byte!=&0)", "first byte non-zero"),
                       (".rev().skip_while(|byte|byte==&0x0)", "trailing NUL stripping"),
                       ("KnownWord::from(stripped.len())==expected_len", "length comparison"),
                       ("hasher.update(word.bytes_be());", "hash of the big-endian words"),
                       ("if words.len()!=values.len(){return None;}", "all operands constant"),
                       ("if!ProxySlots::has_correct_number_of_bytes(string_data,length)||!ProxySlots::is_likely_string(string_data){return None;}", "encoded string test"),
                       ("}else if!ProxySlots::is_likely_string(words.as_slice()){return None;}", "plain string test"),
                       ("if matches!(constant_folded,RSVD::KnownData{..}){Some(constant_folded)}else{None}", "hash + constant must fold")):
        if need not in np_:
            problems.append("proxy_slots.rs: expected `%s` (%s)" % (need, what))

    # ---- mapping_index
    mi = non_test(read(repo, LIFT + "mapping_index.rs"))
    nmi = norm(mi)
    m = re.search(r"let\[([\w,]+)\]=&values\[\.\.\]else\{return None;\};", nmi)
    concat_arity = None
    if not m:
        problems.append("mapping_index.rs: slice pattern over the Concat operands not recognised")
    else:
        names = m.group(1).split(",")
        concat_arity = len(names)
        if names != ["key", "slot"]:
            problems.append("mapping_index.rs: Concat operands are %r, expected [key, slot]" % names)
    if "Some(RSVD::MappingIndex{key:key.clone().transform_data(insert_mapping_accesses),slot:slot.clone().transform_data(insert_mapping_accesses),projection:None})" not in nmi:
        problems.append("mapping_index.rs: result constructor not recognised")
    g_mi = arms(fn_block(mi, "guard_mapping_accesses") or "")
    # ---- dynamic_array_access
    da = non_test(read(repo, LIFT + "dynamic_array_access.rs"))
    nda = norm(da)
    m = re.search(r"RSVD::Concat\{values\}if values\.len\(\)==(\d+)=>values\[(\d+)\]\.constant_fold\(\),RSVD::Concat\{\.\.\}=>return None,_=>data", nda)
    da_len = None
    if not m:
        problems.append("dynamic_array_access.rs: Concat arm not recognised")
    else:
        da_len = int(m.group(1))
        if int(m.group(2)) != 0:
            problems.append("dynamic_array_access.rs: Concat operand %s is used" % m.group(2))
    m = re.search(r"RSVD::DynamicArrayIndex\{slot:data\.transform_data\(lift_dyn_array_accesses\),index:(\w+)\.clone\(\)\.transform_data\(lift_dyn_array_accesses\)\}", nda)
    da_index = None
    if not m:
        problems.append("dynamic_array_access.rs: result constructor not recognised")
    else:
        da_index = m.group(1)
    if "let data=if let RSVD::Sha3{data}=left.data(){data}else if let RSVD::Sha3{data}=right.data(){data}else{return None;}.clone();" not in nda:
        problems.append("dynamic_array_access.rs: hash operand selection not recognised")
    g_da = arms(fn_block(da, "guard_dyn_array_accesses") or "")
    # ---- storage_slots
    ss = non_test(read(repo, LIFT + "storage_slots.rs"))
    a_ss = arms(fn_block(ss, "insert_storage_accesses") or "")
    # ---- mapping_offset
    mo = non_test(read(repo, LIFT + "mapping_offset.rs"))
    nmo = norm(mo)
    if ("let(key,slot,offset)=match(left.data(),right.data()){(RSVD::MappingIndex{key,slot,..},RSVD::KnownData{value})"
            "|(RSVD::KnownData{value},RSVD::MappingIndex{key,slot,..})=>{(key,slot,value.into())}_=>return None};") not in nmo:
        problems.append("mapping_offset.rs: operand pattern not recognised")
    if "projection:Some(offset)" not in nmo:
        problems.append("mapping_offset.rs: projection field not recognised")
    kn = norm(read(repo, "src/vm/value/known.rs"))
    if "impl From<&KnownWord>for usize{fn from(value:&KnownWord)->Self{value.value.as_usize()}}" not in kn:
        problems.append("known.rs: `From<&KnownWord> for usize` is not as_usize() (truncation)")

    for nm, lst in (("mapping guard", g_mi), ("dyn-array guard", g_da), ("storage_slots", a_ss)):
        if lst is None:
            problems.append("%s: `match data` not found" % nm)

    # ---- whole-body pins
    pins = {}
    for name in SIX:
        src = non_test(read(repo, LIFT + PASSES[name][0]))
        blk = impl_block(src, name)
        if blk is None:
            problems.append("%s: impl Lift block not found" % name)
            continue
        pins[name] = digest(blk)
        if PINNED[name] != pins[name]:
            problems.append("%s: `impl Lift for %s` differs from the text the model was read from (%s, pinned %s): "
                            "re-read coq/PassesSlots.v against it" % (PASSES[name][0], name, pins[name], PINNED[name]))
    for fn, want in PINNED_FNS.items():
        src = hs if fn == "make_hashes" else px
        blk = fn_block(src, fn)
        if blk is None:
            problems.append("helper %s not found" % fn)
            continue
        pins[fn] = digest(blk)
        if want != pins[fn]:
            problems.append("helper `%s` differs from the text the model was read from (%s, pinned %s)" % (fn, pins[fn], want))
    info["pins"] = pins

    # ---- output
    ids = [PASSES[k][1] for k in PASSES]
    s = HEADER + "From Coq Require Import List NArith String.\nFrom SLX Require Import gen.ValueSig.\nImport ListNotations.\nOpen Scope N_scope.\n\n"
    s += "(* one constructor per lifting pass struct of src/tc/lift *)\nInductive pass_id :=\n" + "\n".join("| %s" % i for i in ids) + ".\n\n"
    s += "Definition pass_idx (p : pass_id) : N :=\n  match p with\n" + "\n".join("  | %s => %d" % (c, i) for i, c in enumerate(ids)) + "\n  end.\n"
    s += "Definition pass_name (p : pass_id) : string :=\n  match p with\n" + "\n".join(
        '  | %s => "%s"%%string' % (PASSES[k][1], k) for k in PASSES) + "\n  end.\n\n"
    s += "(* `impl Default for LiftingPasses`, in order *)\n"
    s += "Definition default_pass_order : list pass_id := [" + "; ".join(PASSES[k][1] for k in order) + "].\n\n"
    s += "Definition SLOT_COUNT : N := %d.\n" % (slot_count if slot_count is not None else 0)
    s += "(* proxy_slots.rs: a byte b is printable iff ascii_lo < b < ascii_hi *)\n"
    s += "Definition proxy_ascii_lo : N := %d.\nDefinition proxy_ascii_hi : N := %d.\n" % (lo or 0, hi or 0)
    s += "Definition proxy_abi_min_words : nat := %d.\nDefinition proxy_abi_pointer_ix : nat := %d.\n" % (minw or 0, ptr_ix or 0)
    s += "Definition proxy_abi_length_ix : nat := %d.\nDefinition proxy_abi_data_ix : nat := %d.\n" % (len_ix or 0, data_ix or 0)
    s += "(* mapping_index.rs: number of Concat operands of the recognised pattern *)\n"
    s += "Definition mapping_concat_arity : nat := %d.\n" % (concat_arity or 0)
    s += "(* dynamic_array_access.rs: Concat length that is unwrapped and folded; the operand that becomes `index` *)\n"
    s += "Definition dyn_concat_len : nat := %d.\n" % (da_len or 0)
    s += 'Definition dyn_index_operand : string := "%s"%%string.\n' % (da_index or "")

    def tags(l):
        return "[" + "; ".join("T_" + x for x in (l or [])) + "]"
    s += "(* constructors matched by the guards / by insert_storage_accesses, in source order *)\n"
    s += "Definition mapping_guard_tags : list tag := %s.\n" % tags(g_mi)
    s += "Definition dyn_guard_tags : list tag := %s.\n" % tags(g_da)
    s += "Definition storage_slots_tags : list tag := %s.\n" % tags(a_ss)
    write_if_changed(os.path.join(out, "PassOrder.v"), s)
    info.update({"slot_count": slot_count, "ascii": (lo, hi), "guards": (g_mi, g_da, a_ss)})
    return problems, info


steps = [("T8-lifting-passes", step_passes)]
