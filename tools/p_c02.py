"""C02 -- determinism: the same bytecode and configuration always give the same layout."""
import collections
import json
import re

import gen
import layoutlib as L
import vlib

MANIFEST = {
    "text": "Every program is analysed under natural hash orders (several runs, fresh hash seeds) and under FORCED iteration orders of "
            "the order-sensitive collections of the real code (hook H1: reversed, sorted, sorted-reversed, seeded permutations at the "
            "value collection from storage and memory, the type-variable table, the rule set and every set folded or iterated during "
            "unification); all results must be equal (same success class, same entries in the same order; conflict payloads aside). "
            "An observed order dependence is classified INSIDE Coq from the judgement set that reaches unification: if some class "
            "(closure of declared and component equalities) carries three pieces of evidence in merge's known non-associativity class "
            "(K1/K2, proved tight in C16) it is the known finding, anything else is a violation. Theorems available: merge is "
            "commutative for all expressions; all six fold orders of three pieces of domain evidence agree outside the known class. "
            "At the unification stage order independence is PROVED on a decidable fragment of judgement sets (props/C02_unify.v, model "
            "coq/Unify.v, fragment coq/UnifyOrder.v): C02_unify_order_independent_words (only equalities, words and Any) and "
            "C02_unify_order_independent (`order_free`: no packed encodings and every class of the statically computed congruence "
            "closure is homogeneous -- words with words, mappings with mappings, fixed arrays of one length, dynamic arrays with "
            "dynamic arrays) state that for ANY two permutations of every iterated hash collection both runs return, the classes "
            "are exactly the congruence closure under both, and every variable's type is the same up to class representatives and "
            "conflict payload (also through type_of); C02_unify_order_dependent_refuted exhibits, just outside the fragment, one "
            "judgement set per known class (K1, Packed x Word, C16's K2, dynamic bytes) on which Sorted and SortedReversed differ. "
            "The C14 check evaluates the fragment predicate on every generated judgement set and compares the implementation under "
            "both orders inside it. END TO END (props/C02_pipeline.v, composed model coq/Pipeline.v split after inference, vocabulary "
            "coq/PipelineOrderDefs.v): on the decidable fragment `order_fragment` = order_free + `seen_safe` (two constructed types "
            "whose components lie pairwise in one class are in one class -- abi_type_for_impl's never-popped `seen` set of type "
            "EXPRESSIONS otherwise reports InfiniteType depending on which evidence item the fold made the class's type) + `wf_b` "
            "(only allocated variables named, an entry for every allocated variable), pipeline_back_order_independent / "
            "pipeline_order_independent state that unification under ANY two hook records followed by the layout loop over ANY two "
            "permutations of the values returns the same rows (equal lists when no two different rows share a (slot, offset) key, "
            "equal multisets of key-sorted rows in general) or fails in both runs, for every program, hash function, table and fuel "
            "(rounds >= |vars| + 2); pipeline_unify_order_independent gives equal lists and equal failure kinds when only the "
            "unifier's orders differ; pipeline_order_dependent_refuted exhibits a judgement set INSIDE order_free but outside "
            "seen_safe (a mapping reported with an InfiniteType value under Sorted only) and C16's K1 as the type of a slot. Stage "
            "lemmas: unify_data_total (every registered variable's class has a data entry after unify) and "
            "abi_type_for_respects_classes. The check evaluates `order_fragment` inside Coq on the judgement set of EVERY program "
            "(completed with the empty entries the dump omits) and reports an order dependence observed inside the fragment under its "
            "own code C02:fragment. At the registration and rule stages order independence is PROVED for all inputs "
            "(props/C02_register.v): register_order (registering a permutation of the value list gives the same typed trees, "
            "expression table and counter up to a bijective renaming of the type variables), infer_order (that renaming, extended to "
            "the variables the mapping rule allocates, commutes with the 16 rules: judgement sets correspond variable by variable) and "
            "infer_rule_order_independent (any permutation of the rule set gives the same counter, table and judgement sets, no "
            "renaming needed: only one rule allocates, none reads the inference sets); both are also evaluated on the real "
            "register / InferenceRules::infer with permuted value lists and with the rule set walked sorted, reversed, seeded and in "
            "its own hash order (TcCases.check_order, check_rules_perm, check_rule_order). The stage theorems are COMPOSED across the "
            "renaming in props/C02_e2e.v (proofs/PipelineRename.v, PipelineE2E.v): pipeline_value_and_rule_order_independent -- for "
            "ANY permutation of the lifted values handed to assign_vars, any two permutations of the rule set, any two hook records "
            "and slot orders of the back half, if the judgement set of ONE run lies in order_fragment (and rounds >= |vars| + 2) the "
            "two runs return the same rows or both fail, and the other run's judgement set lies in the fragment too (order_fragment "
            "is invariant under a bijective renaming of the type variables; the back half is invariant under it because its result "
            "on the fragment is characterised by the congruence closure, which commutes with the renaming; abi_type_for on the "
            "renamed class table returns the same AbiType); pipeline_collection_order_independent adds the lifting (a permuted "
            "collection of values, every keccak / table), pipeline_sorted_vs_mode compares Pipeline.analyze_plain under MSorted with "
            "a run whose collection, rule, unification and layout orders follow any mode. Not proved: the visiting order of the "
            "values INSIDE infer (the registration theorems cover infer_all = registration order; another order renames the mapping "
            "rule's fresh variables), and order independence up to renaming of fresh variables for packed encodings outside the known "
            "classes (partial).",
    "note": "Trusted: Coq kernel; hooks H1/H2 (guarded, add-only); harness. Natural-order nondeterminism is sampled, forced orders are "
            "deterministic and replayable.",
    "technique": "forced-iteration-order differential search on the real code (hook H1) + Coq classification of order dependences by "
                 "the proved-tight known class; Coq theorems on merge (commutativity, 3-fold order independence outside the class) "
                 "and on unification (order independence on the order-free fragment: unify computes the congruence closure)",
}

ORDERS = ["natural", "natural", "reversed", "sorted", "sortedrev", "seed:1", "seed:2", "seed:3"]


def norm(l):
    m = re.match(r"XA (\d+) (\[.*\]) (\[.*\]) \d+ ", l)
    if not m:
        return l
    return (m.group(1), m.group(2), re.sub(r'"[^"]*"', '""', m.group(3)) if m.group(1) != "1" else sorted(re.findall(r"\((\d+),(\d+),", m.group(3))))


def check(ctx):
    vlib.translate(ctx)
    vlib.prove(ctx, "props/C02.v", ["OrderCases.vo", "OrderUnifyCases.vo"])
    vlib.prove(ctx, "props/C02_unify.v")   # the unification stage: order independence on the order-free fragment
    vlib.prove(ctx, "props/C02_register.v", ["TcCases.vo"])   # registration and rule stages: order of values / of rules
    vlib.prove(ctx, "props/C02_pipeline.v", ["OrderPipelineCases.vo"])   # unify + layout loop on the composed model
    vlib.prove(ctx, "props/C02_e2e.v")   # registration / rule / unification / layout orders composed, on the fragment
    hb = vlib.harness_bin(ctx)
    rng = ctx.rng
    bw = gen.boundary_words()
    progs = collections.OrderedDict()
    try:
        for l in open(vlib.ROOT + "/corpus/C02.txt"):
            l = l.split("#")[0].strip()
            if l:
                progs.setdefault(bytes.fromhex(l.split()[0]), "corpus")
    except FileNotFoundError:
        pass
    n = 250 if ctx.quick else 4000
    for c in gen.evidence_programs(rng, bw, n):
        progs.setdefault(c, "multi-evidence")
    for _ in range(40 if ctx.quick else 600):
        vs = gen.random_vars(rng, rng.randrange(1, 6))
        progs.setdefault(gen.compile_layout(vs, rng), "idioms")
    for c in gen.string_shape_programs(rng, 40 if ctx.quick else 600):
        progs.setdefault(c, "string-shaped-slot")
    for c in gen.recursive_type_programs(rng, 60 if ctx.quick else 1000):
        progs.setdefault(c, "recursive-types")
    for c in gen.loop_programs(rng, bw, 30 if ctx.quick else 400):
        progs.setdefault(c, "loops")
    keys = list(progs.keys())
    if ctx.replay_in:
        keys = [bytes.fromhex(json.load(open(ctx.replay_in))["replay"]["code"])]
    cfg = (30000000, 5, 10, 250, 394, 0)
    if hb:
        results = []
        for o in ORDERS:
            results.append(L.analyze(ctx, hb, keys, cfg=cfg, extra="all " + o, name="analyze:" + o))
        nondet = []
        for i, c in enumerate(keys):
            outs = [norm(r[i]) for r in results]
            if any(o != outs[0] for o in outs[1:]):
                nondet.append(i)
        # the fragment of props/C02_pipeline.v, evaluated inside Coq on the judgement set of every program
        ok, jall, diag = vlib.run_harness_sharded(hb, ["judgements"], [gen.vm_line(c, cfg) + " all sorted" for c in keys])
        ctx.oblige("harness:judgements:fragment", "search", ok, diag)
        with_j = [(i, j) for i, j in enumerate(jall) if j.startswith("[")]
        fheader = ("From Coq Require Import String.\nFrom SLX Require Import Base gen.WordUseTable TypeExpr Merge MergeCases OrderCases "
                   "OrderPipelineCases.\nOpen Scope string_scope. Open Scope N_scope.\n")
        fhits = vlib.run_cases(ctx, "fragment", fheader, [L.hexify("(%s : xjudgements)" % j) for _, j in with_j],
                               per_shard=max(1, len(with_j) // 16 + 1), fn="fragment_code")
        outside = dict((with_j[k][0], code) for k, code in fhits)
        inside_idx = set(i for i, _ in with_j if i not in outside)
        frag_cov = {"judgement_sets": len(with_j), "inside_order_fragment": len(inside_idx),
                    "outside_order_free": sum(1 for c in outside.values() if c == 1),
                    "order_free_but_not_seen_safe": sum(1 for c in outside.values() if c == 2),
                    "not_well_formed": sum(1 for c in outside.values() if c == 3),
                    "no_judgement_set(earlier stage failed)": len(keys) - len(with_j),
                    "inside_with_nonempty_layout": sum(1 for i in inside_idx if results[3][i].count("(AT") >= 1),
                    "inside_and_order_dependent": len([i for i in nondet if i in inside_idx]),
                    "order_free_but_not_seen_safe_and_order_dependent": len([i for i in nondet if outside.get(i) == 2])}
        ctx.log("fragment: %s" % frag_cov)
        # classify the order-dependent programs from their judgement sets
        if nondet:
            lines = [gen.vm_line(keys[i], cfg) + " all" for i in nondet]
            ok, jout, diag = vlib.run_harness_sharded(hb, ["judgements"], lines)
            ctx.oblige("harness:judgements", "search", ok, diag)
            usable = [(i, j) for i, j in zip(nondet, jout) if j.startswith("[")]
            header = ("From Coq Require Import String.\nFrom SLX Require Import Base gen.WordUseTable TypeExpr Merge MergeCases OrderCases OrderUnifyCases.\n"
                      "Open Scope string_scope. Open Scope N_scope.\n")
            hits = vlib.run_cases(ctx, "classify", header, [L.hexify("(%s : xjudgements)" % j) for _, j in usable],
                                  per_shard=max(1, len(usable) // 16 + 1), fn="order_class_code2")
            known_idx = set(usable[k][0] for k, code in hits if code == 1)
            packed_idx = set(usable[k][0] for k, code in hits if code == 2)
            for i in nondet:
                c = keys[i]
                distinct = sorted(set(str(norm(r[i]))[:300] for r in results))
                rep = {"code": c.hex(), "config": list(cfg), "orders": ORDERS, "distinct_results": distinct[:4],
                       "how": "for o in natural reversed sorted sortedrev seed:1; do echo '<code> 30000000 5 10 250 394 0 100 -1 all '$o | "
                              "build/harness-target/debug/slxh analyze; done"}
                if i in inside_idx:
                    ctx.violate("C02:fragment:%s" % c.hex()[:48], "the layout depends on iteration order although the judgement set is INSIDE "
                                "order_fragment (props/C02_pipeline.v): %s" % c.hex()[:160], rep)
                elif i in known_idx:
                    ctx.violate("C02:K1", "order-dependent layout, evidence in merge's known class: %s" % c.hex()[:100], rep)
                elif i in packed_idx:
                    ctx.violate("C02:K-packed", "order-dependent layout, packed evidence on which merge's fold orders disagree: %s" % c.hex()[:100], rep)
                else:
                    ctx.violate("C02:nondet:%s" % c.hex()[:48], "the layout depends on iteration order: %s" % c.hex()[:160], rep)
        multi = len([1 for r in results[0] if r.count("(AT") >= 1])
        ctx.coverage.update({"evaluations": len(keys) * len(ORDERS), "distinct_nontrivial": multi,
                             "programs": len(keys), "orders": ORDERS, "order_dependent_programs": len(nondet),
                             "fragment": frag_cov,
                             "input_classes": dict(collections.Counter(progs.values()))})
    import p_tc_stages as TS
    TS.suite(ctx, translate=False, parts=("order", "rule-order", "rulesperm"),
             codes={"order": {12, 15}, "rule": {11, 12, 16}, "rulesperm": {11, 12, 17}}, cov_key="tc_stages",
             only=r"^(register_order|infer_order|infer_rule_order|rules_equivariant|rules_pure)")
    return vlib.finish(ctx, rule="programs x 8 iteration orders (2 natural runs + 6 forced); non-trivial = the analysis produced a layout "
                       "with at least one entry", samples=[c.hex()[:100] for c in keys[:3]])
