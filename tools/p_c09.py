"""C09 -- constant folding preserves meaning."""
import collections
import json
import os
import re

import gen
import vlib

MANIFEST = {
    "text": "Coq theorems for ALL 256-bit operands and ALL value trees: each of the 21 KnownWord operators used by "
            "constant_fold equals the Yellow-Paper operation (impl_*_eq_spec: x/0, x%0, SDIV MIN/-1, shifts >= 256, "
            "exponents of any size), no operator panics, and constant_fold preserves the denotation of every tree "
            "(fold_sound, non-arithmetic constructors uninterpreted), turns all-constant operators into exactly the "
            "EVM word and otherwise keeps the same operator with the same operands in the same positions (fold_shape), "
            "and is idempotent (fold_idem). The operator terms are selected from the current text of known.rs (T4) and "
            "the arm table is re-read from constant_folder (T2) on every run, so the theorems are re-checked against "
            "the code as it is now. The real KnownWord operators and the real constant_fold are also run on boundary "
            "operand pairs / random trees and the property predicate is evaluated inside Coq on their outputs against "
            "the independent EvmSpec oracle.",
    "note": "Trusted: Coq kernel + vm_compute; translator T2/T4 (regex over constant_folder's arms; dictionary of "
            "recognised operator bodies -> Gallina terms, i.e. the reading of each Rust body as a term over ethnum "
            "primitives is by hand, once per body text); ethnum U256/I256 primitives are modelled, not verified; the "
            "harness and generators bound how well model = code is known (differential run, debug and release builds). "
            "The meaning of a constructor's fields (Subtract left right = left - right, shifts = shift then value) is "
            "fixed by `den_op`; that the VM builds these constructors from the stack in that order belongs to C07.",
    "technique": "Coq proof over translated operator terms and a translated arm table; differential correspondence and "
                 "property evaluation inside Coq against an independent Yellow-Paper specification",
}

M = 2 ** 256
BIN_OPS = ["add", "mul", "sub", "div", "rem", "signed_div", "signed_rem", "exp", "lt", "gt", "signed_lt", "signed_gt",
           "eq", "from_eq", "bitand", "bitor", "bitxor", "shl", "shr", "sar"]
UN_OPS = ["is_zero", "not"]
# the words of the property's boundary set that every operator meets in every combination
CORE = [0, 1, 2, 3, 255, 256, 257, 2 ** 32 - 1, 2 ** 32, 2 ** 32 + 1, 2 ** 64, 2 ** 128, 2 ** 255 - 1, 2 ** 255,
        2 ** 255 + 1, M - 2, M - 1]

# value constructors: tag -> (attrs generator arity, number of children) ; children = -1: variable
FOLD2 = ["Add", "Multiply", "Subtract", "Divide", "SignedDivide", "Modulo", "SignedModulo", "Exp", "LessThan",
         "GreaterThan", "SignedLessThan", "SignedGreaterThan", "Equals", "And", "Or", "Xor", "LeftShift", "RightShift",
         "ArithmeticRightShift"]
FOLD1 = ["IsZero", "Not"]
LEAVES = ["Caller", "CallValue", "CallDataSize", "Address", "Origin", "Gas", "BlockNumber"]
OTHER = {"Sha3": 1, "SLoad": 2, "StorageSlot": 1, "SignExtend": 2, "Balance": 1, "ExtCodeSize": 1, "DynamicArrayIndex": 2,
         "Concat": -1, "CallData": 2, "SubWord": 1, "Shifted": 1, "MappingIndex": 2, "UnwrittenStorageValue": 1}


def word_class(w):
    if w in (0, 1, 2):
        return "tiny"
    if w in (M - 1, M - 2):
        return "minus-one"
    if w == 2 ** 255:
        return "MIN"
    if w < 256:
        return "lt256"
    if w < 2 ** 32:
        return "lt2^32"
    if w >= 2 ** 255:
        return "negative"
    return "big"


def kw_inputs(ctx, pool):
    rng = ctx.rng
    ins = collections.OrderedDict()

    def add(op, a, b, cls):
        ins.setdefault("%s %d %d" % (op, a % M, b % M), cls)

    n_b, n_r = (60, 40) if ctx.quick else (600, 400)
    core9 = [0, 1, 2, 255, 256, 2 ** 32, 2 ** 255 - 1, 2 ** 255, M - 1]
    for op in BIN_OPS:
        for a in CORE:
            for b in CORE:
                add(op, a, b, "core x core")
        for _ in range(n_b):
            add(op, rng.choice(pool), rng.choice(pool), "boundary x boundary")
        for _ in range(n_r):
            k = rng.choice([8, 32, 64, 128, 255, 256])
            a = rng.getrandbits(k)
            b = rng.choice([rng.getrandbits(rng.choice([8, 9, 32, 33, 64, 256])), rng.choice(pool), a, (M - a) % M])
            add(op, a, b, "random")
        if not ctx.quick:
            for a in pool:
                for b in core9:
                    add(op, a, b, "boundary x core")
                    add(op, b, a, "core x boundary")
    for op in ("shl", "shr", "sar"):
        for s in list(range(0, 300)) + [2 ** 32 - 1, 2 ** 32, 2 ** 32 + 255, 2 ** 32 + 256, 2 ** 64 + 1, 2 ** 255, M - 1]:
            for v in (1, M - 1, rng.getrandbits(256)) if ctx.quick else (1, 2 ** 255, M - 1, 2 ** 255 - 1, rng.getrandbits(256)):
                add(op, v, s, "every shift 0..299")
    for e in [0, 1, 2, 255, 256, 257, 2 ** 32 - 1, 2 ** 32, 2 ** 32 + 1, 2 ** 32 + 5, 2 ** 33, 2 ** 64, 2 ** 64 + 3, 2 ** 255, M - 1]:
        for base in (0, 1, 2, 3, 7, 2 ** 128 + 1, M - 1, M - 3, rng.getrandbits(256) | 1):
            add("exp", base, e, "exponent edge")
    for op in UN_OPS:
        for a in pool:
            add(op, a, 0, "boundary")
        for _ in range(n_r):
            add(op, rng.getrandbits(rng.choice([8, 64, 256])), 0, "random")
    return ins


def tree_inputs(ctx, pool):
    rng = ctx.rng
    ins = collections.OrderedDict()
    small = [0, 1, 2, 3, 7, 8, 31, 32, 255, 256, 257]

    def const():
        w = rng.choice([rng.choice(small), rng.choice(CORE), rng.choice(pool), rng.getrandbits(rng.choice([8, 64, 256]))])
        return "(KnownData [0x%x])" % (w % M)

    def leaf():
        if rng.random() < 0.5:
            return "(Value [%d])" % rng.randrange(1, 6)
        return "(%s [])" % rng.choice(LEAVES)

    def tree(d):
        r = rng.random()
        if d == 0 or r < 0.28:
            return const() if rng.random() < 0.7 else leaf()
        if r < 0.36:
            return leaf()
        if r < 0.82:
            if rng.random() < 0.12:
                return "(%s [] %s)" % (rng.choice(FOLD1), tree(d - 1))
            return "(%s [] %s %s)" % (rng.choice(FOLD2), tree(d - 1), tree(d - 1))
        t = rng.choice(sorted(OTHER))
        n = OTHER[t]
        if n < 0:
            n = rng.randrange(0, 4)
        attrs = ""
        if t == "CallData":
            attrs = "%d" % rng.randrange(1, 6)
        elif t == "SubWord":
            attrs = "%d %d" % (rng.randrange(0, 200), rng.randrange(1, 56))
        elif t == "Shifted":
            attrs = "%d" % rng.randrange(0, 256)
        elif t == "MappingIndex":
            attrs = rng.choice(["0", "1 %d" % rng.randrange(0, 4)])
        return "(%s [%s]%s)" % (t, attrs, "".join(" " + tree(d - 1) for _ in range(n)))

    def add(t, cls):
        ins.setdefault(t, cls)

    # every foldable operator with (constant, symbolic), (symbolic, constant), (constant, constant), nested
    for op in FOLD2:
        for _ in range(3 if ctx.quick else 40):
            a, b = const(), const()
            add("(%s [] %s %s)" % (op, a, b), "op(const,const)")
            add("(%s [] %s %s)" % (op, leaf(), b), "op(sym,const)")
            add("(%s [] %s %s)" % (op, a, leaf()), "op(const,sym)")
            add("(%s [] (%s [] %s %s) %s)" % (op, rng.choice(FOLD2), a, b, leaf()), "op(op(const,const),sym)")
            add("(%s [] %s (%s [] %s %s))" % (op, leaf(), rng.choice(FOLD2), a, b), "op(sym,op(const,const))")
            add("(Sha3 [] (%s [] %s %s))" % (op, a, b), "other(op(const,const))")
    for op in FOLD1:
        for _ in range(3 if ctx.quick else 40):
            add("(%s [] %s)" % (op, const()), "op(const)")
            add("(%s [] %s)" % (op, leaf()), "op(sym)")
            add("(%s [] (%s [] %s %s))" % (op, rng.choice(FOLD2), const(), const()), "op(op(const,const))")
    n = 1500 if ctx.quick else 20000
    for _ in range(n):
        d = rng.choice([1, 2, 3, 3, 4, 4])
        add(tree(d), "random depth<=%d" % d)
    if not ctx.quick:
        for _ in range(1500):
            add(tree(6), "random depth<=6")
    return ins


KCODES = {1: "model computes another value than the implementation", 2: "model predicts a panic that did not happen",
          9: "operand out of range (generator)", 10: "folded constant differs from the EVM result", 11: "operator panicked"}
FCODES = {1: "model folds differently from the implementation", 3: "recorded size differs from the node count",
          9: "input tree not well formed (generator)", 10: "folding changed the meaning of the expression",
          11: "constant_fold panicked",
          12: "shape: an operator / operand position changed, or an all-constant operator was not folded to the EVM word",
          13: "constant_fold is not idempotent"}

HDR = ("From Coq Require Import String.\nFrom SLX Require Import Base Word256 gen.ValueSig gen.KnownWordSel SymVal FoldCases.\n"
       "Open Scope N_scope.\n")


def corpus():
    kw, tr = [], []
    try:
        for l in open(vlib.ROOT + "/corpus/C09.txt"):
            l = l.split("#")[0].strip()
            if l.startswith("kw "):
                kw.append(l[3:].strip())
            elif l.startswith("tree "):
                tr.append(l[5:].strip())
    except FileNotFoundError:
        pass
    return kw, tr


def run_suite(ctx, hb, build, cmd, keys, fn, suite, per_shard):
    """runs the harness on keys, evaluates fn on every case in Coq; returns (lines, [(key, code, line)])"""
    rc, out, err = vlib.run_harness(hb, [cmd], "\n".join(keys) + "\n")
    lines = out.strip().split("\n") if out.strip() else []
    ok = rc == 0 and len(lines) == len(keys) and not any(l.startswith("BADINPUT") for l in lines)
    ctx.oblige("harness:%s:%s" % (cmd, build), "correspondence", ok,
               "rc=%s lines=%d/%d badinput=%d %s" % (rc, len(lines), len(keys), len([l for l in lines if l.startswith("BADINPUT")]), err[-300:]))
    if not ok:
        return lines, None
    # coqc reads long decimal literals slowly (quadratic); hexadecimal literals are read in linear time
    terms = [re.sub(r"\b\d{10,}\b", lambda m: hex(int(m.group(0))), l) for l in lines]
    bad = vlib.run_cases(ctx, suite, HDR, terms, per_shard=per_shard, fn=fn, timeout=400)
    return lines, [(keys[i], code, lines[i]) for i, code in bad]


def check(ctx):
    vlib.translate(ctx)
    ctx.log("translated")
    vlib.prove(ctx, "props/C09.v", ["FoldCases.vo", "proofs/PinnedDefects.vo"])
    # the case evaluator only needs the model: build it even when a proof no longer goes through
    rc, out = vlib.coq_make(["FoldCases.vo"])
    ctx.oblige("build:FoldCases.vo", "build", rc == 0, out[-1500:])
    ctx.log("proved")
    pool = gen.boundary_words()
    ckw, ctr = corpus()
    kw = collections.OrderedDict((k, "corpus") for k in ckw)
    kw.update((k, c) for k, c in kw_inputs(ctx, pool).items() if k not in kw)
    tr = collections.OrderedDict((k, "corpus") for k in ctr)
    tr.update((k, c) for k, c in tree_inputs(ctx, pool).items() if k not in tr)
    if ctx.replay_in:
        rp = json.load(open(ctx.replay_in))["replay"]
        kw = collections.OrderedDict([(rp["input"], "replay")]) if rp.get("suite") == "knownword" else collections.OrderedDict()
        tr = collections.OrderedDict([(rp["input"], "replay")]) if rp.get("suite") == "fold" else collections.OrderedDict()
    builds = [("debug", False)] + ([] if ctx.quick and not ctx.replay_in else [("release", True)])
    outcomes = collections.Counter()
    evaluations = 0
    for build, rel in builds:
        hb = vlib.harness_bin(ctx, release=rel)
        if not hb:
            continue
        suites = []
        if kw:
            kkeys = list(kw.keys())
            if rel:   # the bulk classes only for the operators whose ethnum code differs between the builds
                kkeys = [k for k in kkeys if kw[k] not in ("boundary x core", "core x boundary")
                         or k.split()[0] in ("shl", "shr", "sar", "exp", "mul")]
            suites.append(("knownword", kkeys, "check_kcase_release" if rel else "check_kcase", 1000, KCODES))
        if tr:
            suites.append(("fold", list(tr.keys()), "check_fcase %d %d" % (ctx.seed % 1000003 + 1, ctx.seed % 999983 + 7), 400, FCODES))
        for cmd, keys, fn, per_shard, codes in suites:
            ctx.log("suite %s (%s): %d inputs" % (cmd, build, len(keys)))
            lines, bad = run_suite(ctx, hb, build, cmd, keys, fn, "%s-%s" % (cmd, build), per_shard)
            ctx.log("suite %s (%s) evaluated" % (cmd, build))
            if bad is None:
                continue
            evaluations += len(keys)
            if cmd == "knownword":
                outcomes.update("%s:%s" % (build, "panic" if l.endswith("None)") else "value") for l in lines)
            else:
                outcomes.update("%s:%s" % (build, "panic" if l.endswith("FPanic)") else
                                          ("changed" if _changed(l) else "unchanged")) for l in lines)
            disagreements = []
            for key, code, line in bad:
                what = codes.get(code, str(code))
                if code >= 10:
                    ctx.violate("C09:%s:%s:%s" % (cmd, code, key[:80]),
                                "%s (%s build): %s on input `%s`; implementation returned %s" % (cmd, build, what, key[:300], line[:400]),
                                {"suite": cmd, "input": key, "code": code, "meaning": what, "build": build, "impl": line[:4000],
                                 "how": "printf '%%s\\n' '<input>' | build/harness-target/%s/slxh %s" % (build, cmd)})
                else:
                    disagreements.append("%s: %s (impl %s)" % (key[:160], what, line[:200]))
            ctx.oblige("correspondence:%s:%s" % (cmd, build), "correspondence", not disagreements, "\n".join(disagreements[:10]))
    nontrivial_kw = len([k for k in kw if k.split()[1] not in ("0", "1") and k.split()[2] not in ("0", "1")])
    nontrivial_tr = len([t for t in tr if "KnownData" in t and t.count("(") >= 3])
    per_op = collections.Counter(k.split()[0] for k in kw)
    pair_classes = collections.Counter()
    for k in kw:
        _, a, b = k.split()
        pair_classes["%s,%s" % (word_class(int(a)), word_class(int(b)))] += 1
    ctx.coverage.update({
        "evaluations": evaluations,
        "distinct_inputs": {"operand_pairs": len(kw), "trees": len(tr)},
        "distinct_nontrivial": nontrivial_kw + nontrivial_tr,
        "traces_validated_against_impl": evaluations,
        "input_classes": {"operand_pairs": dict(collections.Counter(kw.values())), "trees": dict(collections.Counter(tr.values())),
                          "pairs_per_operator": dict(per_op), "operand_class_pairs": dict(pair_classes.most_common(40))},
        "impl_outcomes": dict(outcomes),
        "builds": [b for b, _ in builds],
        "exhaustive": False,
        "exhaustive_note": "the 17 core boundary words are met in all 17x17 combinations by every binary operator; every shift "
                           "amount 0..299 by the three shifts; the rest is sampled (the theorems cover all operands)",
    })
    samples = list(kw.keys())[:2] + [k for k, c in kw.items() if c == "every shift 0..299"][255:258] + list(tr.keys())[:3]
    return vlib.finish(ctx, rule="inputs are distinct (dict keys): `op a b` operand lines and value-tree texts; non-trivial pair = "
                       "neither operand is 0 or 1; non-trivial tree = at least 3 nodes and a constant; every case is run through "
                       "the real code and evaluated in Coq by FoldCases.check_kcase / check_fcase", samples=samples)


def _changed(line):
    # (mk_fcase IN (FOk OUT size OUT2)) : compare IN and OUT textually
    body = line[len("(mk_fcase "):]
    depth = 0
    for i, c in enumerate(body):
        if c == "(":
            depth += 1
        elif c == ")":
            depth -= 1
            if depth == 0:
                inp = body[:i + 1]
                rest = body[i + 1:].strip()
                return not rest.startswith("(FOk " + inp + " ")
    return True
