"""T9 (packing anchors, properties C12 / C04): the expressions in src/tc/lift/{sub_word,mul_shifted,packed_encoding}.rs
that decide whether a lifted SubWord / Shifted / Packed span lies inside the 256-bit word:

  sub_word.rs         `let offset = offset.checked_add(shift)?;`                         -> sw_offset
                      `if offset.checked_add(length)? > WORD_SIZE_BITS { return None; }` -> sw_fits
  mul_shifted.rs      the `RSVD::LeftShift` arm and `if offset >= WORD_SIZE_BITS { return None; }` -> ms_shl_enabled, ms_shl_refuse
                      `if counter > WORD_SIZE_BITS { return None; }` (which_power_of_2)  -> wp2_giveup
  packed_encoding.rs  `spans_are_valid = spans_are_valid && last_position <= *offset
                          && offset.saturating_add(*size) <= WORD_SIZE_BITS;`             -> pe_valid
                      `last_position = offset.saturating_add(*size);`                     -> pe_last

Each is read out of the closure it lives in and mapped through a small dictionary to a Gallina term in
coq/gen/PackingAnchors.v.  The dictionaries contain the repaired texts, the texts of the pinned snapshot ccf401a
(`offset: offset + shift` without a fit check; no LeftShift arm; `last_position <= *offset` only and
`offset + size`) and the obvious near misses (`>=` for `>`, `<` for `<=`, a dropped conjunct), so that such an edit selects
the defective term and the PROOFS in proofs/PassesPackingProofs.v fail; any other text is a problem string.

Everything else in the three closures, and in get_region / get_shift / which_power_of_2 / unpick_ors / bits_le /
`usize::from(KnownWord)`, is modelled by hand in coq/PassesPacking.v; this step requires that text to be EXACTLY the
text the model was written from (normalised), so an edit there is reported as an unrecognised text as well."""
import os
import re

from translate import HEADER, match_brace, norm, read, write_if_changed


def fn_body(src, head_regex):
    m = re.search(head_regex, src)
    if not m:
        return None
    return src[m.end():match_brace(src, m.end() - 1) - 1]


def non_test(repo, rel):
    raw = read(repo, rel)
    cut = raw.find("#[cfg(test)]")
    return norm(raw[:cut] if cut >= 0 else raw)


# ----------------------------------------------------------------------------------------------- sub_word.rs

SW_HEAD = ("let SVD::And{left,right}=data else{return None;};let(value,SubWord{offset,length})=if let Some(word)="
           "SubWordValue::get_region(left.data()){(right,word)}else if let Some(word)=SubWordValue::get_region(right.data())"
           "{(left,word)}else{return None;};if matches!(value.data(),RSVD::KnownData{..}){return None;}"
           "let(value,shift)=SubWordValue::get_shift(value);let value=value.clone().transform_data(insert_sub_words);"
           "let value=match value.data(){RSVD::SubWord{offset:i_ofs,size:i_sz,value:i_val}if offset==*i_ofs&&length==*i_sz"
           "=>i_val.clone(),_=>value};")
SW_TAIL = re.compile(r"(?:let offset=(?P<off>[^;]+);)?(?:if (?P<lhs>[^{}]+?)(?P<cmp>>=|<=|>|<)WORD_SIZE_BITS\{return None;\})?"
                     r"let payload=SVD::SubWord\{value,(?:offset|offset:(?P<off2>[^,;]+)),size:length\};Some\(payload\)")
SW_OFFSET = {
    "offset.checked_add(shift)?": "match usize_checked_add offset shift with Some o => Ok (Some o) | None => Ok None end",
    # pinned (ccf401a) and near misses
    "offset+shift": "match usize_add SITE_SW_OFFSET_ADD offset shift with Ok o => Ok (Some o) | Err e => Err e | Panic s => Panic s end",
    "offset.saturating_add(shift)": "Ok (Some (usize_saturating_add offset shift))",
    "offset.wrapping_add(shift)": "Ok (Some ((offset + shift) mod two64))",
}
SW_END = {
    "offset.checked_add(length)?": ("match usize_checked_add offset length with Some e => Ok (Some (%s)) | None => Ok None end", False),
    "offset.saturating_add(length)": ("Ok (Some (let e := usize_saturating_add offset length in %s))", False),
    "offset+length": ("match usize_add SITE_SW_END_ADD offset length with Ok e => Ok (Some (%s)) | Err x => Err x | Panic s => Panic s end", False),
}
# `if e CMP WORD_SIZE_BITS { return None; }` -> "continue" condition
SW_CMP = {">": "negb (WORD_SIZE_BITS <? e)", ">=": "negb (WORD_SIZE_BITS <=? e)", "<": "negb (e <? WORD_SIZE_BITS)", "<=": "negb (e <=? WORD_SIZE_BITS)"}

GET_REGION = ("let SVD::KnownData{value}=data.constant_fold()else{return None;};let word_bits=value.bits_le();let Some((offset,_))="
              "word_bits.iter().find_position(|bit|bit==&true)else{return None;};let size=word_bits.iter().skip(offset)."
              "find_position(|bit|bit==&false).map_or(WORD_SIZE_BITS-offset,|(offset,_)|offset);Some(SubWord::new(offset,size))")
GET_SHIFT = ("match&value.data(){RSVD::RightShift{value,shift}=>match shift.constant_fold().data(){RSVD::KnownData{value:shift}=>"
             "(value,shift.into()),_=>(value,0)},RSVD::Divide{dividend,divisor}=>match divisor.data(){RSVD::Exp{value:base,exponent:exp}"
             "=>match(base.data(),exp.data()){(RSVD::KnownData{value:base},RSVD::KnownData{value:exp})=>{if usize::from(base)==2"
             "{(dividend,usize::from(exp))}else{(value,0)}}_=>(value,0)},RSVD::LeftShift{value:base,shift}=>match(base.data(),shift.data())"
             "{(RSVD::KnownData{value:base},RSVD::KnownData{value:shift})if usize::from(base)==1=>{(dividend,shift.into())}_=>(value,0)},"
             "RSVD::KnownData{value:divisor}=>{if let Some(shift)=MulShiftedValue::which_power_of_2(*divisor){(dividend,shift)}else"
             "{(value,0)}}_=>(value,0)},_=>(value,0)}")


def sub_word(repo, problems, info):
    src = non_test(repo, "src/tc/lift/sub_word.rs")
    off_term = SW_OFFSET["offset.checked_add(shift)?"] + " (* unrecognised *)"
    fits_term = "Ok (Some true) (* unrecognised *)"
    body = fn_body(src, r"fn insert_sub_words\(data:&RSVD\)->Option<RSVD>\{")
    if body is None:
        problems.append("sub_word.rs: closure insert_sub_words not found")
    elif not body.startswith(SW_HEAD):
        problems.append("sub_word.rs: insert_sub_words: the text before the fit checks is not the modelled text: %s" % body[:len(SW_HEAD)][-200:])
    else:
        tail = body[len(SW_HEAD):]
        m = SW_TAIL.fullmatch(tail)
        if not m:
            problems.append("sub_word.rs: insert_sub_words: fit checks / payload not recognised: %s" % tail[:300])
        else:
            off = m.group("off") or m.group("off2")
            if (m.group("off") and m.group("off2")) or not off:
                problems.append("sub_word.rs: offset computed in an unrecognised place: %s" % tail[:300])
            elif off not in SW_OFFSET:
                problems.append("sub_word.rs: offset expression not recognised: %s" % off)
            else:
                off_term = SW_OFFSET[off]
                info["sw_offset"] = off
            if m.group("lhs") is None:
                fits_term = "Ok (Some true)"
                info["sw_fits"] = "(no fit check)"
            elif not m.group("off"):
                problems.append("sub_word.rs: a fit check on the mask offset instead of the final offset: %s" % tail[:300])
            elif m.group("lhs") not in SW_END:
                problems.append("sub_word.rs: fit check operand not recognised: %s" % m.group("lhs"))
            else:
                fits_term = SW_END[m.group("lhs")][0] % SW_CMP[m.group("cmp")]
                info["sw_fits"] = m.group("lhs") + m.group("cmp") + "WORD_SIZE_BITS"
    if not re.search(r"Ok\(value\.transform_data\(insert_sub_words\)\)", src):
        problems.append("sub_word.rs: run does not end in Ok(value.transform_data(insert_sub_words))")
    gr = fn_body(src, r"pub fn get_region\(data:&RSVD\)->Option<SubWord>\{")
    if gr != GET_REGION:
        problems.append("sub_word.rs: get_region is not the modelled text: %s" % (gr or "missing")[:300])
    gs = fn_body(src, r"pub fn get_shift\(value:&RuntimeBoxedVal\)->\(&RuntimeBoxedVal,usize\)\{")
    if gs != GET_SHIFT:
        problems.append("sub_word.rs: get_shift is not the modelled text: %s" % (gs or "missing")[:300])
    return off_term, fits_term


# ----------------------------------------------------------------------------------------------- mul_shifted.rs

MS_SHL = re.compile(r"if let RSVD::LeftShift\{shift,value\}=data\{let\(RSVD::KnownData\{value:shift\},RSVD::SubWord\{\.\.\}\)="
                    r"\(shift\.data\(\)\.constant_fold\(\),value\.data\(\)\)else\{return None;\};let offset=usize::from\(shift\);"
                    r"(?:if offset(?P<cmp>>=|<=|>|<)WORD_SIZE_BITS\{return None;\})?"
                    r"return Some\(RSVD::Shifted\{offset,value:value\.clone\(\)\.transform_data\(insert_multiplicative_shifts\)\}\);\}")
MS_MUL = ("let RSVD::Multiply{left,right}=data else{return None;};let(constant,value)=match(left.data().constant_fold(),"
          "right.data().constant_fold()){(RSVD::KnownData{value},RSVD::SubWord{..})=>(value,right.clone().transform_data("
          "insert_multiplicative_shifts)),(RSVD::SubWord{..},RSVD::KnownData{value})=>(value,left.clone().transform_data("
          "insert_multiplicative_shifts)),_=>return None};let Some(offset)=MulShiftedValue::which_power_of_2(constant)else"
          "{return None;};Some(RSVD::Shifted{offset,value})")
MS_CMP = {">=": "WORD_SIZE_BITS <=? offset", ">": "WORD_SIZE_BITS <? offset", "<": "offset <? WORD_SIZE_BITS", "<=": "offset <=? WORD_SIZE_BITS"}
WP2 = re.compile(re.escape("let two=KnownWord::from_le(2u8);if number==KnownWord::from_le(1u8){Some(0)}else if number==KnownWord::zero()"
                           "{None}else if number % two==KnownWord::zero(){let mut counter=1;while number!=two{counter+=1;number=number/two;"
                           "if counter") + r"(?P<cmp>>=|>)" + re.escape("WORD_SIZE_BITS{return None;}}Some(counter)}else{None}"))
WP2_CMP = {">": "WORD_SIZE_BITS <? counter", ">=": "WORD_SIZE_BITS <=? counter"}


def mul_shifted(repo, problems, info):
    src = non_test(repo, "src/tc/lift/mul_shifted.rs")
    enabled, refuse, giveup = "true (* unrecognised *)", MS_CMP[">="] + " (* unrecognised *)", WP2_CMP[">"] + " (* unrecognised *)"
    body = fn_body(src, r"fn insert_multiplicative_shifts\(data:&RSVD\)->Option<RSVD>\{")
    if body is None:
        problems.append("mul_shifted.rs: closure insert_multiplicative_shifts not found")
    else:
        if body == MS_MUL:                       # pinned: only the multiplication is lifted
            enabled, refuse = "false", "true"
            info["ms_shl"] = "(no LeftShift arm)"
        else:
            m = MS_SHL.match(body)
            if not m or body[m.end():] != MS_MUL:
                problems.append("mul_shifted.rs: insert_multiplicative_shifts is not a recognised text: %s" % body[:400])
            else:
                enabled = "true"
                refuse = MS_CMP[m.group("cmp")] if m.group("cmp") else "false"
                info["ms_shl"] = "offset%sWORD_SIZE_BITS" % m.group("cmp") if m.group("cmp") else "(no bound on the shift)"
    if not re.search(r"Ok\(value\.transform_data\(insert_multiplicative_shifts\)\)", src):
        problems.append("mul_shifted.rs: run does not end in Ok(value.transform_data(insert_multiplicative_shifts))")
    wp = fn_body(src, r"pub fn which_power_of_2\(mut number:KnownWord\)->Option<usize>\{")
    m = WP2.fullmatch(wp or "")
    if not m:
        problems.append("mul_shifted.rs: which_power_of_2 is not the modelled text: %s" % (wp or "missing")[:300])
    else:
        giveup = WP2_CMP[m.group("cmp")]
        info["wp2"] = "counter%sWORD_SIZE_BITS" % m.group("cmp")
    return enabled, refuse, giveup


# ----------------------------------------------------------------------------------------------- packed_encoding.rs

PE_HEAD = ("let RSVD::StorageWrite{key,value}=data else{return None};let elements=unpick_ors(value.clone());let true=elements.iter()"
           ".map(|e|matches!(e.data(),RSVD::Shifted{..}|RSVD::SubWord{..})).all(|r|r)else{return None;};let spans:Vec<PackedSpan<()>>="
           "elements.into_iter().map(|e|match&e.data(){RSVD::SubWord{offset,size,..}=>PackedSpan::new(*offset,*size,e),"
           "RSVD::Shifted{offset,value}=>match&value.data(){RSVD::SubWord{size,..}=>{PackedSpan::new(*offset,*size,value.clone())}"
           "_=>panic!(\"Shift of non-sub-word\")},_=>unreachable!(\"Element was of impossible type\")}).sorted_by_key(|elem|elem.offset)"
           ".collect();let mut spans_are_valid=true;let mut last_position=0;for PackedSpan{offset,size,..}in&spans{")
PE_LOOP = re.compile(r"spans_are_valid=(?P<conj>[^;]+);last_position=(?P<last>[^;]+);\}")
PE_TAIL = ("let used_spans:Vec<_>=spans.into_iter().filter(|span|match&span.value.data(){RSVD::SubWord{value,..}=>!matches!("
           "value.data(),RSVD::SLoad{key:inner_key,..}if key==inner_key),_=>true}).collect();if spans_are_valid{let packed=RSV::new("
           "value.instruction_pointer(),RSVD::Packed{elements:used_spans},value.provenance(),None);let store=RSVD::StorageWrite{"
           "key:key.clone(),value:packed};Some(store)}else{None}")
PE_CONJ = {
    "spans_are_valid": "valid",
    "last_position<=*offset": "(last <=? offset)",
    "offset.saturating_add(*size)<=WORD_SIZE_BITS": "(usize_saturating_add offset size <=? WORD_SIZE_BITS)",
    # near misses
    "last_position<*offset": "(last <? offset)",
    "*offset>=last_position": "(last <=? offset)",
    "offset.saturating_add(*size)<WORD_SIZE_BITS": "(usize_saturating_add offset size <? WORD_SIZE_BITS)",
    "offset.saturating_add(*size)<=WORD_SIZE_BITS+1": "(usize_saturating_add offset size <=? WORD_SIZE_BITS + 1)",
}
PE_LAST = {
    "offset.saturating_add(*size)": "Ok (usize_saturating_add offset size)",
    "offset+size": "usize_add SITE_PE_LAST_ADD offset size",          # pinned
    "*offset+*size": "usize_add SITE_PE_LAST_ADD offset size",
    "offset.wrapping_add(*size)": "Ok ((offset + size) mod two64)",
    "*offset": "Ok offset",
}
UNPICK = ("let RSVD::Or{left,right}=data.data()else{return vec![data]};let mut left_ors=unpick_ors(left.clone());"
          "let right_ors=unpick_ors(right.clone());left_ors.extend(right_ors);left_ors")


def packed_encoding(repo, problems, info):
    src = non_test(repo, "src/tc/lift/packed_encoding.rs")
    valid = "valid && (last <=? offset) && (usize_saturating_add offset size <=? WORD_SIZE_BITS) (* unrecognised *)"
    last = PE_LAST["offset.saturating_add(*size)"] + " (* unrecognised *)"
    body = fn_body(src, r"fn lift_packed_encodings\(data:&RSVD\)->Option<RSVD>\{")
    if body is None:
        problems.append("packed_encoding.rs: closure lift_packed_encodings not found")
    elif not body.startswith(PE_HEAD):
        problems.append("packed_encoding.rs: the text before the validity loop is not the modelled text: %s" % body[:len(PE_HEAD)][-300:])
    else:
        m = PE_LOOP.match(body, len(PE_HEAD))
        if not m or body[m.end():] != PE_TAIL:
            problems.append("packed_encoding.rs: validity loop / tail not recognised: %s" % body[len(PE_HEAD):][:400])
        else:
            conj = m.group("conj").split("&&")
            terms = []
            for c in conj:
                if c not in PE_CONJ:
                    problems.append("packed_encoding.rs: validity conjunct not recognised: %s" % c)
                else:
                    terms.append(PE_CONJ[c])
            if conj[0] != "spans_are_valid":
                problems.append("packed_encoding.rs: validity is not accumulated (`spans_are_valid && ...`): %s" % m.group("conj"))
            if terms and len(terms) == len(conj):
                valid = " && ".join(terms)
            if m.group("last") not in PE_LAST:
                problems.append("packed_encoding.rs: last_position expression not recognised: %s" % m.group("last"))
            else:
                last = PE_LAST[m.group("last")]
            info["pe_valid"] = m.group("conj")
            info["pe_last"] = m.group("last")
    if not re.search(r"Ok\(value\.transform_data\(lift_packed_encodings\)\)", src):
        problems.append("packed_encoding.rs: run does not end in Ok(value.transform_data(lift_packed_encodings))")
    up = fn_body(src, r"fn unpick_ors\(data:RuntimeBoxedVal\)->Vec<RuntimeBoxedVal>\{")
    if up != UNPICK:
        problems.append("packed_encoding.rs: unpick_ors is not the modelled text: %s" % (up or "missing")[:300])
    return valid, last


# ----------------------------------------------------------------------------------------------- known.rs, lift/mod.rs

def context(repo, problems, info):
    src = norm(read(repo, "src/vm/value/known.rs"))
    for ty in ("KnownWord", "&KnownWord"):
        m = re.search(r"impl From<%s>for usize\{fn from\(value:%s\)->Self\{([^}]*)\}" % (re.escape(ty), re.escape(ty)), src)
        if not m or m.group(1) != "value.value.as_usize()":
            problems.append("known.rs: From<%s> for usize is not `value.value.as_usize()`: %s" % (ty, m.group(1) if m else "missing"))
    b = fn_body(src, r"pub fn bits_le\(&self\)->BitVec\{")
    if b != "let bytes_le=self.value.to_le_bytes();let mut bits=BitVec::new();for byte in bytes_le{bits.extend(byte.view_bits::<Lsb0>());}bits":
        problems.append("known.rs: bits_le is not the modelled text: %s" % (b or "missing")[:200])
    # nothing outside the three passes (and the generic value code) builds SubWord / Shifted / Packed nodes: the VM
    # proper and the three passes that run before sub_word never mention these constructors
    import glob
    quiet = [p for p in glob.glob(os.path.join(repo, "src/vm/**/*.rs"), recursive=True) if not p.endswith("src/vm/value/mod.rs")]
    quiet += glob.glob(os.path.join(repo, "src/opcode/**/*.rs"), recursive=True)
    quiet += [os.path.join(repo, "src/tc/lift", f) for f in ("recognise_hashed_slots.rs", "proxy_slots.rs", "mapping_index.rs")]
    loud = []
    for pth in sorted(quiet):
        rel = os.path.relpath(pth, repo)
        txt = non_test(repo, rel)
        if re.search(r"\b(SubWord|Shifted|Packed)\{", txt):
            loud.append(rel)
    info["files_checked_free_of_lifted_constructors"] = len(quiet)
    if loud:
        problems.append("SubWord / Shifted / Packed nodes are mentioned outside the packing passes (VM trees may no longer be `no_lifted`): %s" % loud)
    lsrc = norm(read(repo, "src/tc/lift/mod.rs"))
    m = re.search(r"impl Default for LiftingPasses\{fn default\(\)->Self\{Self\{passes:vec!\[([^\]]*)\]", lsrc)
    order = [x.split("::")[0] for x in m.group(1).split(",") if x] if m else []
    info["default_order"] = order
    if "SubWordValue" not in order or order[order.index("SubWordValue"):][:3] != ["SubWordValue", "MulShiftedValue", "PackedEncoding"]:
        problems.append("lift/mod.rs: sub_word, mul_shifted, packed_encoding are not consecutive in the default pass order: %s" % order)


def step_packing(repo, out, consts):
    problems, info = [], {}
    if consts.get("WORD_SIZE_BITS") != 256:
        problems.append("constant.rs: WORD_SIZE_BITS is %r, the proofs are about 256" % consts.get("WORD_SIZE_BITS"))
    sw_off, sw_fit = sub_word(repo, problems, info)
    ms_en, ms_ref, wp2 = mul_shifted(repo, problems, info)
    pe_valid, pe_last = packed_encoding(repo, problems, info)
    context(repo, problems, info)
    info_c = {k: str(v).replace("(*", "( *").replace("*)", "* )") for k, v in info.items()}       # for Coq comments
    s = HEADER + "From SLX Require Import Base Word256 PackingArith gen.Constants.\nOpen Scope N_scope.\n\n"
    s += "(* sub_word.rs, insert_sub_words: the final offset `%s` *)\n" % info_c.get("sw_offset", "?")
    s += "Definition sw_offset (offset shift : N) : outcome (option N) unit :=\n  %s.\n" % sw_off
    s += "(* sub_word.rs, insert_sub_words: the fit check `%s`\n" % info_c.get("sw_fits", "?")
    s += "   Ok (Some true) = go on, Ok (Some false) = `return None`, Ok None = the `?` returned None *)\n"
    s += "Definition sw_fits (offset length : N) : outcome (option bool) unit :=\n  %s.\n\n" % sw_fit
    s += "(* mul_shifted.rs: is there an arm for `RSVD::LeftShift { shift, value }`, and when does it refuse: %s *)\n" % info_c.get("ms_shl", "?")
    s += "Definition ms_shl_enabled : bool := %s.\n" % ms_en
    s += "Definition ms_shl_refuse (offset : N) : bool := %s.\n" % ms_ref
    s += "(* mul_shifted.rs, which_power_of_2: `if %s { return None; }` *)\n" % info_c.get("wp2", "?")
    s += "Definition wp2_giveup (counter : N) : bool := %s.\n\n" % wp2
    s += "(* packed_encoding.rs, the validity loop: `spans_are_valid = %s; last_position = %s;` *)\n" % (info_c.get("pe_valid", "?"), info_c.get("pe_last", "?"))
    s += "Definition pe_valid (valid : bool) (last offset size : N) : bool :=\n  %s.\n" % pe_valid
    s += "Definition pe_last (offset size : N) : outcome N unit := %s.\n" % pe_last
    write_if_changed(os.path.join(out, "PackingAnchors.v"), s)
    return problems, info


steps = [("T9-packing-anchors", step_packing)]
