"""T4: every KnownWord operator body of src/vm/value/known.rs, normalised and looked up in a dictionary
of recognised bodies -> Gallina term over the Word256 primitives  ->  coq/gen/KnownWordSel.v

The dictionary is keyed by the *body text only*: which function carries which body is read from the
source, so giving `add` the body of `sub` selects `u256_wrapping_sub` for `sel_add` and the proof
of `impl_add_eq_spec` fails.  It contains the current (repaired) bodies and the bodies of the pinned
snapshot ccf401a (defective exp / shl / shr / sar), plus a few unguarded variants, so that reverting a
repair still translates and it is the proof that fails.  Unrecognised text is a problem (strict)."""
import os
import re

from translate import HEADER, match_brace, norm, read, write_if_changed


def norm2(s):
    s = norm(s)
    return re.sub(r"\s*([\^%?])\s*", r"\1", s)


# (value term over a b, panic predicate over a b (debug build), extra definitions, label)
SIGNED_PRE = ("let left_signed=I256::from_ne_bytes(self.value.to_ne_bytes());"
              "let right_signed=I256::from_ne_bytes(rhs.value.to_ne_bytes());")
BACK = "KnownWord::from_le(U256::from_ne_bytes(result.to_ne_bytes()))"

EXP_LOOP = """(* let mut base = self.value; let mut exponent = rhs.value; let mut result = U256::ONE;
   while exponent != U256::ZERO {
     if exponent & U256::ONE == U256::ONE { result = result.wrapping_mul(base); }
     base = base.wrapping_mul(base); exponent >>= 1u32; }
   one unfolding of the loop per unit of fuel; None = out of fuel *)
Fixpoint exp_loop (fuel : nat) (base exponent result : N) : option N :=
  match fuel with
  | O => None
  | S fuel' =>
      if negb (exponent =? 0) then
        let result' := if u256_and exponent 1 =? 1 then u256_wrapping_mul result base else result in
        let base' := u256_wrapping_mul base base in
        let exponent' := u256_shr_u32 exponent 1 in
        exp_loop fuel' base' exponent' result'
      else Some result
  end.
(* 257 iterations are available; running out of fuel yields 2^256, which is not a word *)
Definition exp_fuel : nat := 257.
"""

GUARD_SHIFT = "match u32::try_from(rhs.value_le()){Ok(shift)if shift<256=>KnownWord::from_le(self.value_le()%sshift),_=>KnownWord::zero()}"

BINARY = {
    # ---- arithmetic
    "KnownWord::from_le(self.value.wrapping_add(rhs.value))": ("u256_wrapping_add a b", "false", "", "wrapping_add"),
    "KnownWord::from_le(self.value.wrapping_mul(rhs.value))": ("u256_wrapping_mul a b", "false", "", "wrapping_mul"),
    "KnownWord::from_le(self.value.wrapping_sub(rhs.value))": ("u256_wrapping_sub a b", "false", "", "wrapping_sub"),
    "let zero=KnownWord::zero();if rhs==zero{zero}else{KnownWord::from_le(self.value.wrapping_div(rhs.value))}":
        ("if b =? sel_zero then sel_zero else u256_div a b", "if b =? sel_zero then false else u256_divrem_panics b", "", "guarded wrapping_div"),
    "let zero=KnownWord::zero();if rhs==zero{zero}else{KnownWord::from_le(self.value.wrapping_rem(rhs.value))}":
        ("if b =? sel_zero then sel_zero else u256_rem a b", "if b =? sel_zero then false else u256_divrem_panics b", "", "guarded wrapping_rem"),
    "KnownWord::from_le(self.value.wrapping_div(rhs.value))": ("u256_div a b", "u256_divrem_panics b", "", "UNGUARDED wrapping_div"),
    "KnownWord::from_le(self.value.wrapping_rem(rhs.value))": ("u256_rem a b", "u256_divrem_panics b", "", "UNGUARDED wrapping_rem"),
    # ---- signed division / remainder
    SIGNED_PRE + "let zero=I256::new(0);let result=if right_signed==zero{zero}else{left_signed.wrapping_div(right_signed)};" + BACK:
        ("of_signed (if (to_signed b =? 0)%Z then 0%Z else i256_wrapping_div (to_signed a) (to_signed b))",
         "if (to_signed b =? 0)%Z then false else i256_divrem_panics (to_signed b)", "", "guarded I256 wrapping_div"),
    SIGNED_PRE + "let zero=I256::new(0);let result=if right_signed==zero{zero}else{left_signed.wrapping_rem(right_signed)};" + BACK:
        ("of_signed (if (to_signed b =? 0)%Z then 0%Z else i256_wrapping_rem (to_signed a) (to_signed b))",
         "if (to_signed b =? 0)%Z then false else i256_divrem_panics (to_signed b)", "", "guarded I256 wrapping_rem"),
    SIGNED_PRE + "let result=left_signed.wrapping_div(right_signed);" + BACK:
        ("of_signed (i256_wrapping_div (to_signed a) (to_signed b))", "i256_divrem_panics (to_signed b)", "", "UNGUARDED I256 wrapping_div"),
    SIGNED_PRE + "let result=left_signed.wrapping_rem(right_signed);" + BACK:
        ("of_signed (i256_wrapping_rem (to_signed a) (to_signed b))", "i256_divrem_panics (to_signed b)", "", "UNGUARDED I256 wrapping_rem"),
    # ---- exponentiation
    "let mut base=self.value;let mut exponent=rhs.value;let mut result=U256::ONE;while exponent!=U256::ZERO{"
    "if exponent&U256::ONE==U256::ONE{result=result.wrapping_mul(base);}base=base.wrapping_mul(base);exponent>>=1u32;}"
    "KnownWord::from_le(result)":
        ("match exp_loop exp_fuel a b 1 with Some r => r | None => W end", "false", EXP_LOOP, "square-and-multiply over the full exponent"),
    "KnownWord::from_le(self.value.wrapping_pow(rhs.value.as_u32()))":
        ("u256_wrapping_pow a (as_u32 b)", "false", "", "PINNED wrapping_pow with as_u32-truncated exponent"),
    # ---- comparisons
    "KnownWord::from(self.value<rhs.value)": ("sel_from_bool (a <? b)", "false", "", "U256 <"),
    "KnownWord::from(self.value>rhs.value)": ("sel_from_bool (b <? a)", "false", "", "U256 >"),
    "KnownWord::from(self.value<=rhs.value)": ("sel_from_bool (a <=? b)", "false", "", "U256 <="),
    "KnownWord::from(self.value>=rhs.value)": ("sel_from_bool (b <=? a)", "false", "", "U256 >="),
    "KnownWord::from(self.value==rhs.value)": ("sel_from_bool (a =? b)", "false", "", "U256 =="),
    SIGNED_PRE + "let result=left_signed<right_signed;KnownWord::from(result)":
        ("sel_from_bool (to_signed a <? to_signed b)%Z", "false", "", "I256 <"),
    SIGNED_PRE + "let result=left_signed>right_signed;KnownWord::from(result)":
        ("sel_from_bool (to_signed b <? to_signed a)%Z", "false", "", "I256 >"),
    # ---- bitwise
    "KnownWord::from_le(self.value&rhs.value)": ("u256_and a b", "false", "", "&"),
    "KnownWord::from_le(self.value|rhs.value)": ("u256_or a b", "false", "", "|"),
    "KnownWord::from_le(self.value^rhs.value)": ("u256_xor a b", "false", "", "^"),
    # ---- shifts (self = value, rhs = shift amount)
    GUARD_SHIFT % "<<":
        ("match try_u32 b with Some shift => if shift <? 256 then u256_shl_u32 a shift else sel_zero | None => sel_zero end",
         "match try_u32 b with Some shift => if shift <? 256 then u256_shift_panics shift else false | None => false end", "",
         "guarded << (u32::try_from, shift < 256)"),
    GUARD_SHIFT % ">>":
        ("match try_u32 b with Some shift => if shift <? 256 then u256_shr_u32 a shift else sel_zero | None => sel_zero end",
         "match try_u32 b with Some shift => if shift <? 256 then u256_shift_panics shift else false | None => false end", "",
         "guarded >> (u32::try_from, shift < 256)"),
    "KnownWord::from_le(self.value_le()<<rhs.value_le())":
        ("u256_shl_u256 a b", "255 <? b", "", "PINNED U256 << U256 (debug: panics for shift > 255; release: as_u32 then limb shift)"),
    "KnownWord::from_le(self.value_le()>>rhs.value_le())":
        ("u256_shr_u256 a b", "255 <? b", "", "PINNED U256 >> U256 (debug: panics for shift > 255; release: as_u32 then limb shift)"),
    "let value=self.value_le_signed();let result=match u32::try_from(rhs.value_le()){Ok(shift)if shift<256=>value>>shift,"
    "_ if value<I256::new(0)=>I256::new(-1),_=>I256::new(0)};KnownWord::from_le_signed(result)":
        ("let value := to_signed a in of_signed (match try_u32 b with "
         "Some shift => if shift <? 256 then i256_sar_u32 value shift else if (value <? 0)%Z then (-1)%Z else 0%Z "
         "| None => if (value <? 0)%Z then (-1)%Z else 0%Z end)",
         "match try_u32 b with Some shift => if shift <? 256 then u256_shift_panics shift else false | None => false end", "",
         "guarded I256 >> (u32::try_from, shift < 256, sign fill otherwise)"),
    "let result=self.value_le_signed()>>rhs.value_le();KnownWord::from_le_signed(result)":
        ("of_signed (i256_sar_u256 (to_signed a) b)", "255 <? b", "", "PINNED I256 >> U256"),
}

UNARY = {
    "KnownWord::from(self==Self::zero())": ("sel_from_bool (a =? sel_zero)", "false", "", "== zero()"),
    "KnownWord::from_le(self.value.not())": ("u256_not a", "false", "", "!"),
}

# helper functions the operator bodies go through: exactly one accepted text each
HELPERS = {
    "zero": ("", "Self", "Self::from_le(0x0u8)"),
    "from_le": ("value:impl Into<U256>", "Self", "let value=value.into();Self{value}"),
    "from_le_signed": ("value:impl Into<I256>", "Self", "let value=U256::from_ne_bytes(value.into().to_ne_bytes());Self{value}"),
    "value_le": ("&self", "U256", "self.value"),
    "value_le_signed": ("&self", "I256", "I256::from_ne_bytes(self.value.to_ne_bytes())"),
}
FROM_BOOL = "if value{Self::from_le(1u8)}else{Self::from_le(0u8)}"
STRUCT = "#[derive(Clone,Copy,Debug,Eq,Hash,PartialEq)]pub struct KnownWord{value:U256}"

METHODS = [("signed_div", 2), ("signed_rem", 2), ("exp", 2), ("lt", 2), ("gt", 2), ("signed_lt", 2), ("signed_gt", 2),
           ("eq", 2), ("is_zero", 1), ("sar", 2)]
TRAITS = [("Add", "add", 2), ("Mul", "mul", 2), ("Sub", "sub", 2), ("Div", "div", 2), ("Rem", "rem", 2),
          ("BitAnd", "bitand", 2), ("BitOr", "bitor", 2), ("BitXor", "bitxor", 2), ("Not", "not", 1),
          ("Shl", "shl", 2), ("Shr", "shr", 2)]
# the operations a fold arm can name; `from_eq` is `KnownWord::from(a == b)` (derived PartialEq + From<bool>)
OPS = [m for m, _ in METHODS] + [f for _, f, _ in TRAITS] + ["from_eq"]
ARITY = dict(METHODS + [(f, n) for _, f, n in TRAITS] + [("from_eq", 2)])


def functions(block):
    """[(name, normalised params, return type, normalised body)] of every fn directly in `block`"""
    out = []
    for m in re.finditer(r"(?:pub )?fn (\w+)\s*\(([^)]*)\)\s*->\s*([\w:<>]+)\s*\{", block):
        e = match_brace(block, m.end() - 1)
        out.append((m.group(1), norm2(m.group(2)), m.group(3), norm2(block[m.end():e - 1])))
    return out


SPEC_PLACEHOLDER = {
    "signed_div": "EvmSpec.spec_sdiv a b", "signed_rem": "EvmSpec.spec_smod a b", "exp": "EvmSpec.xspec_exp a b",
    "lt": "EvmSpec.spec_lt a b", "gt": "EvmSpec.spec_gt a b", "signed_lt": "EvmSpec.spec_slt a b", "signed_gt": "EvmSpec.spec_sgt a b",
    "is_zero": "EvmSpec.spec_iszero a", "sar": "EvmSpec.xspec_sar b a", "add": "EvmSpec.spec_add a b", "mul": "EvmSpec.spec_mul a b",
    "sub": "EvmSpec.spec_sub a b", "div": "EvmSpec.spec_div a b", "rem": "EvmSpec.spec_mod a b", "bitand": "EvmSpec.spec_and a b",
    "bitor": "EvmSpec.spec_or a b", "bitxor": "EvmSpec.spec_xor a b", "not": "EvmSpec.spec_not a", "shl": "EvmSpec.xspec_shl b a",
    "shr": "EvmSpec.xspec_shr b a", "eq": "EvmSpec.spec_eq a b",
}


def t4_knownword(repo, out, consts):
    problems = []
    src = read(repo, "src/vm/value/known.rs")
    found = {}    # op -> normalised body

    sm = re.search(r"#\[derive\([^)]*\)\]\s*pub struct KnownWord\s*\{[^}]*\}", src)
    if not sm or norm2(sm.group(0)) != STRUCT:
        problems.append("struct KnownWord / its derives not recognised: %r" % (norm2(sm.group(0)) if sm else None))

    # inherent impl blocks
    inherent = {}
    for m in re.finditer(r"\bimpl KnownWord\s*\{", src):
        e = match_brace(src, m.end() - 1)
        for name, params, ret, body in functions(src[m.end():e - 1]):
            if name in inherent:
                problems.append("KnownWord::%s defined twice" % name)
            inherent[name] = (params, ret, body)
    for name, (params, ret, body) in HELPERS.items():
        if inherent.get(name) != (params, ret, body):
            problems.append("helper KnownWord::%s not recognised: %r" % (name, inherent.get(name)))
    for name, n in METHODS:
        want = "self,rhs:Self" if n == 2 else "self"
        f = inherent.get(name)
        if f is None:
            problems.append("KnownWord::%s not found" % name)
        elif (f[0], f[1]) != (want, "Self"):
            problems.append("KnownWord::%s has an unrecognised signature %r" % (name, f[:2]))
        else:
            found[name] = f[2]
    # operator trait impls
    for tr, fn, n in TRAITS:
        pat = r"\bimpl std::ops::%s%s for KnownWord\s*\{" % (tr, "<KnownWord>" if n == 2 else "")
        ms = list(re.finditer(pat, src))
        if len(ms) != 1:
            problems.append("expected exactly one `impl std::ops::%s for KnownWord`, found %d" % (tr, len(ms)))
            continue
        e = match_brace(src, ms[0].end() - 1)
        block = src[ms[0].end():e - 1]
        if norm2(block).find("type Output=KnownWord;") < 0:
            problems.append("impl %s: Output is not KnownWord" % tr)
        fs = functions(block)
        want = "self,rhs:KnownWord" if n == 2 else "self"
        if len(fs) != 1 or fs[0][0] != fn or fs[0][1] != want or fs[0][2] != "Self::Output":
            problems.append("impl %s: unrecognised function list %r" % (tr, [f[:3] for f in fs]))
            continue
        found[fn] = fs[0][3]
    # no operator impls on references / other right-hand sides that could capture `a + b`
    for m in re.finditer(r"\bimpl(?:<[^>]*>)? std::ops::(\w+)(<[^>]*>)? for ([&'\w ]+?)\s*\{", src):
        if norm2(m.group(3)) != "KnownWord" or (m.group(2) or "<KnownWord>") != "<KnownWord>":
            problems.append("unexpected operator impl: %s" % norm2(m.group(0)))
    # From<bool>
    ms = list(re.finditer(r"\bimpl From<bool> for KnownWord\s*\{", src))
    fb_ok = False
    if len(ms) == 1:
        e = match_brace(src, ms[0].end() - 1)
        fs = functions(src[ms[0].end():e - 1])
        fb_ok = len(fs) == 1 and fs[0] == ("from", "value:bool", "Self", FROM_BOOL)
    if not fb_ok:
        problems.append("impl From<bool> for KnownWord not recognised")

    s = HEADER + "From Coq Require Import String.\nFrom SLX Require Import Base Word256 EvmSpec.\nOpen Scope N_scope.\n\n"
    s += "(* the KnownWord operations a constant_folder arm can apply *)\n"
    s += "Inductive kwop :=\n" + "\n".join("| K_%s" % o for o in OPS) + ".\n\n"
    s += "Definition kwop_idx (o : kwop) : N :=\n  match o with\n" + "\n".join(
        "  | K_%s => %d" % (o, i) for i, o in enumerate(OPS)) + "\n  end.\n"
    s += "Definition all_kwops : list kwop := [" + "; ".join("K_" + o for o in OPS) + "].\n"
    s += "Definition kwop_arity (o : kwop) : nat :=\n  match o with\n" + "\n".join(
        "  | K_%s => %d" % (o, ARITY[o]) for o in OPS) + "\n  end.\n\n"
    s += "(* KnownWord::zero() = from_le(0x0u8);  From<bool>: true -> from_le(1u8), false -> from_le(0u8) *)\n"
    s += "Definition sel_zero : N := 0.\n"
    s += "Definition sel_from_bool (v : bool) : N := if v then 1 else 0.\n"
    s += "(* `KnownWord::from(a == b)`: derived PartialEq on the single field `value` *)\n"
    s += "Definition sel_from_eq (a b : N) : N := sel_from_bool (a =? b).\n"
    s += "Definition sel_from_eq_panics (a b : N) : bool := false.\n\n"
    info = {}
    emitted = set()
    for o in OPS:
        if o == "from_eq":
            continue
        n = ARITY[o]
        body = found.get(o)
        ent = (BINARY if n == 2 else UNARY).get(body) if body is not None else None
        params = "(a b : N)" if n == 2 else "(a : N)"
        if ent is None:
            if body is not None:
                problems.append("body of KnownWord::%s not recognised: %s" % (o, body))
            # the translation obligation is broken; so that the SEARCH still runs on a sensible model, the placeholder is the
            # specification's operator (a correct rewrite then agrees with the model, an incorrect one shows up as a
            # model/implementation difference and in the property predicates)
            s += "(* %s: UNRECOGNISED BODY -- placeholder = the specification's operator; the translation obligation is broken *)\n" % o
            s += "Definition sel_%s %s : N := %s.\nDefinition sel_%s_panics %s : bool := false.\n" % (
                o, params, SPEC_PLACEHOLDER.get(o, "W"), o, params)
            s += 'Definition sel_%s_variant : string := "unrecognised"%%string.\n\n' % o
            info[o] = "unrecognised"
            continue
        val, pan, pre, label = ent
        if pre and pre not in emitted:
            s += pre
            emitted.add(pre)
        s += "(* %s: %s *)\n" % (o, label)
        s += "Definition sel_%s %s : N :=\n  %s.\n" % (o, params, val)
        s += "Definition sel_%s_panics %s : bool :=\n  %s.\n" % (o, params, pan)
        s += 'Definition sel_%s_variant : string := "%s"%%string.\n\n' % (o, label)
        info[o] = label
    write_if_changed(os.path.join(out, "KnownWordSel.v"), s)
    return problems, info


steps = [("T4-knownword", t4_knownword)]
