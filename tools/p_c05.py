"""C05 -- no phantom slots: every reported slot comes from an executed storage access."""
import collections
import json

import gen
import layoutlib as L
import vlib

MANIFEST = {
    "text": "For each program the real VM's retired states (every storage key tree of every path) and the real analysis' layout are compared INSIDE Coq: a program that executed no SLOAD/SSTORE must yield an empty layout, and every reported slot index must be a constant occurring in the key expression of an executed storage access, the preimage of such a constant in the keccak(small slot) table, or a documented proxy-slot constant. Stage theorems over the model of the six slot passes (tied to the real passes on every run): without a storage access the guarded passes are the identity, lifted nodes appear only at or below storage accesses (C05_lifts_only_under_access), no access => no slot node (C05_no_storage_no_slot), and outside the K3 class only in key sub-trees (C05_lifts_only_in_keys_outside_K3; K3_refuted, K3_hashed_constant) -- for ALL trees. Known finding K3: the mapping/array patterns are also applied to VALUE sub-trees, so a hash-shaped stored or loaded value yields a slot; classified by a Coq predicate. END TO END: the stage models are composed into one executable model of the whole analysis (Pipeline.v: disassembly, VM, all_values, nine passes, registration, rules, unification under the hooked iteration orders, abi_type_for, layout), tied to the real `analyze` by a whole-program differential run in three order modes (stage of first disagreement reported), and pipeline_storage_free_empty proves for EVERY program, configuration, keccak function, slot table and order mode: if the instruction stream has no SLOAD and no SSTORE the only layout that can be returned is [] (via a VM invariant through every micro-operation: no retired state holds a storage-access constructor). ATTRIBUTION END TO END (props/C05_pipeline.v, proofs/PipelineAttribution.v): pipeline_rows_attributed -- for every byte string, configuration, keccak function, slot table, order mode and fuel, a row with slot index w is in the layout the composed model returns only if one of the lifted values (nine passes applied to the values collected from the VM's retired states) contains a StorageSlot node whose key is the literal w: registration adds exactly one typed node per subterm (register_only_subterms), the rules and merge allocate synthetic Value nodes only, every row comes out of one abi_type_for call on a constant-slot value (layout_rows_come_from_abi); the attribution is tight: pipeline_slot_nodes_reported -- every StorageSlot node with a literal key in a lifted value IS reported, so the set of reported indices is exactly the set of such keys; which StorageSlot nodes the passes create is the stage half (C05_lifts_only_under_access, C05_lifts_only_in_keys_outside_K3, K3_refuted).",
    "note": "Trusted: Coq kernel for the predicate; keccak table computed with the sha3 crate in the harness; harness; hook H2. The "
            "chain from layout rows back to lifted StorageSlot nodes through registration/unification is searched, not proved (partial).",
    "technique": "attribution predicate evaluated inside Coq on the real VM states and the real layout; Coq stage lemmas for the lifting "
                 "passes; known class decided in Coq",
}

CODES = {70: "a program that executes no storage instruction got a non-empty layout",
         71: "a reported slot is not attributable to any storage access executed on a path of the model's run", 61: "known K3 (slot taken from a hash-shaped value)",
         78: "panic"}


def check(ctx):
    vlib.translate(ctx)
    vlib.prove(ctx, "props/C05.v", ["LayoutCases.vo"])
    vlib.prove(ctx, "props/C05_pipeline.v")
    hb = vlib.harness_bin(ctx)
    rng = ctx.rng
    bw = gen.boundary_words()
    progs = collections.OrderedDict()
    try:
        for l in open(vlib.ROOT + "/corpus/C05.txt"):
            l = l.split("#")[0].strip()
            if l:
                progs.setdefault(bytes.fromhex(l.split()[0]), "corpus")
    except FileNotFoundError:
        pass
    n = 400 if ctx.quick else 6000
    for c in gen.hashing_programs(rng, bw, n, with_storage=False):
        progs.setdefault(c, "storage-free")
    for c in gen.hashing_programs(rng, bw, n, with_storage=True):
        progs.setdefault(c, "mixed")
    # storage-free code that uses bytes which are NOT storage instructions of this EVM version in storage-like positions
    # (0x5c / 0x5d are TLOAD / TSTORE in later versions, 0x49 / 0x4a, 0x0c-0x0f, 0x21-0x2f unassigned): key and value operands
    # are in place, so a machine that gave them storage semantics would report slots
    for _ in range(60 if ctx.quick else 800):
        a = gen.Asm()
        for _ in range(rng.randrange(1, 4)):
            k = rng.choice([0, 1, 7, 2 ** 64 + 1])
            b = rng.choice([0x5c, 0x5d, 0x5d, 0x49, 0x4a, 0x0c, 0x21, 0xa5, 0xb0, 0xf6])
            if rng.random() < 0.4:       # a mapping-shaped key
                a.op("CALLER").push(0).op("MSTORE").push(k).push(0x20).op("MSTORE").push(0x40).push(0).op("SHA3")
            else:
                a.push(k)
            if b in (0x5d, 0x4a, 0xb0):
                a.push(0x2a)
                a.raw([0x90])
            a.raw([b])
            if rng.random() < 0.5:
                a.op("POP")
        a.push(0x20).push(0).op("RETURN")
        progs.setdefault(a.assemble(), "storage-free")
    for _ in range(60 if ctx.quick else 800):
        vs = gen.random_vars(rng, rng.randrange(1, 6))
        progs.setdefault(gen.compile_layout(vs, rng), "idioms")
    real = [bytes.fromhex(h) for _, h in gen.real_contracts()]
    for _ in range(6 if ctx.quick else 60):
        small = [r for r in real if len(r) < 3000]
        if small:
            c = bytearray(rng.choice(small))
            c[rng.randrange(len(c))] ^= 1 << rng.randrange(8)
            progs.setdefault(bytes(c), "mutated-contract")
    keys = list(progs.keys())
    stage = vlib.stage_replay(ctx)
    if ctx.replay_in and not stage:
        keys = [bytes.fromhex(json.load(open(ctx.replay_in))["replay"]["code"])]
    PERM_CFG = L.DEFAULT_CFG[:5] + (1,)
    dead = gen.dead_storage_programs(rng, bw, 150 if ctx.quick else 2500)
    perm_keys = [c for c, _ in dead]
    for c, perm in dead:
        if not perm:
            progs.setdefault(c, "dead-storage-after-halt")
    if not ctx.replay_in:
        keys = list(progs.keys())
    groups = [("strict", keys, L.DEFAULT_CFG)]
    if not ctx.replay_in:
        # permissive mode: errors of bad jumps are dropped, the thread must still end; plus a sample of the other classes
        groups.append(("permissive", list(collections.OrderedDict.fromkeys(perm_keys + keys[:: 7])), PERM_CFG))
    elif ctx.replay_in and not stage and json.load(open(ctx.replay_in))["replay"].get("permissive"):
        groups = [("permissive", keys, PERM_CFG)]
    if hb and not stage:
        import re
        table = L.keccak_table(hb)
        nonempty = 0
        aclasses = collections.Counter()
        for gname, gkeys, gcfg in groups:
            vmo = L.vm(ctx, hb, gkeys, cfg=gcfg, name="vm:" + gname)
            ano = L.analyze(ctx, hb, gkeys, cfg=gcfg, name="analyze:" + gname)
            ok, hashes, diag = vlib.run_harness_sharded(hb, ["key-hashes"], [gen.vm_line(c, gcfg) for c in gkeys])
            ctx.oblige("harness:key-hashes:" + gname, "search", ok, diag)
            terms = []
            for c, v, a, hs in zip(gkeys, vmo, ano, hashes):
                consts = set(int(x) for x in re.findall(r"T_KnownData \[(\d+)\]", v))
                pre = ";".join("(%d,%d)" % (k, table[k]) for k in sorted(consts) if k in table)
                terms.append("(%s, %s)" % (vlib.coq_bytes(c), L.hexify("mk_c056case (%s) (%s) [%s] %s" % (v, a, pre, hs if hs.startswith("[") else "[]"))))
            # long programs (mutated real contracts): the model's run inside vm_compute is too slow for them; their
            # attribution is evaluated against the implementation's own states only
            is_big = lambda c: len(c) > 700 or progs.get(c) == "mutated-contract"
            small_i = [i for i, c in enumerate(gkeys) if not is_big(c)]
            big_i = [i for i, c in enumerate(gkeys) if is_big(c)]
            # state dumps of real contracts can be megabytes; the quick tier evaluates the moderate ones only
            cap = 250000 if ctx.quick else 3000000
            skipped = [i for i in big_i if len(terms[i]) > cap]
            big_i = [i for i in big_i if len(terms[i]) <= cap]
            ctx.coverage["long_programs_not_evaluated_in_coq"] = ctx.coverage.get("long_programs_not_evaluated_in_coq", 0) + len(skipped)
            bs = vlib.run_cases(ctx, "attribution-" + gname, L.HEADER, [terms[i] for i in small_i],
                                per_shard=min(60, max(1, len(small_i) // 32 + 1)), timeout=1800,
                                fn="(fun t => c05m_code (fst t) (%s) (snd t))" % gen.coq_config(gcfg))
            bb = vlib.run_cases(ctx, "attribution-long-" + gname, L.HEADER, [terms[i] for i in big_i], per_shard=4, timeout=1800,
                                fn="(fun t => c05_code (snd t))") if big_i else []
            bad = [(small_i[k], code) for k, code in bs] + [(big_i[k], code) for k, code in bb]
            for idx, code in bad:
                c = gkeys[idx]
                rep = {"code": c.hex(), "meaning": CODES.get(code), "layout": ano[idx][:600], "permissive": gcfg[5] == 1,
                       "how": "echo '<code> 30000000 10 50 250 394 %d 100 -1 all' | build/harness-target/debug/slxh analyze  (and ... vm)" % gcfg[5]}
                if code == 61:
                    ctx.violate("C05:K3", "slot from a hash-shaped value: %s" % c.hex()[:120], rep)
                else:
                    ctx.violate("C05:%d:%s" % (code, c.hex()[:48]), "%s (%s mode): program %s" % (CODES.get(code, code), gname, c.hex()[:160]), rep)
            nonempty += len([1 for a in ano if ",(AT" in a])
            aclasses.update(gname + ":" + str(L.xa_class(a)) for a in ano)
        ctx.coverage.update({"evaluations": sum(len(g[1]) for g in groups),
                             "distinct_nontrivial": nonempty + progs_count(progs, "storage-free") + len(perm_keys),
                             "input_classes": dict(collections.Counter(progs.values())),
                             "permissive_mode_programs": len(groups[1][1]) if len(groups) > 1 else 0,
                             "layouts_with_entries": nonempty,
                             "analysis_classes": dict(aclasses)})
    import p_pipeline
    p_pipeline.suite(ctx, translate=False, codes={11}, cov_key="whole_pipeline_model", only=r"^(pipeline_storage_free|pipeline_table_only|pipeline_check_uses|pipeline_glue|pipeline_rule_order)", part=(0, 3))
    import p_passes_slots
    p_passes_slots.suite(ctx, translate=False, codes={10}, cov_key="lifting_passes_slots", only=r"^(C05_|K3_|.*_no_storage_access_identity|.*applies_to_key_and_value|no_lifted_input_ok|hashed_rewrites_outside_access|default_pipeline_shape|da_lift_fuel)")
    return vlib.finish(ctx, rule="distinct programs; non-trivial = storage-free program (must give an empty layout) or a program whose "
                       "layout has entries (each attributed)", samples=[c.hex()[:120] for c in keys[:3]])


def progs_count(progs, cls):
    return len([1 for v in progs.values() if v == cls])
