"""C10 -- disassembly is total, lossless and keeps byte offsets."""
import collections
import os
import vlib
import gen

MANIFEST = {
    "text": "Coq theorems over a model of disassemble()/InstructionStream::try_from for ALL non-empty byte strings (any length up to 2^32): totality, one entry per byte, byte-exact re-encoding, push immediates never instructions, a PUSH truncated by any number of bytes tolerated, unassigned bytes INVALID. The opcode byte table inside the model is regenerated from the Rust match arms and impl Opcode blocks on every run (table round trip proved by complete enumeration of the 256 byte values); the hand-written state machine is tied to the code by a correspondence run (model vs try_from on the same inputs, evaluated in Coq) and the property predicate is also evaluated directly on the implementation's output. The entry point is anchored on every run (T1b: try_from(&[u8]) is disassemble + the re-encoding assertion with no other early return; the only size limit is u32::MAX), and inputs of 24575 / 24576 / 24577 / 32768 / 65536 bytes are checked for acceptance in both tiers. Content must not matter: every byte-array / byte-string literal of the disassembly sources as they are now, plus well-known container and compiler markers (EOF magic, solc preambles, metadata headers, minimal-proxy code), is tried as prefix, suffix, infix and PUSH immediate; the text of `disassemble` around its byte match is pinned by the translator (T1b).",
    "note": "Trusted: Coq kernel + vm_compute; translator T1/T5 (regex over the match arms, impl Opcode blocks, constructor guards); "
            "the harness and generators bound how well model = code is known. Byte strings longer than 2^32 are outside the theorem "
            "(the code rejects them with BytecodeTooLarge).",
    "technique": "Coq proof (induction over the byte string against a token-level spec) over a translated opcode table + hand model; "
                 "differential correspondence evaluated inside Coq",
}


KNOWN_MAGIC = ["ef00", "ef0001", "ef000101", "ef0001010004", "6080604052", "6060604052", "a264697066735822", "a165627a7a72305820",
               "a2646970667358221220", "363d3d373d3d3d363d73", "5af43d82803e903d91602b57fd5bf3", "fe", "00", "64736f6c6343", "0033",
               "60806040", "3d602d80600a3d3981f3"]


def magic_tokens():
    """Byte strings mentioned by the sources of the disassembly entry points as they are now, plus well-known markers."""
    import glob
    import re
    toks = set(bytes.fromhex(h) for h in KNOWN_MAGIC)
    root = vlib.REPO
    files = [root + "/src/constant.rs", root + "/src/error/disassembly.rs", root + "/src/extractor/mod.rs", root + "/src/extractor/contract.rs"]
    files += glob.glob(root + "/src/disassembly/*.rs")
    for f in files:
        try:
            src = open(f).read()
        except OSError:
            continue
        src = re.sub(r"#\[cfg\(test\)\].*", "", src, flags=re.S)          # unit tests below the code are not entry-point logic
        for m in re.finditer(r"\[((?:\s*0x[0-9a-fA-F]{1,2}(?:_?u8)?\s*,?){2,40})\]", src):
            bs = [int(x, 16) for x in re.findall(r"0x([0-9a-fA-F]{1,2})", m.group(1))]
            toks.add(bytes(bs))
        for m in re.finditer(r'b"((?:[^"\\]|\\.){1,40})"', src):
            try:
                toks.add(m.group(1).encode("latin-1").decode("unicode_escape").encode("latin-1"))
            except Exception:
                pass
        for m in re.finditer(r'"(?:0x)?((?:[0-9a-fA-F]{2}){2,40})"', src):
            toks.add(bytes.fromhex(m.group(1)))
    return sorted(t for t in toks if 1 <= len(t) <= 40)


def inputs(ctx):
    rng = ctx.rng
    ins = collections.OrderedDict()

    def add(b, cls):
        ins.setdefault(bytes(b).hex(), cls)

    # corpus first
    try:
        for l in open(vlib.ROOT + "/corpus/C10.txt"):
            l = l.split("#")[0].strip()
            if l:
                ins.setdefault(l, "corpus")
    except FileNotFoundError:
        pass
    for b in range(256):
        add([b], "len1")
    # every PUSHn followed by every truncation length, behind several prefixes
    for n in range(1, 33):
        for k in range(0, n + 1):
            for pre in ([], [0x5b], [0x60, 0x5b], [0x61, 0x00]):
                add(pre + [0x5f + n] + [rng.randrange(256) for _ in range(k)], "trunc")
            add([0x5f + n] + [0x5b] * k, "push-of-jumpdest")
            add([0x5f + n] + [rng.choice([0x5b, 0x60, 0x7f, 0x61]) for _ in range(k)], "push-of-push")
    # every opcode byte behind a complete / an incomplete push
    for b in range(256):
        add([0x60, b], "len2")
        add([0x61, b], "len2")
        add([0x61, 0x00, b], "len3")
    if ctx.quick:
        for _ in range(1500):
            add([rng.randrange(256), rng.randrange(256)], "len2")
    else:
        for a in range(256):
            for b in range(256):
                add([a, b], "len2")
    nrand = 300 if ctx.quick else 3000
    for _ in range(nrand):
        n = rng.choice([3, 4, 5, 8, 16, 33, 34, 35, 64, 100, 200])
        # biased towards push bytes so that truncation and nesting are exercised
        bs = [rng.choice([rng.randrange(256), rng.randrange(0x5f, 0x80), 0x5b, 0xfe, 0x0c]) for _ in range(n)]
        add(bs, "random-short")
    # strings whose LAST two bytes read as a big-endian length L pointing back at a small CBOR map header (0xa1..0xa4), the
    # shape of solc's metadata trailer -- but with that position inside live code or inside a PUSH immediate: positions
    # and immediates are defined by the scan from offset 0 only
    for _ in range(300 if ctx.quick else 4000):
        n = rng.choice([4, 5, 6, 8, 12, 20, 43, 60, 120])
        bs = [rng.choice([rng.randrange(256), rng.randrange(0x5f, 0x80), 0x5b, 0x00, 0x56]) for _ in range(n)]
        p = rng.randrange(0, n - 2)
        bs[p] = rng.choice([0xa1, 0xa2, 0xa3, 0xa4])
        if p > 0 and rng.random() < 0.6:
            bs[p - 1] = rng.choice([0x60, 0x61, 0x7f, 0x6f])     # the header byte is a PUSH immediate
        L = n - 2 - p
        bs[-2], bs[-1] = L >> 8, L & 0xff
        add(bs, "metadata-lookalike")
    for bs in ([0xa1, 0x5b, 0x00, 0x02], [0x61, 0xa1, 0x5b, 0x00, 0x02]):
        add(bs, "metadata-lookalike")
    # byte strings that look "special": every byte-array / byte-string / long hex literal that occurs in the sources of the
    # disassembler, the constants and the extractor entry points AS THEY ARE NOW (a content check added to the entry point
    # brings its own magic into this dictionary), plus the well-known container / compiler markers; each at the start, at the
    # end, in the middle and as a PUSH immediate -- the stream is defined by the scan from offset 0 only, whatever the content
    for tok in magic_tokens():
        tails = [[], [0x00], [0x5b, 0x00], [0x60], [0x7f] + [0x5b] * 3, [rng.randrange(256) for _ in range(7)],
                 [rng.randrange(256) for _ in range(40)]]
        for tl in tails:
            add(list(tok) + tl, "magic-prefix")
        add([0x5b] + list(tok), "magic-suffix")
        add([rng.randrange(256) for _ in range(5)] + list(tok), "magic-suffix")
        add([0x60, 0x00] + list(tok) + [0x00], "magic-infix")
        if len(tok) <= 32:
            add([0x5f + len(tok)] + list(tok) + [0x5b, 0x00], "magic-as-immediate")
            add([0x5f + len(tok)] + list(tok)[:-1], "magic-as-immediate")
        for cutn in range(1, len(tok)):
            add(list(tok)[:cutn], "magic-prefix")
    big = [1000, 3000] if ctx.quick else [1000, 3000, 8000, 24576, 24576]
    for n in big:
        add([rng.randrange(256) for _ in range(n)], "random-large")
    # real contracts cut near a PUSH
    cs = gen.real_contracts()
    ncut = 40 if ctx.quick else 400
    for _ in range(ncut):
        if not cs:
            break
        name, h = rng.choice(cs)
        code = bytes.fromhex(h)
        lim = min(len(code), 1500 if ctx.quick else 4000)
        pushes = [i for i in range(lim) if 0x60 <= code[i] <= 0x7f]
        if not pushes:
            continue
        p = rng.choice(pushes)
        cut = p + rng.randrange(0, code[p] - 0x5f + 2)
        add(code[:max(1, cut)], "contract-cut")
    return ins


CODES = {1: "model result differs from implementation", 2: "error kind differs", 3: "panic on empty input",
         4: "unknown opcode name in implementation output", 5: "per-instruction encode() differs from the model's encode",
         10: "non-empty byte string rejected", 11: "panic", 12: "entries != bytes", 13: "re-encoding differs from input",
         14: "push-immediate / unassigned / opcode position has the wrong kind of entry"}


def check(ctx):
    vlib.translate(ctx)
    vlib.prove(ctx, "props/C10.v", ["DisasmCases.vo"])
    hb = vlib.harness_bin(ctx)
    ins = inputs(ctx)
    dist = collections.Counter(ins.values())
    distinct_nontrivial = 0
    if hb:
        keys = list(ins.keys())
        if ctx.replay_in:
            import json
            keys = [json.load(open(ctx.replay_in))["replay"]["input_hex"]]
        rc, out, err = vlib.run_harness(hb, ["disasm"], "\n".join(keys) + "\n")
        lines = out.strip().split("\n") if out.strip() else []
        ok = rc == 0 and len(lines) == len(keys)
        ctx.oblige("harness:disasm", "correspondence", ok, "rc=%s lines=%d/%d %s" % (rc, len(lines), len(keys), err[-300:]))
        # totality at the size limit of the property's domain (24 KiB) and just around it: these inputs are checked for
        # acceptance and length only here (the model side of inputs this long is evaluated in the thorough tier)
        if not ctx.replay_in:
            sizes = [24575, 24576, 24577, 32768, 65536]
            edge = [bytes(ctx.rng.randrange(256) for _ in range(n)).hex() for n in sizes]
            rc2, out2, err2 = vlib.run_harness(hb, ["disasm"], "\n".join(edge) + "\n")
            l2 = out2.strip().split("\n") if out2.strip() else []
            ctx.oblige("harness:disasm-size-limit", "correspondence", rc2 == 0 and len(l2) == len(edge), "rc=%s %s" % (rc2, err2[-200:]))
            for k, n, l in zip(edge, sizes, l2):
                if "(ROk " not in l[:min(len(l), 4 * n + 200)]:
                    ctx.violate("C10:10:len%d" % n, "a non-empty byte string of %d bytes was rejected: %s" % (n, l[-160:]),
                                {"input_hex": k, "code": 10, "meaning": CODES[10], "length": n,
                                 "how": "printf '%s\\n' <input_hex> | build/harness-target/debug/slxh disasm"})
            ctx.coverage["size_limit_inputs"] = sizes
        if ok:
            outcome = collections.Counter(l.split("(", 1)[1].split(" ")[0] if "(" in l else l for l in lines)
            # big cases get their own shards (the model's `ops ++ [i]` is quadratic)
            small = [(k, l) for k, l in zip(keys, lines) if len(k) <= 800]
            large = [(k, l) for k, l in zip(keys, lines) if len(k) > 800]
            header = "From Coq Require Import String.\nFrom SLX Require Import Base Disasm DisasmCases.\nOpen Scope string_scope. Open Scope N_scope.\n"
            bad = vlib.run_cases(ctx, "disasm-small", header, [l for _, l in small], per_shard=500)
            bad_l = vlib.run_cases(ctx, "disasm-large", header, [l for _, l in large], per_shard=1) if large else []
            disagreements = []
            for (idx, code), pool in [(b, small) for b in bad] + [(b, large) for b in bad_l]:
                k = pool[idx][0]
                if code >= 10:
                    ctx.violate("C10:%s:%s" % (code, k[:64]), "%s on input %s" % (CODES.get(code, code), k[:200]),
                                {"input_hex": k, "code": code, "meaning": CODES.get(code), "impl": pool[idx][1][:2000],
                                 "how": "printf '%s\\n' <input_hex> | build/harness-target/debug/slxh disasm"})
                else:
                    disagreements.append("%s: %s" % (k[:80], CODES.get(code, code)))
            ctx.oblige("correspondence:disasm", "correspondence", not disagreements, "\n".join(disagreements[:10]))
            distinct_nontrivial = len([k for k in keys if any(0x60 <= b <= 0x7f for b in bytes.fromhex(k))])
            ctx.coverage.update({
                "evaluations": len(keys), "distinct_nontrivial": distinct_nontrivial,
                "traces_validated_against_impl": len(keys),
                "input_classes": dict(dist), "impl_outcomes": dict(outcome),
                "exhaustive": (not ctx.quick),
                "exhaustive_note": "all 256 strings of length 1 in both tiers; all 65 536 strings of length 2 in the thorough tier",
            })
    samples = list(ins.keys())[:3] + [k for k, c in ins.items() if c == "trunc"][:3]
    return vlib.finish(ctx, rule="inputs are distinct hex strings (dict keys); non-trivial = contains at least one PUSH1..PUSH32 byte; "
                       "classes: " + ", ".join(sorted(set(ins.values()))), samples=samples)
