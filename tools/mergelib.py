"""Shared by p_c15.py / p_c16.py: inputs for the `merge` suite (harness/src/cmd_merge.rs,
coq/MergeCases.v), and a case runner that keeps the generated Coq files small.

Text syntax of a type expression (see cmd_merge.rs):
  Any | Bytes | Eq:<v> | W:<width|->:<Usage> | F:<v>:<len> | M:<v>:<v> | D:<v>
  | P:<0|1>:<v>,<off>,<size>/...  | C[ <te>* ] R[ i<n>* ]
"""
import collections
import itertools
import os
import re
import shutil
from concurrent.futures import ThreadPoolExecutor

import vlib

USES = ["Bytes", "Numeric", "UnsignedNumeric", "SignedNumeric", "Bool", "Address", "Selector", "Function"]
FIXED_W = {"Bool": 8, "Address": 160, "Selector": 32, "Function": 192}
DOMAIN_WIDTHS = ["-", 8, 32, 160, 192, 256]

HEADER = ("From Coq Require Import String.\n"
          "From SLX Require Import Base gen.Constants gen.WordUseTable TypeExpr Merge MergeCases.\n"
          "Open Scope string_scope. Open Scope N_scope.\n"
          "Set Printing Depth 1000000. Set Printing Width 1000000.\n")


def domain():
    """The finite evidence domain of C16, in the order of `evidence_domain` (coq/Merge.v)."""
    dom = ["Any", "Bytes", "C[ W:8:Bool W:160:Address ] R[ i0 ]"]
    for u in USES:
        ws = [FIXED_W[u]] if u in FIXED_W else DOMAIN_WIDTHS
        dom += ["W:%s:%s" % (w, u) for w in ws]
    dom += ["M:0:1", "M:1:0", "M:0:0", "D:0", "F:0:3", "F:0:4", "D:1", "F:1:3", "F:1:4"]
    return dom


def kind(t):
    """constructor class of an expression text (for the coverage histogram)"""
    if t.startswith("C["):
        return "Conflict"
    h = t.split(":")[0]
    return {"W": "Word", "F": "Fixed", "M": "Mapping", "D": "Dyn", "P": "Packed", "Eq": "Equal"}.get(h, h)


# ------------------------------------------------------------------------------------------------
# random expressions: arbitrary widths, lengths, variables, conflict payloads, Equal, packed spans

WIDTH_POOL = ["-", "-", 0, 1, 7, 8, 8, 16, 32, 64, 128, 160, 160, 192, 248, 255, 256, 256, 257, 512]
LEN_POOL = [0, 1, 2, 3, 4, 32, 2 ** 64, 2 ** 256 - 1]
NV = 6


def rand_var(rng):
    return rng.choice([0, 1, 2, 3, 4, 5, 5, 6, 9, 1000]) if rng.random() < 0.15 else rng.randrange(NV)


def rand_word(rng):
    u = rng.choice(USES)
    if u in FIXED_W and rng.random() < 0.7:
        w = FIXED_W[u]
    else:
        w = rng.choice(WIDTH_POOL)
    return "W:%s:%s" % (w, u)


def rand_spans(rng):
    r = rng.random()
    if r < 0.12:
        return []
    if r < 0.30:
        # the encodings that `merge` accepts against bytes / dynamic arrays, possibly perturbed, unsorted
        pool = [(0, 1), (1, 7), (8, 248)]
        k = rng.randrange(1, 4)
        sp = rng.sample(pool, k)
        if rng.random() < 0.3:
            i = rng.randrange(len(sp))
            sp[i] = (sp[i][0] + rng.choice([0, 1]), sp[i][1] + rng.choice([0, 1, 8]))
        if rng.random() < 0.2:
            sp.append(rng.choice(pool))
        return [(rand_var(rng), o, z) for o, z in sp]
    k = rng.randrange(1, 5)
    out = []
    for _ in range(k):
        if rng.random() < 0.03:
            off = rng.choice([2 ** 64 - 1, 2 ** 64 - 8, 2 ** 63])
            size = rng.choice([1, 8, 2 ** 63])
        elif rng.random() < 0.25:
            off, size = rng.randrange(0, 260), rng.randrange(0, 40)      # bit granular, possibly empty
        else:
            off, size = 8 * rng.randrange(0, 14), 8 * rng.randrange(0, 7)  # byte aligned, overlapping, unsorted
        out.append((rand_var(rng), off, size))
    return out


def rand_packed(rng):
    sp = rand_spans(rng)
    return "P:%d:%s" % (1 if rng.random() < 0.3 else 0, "/".join("%d,%d,%d" % s for s in sp))


def rand_te(rng, packed=True, depth=0):
    r = rng.random()
    if r < 0.07:
        return "Any"
    if r < 0.13:
        return "Bytes"
    if r < 0.40:
        return rand_word(rng)
    if r < 0.50:
        return "M:%d:%d" % (rand_var(rng), rand_var(rng))
    if r < 0.58:
        return "D:%d" % rand_var(rng)
    if r < 0.66:
        return "F:%d:%d" % (rand_var(rng), rng.choice(LEN_POOL))
    if r < 0.70 and depth == 0:
        return "Eq:%d" % rand_var(rng)
    if r < 0.78 and depth < 2:
        n = rng.randrange(0, 4)
        cs = " ".join(rand_te(rng, packed, depth + 1) for _ in range(n))
        rs = " ".join("i%d" % rng.randrange(0, 5) for _ in range(rng.randrange(0, 3)))
        return "C[ %s ] R[ %s ]" % (cs, rs)
    if packed:
        return rand_packed(rng)
    return rand_word(rng)


def related(rng, t):
    """an expression likely to interact with t (same constructor, nearby parameters)"""
    k = kind(t)
    if k == "Word":
        return rand_word(rng)
    if k == "Mapping":
        return "M:%d:%d" % (rand_var(rng), rand_var(rng))
    if k == "Dyn":
        return rng.choice(["D:%d" % rand_var(rng), "Bytes", rand_word(rng)])
    if k == "Fixed":
        ln = t.split(":")[2]
        return "F:%d:%s" % (rand_var(rng), ln if rng.random() < 0.7 else rng.choice(LEN_POOL))
    if k == "Packed":
        return rng.choice([rand_packed(rng), rand_word(rng), "Bytes", "D:%d" % rand_var(rng), t])
    return rand_te(rng)


def random_lines(rng, n, packed=True):
    """n random cases: pairs, triples and folds"""
    out = []
    for _ in range(n):
        mode = rng.choice(["pair", "pair", "triple", "triple", "triple", "fold"])
        cnt = {"pair": 2, "triple": 3}.get(mode) or rng.randrange(2, 7)
        ts = [rand_te(rng, packed)]
        while len(ts) < cnt:
            ts.append(related(rng, rng.choice(ts)) if rng.random() < 0.6 else rand_te(rng, packed))
        if rng.random() < 0.1:
            ts[rng.randrange(len(ts))] = ts[0]      # identical operands (the `left == right` shortcut)
        rng.shuffle(ts)
        out.append("%s %d %d %s" % (mode, rand_var(rng), NV, " ".join(ts)))
    return out


def word_fold_lines(rng, n):
    """folds over families of word evidence (with Any in between): C15's word lattice"""
    out = []
    for _ in range(n):
        k = rng.randrange(2, 7)
        # mostly compatible families: pick a target and emit weakenings of it
        if rng.random() < 0.7:
            u = rng.choice(USES)
            w = FIXED_W.get(u, rng.choice([8, 16, 32, 160, 256]))
            below = {"Bytes": ["Bytes"], "Numeric": ["Bytes", "Numeric"], "UnsignedNumeric": ["Bytes", "Numeric", "UnsignedNumeric"],
                     "SignedNumeric": ["Bytes", "Numeric", "SignedNumeric"], "Bool": ["Bytes", "Bool"],
                     "Address": ["Bytes", "Numeric", "UnsignedNumeric", "Address"], "Selector": ["Bytes", "Selector"],
                     "Function": ["Bytes", "Function"]}[u]
            ts = ["W:%s:%s" % (rng.choice([w, "-"]), rng.choice(below)) for _ in range(k)]
            if rng.random() < 0.3:
                ts[rng.randrange(k)] = rand_word(rng)   # one contradictory judgement injected
        else:
            ts = [rand_word(rng) for _ in range(k)]
        if rng.random() < 0.3:
            ts.insert(rng.randrange(len(ts) + 1), "Any")
        out.append("fold %d %d %s" % (rand_var(rng), NV, " ".join(ts)))
    return out


# ------------------------------------------------------------------------------------------------
# running cases

STR = re.compile(r'"(?:[^"]|"")*"')


def compress(lines, prefix="h"):
    """Syntactic let-abstraction, so that coqc does not re-elaborate the same subterm thousands of times:
    every string literal and every parenthesised group occurring in the case terms is defined once
    (`Definition hN := <text>.`) and referred to by name."""
    table = {}
    defs = []

    def name_of(text):
        n = table.get(text)
        if n is None:
            n = "%s%d" % (prefix, len(table))
            table[text] = n
            defs.append("Definition %s := %s." % (n, text))
        return n

    out = []
    for l in lines:
        l = STR.sub(lambda m: name_of(m.group(0)), l)
        stack = [[]]
        for ch in l:
            if ch == "(":
                stack.append([])
            elif ch == ")":
                inner = "".join(stack.pop())
                stack[-1].append(name_of("(" + inner + ")"))
            else:
                stack[-1].append(ch)
        if len(stack) != 1:
            raise ValueError("unbalanced term: " + l[:200])
        out.append("".join(stack[0]))
    return defs, out


def run_cases(ctx, name, case_terms, fn="check_case", per_shard=4000, chunk=50, timeout=1200):
    """Evaluates `fn : mcase -> N` on every case term inside Coq (sharded over coqc processes) and returns
    [(index, code)] for the non-zero codes. A shard that does not compile is a broken correspondence
    obligation."""
    d = os.path.join(vlib.BUILD, "cases", ctx.prop, name)
    shutil.rmtree(d, ignore_errors=True)
    os.makedirs(d)
    files = []
    for k in range(0, len(case_terms), per_shard):
        defs, terms = compress(case_terms[k:k + per_shard])
        body = HEADER + "\n".join(defs) + "\n"
        names = []
        for i in range(0, len(terms), chunk):
            names.append("k%d" % (i // chunk))
            body += "Definition %s : list mcase := [%s].\n" % (names[-1], "; ".join(terms[i:i + chunk]))
        body += "Definition cases : list mcase := concat [%s].\n" % "; ".join(names)
        body += "Definition res := Eval vm_compute in (map %s cases).\n" % fn
        body += ("Definition bad := Eval vm_compute in (filter (fun p => negb (N.eqb (snd p) 0)) "
                 "(combine (map N.of_nat (seq 0 (length res))) res)).\n")
        body += 'Check "BEGIN-BAD"%string.\nPrint bad.\nCheck "END-BAD"%string.\n'
        f = os.path.join(d, "cases_%d.v" % (k // per_shard))
        with open(f, "w") as fh:
            fh.write(body)
        files.append(f)

    def one(f):
        return vlib.sh("coqc -noglob -Q %s SLX %s" % (vlib.COQ, f), timeout=timeout)

    bad, broken = [], []
    with ThreadPoolExecutor(vlib.NCPU) as ex:
        for k, (rc, out) in enumerate(ex.map(one, files)):
            if rc != 0:
                broken.append("shard %d: %s" % (k, out[-800:]))
                continue
            m = re.search(r'"BEGIN-BAD".*?bad\s*=\s*(.*?):\s*list \(N \* N\)', out, flags=re.S)
            if not m:
                broken.append("shard %d: unparsable output %s" % (k, out[-400:]))
                continue
            for a, b in re.findall(r"\(\s*(\d+)(?:%N)?\s*,\s*(\d+)(?:%N)?\s*\)", m.group(1)):
                bad.append((k * per_shard + int(a), int(b)))
    ctx.oblige("cases-evaluate:" + name, "correspondence", not broken, "\n".join(broken)[:2000])
    return bad


def prepare(ctx, propfile):
    """steps 1-3 of the decision rule; returns the harness binary (or None)"""
    vlib.translate(ctx)
    vlib.prove(ctx, propfile)
    # the case evaluator depends on the model only, so it still builds when a proof is broken
    rc, out = vlib.coq_make(["MergeCases.vo"])
    ctx.oblige("build:MergeCases.vo", "build", rc == 0, out[-1500:])
    hb = vlib.harness_bin(ctx)
    return hb if rc == 0 else None


def run_suite(ctx, hb, lines, fn, name):
    """harness + Coq evaluation; returns (terms, [(index, code)]) or (None, None)"""
    rc, out, err = vlib.run_harness(hb, ["merge"], "\n".join(lines) + "\n")
    terms = out.strip().split("\n") if out.strip() else []
    badin = [i for i, t in enumerate(terms) if t.startswith("BADINPUT")]
    ok = rc == 0 and len(terms) == len(lines) and not badin
    ctx.oblige("harness:merge:" + name, "correspondence", ok,
               "rc=%s lines=%d/%d badinput=%s %s" % (rc, len(terms), len(lines), [lines[i] for i in badin[:3]], err[-300:]))
    if not ok:
        return None, None
    return terms, run_cases(ctx, name, terms, fn=fn)


def corpus(prop):
    out = []
    try:
        for l in open(os.path.join(vlib.ROOT, "corpus", prop + ".txt")):
            l = l.split("#")[0].strip()
            if l:
                out.append(l)
    except FileNotFoundError:
        pass
    return out


def domain_lines(ctx, all_triples):
    """(lines, classes): all ordered pairs of the domain; all ordered triples, or a seeded sample that
    covers every combination of constructor classes"""
    dom = domain()
    lines = ["pair 0 2 %s %s" % (a, b) for a, b in itertools.product(dom, dom)]
    cls = ["domain-pair"] * len(lines)
    trip = list(itertools.product(dom, dom, dom))
    if not all_triples:
        by = collections.defaultdict(list)
        for t in trip:
            by[tuple(kind(x) for x in t)].append(t)
        pick = []
        for k in sorted(by):
            ts = by[k]
            ctx.rng.shuffle(ts)
            pick += ts[:max(6, len(ts) // 6)]
        trip = pick
    lines += ["triple 0 2 %s %s %s" % t for t in trip]
    cls += ["domain-triple"] * len(trip)
    return lines, cls
