"""C06 -- no missed slots: every constant-key storage access yields a layout entry."""
import collections
import json
import re

import gen
import layoutlib as L
import vlib

MANIFEST = {
    "text": "For each program the real VM's retired states and the real analysis' layout are compared INSIDE Coq: every literal storage key of every explored path (other than the keccak hash of a small slot number) must have at least one layout entry at exactly that 256-bit index. Inputs cover small keys, keys >= 2^64, >= 2^128, 2^256-1, EIP-1967 constants, read-only / write-only / mixed use, buried in unrelated code. VM-level facts (SLOAD of a fresh key creates a generation, SSTORE appends, every retired thread's state is collected) follow from the VM model's theorems and correspondence; the six slot passes keep a literal key and wrap it as a slot (pass_keeps_literal_key, C06_exposed_literal_key: all trees, all 256-bit keys outside the hash table; literal_key_anywhere_refuted documents the positions under Add/Sha3 where a key is consumed by a mapping/array pattern); inference keeps every StorageSlot{constant} among the values (rule_keeps_slot); the layout loop emits at least one row whose index is the full 256-bit key for every constant slot, whatever unification produced (const_slot_row, layout_row_per_const_slot). These stage models are tied to the code by per-run correspondence; the end-to-end chain is additionally searched on real runs. END TO END: the stage models are composed into one executable model of the whole analysis (Pipeline.v: disassembly, VM, all_values, nine passes, registration, rules, unification under the hooked iteration orders, abi_type_for, layout), tied to the real `analyze` by a whole-program differential run in three order modes (stage of first disagreement reported), and pipeline_literal_key_row proves for EVERY program and configuration: a literal key outside the hash table in a retired state of the model's VM run has a row with that index in any returned layout.",
    "note": "Trusted: Coq kernel for the predicate; keccak table by the sha3 crate in the harness; harness; hook H2.",
    "technique": "coverage predicate evaluated inside Coq on the real VM states and the real layout; Coq stage lemmas (VM, lifting passes)",
}


def key_programs(rng, bw, n):
    keys = [0, 1, 2, 7, 255, 256, 2 ** 32, 2 ** 64, 2 ** 64 + 1, 2 ** 128, 2 ** 128 + 9, 2 ** 200, 2 ** 255, 2 ** 256 - 1, 2 ** 256 - 2,
            0x360894a13ba1a3210667c828492db98dca3e2076cc3735a920a3ca505d382bbc,
            0xb53127684a568b3173ae13b9f8a6016e243e63b6e8ee1178d6a717850b5d6103]
    out = []
    for _ in range(n):
        a = gen.Asm()
        for _ in range(rng.randrange(1, 6)):
            k = rng.choice(keys) if rng.random() < 0.7 else rng.choice(bw)
            r = rng.random()
            if r < 0.3:
                a.push(k).op("SLOAD").op("POP")
            elif r < 0.6:
                a.push(rng.choice(bw)).push(k).op("SSTORE")
            elif r < 0.8:
                a.push(k).op("SLOAD").push(1).op("ADD").push(k).op("SSTORE")
            elif r < 0.86:
                # a read whose value disappears: consumed by an operand the VM drops, or culled by the size limit
                a.push(k).op("SLOAD")
                v = rng.random()
                if v < 0.3:
                    a.push(0).op(rng.choice(["RETURN", "REVERT"]))
                elif v < 0.5:
                    a.push(0).op("LOG0")
                elif v < 0.75:
                    for _ in range(rng.choice([7, 8, 9])):
                        a.raw([0x80]).op(rng.choice(["ADD", "MUL"]))
                    a.push(0).op("MSTORE")
                else:
                    a.push(rng.choice(bw)).op(rng.choice(["EQ", "LT", "AND"])).op("ISZERO").op("POP")
            else:
                a.raw(gen.random_program(rng, bw, n_ops=6, hostile=0, loops=False))
                # keep the stack harmless for what follows
            if rng.random() < 0.2:
                a.op("CALLVALUE").push_label("E").op("JUMPI")
        a.op("STOP").label("E").push(rng.choice(keys)).op("SLOAD").op("POP").op("STOP")
        out.append(a.assemble())
    return out


def check(ctx):
    vlib.translate(ctx)
    vlib.prove(ctx, "props/C06.v", ["LayoutCases.vo"])
    hb = vlib.harness_bin(ctx)
    rng = ctx.rng
    bw = gen.boundary_words()
    progs = collections.OrderedDict()
    try:
        for l in open(vlib.ROOT + "/corpus/C06.txt"):
            l = l.split("#")[0].strip()
            if l:
                progs.setdefault(bytes.fromhex(l.split()[0]), "corpus")
    except FileNotFoundError:
        pass
    n = 500 if ctx.quick else 8000
    for c in key_programs(rng, bw, n):
        progs.setdefault(c, "literal-keys")
    for _ in range(60 if ctx.quick else 800):
        vs = gen.random_vars(rng, rng.randrange(1, 6))
        progs.setdefault(gen.compile_layout(vs, rng), "idioms")
    keys = list(progs.keys())
    stage = vlib.stage_replay(ctx)
    if ctx.replay_in and not stage:
        keys = [bytes.fromhex(json.load(open(ctx.replay_in))["replay"]["code"])]
    # values whose size sits exactly at the value-size limit, written to / loaded next to literal keys, for several limits
    # (a wrapper or a copy built with the limit must not swallow the key)
    boundary = []          # (code, limit)
    bkeys = [5, 2 ** 64, 2 ** 128 + 7, 0x360894a13ba1a3210667c828492db98dca3e2076cc3735a920a3ca505d382bbc, 2 ** 256 - 1]
    for lim in ([5, 9, 250] if ctx.quick else [3, 4, 5, 6, 9, 20, 50, 250, 1000]):
        for k in range(max(0, lim - 6), lim + 3):
            a = gen.Asm()
            a.push(0).op("CALLDATALOAD")
            for _ in range(k):
                a.op("ISZERO")
            a.push(rng.choice(bkeys)).op("SSTORE")
            if rng.random() < 0.5:
                a.push(rng.choice(bkeys)).op("SLOAD").op("POP")
            a.op("STOP")
            boundary.append((a.assemble(), lim))
    groups = [(L.DEFAULT_CFG, keys)]
    if not ctx.replay_in:
        for lim in sorted(set(l for _, l in boundary)):
            groups.append((L.DEFAULT_CFG[:3] + (lim,) + L.DEFAULT_CFG[4:], [c for c, l in boundary if l == lim] + (keys[::23] if lim < 250 else [])))
    elif not stage:
        rp = json.load(open(ctx.replay_in))["replay"]
        if rp.get("config"):
            groups = [(tuple(rp["config"]), keys)]
    if hb and not stage:
        table = L.keccak_table(hb)
        ok_layouts, nk, total = 0, 0, 0
        aclasses = collections.Counter()
        for gcfg, gkeys in groups:
            tag = "limit%d" % gcfg[3]
            vmo = L.vm(ctx, hb, gkeys, cfg=gcfg, name="vm:" + tag)
            ano = L.analyze(ctx, hb, gkeys, cfg=gcfg, name="analyze:" + tag)
            terms = []
            for c, v, a in zip(gkeys, vmo, ano):
                consts = set(int(x) for x in re.findall(r"T_KnownData \[(\d+)\]", v))
                pre = ";".join("(%d,%d)" % (k, table[k]) for k in sorted(consts) if k in table)
                terms.append("(%s, %s)" % (vlib.coq_bytes(c), L.hexify("mk_c056case (%s) (%s) [%s] []" % (v, a, pre))))
            mcfg = gen.coq_config(gcfg)
            small_i = [i for i, c in enumerate(gkeys) if len(c) <= 700]
            cap = 250000 if ctx.quick else 3000000
            big_i = [i for i, c in enumerate(gkeys) if len(c) > 700 and len(terms[i]) <= cap]      # too slow for the model's run inside vm_compute
            bs = vlib.run_cases(ctx, "coverage-" + tag, L.HEADER, [terms[i] for i in small_i], timeout=1800,
                                per_shard=min(60, max(1, len(small_i) // 32 + 1)), fn="(fun t => c06m_code (fst t) (%s) (snd t))" % mcfg)
            bb = vlib.run_cases(ctx, "coverage-long-" + tag, L.HEADER, [terms[i] for i in big_i], per_shard=4, timeout=1800,
                                fn="(fun t => c06_code (snd t))") if big_i else []
            bad = [(small_i[k], code) for k, code in bs] + [(big_i[k], code) for k, code in bb]
            nkeys = vlib.run_cases(ctx, "model-keys-" + tag, L.HEADER, [terms[i] for i in small_i], timeout=1800,
                                   per_shard=min(60, max(1, len(small_i) // 32 + 1)), fn="(fun t => c06m_keys (fst t) (%s) (snd t))" % mcfg)
            for idx, code in bad:
                c = gkeys[idx]
                ctx.violate("C06:%d:%s" % (code, c.hex()[:48]),
                            "%s (value size limit %d): program %s" % ({72: "a literal storage key of an explored path has no layout entry",
                                           73: "a literal storage key of a path the MODEL explores has no layout entry (the implementation's own states do not show the access)",
                                           78: "panic"}.get(code, code), gcfg[3], c.hex()[:160]),
                            {"code": c.hex(), "config": list(gcfg), "layout": ano[idx][:600],
                             "how": "echo '<code> <gas> <iter> <fork> <size limit> <mem> 0 100 -1 all' | build/harness-target/debug/slxh analyze  (and ... vm)"})
            ok_layouts += len([1 for a in ano if a.startswith("XA 0") and ",(AT" in a])
            nk += sum(v for _, v in nkeys)
            total += len(gkeys)
            aclasses.update(tag + ":" + str(L.xa_class(a)) for a in ano)
        ctx.coverage.update({"evaluations": total, "distinct_nontrivial": ok_layouts,
                             "literal_keys_in_model_runs": nk,
                             "input_classes": dict(collections.Counter(progs.values())),
                             "size_boundary_programs": len(boundary),
                             "value_size_limits": sorted(set(g[0][3] for g in groups)),
                             "analysis_classes": dict(aclasses)})
    import p_pipeline
    p_pipeline.suite(ctx, translate=False, codes={12}, cov_key="whole_pipeline_model", only=r"^(pipeline_literal_key_row|pipeline_nine_passes_keep|pipeline_storage_entries|pipeline_glue|pipeline_rule_order)", part=(1, 3))
    import p_tc_stages as TS
    TS.suite(ctx, translate=False, parts=("abi",), codes={"abi": {21}}, cov_key="tc_stages",
             only=r"^(rule_keeps_slot|const_slot_row|layout_row_per_const_slot)")
    import p_passes_slots
    p_passes_slots.suite(ctx, translate=False, codes={11}, cov_key="lifting_passes_slots", only=r"^(pass_keeps|C06_|unwritten_|literal_key|default_pipeline_shape)")
    return vlib.finish(ctx, rule="distinct programs; non-trivial = the analysis succeeded with a non-empty layout (every literal key of "
                       "every path checked against it)", samples=[c.hex()[:120] for c in keys[:3]])
