"""C20 -- layout entries survive a JSON round trip with exact 256-bit slot indices."""
import collections
import json
import re
import sys

import vlib

MANIFEST = {
    "text": "Coq theorems over a model of the serde-derived (de)serialisers of StorageSlot / AbiType / StructElement and of the "
            "U256Wrapper hex codec: hex_roundtrip (every n < 2^256 is written as 0x + 64 digits and read back exactly), "
            "json_roundtrip (EVERY well-formed entry, any nesting depth, every variant incl. conflict payloads, is read back "
            "structurally equal by the derived reader when serde_json's recursion limit is off), json_roundtrip_lim / "
            "json_roundtrip_default (the same under a nesting budget: serde_json::from_str's default limit admits exactly the "
            "documents of depth <= 127, e.g. every type nested <= 31 constructors deep), json_roundtrip_default_refuted (64 nested "
            "dynamic arrays are written but not read back: known finding, class = document depth > 127). Tag/key strings and field "
            "declaration orders are re-read from the derive attributes on every run, separately for the serialise and deserialise "
            "side. The model is tied to the real code by a correspondence run evaluated inside Coq: the JSON serde_json writes for "
            "generated slots is compared (object-field order ignored) with the model's, the model reader is compared with "
            "serde_json::from_str on that text and on a stream of malformed/variant documents (hex case, prefix, width, unknown / "
            "duplicate / missing / reordered keys, array form, wrong tags, number kinds), and the property itself (real round trip "
            "equal incl. payloads, 66-character 0x word, index exact) is evaluated on the implementation's own output; every written "
            "slot and index is read back through all four serde_json entry points (from_str, from_slice, from_reader, from_value) "
            "and each must return the equal entry.",
    "note": "serde, serde_derive, serde_json (incl. its text layer: escaping, number tokens, whitespace), hex::encode and "
            "ethnum::U256::from_str_hex are MODELLED, NOT VERIFIED; the model is a JSON-value-level description of their behaviour "
            "pinned by the correspondence streams. Trusted: Coq kernel + vm_compute; tools/tr_json.py (attribute parser; strict: "
            "other tagging styles, alias/default/skip/flatten/with, changed inventory or codec bodies fail translation); the "
            "harness (its own small JSON text parser, cross-checked against serde_json::Value on every document of depth <= 100) "
            "and the generators. Rust's PartialEq on AbiType ignores conflict payloads; the check is stricter (structural equality "
            "and identical re-serialisation).",
    "technique": "Coq proof (induction over the nested type with an explicit nesting budget; schema lemmas by computation on the "
                 "generated names) + translated name/order tables + differential correspondence evaluated inside Coq",
}

U256 = 1 << 256
U64 = 1 << 64

STRINGS = ["", "a", "uint256 vs bytes32", 'say "hi"', "back\\slash", "tab\there", "line\nbreak", "café", " sep",
           "\U0001f600", "\u0001ctl", "nul\u0000", "/slash", "{\"index\":1}", "\u007f", "0x00", "null"]
UNITS = ["any", "address", "selector", "function", "bool", "dynbytes", "infinite"]
SIZED = ["number", "uint", "int", "bytes", "bits"]
VARIANT_OF = {"any": "Any", "address": "Address", "selector": "Selector", "function": "Function", "bool": "Bool",
              "dynbytes": "DynBytes", "infinite": "InfiniteType", "number": "Number", "uint": "UInt", "int": "Int",
              "bytes": "Bytes", "bits": "Bits", "array": "Array", "dynarray": "DynArray", "mapping": "Mapping",
              "struct": "Struct", "conflict": "ConflictedType"}


# ------------------------------------------------------------------------------------ generators
# a type is a tuple: (head, payload...) with children as nested tuples

def boundary_indices():
    s = collections.OrderedDict()
    for v in (0, 1, 2, U256 - 1, U256 - 2, 1 << 255, (1 << 255) - 1, (1 << 255) + 1):
        s[v] = "edge"
    for k in range(1, 256):
        for v in ((1 << k) - 1, 1 << k, (1 << k) + 1):
            s.setdefault(v, "pow2")
    return s


def rand_usize(rng):
    return rng.choice([0, 1, 8, 32, 128, 160, 255, 256, 257, (1 << 32), (1 << 63), U64 - 1, rng.randrange(U64), rng.randrange(512)])


def rand_u256(rng):
    c = rng.randrange(6)
    if c == 0:
        return rng.choice([0, 1, U256 - 1, 1 << 255, (1 << 64), (1 << 128) - 1])
    if c == 1:
        k = rng.randrange(256)
        return max(0, min(U256 - 1, (1 << k) + rng.choice([-1, 0, 1])))
    if c == 2:
        return rng.randrange(1 << rng.choice([8, 16, 64, 160]))
    return rng.randrange(U256)


def rand_opt(rng):
    return None if rng.random() < 0.25 else rand_usize(rng)


def rand_strs(rng):
    return tuple(rng.choice(STRINGS) for _ in range(rng.choice([0, 0, 1, 1, 2, 3])))


def leaf(rng, head=None):
    h = head or rng.choice(UNITS + SIZED + ["conflict"])
    if h in UNITS:
        return (h,)
    if h in SIZED:
        return (h, rand_opt(rng))
    return ("conflict", rand_strs(rng), rand_strs(rng))


def tree(rng, depth, head=None):
    """a type whose constructor nesting is at most `depth` (usually reached along the first child)"""
    if depth <= 0 or (head is None and rng.random() < 0.15):
        return leaf(rng, head if head in UNITS + SIZED + ["conflict"] else None)
    h = head or rng.choice(["array", "dynarray", "mapping", "struct"] + (SIZED + ["conflict"] if depth == 1 else []))
    if h in UNITS + SIZED + ["conflict"]:
        return leaf(rng, h)
    if h == "array":
        return ("array", rand_u256(rng), tree(rng, depth - 1))
    if h == "dynarray":
        return ("dynarray", tree(rng, depth - 1))
    if h == "mapping":
        a, b = tree(rng, depth - 1), tree(rng, rng.randrange(depth))
        return ("mapping", a, b) if rng.random() < 0.5 else ("mapping", b, a)
    n = rng.choice([0, 1, 2, 3, 4]) if depth > 1 else rng.choice([0, 1, 2])
    elems = tuple((rng.choice([rng.randrange(256), rand_usize(rng)]), tree(rng, depth - 1 if i == 0 else rng.randrange(depth)))
                  for i in range(n))
    return ("struct", elems)


def chain(head, n, rng, bottom=("any",)):
    t = bottom
    for _ in range(n):
        if head == "dynarray":
            t = ("dynarray", t)
        elif head == "array":
            t = ("array", 7, t)
        elif head == "mapping":
            t = ("mapping", ("address",), t)
        else:
            t = ("struct", ((0, t),))
    return t


def hexs(s):
    return s.encode("utf8").hex()


def desc(t):
    h = t[0]
    if h in UNITS:
        return h
    if h in SIZED:
        return "(%s %s)" % (h, "-" if t[1] is None else t[1])
    if h == "array":
        return "(array 0x%x %s)" % (t[1], desc(t[2]))
    if h == "dynarray":
        return "(dynarray %s)" % desc(t[1])
    if h == "mapping":
        return "(mapping %s %s)" % (desc(t[1]), desc(t[2]))
    if h == "struct":
        return "(struct%s)" % "".join(" (%d %s)" % (o, desc(x)) for o, x in t[1])
    return "(conflict [%s] [%s])" % (",".join(hexs(s) for s in t[1]), ",".join(hexs(s) for s in t[2]))


def kids(t):
    h = t[0]
    if h == "array":
        return [t[2]]
    if h == "dynarray":
        return [t[1]]
    if h == "mapping":
        return [t[1], t[2]]
    if h == "struct":
        return [x for _, x in t[1]]
    return []


def nest(t):
    h = t[0]
    if h in UNITS:
        return 0
    ks = kids(t)
    return 1 + (max(nest(k) for k in ks) if ks else 0)


def jdepth(t):
    """nesting depth of the JSON written for the type (cf. abi_jdepth in coq/Json.v)"""
    h = t[0]
    if h in UNITS:
        return 0
    if h in SIZED:
        return 2
    if h == "conflict":
        return 3
    if h == "struct":
        return 3 + (max(1 + jdepth(x) for _, x in t[1]) if t[1] else 0)
    return 2 + max(jdepth(k) for k in kids(t))


def walk(t, d=0):
    yield t, d
    for k in kids(t):
        yield from walk(k, d + 1)


def valid_inputs(ctx):
    rng = ctx.rng
    out = collections.OrderedDict()          # line -> (class, index class, offset, type)

    def add(index, offset, t, cls, icls):
        out.setdefault("0x%x %d %s" % (index, offset, desc(t)), (cls, icls, offset, t, index))

    try:
        for l in open(vlib.ROOT + "/corpus/C20.txt"):
            l = l.split("#")[0].strip()
            if l:
                out.setdefault(l, ("corpus", "corpus", None, None, None))
    except FileNotFoundError:
        pass
    bidx = boundary_indices()
    bl = list(bidx.items())
    # every boundary index at least once, every offset 0..255 at least once, random small trees
    offs = list(range(256))
    rng.shuffle(offs)
    for i, (v, c) in enumerate(bl):
        add(v, offs[i % 256], tree(rng, rng.randrange(0, 3)), "boundary-index", c)
    for o in range(256):
        v, c = rng.choice(bl)
        add(v, o, tree(rng, rng.randrange(0, 3)), "every-offset", c)
    # every variant at the root of a tree of every depth 0..5 and at the bottom of a spine of every depth
    heads = UNITS + SIZED + ["conflict", "array", "dynarray", "mapping", "struct"]
    reps = 2 if ctx.quick else 12
    for d in range(0, 6):
        for h in heads:
            for _ in range(reps):
                add(rand_u256(rng), rng.randrange(256), tree(rng, max(d, 1) if h in ("array", "dynarray", "mapping", "struct") else d, h), "variant-root", "random")
                bottom = tree(rng, 1 if h in ("array", "dynarray", "mapping", "struct") else 0, h)
                t = bottom
                for _ in range(d):
                    w = rng.choice(["array", "dynarray", "mapping", "struct"])
                    t = {"array": lambda x: ("array", rand_u256(rng), x), "dynarray": lambda x: ("dynarray", x),
                         "mapping": lambda x: ("mapping", tree(rng, 1), x),
                         "struct": lambda x: ("struct", ((rng.randrange(256), tree(rng, 0)), (rng.randrange(256), x)))}[w](t)
                add(rand_u256(rng), rng.randrange(256), t, "variant-bottom", "random")
    # random trees up to depth 5 x random / boundary indices x offsets
    n = 1200 if ctx.quick else 15000
    for _ in range(n):
        if rng.random() < 0.5:
            v, c = rng.choice(bl)
        else:
            v, c = rand_u256(rng), "random"
        add(v, rng.randrange(256), tree(rng, rng.randrange(0, 6)), "random-tree", c)
    # offsets beyond a word and at the usize boundary (the type allows them)
    for o in (256, 257, 1 << 32, U64 - 1):
        add(rand_u256(rng), o, tree(rng, 1), "large-offset", "random")
    # around serde_json's recursion limit: document depth = 1 + jdepth(type); 127 is the last accepted
    for h, per in (("dynarray", 2), ("array", 2), ("mapping", 2), ("struct", 4)):
        for k in range(120 // per, 136 // per + 1):
            add(1, 0, chain(h, k, rng), "limit-boundary", "edge")
    # ... with every kind of innermost document (string, object, arrays of strings / of objects), so that
    # the budget of each nested reader is pinned at the boundary
    for bottom in (("number", None), ("conflict", ("a",), ()), ("struct", ()), ("struct", ((3, ("bool",)),)),
                   ("array", 5, ("uint", 8)), ("mapping", ("address",), ("bytes", 32))):
        for k in range(58, 65):
            add(2, 1, chain("dynarray", k, rng, bottom), "limit-boundary", "edge")
    if not ctx.quick:
        for k in (100, 200, 400):
            add(1, 0, chain("dynarray", k, rng), "limit-boundary", "edge")
    return out


# ------------------------------------------------------------------------------------ malformed stream

class Obj:
    def __init__(self, pairs):
        self.pairs = list(pairs)


def dump(j):
    if isinstance(j, Obj):
        return "{" + ",".join(json.dumps(k) + ":" + dump(v) for k, v in j.pairs) + "}"
    if isinstance(j, list):
        return "[" + ",".join(dump(x) for x in j) + "]"
    if isinstance(j, Raw):
        return j.text
    return json.dumps(j)


class Raw:
    """a literal token (number forms json.dumps would not produce)"""

    def __init__(self, text):
        self.text = text


def clone(j):
    if isinstance(j, Obj):
        return Obj([(k, clone(v)) for k, v in j.pairs])
    if isinstance(j, list):
        return [clone(x) for x in j]
    return j


def nodes(j, path=()):
    yield path, j
    if isinstance(j, Obj):
        for i, (_, v) in enumerate(j.pairs):
            yield from nodes(v, path + (i,))
    elif isinstance(j, list):
        for i, v in enumerate(j):
            yield from nodes(v, path + (i,))


def get(j, path):
    for i in path:
        j = j.pairs[i][1] if isinstance(j, Obj) else j[i]
    return j


def put(j, path, v):
    if not path:
        return v
    p = get(j, path[:-1])
    if isinstance(p, Obj):
        p.pairs[path[-1]] = (p.pairs[path[-1]][0], v)
    else:
        p[path[-1]] = v
    return j


JUNK = [None, True, False, 0, 1, Raw("-1"), Raw("1.5"), Raw("1e3"), Raw("-0"), Raw("18446744073709551615"),
        Raw("18446744073709551616"), "", "any", "0x1", [], [1, [2, [3]]], Obj([]), Obj([("a", Obj([("b", [None, Raw("-2.5e-3")])]))])]


def hex_variants(rng, s):
    digits = s[2:] if s.startswith("0x") else s
    v = int(digits, 16) if digits else 0
    return [
        ("hex-upper-digits", "0x" + digits.upper()),
        ("hex-mixed-case", "0x" + "".join(c.upper() if rng.random() < 0.5 else c for c in digits)),
        ("hex-upper-prefix", "0X" + digits),
        ("hex-no-prefix", digits),
        ("hex-short", "0x%x" % v),
        ("hex-short-odd", "0x" + ("%x" % v).rjust(rng.randrange(1, 64), "0")),
        ("hex-empty-digits", "0x"),
        ("hex-empty", ""),
        ("hex-65-digits", "0x0" + digits),
        ("hex-long-zeros", "0x" + "0" * rng.randrange(1, 40) + digits),
        ("hex-overflow", "0x1" + digits),
        ("hex-overflow-f", "0x" + "f" * 65),
        ("hex-plus", "+" + s),
        ("hex-plus-only", "+"),
        ("hex-minus", "-" + s),
        ("hex-minus-only", "-"),
        ("hex-space", " " + s),
        ("hex-trailing-space", s + " "),
        ("hex-inner-prefix", "0x0x" + digits[2:]),
        ("hex-underscore", "0x" + digits[:10] + "_" + digits[11:]),
        ("hex-nonhex", "0x" + digits[:5] + "g" + digits[6:]),
        ("hex-unicode", "0x" + digits[:5] + "é" + digits[6:]),
        ("hex-decimal", str(v)),
    ]


def mutate(rng, doc, tags, keys):
    """returns (mutation name, new document) or None"""
    d = clone(doc)
    ns = list(nodes(d))
    objs = [(p, x) for p, x in ns if isinstance(x, Obj)]
    strs = [(p, x) for p, x in ns if isinstance(x, str)]
    nums = [(p, x) for p, x in ns if isinstance(x, int) and not isinstance(x, bool)]
    hexes = [(p, x) for p, x in strs if re.fullmatch(r"0x[0-9a-f]{64}", x)]
    m = rng.choice(["hex", "hex", "unknown-field", "unknown-field", "dup-field", "drop-field", "shuffle", "array-form",
                    "array-form-bad-length", "wrong-tag", "unit-as-object", "struct-as-string", "extra-entry", "empty-object",
                    "number-kind", "junk-value", "null-option", "key-case", "swap-tag", "array-form-deep"])
    if m == "hex" and hexes:
        p, x = rng.choice(hexes)
        name, y = rng.choice(hex_variants(rng, x))
        return name, put(d, p, y)
    if m == "unknown-field" and objs:
        p, o = rng.choice(objs)
        o.pairs.insert(rng.randrange(len(o.pairs) + 1), (rng.choice(["x", "typ", "Type", "index ", "", "sizes", "extra"]), clone(rng.choice(JUNK))))
        return m, d
    if m == "dup-field" and objs:
        p, o = rng.choice(objs)
        if o.pairs:
            k, v = rng.choice(o.pairs)
            o.pairs.insert(rng.randrange(len(o.pairs) + 1), (k, clone(rng.choice([v, None, 0]))))
            return m, d
    if m == "drop-field" and objs:
        p, o = rng.choice(objs)
        if o.pairs:
            o.pairs.pop(rng.randrange(len(o.pairs)))
            return m, d
    if m == "shuffle" and objs:
        big = [o for _, o in objs if len(o.pairs) > 1]
        if big:
            o = rng.choice(big)
            rng.shuffle(o.pairs)
            for _, o2 in objs:
                if rng.random() < 0.5:
                    rng.shuffle(o2.pairs)
            return m, d
    if m in ("array-form", "array-form-bad-length", "array-form-deep") and objs:
        cands = [(p, o) for p, o in objs if o.pairs and all(k in keys for k, _ in o.pairs)]
        if cands:
            todo = cands if m == "array-form-deep" else [rng.choice(cands)]
            for p, o in sorted(todo, key=lambda c: -len(c[0])):
                vals = [v for _, v in get(d, p).pairs]
                if m == "array-form-bad-length":
                    if rng.random() < 0.5 and vals:
                        vals.pop()
                    else:
                        vals.append(clone(rng.choice(JUNK)))
                d = put(d, p, vals)
            return m, d
    if m in ("wrong-tag", "swap-tag", "key-case") and (objs or strs):
        tagobjs = [(p, o) for p, o in objs if len(o.pairs) == 1 and o.pairs[0][0] in tags]
        tagstrs = [(p, x) for p, x in strs if x in tags]
        if m == "key-case":
            keyobjs = [(p, o) for p, o in objs if o.pairs]
            if keyobjs:
                p, o = rng.choice(keyobjs)
                i = rng.randrange(len(o.pairs))
                k = o.pairs[i][0]
                o.pairs[i] = (rng.choice([k.upper(), k.capitalize(), k.replace("_", ""), k.replace("_", "-"), k + "s"]), o.pairs[i][1])
                return m, d
        pool = tagobjs + tagstrs
        if pool:
            p, x = rng.choice(pool)
            new = rng.choice(sorted(tags)) if m == "swap-tag" else rng.choice(
                ["uint", "UInt", "Any", "dynarray", "DynArray", "infinite", "conflict", "u-int", "", "type"])
            if isinstance(x, Obj):
                x.pairs[0] = (new, x.pairs[0][1])
            else:
                d = put(d, p, new)
            return m, d
    if m == "unit-as-object":
        units = [(p, x) for p, x in strs if x in tags]
        if units:
            p, x = rng.choice(units)
            return m, put(d, p, Obj([(x, clone(rng.choice([None, None, Obj([]), [], 0, "", False])))]))
    if m == "struct-as-string":
        tagobjs = [(p, o) for p, o in objs if len(o.pairs) == 1 and o.pairs[0][0] in tags]
        if tagobjs:
            p, o = rng.choice(tagobjs)
            return m, put(d, p, o.pairs[0][0])
    if m == "extra-entry":
        tagobjs = [(p, o) for p, o in objs if len(o.pairs) == 1 and o.pairs[0][0] in tags]
        if tagobjs:
            p, o = rng.choice(tagobjs)
            o.pairs.insert(rng.randrange(2), (rng.choice(sorted(tags) + ["x"]), clone(rng.choice(JUNK))))
            return m, d
    if m == "empty-object" and objs:
        p, o = rng.choice(objs)
        return m, put(d, p, rng.choice([Obj([]), []]))
    if m == "number-kind" and nums:
        p, x = rng.choice(nums)
        return m, put(d, p, rng.choice([Raw("-1"), Raw("%d.0" % x), Raw("%de0" % x), Raw("-0"), str(x), Raw("18446744073709551615"),
                                        Raw("18446744073709551616"), None, True, [x]]))
    if m == "junk-value":
        p, x = rng.choice(ns)
        return m, put(d, p, clone(rng.choice(JUNK)))
    if m == "null-option" and nums:
        p, x = rng.choice(nums)
        return m, put(d, p, None)
    return None


def load_doc(text):
    return json.loads(text, object_pairs_hook=Obj)


def malformed_inputs(ctx, texts, tags, keys):
    rng = ctx.rng
    out = collections.OrderedDict()

    def add(kind, j, cls):
        out.setdefault("%s %s" % (kind, dump(j)), cls)

    docs = [load_doc(t) for t in texts]
    # the 256-bit word on its own, systematically, over boundary values
    words = [0, 1, 0xabcdef, (1 << 255), U256 - 1, rng.randrange(U256), rng.randrange(U256), 0xA0B1C2D3E4F5]
    for v in words:
        s = "0x%064x" % v
        add("u256", s, "hex-canonical")
        for name, y in hex_variants(rng, s):
            add("u256", y, name)
    for jv in JUNK:
        add("u256", jv, "u256-junk")
    # unmodified documents through the malformed channel (the reader must accept them)
    for d in docs[:40]:
        add("slot", d, "unmodified")
    n = 2500 if ctx.quick else 25000
    tries = 0
    while len(out) < n + 300 and tries < 20 * n:
        tries += 1
        d = rng.choice(docs)
        kind = "slot"
        if rng.random() < 0.35:
            # a type on its own
            tys = [x for p, x in nodes(d) if (isinstance(x, Obj) and len(x.pairs) == 1 and x.pairs[0][0] in tags) or (isinstance(x, str) and x in tags)]
            if tys:
                d = rng.choice(tys)
                kind = "abi"
        r = mutate(rng, d, tags, keys)
        if r is None:
            continue
        name, nd = r
        if rng.random() < 0.15:
            r2 = mutate(rng, nd, tags, keys)
            if r2:
                name, nd = name + "+" + r2[0], r2[1]
        add(kind, nd, name)
    return out


# ------------------------------------------------------------------------------------ the check

CODES = {
    1: "model to_json differs from the JSON serde_json wrote (field order ignored)",
    2: "model of_json on serde_json's own output differs from serde_json::from_str",
    3: "model to_hex differs from the word the implementation wrote",
    4: "model of_hex differs from the implementation reading its own word",
    5: "model and real deserialiser disagree on accept/reject",
    6: "model and real deserialiser accept with different values",
    7: "result of the wrong kind (machinery)",
    10: "serialisation failed or panicked",
    11: "slot index not written as 0x + 64 hexadecimal digits",
    12: "the hexadecimal word written is not the slot index",
    13: "slot index read back inexactly",
    14: "deserialiser panicked",
    15: "entry written but rejected on the way back: document nests deeper than serde_json's recursion limit",
    16: "entry written but rejected on the way back",
    17: "entry read back is not equal (PartialEq)",
    18: "entry read back differs structurally (payload) or re-serialises to different text",
}
HEADER = ("From Coq Require Import String.\nFrom SLX Require Import Base Json JsonCases.\n"
          "Open Scope string_scope. Open Scope N_scope.\n")


def names_from_gen():
    """tags and keys of the current translation (used only to aim the malformed generator)"""
    tags, keys = set(), set()
    try:
        for m in re.finditer(r'Definition (t[sd]|f[sd])_\w+ : string := "((?:[^"]|"")*)"', open(vlib.COQ + "/gen/JsonNames.v").read()):
            (tags if m.group(1)[0] == "t" else keys).add(m.group(2).replace('""', '"'))
    except FileNotFoundError:
        pass
    return tags, keys


def check(ctx):
    sys.setrecursionlimit(max(sys.getrecursionlimit(), 20000))   # descriptions of the deep chains are walked recursively
    vlib.translate(ctx)
    vlib.prove(ctx, "props/C20.v", ["JsonCases.vo"])
    # the case evaluator must exist even when a proof no longer goes through
    rc, out = vlib.coq_make(["JsonCases.vo"])
    ctx.oblige("build:JsonCases.vo", "correspondence", rc == 0, out[-1500:])
    hb = vlib.harness_bin(ctx)
    vin = valid_inputs(ctx)
    samples = []
    if hb:
        vkeys = list(vin.keys())
        replay_stream = None
        if ctx.replay_in:
            rp = json.load(open(ctx.replay_in))["replay"]
            replay_stream = rp["stream"]
            vkeys = [rp["input"]] if replay_stream == "valid" else []
        # ---------------- valid stream
        rc, out, err = vlib.run_harness(hb, ["json", "valid"], "\n".join(vkeys) + "\n") if vkeys else (0, "", "")
        vlines = out.strip().split("\n") if out.strip() else []
        ok = rc == 0 and len(vlines) == len(vkeys) and not any(l.startswith("BAD") for l in vlines)
        ctx.oblige("harness:json-valid", "correspondence", ok,
                   "rc=%s lines=%d/%d %s %s" % (rc, len(vlines), len(vkeys), err[-300:], [l for l in vlines if l.startswith("BAD")][:3]))
        viol_keys = set()
        disagreements = []
        outcome = collections.Counter()
        if ok and vkeys:
            terms = ["CV " + l for l in vlines]
            bad = vlib.run_cases(ctx, "json-valid", HEADER, terms, per_shard=max(100, (len(terms) + 15) // 16))
            # where the property verdict pre-empted the comparison with the model, compare separately
            # (e.g. the model must predict the rejections of the known class too)
            pre = [i for i, c in bad if c >= 10]
            badm = [(pre[j], c) for j, c in
                    vlib.run_cases(ctx, "json-valid-model", HEADER, [terms[i] for i in pre], per_shard=250, fn="check_case_model")] \
                if pre else []
            evaluated = all(o.ok for o in ctx.obligations if o.name.startswith("cases-evaluate:json-valid"))
            codes = dict(bad)
            if not evaluated:
                # fall back to the flags the harness itself computed (no Coq involved)
                for i, l in enumerate(vlines):
                    if i not in codes and not l.endswith(" true true))"):
                        meta = vin.get(vkeys[i])
                        deep = meta and meta[3] is not None and 1 + jdepth(meta[3]) > 127
                        codes[i] = 15 if deep else 16
            for i, code in sorted(codes.items()):
                k = vkeys[i]
                outcome[code] += 1
                if code >= 10:
                    key = "C20:%d:%s" % (code, k[:80])
                    ctx.violate(key, "%s -- slot `%s`" % (CODES.get(code, code), k[:300]),
                                {"stream": "valid", "input": k, "code": code, "meaning": CODES.get(code),
                                 "impl": vlines[i][:3000],
                                 "how": "printf '%s\\n' '<input>' | build/harness-target/debug/slxh json valid   "
                                        "(`json text` prints the JSON itself)"})
                    viol_keys.add(i)
                else:
                    disagreements.append("%s: %s" % (k[:120], CODES.get(code, code)))
            for i, code in badm:
                disagreements.append("%s: %s" % (vkeys[i][:120], CODES.get(code, code)))
            outcome[0] = len(vkeys) - len(codes)
        # ---------------- malformed stream (documents derived from what serde_json itself wrote)
        mal = collections.OrderedDict()
        moutcome = collections.Counter()
        if ok:
            base = [k for k in vin.keys() if vin[k][0] in ("random-tree", "variant-root", "variant-bottom", "boundary-index")]
            ctx.rng.shuffle(base)
            base = base[:300 if ctx.quick else 2000]
            rc, out, err = vlib.run_harness(hb, ["json", "text"], "\n".join(base) + "\n")
            texts = [t for t in out.strip().split("\n") if t.startswith("{")]
            ctx.oblige("harness:json-text", "correspondence", rc == 0 and len(texts) == len(base), "rc=%s %d/%d" % (rc, len(texts), len(base)))
            tags, keys = names_from_gen()
            if texts:
                mal = malformed_inputs(ctx, texts, tags, keys)
            mkeys = list(mal.keys())
            if replay_stream == "malformed":
                mkeys = [rp["input"]]
            elif replay_stream == "valid":
                mkeys = []
            if mkeys:
                rc, out, err = vlib.run_harness(hb, ["json", "malformed"], "\n".join(mkeys) + "\n")
                mlines = out.strip().split("\n") if out.strip() else []
                okm = rc == 0 and len(mlines) == len(mkeys) and not any(l.startswith("BAD") for l in mlines)
                ctx.oblige("harness:json-malformed", "correspondence", okm,
                           "rc=%s lines=%d/%d %s %s" % (rc, len(mlines), len(mkeys), err[-300:],
                                                        [(k, l) for k, l in zip(mkeys, mlines) if l.startswith("BAD")][:3]))
                if okm:
                    for l in mlines:
                        moutcome["accepted" if not l.endswith(" BErr)") and not l.endswith(" BPanic)") else "rejected"] += 1
                    badx = vlib.run_cases(ctx, "json-malformed", HEADER, ["CM " + l for l in mlines], per_shard=max(100, (len(mlines) + 15) // 16))
                    for i, code in badx:
                        k = mkeys[i]
                        if code >= 10:
                            ctx.violate("C20:%d:%s" % (code, k[:80]), "%s -- document `%s`" % (CODES.get(code, code), k[:300]),
                                        {"stream": "malformed", "input": k, "code": code, "meaning": CODES.get(code), "impl": mlines[i][:2000],
                                         "how": "printf '%s\\n' '<input>' | build/harness-target/debug/slxh json malformed"})
                        else:
                            disagreements.append("%s [%s]: %s" % (k[:160], mal.get(k), CODES.get(code, code)))
        ctx.oblige("correspondence:json", "correspondence", not disagreements,
                   "%d disagreements; first: %s" % (len(disagreements), "\n".join(disagreements[:8])))
        # ---------------- measured input distribution
        metas = [m for m in vin.values() if m[3] is not None]
        per_depth = collections.Counter()
        variants_at_depth = collections.defaultdict(set)
        variant_count = collections.Counter()
        for m in metas:
            per_depth[nest(m[3])] += 1
            for t, d in walk(m[3]):
                variants_at_depth[d].add(VARIANT_OF[t[0]])
                variant_count[VARIANT_OF[t[0]]] += 1
        payload_conflicts = sum(1 for m in metas for t, _ in walk(m[3]) if t[0] == "conflict" and (t[1] or t[2]))
        ctx.coverage.update({
            "evaluations": len(vin) + len(mal),
            "valid_slots": len(vin), "malformed_documents": len(mal),
            "distinct_nontrivial": len([m for m in metas if nest(m[3]) >= 1]),
            "input_classes": dict(collections.Counter(m[0] for m in vin.values())),
            "index_classes": dict(collections.Counter(m[1] for m in vin.values())),
            "distinct_indices": len(set(m[4] for m in metas)),
            "boundary_indices_covered": len(set(m[4] for m in metas) & set(boundary_indices().keys())),
            "boundary_indices_total": len(boundary_indices()),
            "offsets_0_255_covered": len(set(m[2] for m in metas if m[2] is not None and m[2] < 256)),
            "type_nesting_histogram": {str(k): v for k, v in sorted(per_depth.items()) if k <= 8},
            "deep_chain_cases": sum(v for k, v in per_depth.items() if k > 8),
            "variants_seen_at_nesting_level": {str(d): len(s) for d, s in sorted(variants_at_depth.items()) if d <= 5},
            "variant_occurrences": dict(variant_count),
            "conflicts_with_payload": payload_conflicts,
            "malformed_classes": dict(collections.Counter(c.split("+")[0] for c in mal.values())),
            "valid_outcomes": {("ok" if k == 0 else "code %d: %s" % (k, CODES.get(k, ""))): v for k, v in outcome.items()},
            "malformed_outcomes": dict(moutcome),
            "traces_validated_against_impl": len(vin) + len(mal),
            "exhaustive": False,
        })
        samples = list(vin.keys())[:2] + [k for k, m in vin.items() if m[0] == "random-tree"][:2] + list(mal.keys())[60:64]
    return vlib.finish(ctx, rule="valid inputs are distinct slot descriptions (dict keys); non-trivial = the type has at least one "
                       "constructor with payload or children; malformed inputs are distinct (kind, JSON text) pairs derived by one or "
                       "two mutations from documents serde_json itself wrote; classes are listed in input_classes / malformed_classes",
                       samples=samples)
