"""T3: `enum WordUse`, `WordUse::size`, `WordUse::is_definitely_signed` and `WordUse::merge`
(src/tc/expression.rs)  ->  coq/gen/WordUseTable.v

The arms of `merge` are translated one by one, in source order, into the arms of a Coq `match`
(both languages take the first matching arm), so a one-sided or re-ordered arm reaches the model as
written.  Anything that is not of the recognised shape is a problem string (strict)."""
import os
import re

from translate import HEADER, match_brace, norm, read, write_if_changed

SRC = "src/tc/expression.rs"


def split_top(s, sep):
    """split at `sep` outside any brackets"""
    parts, depth, cur = [], 0, ""
    i = 0
    while i < len(s):
        c = s[i]
        if c in "([{":
            depth += 1
        elif c in ")]}":
            depth -= 1
        if depth == 0 and s.startswith(sep, i):
            parts.append(cur)
            cur = ""
            i += len(sep)
            continue
        cur += c
        i += 1
    parts.append(cur)
    return parts


def fn_body(src, header_re):
    m = re.search(header_re, src)
    if not m:
        return None
    j = src.index("{", m.end() - 1)
    e = match_brace(src, j)
    return src[j + 1:e - 1]


def match_arms(block):
    """`match X { arms }` -> (scrutinee, [(pattern, rhs)]) with normalised text; arms split at top-level commas,
    a `{...}` right-hand side needs no comma."""
    m = re.search(r"match\s+(.+?)\s*\{", block, flags=re.S)
    if not m:
        return None, None, None
    j = block.index("{", m.end() - 1)
    e = match_brace(block, j)
    inner = block[j + 1:e - 1]
    arms = []
    i, n = 0, len(inner)
    while i < n:
        while i < n and inner[i] in " \n\t,":
            i += 1
        if i >= n:
            break
        k = inner.index("=>", i)
        pat = inner[i:k]
        k += 2
        while inner[k] in " \n\t":
            k += 1
        if inner[k] == "{":
            e2 = match_brace(inner, k)
            rhs = inner[k + 1:e2 - 1]
            i = e2
        else:
            depth = 0
            e2 = k
            while e2 < n and not (inner[e2] == "," and depth == 0):
                if inner[e2] in "([{":
                    depth += 1
                elif inner[e2] in ")]}":
                    depth -= 1
                e2 += 1
            rhs = inner[k:e2]
            i = e2
        arms.append((norm(pat), norm(rhs)))
    return norm(m.group(1)), arms, (block[:m.start()], block[e:])


def gen_worduse(repo, out, consts):
    problems = []
    src = read(repo, SRC)

    # ---- the enum
    m = re.search(r"pub enum WordUse\s*\{", src)
    if not m:
        return ["enum WordUse not found"], {}
    e = match_brace(src, m.end() - 1)
    variants = []
    for v in split_top(src[m.end():e - 1], ","):
        v = re.sub(r"#\[[^\]]*\]", "", v).strip()
        if not v:
            continue
        if not re.fullmatch(r"[A-Z]\w*", v):
            problems.append("enum WordUse: variant not a plain name: %r" % v)
            continue
        variants.append(v)
    if not variants:
        return problems + ["enum WordUse has no variants"], {}
    U = {v: "U" + v for v in variants}

    mi = re.search(r"impl WordUse\s*\{", src)
    if not mi:
        return problems + ["impl WordUse not found"], {}
    impl = src[mi.end():match_brace(src, mi.end() - 1) - 1]

    def ctor(t):
        m_ = re.fullmatch(r"(?:Self|WordUse)::(\w+)", t)
        if m_ and m_.group(1) in U:
            return U[m_.group(1)]
        return None

    # ---- size()
    size_arms = []
    body = fn_body(impl, r"pub fn size\(&self\)\s*->\s*Option<usize>\s*\{")
    if body is None:
        problems.append("WordUse::size: signature not recognised")
    else:
        scrut, arms, around = match_arms(body)
        wrap = norm(around[0]) + "@" + norm(around[1]) if around else None
        if scrut != "self" or wrap != "Some(@)":
            problems.append("WordUse::size: expected `Some(match self {..})`, got %r around scrutinee %r" % (wrap, scrut))
        else:
            seen_default = False
            for pat, rhs in arms:
                if seen_default:
                    problems.append("WordUse::size: arm after the default arm: %s" % pat)
                if pat == "_":
                    seen_default = True
                    if rhs != "return None":
                        problems.append("WordUse::size: default arm not `return None`: %s" % rhs)
                    continue
                cs = [ctor(p) for p in split_top(pat, "|")]
                if None in cs:
                    problems.append("WordUse::size: pattern not recognised: %s" % pat)
                    continue
                if rhs in consts and not isinstance(consts[rhs], bool):
                    val = rhs
                elif re.fullmatch(r"\d[\d_]*", rhs):
                    val = rhs.replace("_", "")
                else:
                    problems.append("WordUse::size: value not a known constant or literal: %s" % rhs)
                    continue
                size_arms.append((cs, val))
            if not seen_default and sorted(sum([c for c, _ in size_arms], [])) != sorted(U.values()):
                problems.append("WordUse::size: match neither exhaustive nor defaulted")

    # ---- is_definitely_signed()
    signed = []
    body = fn_body(impl, r"pub fn is_definitely_signed\(&self\)\s*->\s*bool\s*\{")
    if body is None:
        problems.append("WordUse::is_definitely_signed: signature not recognised")
    else:
        mm = re.fullmatch(r"matches!\(self,(.*)\)", norm(body))
        if not mm:
            problems.append("WordUse::is_definitely_signed: body not `matches!(self, ..)`: %s" % norm(body))
        else:
            signed = [ctor(p) for p in split_top(mm.group(1), "|")]
            if None in signed:
                problems.append("WordUse::is_definitely_signed: pattern not recognised: %s" % mm.group(1))
                signed = [s for s in signed if s]

    # ---- merge()
    merge_arms = []
    body = fn_body(impl, r"pub fn merge\(self,\s*other:\s*Self\)\s*->\s*Option<Self>\s*\{")
    if body is None:
        problems.append("WordUse::merge: signature not recognised")
    else:
        scrut, arms, around = match_arms(body)
        pre = norm(around[0]) if around else None
        post = norm(around[1]) if around else None
        if pre != "if self==other{return Some(self);}Some(" or post != ")" or scrut != "(self,other)":
            problems.append("WordUse::merge: expected `if self == other { return Some(self); } Some(match (self, other) {..})`, "
                            "got %r .. %r around scrutinee %r" % (pre, post, scrut))
        else:
            seen_default = False
            for pat, rhs in arms:
                if seen_default:
                    problems.append("WordUse::merge: arm after the default arm: %s" % pat)
                if pat == "_":
                    seen_default = True
                    if rhs != "return None":
                        problems.append("WordUse::merge: default arm not `return None`: %s" % rhs)
                    continue
                alts = []
                binders = None
                ok = True
                for alt in split_top(pat, "|"):
                    mm = re.fullmatch(r"\((.+),(.+)\)", alt)
                    if not mm:
                        ok = False
                        break
                    comps = []
                    bs = set()
                    for t in (mm.group(1), mm.group(2)):
                        c = ctor(t)
                        if c:
                            comps.append(c)
                        elif t == "_":
                            comps.append("_")
                        elif re.fullmatch(r"[a-z_]\w*", t) and t not in ("self",):
                            comps.append("b_" + t)
                            bs.add(t)
                        else:
                            ok = False
                    if binders is None:
                        binders = bs
                    elif binders != bs:
                        ok = False
                    alts.append(comps)
                if not ok:
                    problems.append("WordUse::merge: pattern not recognised: %s" % pat)
                    continue
                c = ctor(rhs)
                if c:
                    val = c
                elif rhs in (binders or ()):
                    val = "b_" + rhs
                else:
                    problems.append("WordUse::merge: right-hand side not a variant or a bound name: %s" % rhs)
                    continue
                merge_arms.append((alts, val))
            if not seen_default:
                problems.append("WordUse::merge: no default arm")

    # ---- emit
    names = [U[v] for v in variants]
    s = HEADER
    s += "(* T3: enum WordUse, WordUse::size, is_definitely_signed, WordUse::merge (%s) *)\n" % SRC
    s += "From Coq Require Import List NArith Bool.\nFrom SLX Require Import gen.Constants.\nImport ListNotations.\nOpen Scope N_scope.\n\n"
    s += "Inductive wuse :=\n" + "\n".join("| %s" % n for n in names) + ".\n\n"
    s += "Definition all_wuse : list wuse := [" + "; ".join(names) + "].\n\n"
    s += "Definition wuse_idx (u : wuse) : N :=\n  match u with\n" + "\n".join("  | %s => %d" % (n, i) for i, n in enumerate(names)) + "\n  end.\n\n"
    s += "Definition wuse_eqb (a b : wuse) : bool :=\n  match a, b with\n  | " + "\n  | ".join("%s, %s" % (n, n) for n in names) + " => true\n"
    if len(names) > 1:
        s += "  | _, _ => false\n"
    s += "  end.\n\n"
    s += "(* WordUse::size *)\nDefinition wuse_size (u : wuse) : option N :=\n  match u with\n"
    covered = set()
    for cs, val in size_arms:
        s += "  | " + " | ".join(cs) + " => Some %s\n" % val
        covered.update(cs)
    if covered != set(names):
        s += "  | _ => None\n"
    s += "  end.\n\n"
    s += "(* WordUse::is_definitely_signed *)\nDefinition is_definitely_signed (u : wuse) : bool :=\n  match u with\n"
    if signed:
        s += "  | " + " | ".join(signed) + " => true\n"
    if set(signed) != set(names):
        s += "  | _ => false\n"
    s += "  end.\n\n"
    s += "(* WordUse::merge: `None` is the incompatible-usages outcome; arms in source order *)\n"
    s += "Definition wuse_merge (self other : wuse) : option wuse :=\n  if wuse_eqb self other then Some self else\n  match self, other with\n"
    for alts, val in merge_arms:
        s += "  | " + " | ".join("%s, %s" % (a, b) for a, b in alts) + " => Some %s\n" % val
    s += "  | _, _ => None\n  end.\n"
    if not problems:
        write_if_changed(os.path.join(out, "WordUseTable.v"), s)
    return problems, {"usages": len(names), "merge_arms": len(merge_arms), "sized": sum(len(c) for c, _ in size_arms)}


steps = [("T3-worduse-table", gen_worduse)]
