"""C07 -- every explored path computes what a concrete EVM computes on that path."""
import collections
import json

import gen
import vlib

MANIFEST = {
    "text": "A reference concrete EVM for the property's fragment, written from the Yellow Paper over the raw bytes (own opcode numbers, "
            "own JUMPDEST analysis, ALU = the independent EvmSpec), and a denotation of symbolic values are defined in Coq. For every "
            "retired state of the REAL VM the check evaluates, inside Coq, the reference EVM along the path the model assigns to that "
            "state (ghost path recorded by the model, aligned by the correspondence run) and compares stack, memory words, storage "
            "contents and the per-slot write history in order (sibling isolation). The model of the VM is tied to the code by the "
            "same correspondence run (all retired states) and by the translated opcode bodies. The step-by-step simulation THEOREM "
            "between the model and the reference EVM is not proved yet (see DESIGN.md C07): this property is decided by the "
            "exhaustive-in-the-fragment search with a Coq-evaluated oracle, labelled partial.",
    "note": "Trusted: Coq kernel + vm_compute; the reference EVM is hand-written from the Yellow Paper; translator T1/T9; harness; hook "
            "H2. Known finding K4 (ADDMOD/MULMOD desugared to wrapping arithmetic, SIGNEXTEND operands swapped, BYTE with index >= "
            "2^253, storage keys compared syntactically) is classified by a Coq predicate over the executed opcodes / the shape of "
            "the storage keys.",
    "technique": "reference EVM + denotation evaluated inside Coq on the implementation's states, aligned by model ghost paths; "
                 "differential correspondence of the VM model; simulation proof pending (partial)",
    "category": "proof",
}

CODES = {41: "stack differs from the concrete EVM", 42: "memory word differs", 43: "storage value differs",
         44: "storage write history differs (order / sibling leakage)", 45: "storage key is not a literal in the symbolic state",
         46: "explored paths differ from the model and some state matches no concrete path", 47: "panic", 60: "known K4 deviation"}


def check(ctx):
    vlib.translate(ctx)
    vlib.prove(ctx, "props/C07.v", ["SimCases.vo"])
    hb = vlib.harness_bin(ctx)
    rng = ctx.rng
    bw = gen.boundary_words()
    progs = collections.OrderedDict()
    try:
        for l in open(vlib.ROOT + "/corpus/C07.txt"):
            l = l.split("#")[0].strip()
            if l:
                progs.setdefault(bytes.fromhex(l.split()[0]), "corpus")
    except FileNotFoundError:
        pass
    n = 700 if ctx.quick else 12000
    for code in gen.c07_programs(rng, bw, n):
        progs.setdefault(code, "fragment")
    for code in gen.c07_programs(rng, bw, n // 6, known_class=True):
        progs.setdefault(code, "with-K4-constructs")
    keys = list(progs.keys())
    if ctx.replay_in:
        keys = [bytes.fromhex(json.load(open(ctx.replay_in))["replay"]["code"])]
    cfg = (30000000, 10, 50, 100000, 394, 0)
    if hb:
        lines = [gen.vm_line(c, cfg) for c in keys]
        ok, out, diag = vlib.run_harness_sharded(hb, ["vm"], lines)
        ctx.oblige("harness:vm", "correspondence", ok, diag)
        terms = ["mk_vcase %s %s (%s)" % (vlib.coq_bytes(c), gen.coq_config(cfg), l if l != "CHILD-DIED" else 'XPanic "child died"')
                 for c, l in zip(keys, out)]
        header = ("From Coq Require Import String.\nFrom SLX Require Import Base gen.ValueSig SymVal VM VmCases SimCases.\n"
                  "Open Scope string_scope. Open Scope N_scope.\n")
        per = min(150, max(1, len(terms) // 32 + 1))
        bad = vlib.run_cases(ctx, "paths-vs-evm", header, terms, per_shard=per, fn="check_c07")
        compared = vlib.run_cases(ctx, "paths-compared", header, terms, per_shard=per, fn="c07_compared")
        disagreements = []
        for idx, code in bad:
            c = keys[idx]
            rep = {"code": c.hex(), "config": list(cfg), "meaning": CODES.get(code, str(code)),
                   "how": "echo '<code> 30000000 10 50 100000 394 0 100 -1' | build/harness-target/debug/slxh vm ; compare with Evm.erun"}
            if code == 60:
                ctx.violate("C07:K4", "known deviation on %s" % c.hex()[:120], rep)
            elif code >= 40:
                ctx.violate("C07:%d:%s" % (code, c.hex()[:48]), "%s: program %s" % (CODES.get(code), c.hex()[:160]), rep)
            else:
                disagreements.append("%s: model/implementation differ (code %s)" % (c.hex()[:100], code))
        ctx.oblige("correspondence:vm", "correspondence", not disagreements, "\n".join(disagreements[:10]))
        npaths = sum(cnt for _, cnt in compared)
        ctx.coverage.update({"evaluations": len(keys), "distinct_nontrivial": len(compared),
                             "paths_compared_with_reference_evm": npaths,
                             "traces_validated_against_impl": len(terms),
                             "input_classes": dict(collections.Counter(progs.values())),
                             "programs_with_conditional_jumps": len([1 for c in keys if b"\x57" in c])})
    return vlib.finish(ctx, rule="distinct programs of the fragment (stack-safe, loop-free, <= 5 JUMPIs, boundary-biased operands); "
                       "non-trivial = at least one retired state was compared with a normally halting path of the reference EVM",
                       samples=[c.hex() for c in keys[:3]])
