"""C12 -- returned layouts are ordered and every entry lies inside its 256-bit slot."""
import collections
import json

import gen
import layoutlib as L
import vlib

MANIFEST = {
    "text": "Ordering is a Coq theorem about the model of StorageLayout::add (push + stable sort) for ANY sequence of added entries: the layout is sorted by (slot index, bit offset) and is a permutation of what was added; the sort key inside the model is read from src/layout.rs on every run (changing it breaks the proof). 'Every entry lies inside its slot' rests on the lifting passes only creating sub-words, shifted values and packed spans that fit in 256 bits (stage lemmas of the packing passes) and is evaluated on the implementation's layouts for mask-and-shift code with shifts and mask positions anywhere in 0..2^256, nested packed encodings and mutated real contracts. abi_type_for / the layout loop are modelled (Abi.v) with the guard on nested encodings read from the source (abi_nested_fit): abi_rows_in_slot proves, for ALL class tables and without any hypothesis on nested classes, that every reported row has offset < 256 and known widths end <= 256 as soon as the slot's OWN class starts its spans inside the slot and sized-word spans end inside it (what the lifting passes establish and Packed x Packed re-partitioning preserves); abi_nested_in_word: rows of nested encodings stay inside the word of their enclosing span (struct members). Each run also dumps the real final classes (tc-classes) and Coq decides those hypotheses and re-computes the rows with the model (c12_class_code). THROUGH UNIFICATION (props/C12_unify.v): C12_unify_keeps_types_in_slot -- on a judgement set inside the slot (tstate_in 256, decidable: spans start < 256 and end <= 256, sized words <= 256 bits, allocated variables only) unify never panics and every resolved type is again inside the slot, for every iteration order and fuel (C12_unify_preserves_bound / C12_merge_keeps_bound: for any bound 0 < B <= usize::MAX); C12_rows_in_slot_after_unify composes it with abi_rows_in_slot, leaving one hypothesis (room for a span whose own class resolved to a sized word), which unification does not maintain and which is decided per run on the dumped classes. With the pinned, unguarded flattening the theorem is refuted (C12_nested_pinned_refuted) and the class of the former finding K-nested is reported as a violation. END TO END: the stage models are composed into one executable model of the whole analysis (Pipeline.v: disassembly, VM, all_values, nine passes, registration, rules, unification under the hooked iteration orders, abi_type_for, layout), tied to the real `analyze` by a whole-program differential run in three order modes (stage of first disagreement reported), and pipeline_layout_sorted proves that any layout the composed model returns is sorted by (slot index, bit offset). IN-SLOT END TO END (props/C12_pipeline.v): pipeline_rows_in_slot -- a run of the composed model that returns a layout went through a judgement set st and a forest (s, n) = unify st; if st lies inside the slot (tstate_in 256) and sized words inside spans have room in the resulting classes (room_ok) every row of the layout starts inside its slot and known widths end inside it, for every program, configuration, keccak, table, order mode and fuel. Widths that do not come from a mask are searched too: words read back from bulk copies (call data, code, return data, external code) of sizes around the word size and around the per-operation memory limit, first / middle / last words stored to constant slots.",
    "note": "Trusted: Coq kernel; translator (sort key); slice::sort_by_key modelled as a stable insertion sort, not verified; harness.",
    "technique": "Coq proof (insertion-sort invariant, permutation) over a translated sort key; layout predicate evaluated inside Coq on "
                 "the implementation's output",
}

CODES = {73: "layout not ordered by (slot index, bit offset)", 74: "an entry starts at or beyond bit 256",
         75: "an entry with a known width ends beyond bit 256", 79: "panic"}


def check(ctx):
    vlib.translate(ctx)
    vlib.prove(ctx, "props/C12.v", ["LayoutCases.vo", "TcCases.vo"])
    vlib.prove(ctx, "props/C12_unify.v")
    vlib.prove(ctx, "props/C12_pipeline.v")
    hb = vlib.harness_bin(ctx)
    rng = ctx.rng
    bw = gen.boundary_words()
    progs = collections.OrderedDict()
    try:
        for l in open(vlib.ROOT + "/corpus/C12.txt"):
            l = l.split("#")[0].strip()
            if l:
                progs.setdefault(bytes.fromhex(l.split()[0]), "corpus")
    except FileNotFoundError:
        pass
    n = 700 if ctx.quick else 10000
    for c in gen.mask_shift_programs(rng, bw, n):
        progs.setdefault(c, "mask-shift")
    for _ in range(60 if ctx.quick else 800):
        vs = gen.random_vars(rng, rng.randrange(1, 8))
        progs.setdefault(gen.compile_layout(vs, rng), "idioms")
    # widths that do not come from a mask: words read back from a bulk copy (call data, code, return data, external code) of
    # every size around the word size and around the per-operation memory limit (394 bytes here: not a multiple of 32), each
    # word of the copied range -- the first, one in the middle, the last two, the one behind -- stored to its own slot
    def copy_prog(op, size, dest, words):
        a = gen.Asm()
        a.push(size).push(0).push(dest)
        if op == "EXTCODECOPY":
            a.op("CALLER")
        a.op(op)
        for i, k in enumerate(words):
            a.push(dest + 32 * k).op("MLOAD").push(i).op("SSTORE")
        a.op("STOP")
        return a.assemble()
    for op in ("CALLDATACOPY", "CODECOPY", "RETURNDATACOPY", "EXTCODECOPY"):
        for size in ([20, 33, 64, 100, 394, 395, 500, 1000, 2 ** 16 + 5] if ctx.quick else
                     [1, 20, 31, 32, 33, 63, 64, 65, 100, 200, 384, 393, 394, 395, 416, 500, 1000, 4096, 2 ** 16 + 5, 2 ** 64 - 1]):
            nwords = min(size, 394) // 32 + 1
            words = sorted(set(k for k in (0, nwords // 2, nwords - 2, nwords - 1, nwords) if k >= 0))
            progs.setdefault(copy_prog(op, size, rng.choice([0, 0x80]), words), "copied-words")
    real = [bytes.fromhex(h) for _, h in gen.real_contracts()]
    for _ in range(8 if ctx.quick else 120):
        if real:
            c = bytearray(rng.choice([r for r in real if len(r) < 6000] or real))
            for _ in range(rng.randrange(1, 4)):      # mutate a shift amount / mask constant
                i = rng.randrange(len(c))
                c[i] = rng.choice([0xff, 0x00, c[i] ^ 0x80, 0x1b, 0x1c])
            progs.setdefault(bytes(c), "mutated-contract")
    keys = list(progs.keys())
    stage = vlib.stage_replay(ctx)
    if ctx.replay_in and not stage:
        keys = [bytes.fromhex(json.load(open(ctx.replay_in))["replay"]["code"])]
    if hb and not stage:
        out = L.analyze(ctx, hb, keys)
        terms = [L.hexify("(%s)" % l) for l in out]
        bad = vlib.run_cases(ctx, "layouts", L.HEADER, terms, per_shard=max(1, len(terms) // 32 + 1), fn="c12_code")
        # the same programs through tc-classes: the real final classes, decided inside Coq (discipline, K-nested class, rows)
        import p_tc_stages as TS
        TS.FILTER = {"classes": {62, 74, 75, 76, 77}}
        clines = ["%s %s all sorted" % (c.hex(), TS.CFG) for c in keys]
        couts = TS.run_lines(ctx, hb, ["tc-classes"], clines, "tc-classes:own")
        ch = TS.evaluate(ctx, "classes", "c12_class_code", clines, couts, None, per_shard=max(1, len(clines) // 32 + 1))
        nested = set(l.split(" ")[0] for l, k in TS.LAST_CODES.get("classes", {}).items() if k == 62)
        ctx.coverage["class_dump_codes"] = {str(k): v for k, v in ch.items()}
        for idx, code in bad:
            c = keys[idx]
            if code in (74, 75) and c.hex() in nested:
                continue          # reported above as the known class, decided by Coq on the dumped classes
            ctx.violate("C12:%d:%s" % (code, c.hex()[:48]), "%s: program %s" % (CODES.get(code, code), c.hex()[:160]),
                        {"code": c.hex(), "meaning": CODES.get(code), "layout": out[idx][:600],
                         "how": "echo '<code> 30000000 10 50 250 394 0 100 -1 all' | build/harness-target/debug/slxh analyze"})
        classes = collections.Counter(L.xa_class(l) for l in out)
        multi = len([1 for l in out if l.count("(AT") >= 2])
        ctx.coverage.update({"evaluations": len(keys), "distinct_nontrivial": multi,
                             "input_classes": dict(collections.Counter(progs.values())),
                             "analysis_classes": {str(k): v for k, v in classes.items()},
                             "layout_entries_checked": sum(l.count(",(AT") for l in out)})
    import p_pipeline
    p_pipeline.suite(ctx, translate=False, codes={10}, cov_key="whole_pipeline_model", only=r"^(pipeline_layout_sorted|pipeline_glue|pipeline_rule_order)", part=(2, 3))
    import p_tc_stages as TS
    TS.suite(ctx, translate=False, parts=("abi", "classes"), codes={"abi": {22}, "classes": {62, 74, 75, 76, 77}}, cov_key="tc_stages",
             only=r"^(abi_rows_in_slot|abi_nested_in_word|origin_in_same_word|bit_width_fits|abi_packed_offsets|wd_hyp_sound|C12_nested_pinned_refuted|C12_nested_repaired)")
    import p_passes_packing
    p_passes_packing.suite(ctx, translate=False, codes={10, 12, 13, 14, 17}, cov_key="lifting_passes_packing", only=r"^(subword_in_slot|shifted_in_slot|packed_spans|packing3_in_slot|get_region_(sound|no_panic)|which_power_of_2_bound)")
    return vlib.finish(ctx, rule="distinct programs; non-trivial = the analysis returned a layout with at least two entries",
                       samples=[c.hex()[:120] for c in keys[:3]])
