"""T1b: the entry point of disassembly.  `InstructionStream::try_from(&[u8])` must be exactly
`disassemble(value)?` + the re-encoding assertion (the shape Disasm.try_from models: no size guard, no other
early return), and the only size limit of the stage must stay beyond every input of the property's domain:
`INSTRUCTION_STREAM_MAX_SIZE = u32::MAX` (a 4 GiB input); the disassembler's own BytecodeTooLarge arises only from
`u32::try_from(offset)`.  -> coq/gen/DisasmLimits.v"""
import hashlib
import os
import re

from translate import HEADER, match_brace, norm, read, write_if_changed

# sha256[:16] of the normalised text of `disassemble` with its byte match elided, as modelled by coq/Disasm.v
DISASSEMBLE_FRAME_PINS = {"c0fc134180fe85cb"}

EXPECTED_BODY = ("let instructions=Rc::new(disassembler::disassemble(value)?);let result=Self{instructions};"
                 "assert_eq!(result.as_bytecode().as_slice(),value);Ok(result)")


def step_limits(repo, out, consts):
    problems = []
    src = read(repo, "src/disassembly/mod.rs")
    m = re.search(r"pub const INSTRUCTION_STREAM_MAX_SIZE\s*:\s*u32\s*=\s*([^;]+);", src)
    limit = None
    if not m:
        problems.append("INSTRUCTION_STREAM_MAX_SIZE not found")
    else:
        v = norm(m.group(1))
        if v == "u32::MAX":
            limit = 2 ** 32 - 1
        else:
            problems.append("INSTRUCTION_STREAM_MAX_SIZE is `%s`, not u32::MAX: inputs of the property's domain could be rejected" % v)
    m = re.search(r"impl<'a>\s*TryFrom<&'a \[u8\]>\s*for InstructionStream\s*\{", src)
    if not m:
        problems.append("impl TryFrom<&[u8]> for InstructionStream not found")
    else:
        blk = src[m.end():match_brace(src, m.end() - 1) - 1]
        f = re.search(r"fn try_from\(value:\s*&'a \[u8\]\)\s*->\s*Result<Self,\s*Self::Error>\s*\{", blk)
        if not f:
            problems.append("try_from(&[u8]) signature not recognised")
        else:
            body = norm(re.sub(r"//[^\n]*", "", blk[f.end():match_brace(blk, f.end() - 1) - 1]))
            if body != EXPECTED_BODY:
                problems.append("try_from(&[u8]) body is not `disassemble(value)?` + the re-encoding assertion: %s" % body[:300])
    dis = read(repo, "src/disassembly/disassembler.rs")
    n_too_large = len(re.findall(r"BytecodeTooLarge", dis))
    if n_too_large != 1 or not re.search(r"u32::try_from\(offset\)\s*\.map_err\(\|_\|\s*Error::BytecodeTooLarge", dis):
        problems.append("disassembler.rs: BytecodeTooLarge must arise only from u32::try_from(offset) (found %d uses)" % n_too_large)
    # the scan itself: the text of `disassemble` around the byte `match` (whose arms T1 reads one by one) is the text
    # Disasm.v was written from -- a new early return, a content check or a different treatment of the end of the input
    # changes it
    m = re.search(r"pub fn disassemble\s*\(", dis)
    if not m:
        problems.append("disassembler.rs: fn disassemble not found")
    else:
        b = dis.find("{", m.end())
        body = re.sub(r"//[^\n]*", "", dis[b:match_brace(dis, b)])
        best = None
        for mm in re.finditer(r"\bmatch\b[^{;]*\{", body):
            e = match_brace(body, mm.end() - 1)
            if best is None or e - mm.start() > best[1] - best[0]:
                best = (mm.start(), e)
        frame = body if best is None else body[:best[0]] + "match{ARMS}" + body[best[1]:]
        d = hashlib.sha256(norm(frame).encode()).hexdigest()[:16]
        if d not in DISASSEMBLE_FRAME_PINS:
            problems.append("disassembler.rs: the text of `disassemble` around its byte match changed (digest %s, modelled: %s): %s"
                            % (d, ", ".join(sorted(DISASSEMBLE_FRAME_PINS)), norm(frame)[:400]))
    s = HEADER + "From Coq Require Import NArith.\nOpen Scope N_scope.\n"
    s += "Definition instruction_stream_max_size : N := %d.\n" % (limit if limit is not None else 0)
    write_if_changed(os.path.join(out, "DisasmLimits.v"), s)
    return problems, {"limit": limit}


steps = [("T1b-disassembly-entry", step_limits)]
