"""Helpers shared by the whole-pipeline checks (C04 C05 C06 C11 C12 C01 C02)."""
import os
import re
import subprocess

import gen
import vlib

DEFAULT_CFG = (30000000, 10, 50, 250, 394, 0)

_table = None


def keccak_table(hb):
    """{keccak(i): i for i < 10000}, computed by the harness with the sha3 crate"""
    global _table
    if _table is None:
        path = os.path.join(vlib.BUILD, "keccak_table.txt")
        if not os.path.exists(path):
            rc, out, err = vlib.run_harness(hb, ["keccak-table", "10000"], "")
            open(path, "w").write(out)
        _table = {int(l): i for i, l in enumerate(open(path).read().split())}
    return _table


def analyze(ctx, hb, codes, cfg=DEFAULT_CFG, extra="all sorted", name="analyze", timeout=1500):
    """`extra` = stage prefix + iteration-order mode; the forced `sorted` order keeps comparisons between separate runs free of
    the (known, C02) dependence of layouts on hash iteration order"""
    lines = [gen.vm_line(c, cfg) + " " + extra for c in codes]
    ok, out, diag = vlib.run_harness_sharded(hb, ["analyze"], lines, timeout=timeout)
    ctx.oblige("harness:" + name, "search", ok, diag)
    return [l if l.startswith("XA ") else 'XA 2 [] [] 0 "" "child died"' for l in out]


def vm(ctx, hb, codes, cfg=DEFAULT_CFG, name="vm"):
    lines = [gen.vm_line(c, cfg) for c in codes]
    ok, out, diag = vlib.run_harness_sharded(hb, ["vm"], lines)
    ctx.oblige("harness:" + name, "search", ok, diag)
    return [l if l.startswith("X") and l != "CHILD-DIED" else 'XPanic "child died"' for l in out]


def xa_class(l):
    return int(l.split(" ")[1])


def xa_slots(l):
    m = re.match(r"XA \d+ (\[.*?\]) \[", l)
    return sorted(set(int(a) for a, _ in re.findall(r"\((\d+),(\d+),\(AT", l)))


HEADER = ("From Coq Require Import String.\nFrom SLX Require Import Base gen.ValueSig SymVal VM AbiT VmCases LayoutCases.\n"
          "Open Scope string_scope. Open Scope N_scope.\n")


def hexify(term):
    """coqc reads long decimal literals quadratically: print numbers above 2^64 in hex"""
    return re.sub(r"\b(\d{20,})\b", lambda m: hex(int(m.group(1))), term)
