"""C04 -- standard storage idioms are recovered with the right slot, kind and packing."""
import collections
import json

import gen
import layoutlib as L
import vlib

MANIFEST = {
    "text": "Ground-truth layouts (1-12 variables: plain word, address-masked word, mapping of depth 1-4 with address/word keys, dynamic "
            "array, packed word split at arbitrary byte boundaries into 2-6 fields; arbitrary slot numbers up to 2^255 in arbitrary "
            "order; read / write / both from separate dispatch branches; SHL- and MUL-style shift-in) are compiled to compiler-style "
            "bytecode, analysed by the real pipeline, and the returned layout is compared INSIDE Coq with the ground truth (slot, kind, "
            "mapping depth, 160-bit keys/values, bit offsets and widths). Per-stage theorems for ALL trees are proved over "
            "models of the nine lifting passes and of abi_type_for that are tied to the real code on every run (translator pins + "
            "pass-by-pass correspondence): lift_mapping_nest (every depth >= 1, arbitrary keys, any slot outside the hash table), "
            "lift_dyn_array, recognise_hashed_slot, get_region_spec (every contiguous mask), address_mask / subword_mask_lift, "
            "lift_packed_fields (any number of fields at any ordered disjoint positions, any or-tree shape, MUL/SHL shift-in), "
            "lift_packed_rmw, abi_word_shape / abi_mapping_shape / abi_dynarray_shape. The composition through inference and "
            "unification is not a theorem (partial): it is what the ground-truth search decides.",
    "note": "Trusted: Coq kernel for the comparison predicate; the idiom compiler (tools/gen.py) defines what 'standard idiom' means here; "
            "harness.",
    "technique": "ground-truth idiom compiler + layout predicate evaluated inside Coq on the implementation's output; stage lemmas in Coq "
                 "(lifting passes); end-to-end composition partial",
}


def check(ctx):
    vlib.translate(ctx)
    vlib.prove(ctx, "props/C04.v", ["LayoutCases.vo"])
    hb = vlib.harness_bin(ctx)
    rng = ctx.rng
    cases = []
    try:
        pass
    except FileNotFoundError:
        pass
    n = 300 if ctx.quick else 5000
    for _ in range(n):
        vs = gen.random_vars(rng, rng.randrange(1, 13))
        cases.append((vs, gen.compile_layout(vs, rng, dispatcher=rng.choice(["selector", "chain"]))))
    stage = vlib.stage_replay(ctx)
    if ctx.replay_in and not stage:
        r = json.load(open(ctx.replay_in))["replay"]
        cases = [(None, bytes.fromhex(r["code"]))]
        gterms = [r["ground_truth"]]
    else:
        gterms = ["[%s]" % ";".join(gen.gvar_term(v) for v in vs) for vs, _ in cases]
    if hb and not stage:
        out = L.analyze(ctx, hb, [c for _, c in cases])
        terms = [L.hexify("mk_c04case %s (%s)" % (g, l)) for g, l in zip(gterms, out)]
        bad = vlib.run_cases(ctx, "idioms", L.HEADER, terms, per_shard=max(1, len(terms) // 32 + 1), fn="check_c04")
        names = {80: "a ground-truth variable is missing or reported with the wrong kind / offset / width",
                 81: "the analysis of compiler-style code returned an error", 82: "panic", 83: "did not halt"}
        for idx, code in bad:
            c = cases[idx][1]
            ctx.violate("C04:%d:%s" % (code, c.hex()[:48]), "%s: ground truth %s" % (names.get(code, code), gterms[idx][:200]),
                        {"code": c.hex(), "ground_truth": gterms[idx], "layout": out[idx][:1500],
                         "how": "echo '<code> 30000000 10 50 250 394 0 100 -1 all' | build/harness-target/debug/slxh analyze"})
        kinds = collections.Counter(v.kind for vs, _ in cases if vs for v in vs)
        ctx.coverage.update({"evaluations": len(cases), "distinct_nontrivial": len(set(c for _, c in cases)),
                             "variables_by_kind": dict(kinds),
                             "variables_total": sum(kinds.values()),
                             "max_mapping_depth": max([len(v.keys) for vs, _ in cases if vs for v in vs] + [0])})
    import p_passes_slots
    p_passes_slots.suite(ctx, translate=False, codes={12, 13, 14}, cov_key="lifting_passes_slots", only=r"^(lift_|recognise_|table_bijective|small_slot|proxy_claims|dyn_array_hash|da_lift_fuel|default_pipeline_shape|mapping_offset_truncates)")
    import p_passes_packing
    p_passes_packing.suite(ctx, translate=False, codes={15}, cov_key="lifting_passes_packing", only=r"^(get_region_(spec|sound|none|contiguous|cleared)|which_power|address_mask|subword_mask_lift|lift_packed)")
    return vlib.finish(ctx, rule="random ground-truth layouts compiled to bytecode; every case is non-trivial (>= 1 variable); distinct = "
                       "distinct bytecodes", samples=gterms[:3])
