#!/usr/bin/env python3
"""Regenerates coq/_CoqProject and coq/Makefile.coq (used by setup.sh)."""
import os
import sys
sys.path.insert(0, os.path.dirname(os.path.abspath(__file__)))
import vlib
vlib.coq_makefile()
