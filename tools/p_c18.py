"""C18 -- symbolic values stay within the size limit and report their true size."""
import collections
import json
import os
import re

import vlib

MANIFEST = {
    "text": "Coq theorems over a model of SymbolicValue{data,size}: a tree that carries the size RECORDED at every node. "
            "child_size() adds the children's recorded sizes field by field along the per-constructor field lists that are "
            "re-read from the arms of child_size()/children()/transform() on every run (all 66 constructors agree with the "
            "declaration, proved by complete enumeration); RSV::new, TCSV::new, constant_fold and transform_data use the size "
            "expression, comparison and replacement re-read from the source on every run (allow-list incl. the pinned and "
            "near-miss texts, so a defective edit breaks the proof). Proved for ALL values and ALL limits: every value built "
            "bottom-up through RSV::new/TCSV::new and then folded/transformed any number of times records at every node its true "
            "node count; RSV::new(Some limit) returns at most max(limit,1) nodes; a payload over well-sized children (culled ones "
            "included) is replaced exactly when its tree has more than `limit` nodes; the pinned constructor is refuted. "
            "Tied to the code by a correspondence run (scripts over all constructors through the real constructors, evaluated "
            "in Coq against the model) and by running the real VM on loop programs and inspecting every reachable node.",
    "note": "The theorems cover the constructors and transformers; that the VM only allocates through them is checked by "
            "running it, not proved; the translator checks on every run that SLOAD passes the limit and that the only "
            "allocations with limit None in src/vm and src/opcode are the three listed ones (StorageWrite wrappers built by "
            "stores_as_values() at collection time -- at most 2*limit+1 nodes, not produced by an instruction --, the Concat of "
            "Memory::load_slice which is always an inner node of a limited value, the zero word of fresh memory). Scope of "
            "'at most limit nodes' in VM runs: top-level stack entries, memory and storage keys and generations, recorded and "
            "logged values. KnownWord arithmetic "
            "is abstracted (constants compared up to their word). Transform functions are assumed to return payloads whose "
            "children are well-sized (true of anything built with the constructors).",
    "technique": "Coq proof (structural induction, invariant well_sized preserved by every allocation site; finite signature "
                 "table by vm_compute) over translated anchors + differential correspondence evaluated inside Coq + VM runs",
}

S_CODES = {1: "model and implementation differ", 2: "register count differs from step count", 3: "a node has the wrong number of children",
           10: "a node records a size different from the number of nodes it contains",
           11: "RSV::new(Some limit) returned more than max(limit,1) nodes",
           12: "value replaced by an opaque value although its tree has at most `limit` nodes",
           13: "children() walk counts a different number of nodes than the declared fields hold"}
V_CODES = {4: "chain program: stack entry is not the expected operator over its predecessor",
           10: "a reachable node records a size different from the number of nodes it contains",
           11: "a value built by a limit-carrying constructor has more than `limit` nodes",
           12: "chain program: value replaced by an opaque value although within the limit",
           14: "the virtual machine panicked"}

LEAVES = ["Caller", "CallValue", "Origin", "CallDataSize", "Address", "Gas"]


def run_balanced(ctx, name, header, pairs, fn, pad, nbins=16):
    """vlib.run_cases cuts the case list into consecutive shards of equal COUNT; Coq's elaboration time is
    proportional to the text size, so order the cases into `nbins` bins of similar total size (longest first)
    and pad the bins with a trivial case to equal count.  Returns [(index into pairs, code)]."""
    if not pairs:
        return []
    nbins = max(1, min(nbins, len(pairs)))
    bins = [[] for _ in range(nbins)]
    load = [0] * nbins
    for i in sorted(range(len(pairs)), key=lambda i: -len(pairs[i][1])):
        b = load.index(min(load))
        bins[b].append(i)
        load[b] += len(pairs[i][1]) + 200
    per = max(len(b) for b in bins)
    order = []
    for b in bins:
        order += b + [None] * (per - len(b))
    terms = [pad if i is None else pairs[i][1] for i in order]
    return [(order[idx], code) for idx, code in vlib.run_cases(ctx, name, header, terms, per_shard=per, fn=fn)
            if order[idx] is not None]


def signature():
    import sys
    sys.path.insert(0, os.path.join(vlib.ROOT, "tools"))
    import translate
    import tr_valuesig
    import tr_sizeanchor
    src = translate.read(vlib.REPO, "src/vm/value/mod.rs")
    sig = collections.OrderedDict()
    for name, fields in tr_valuesig.parse_enum(src):
        sig[name] = [(fn, tr_valuesig.KINDS.get(ft, "FUsize")) for fn, ft in fields]
    foldable = set(tr_sizeanchor.folder_arms(translate.norm(src), []).keys())
    return sig, foldable


class Script:
    """builds the text of a script and mirrors the shapes (tag, kids, size) to steer sizes to the boundaries"""

    def __init__(self, sig, foldable, rng):
        self.sig, self.foldable, self.rng = sig, foldable, rng
        self.steps, self.trees, self.is_tc = [], [], []

    def text(self):
        return " ; ".join(self.steps)

    def printed(self):
        return sum(t[2] for t in self.trees)

    def size(self, i):
        return self.trees[i][2]

    def rregs(self):
        return [i for i, tc in enumerate(self.is_tc) if not tc]

    def attrs_for(self, tag, nkids):
        out = []
        for fn, k in self.sig[tag]:
            if k == "FId":
                out.append(self.rng.randrange(1, 999))
            elif k == "FWord":
                out.append(self.rng.choice([0, 1, 2, 3, 32, 255, 2 ** 255, 2 ** 256 - 1]))
            elif k == "FUsize":
                out.append(self.rng.choice([0, 8, 32, 160, 255]))
            elif k == "FOptUsize":
                out.extend(self.rng.choice([[0], [1, self.rng.randrange(0, 4)]]))
            elif k == "FSpans":
                for _ in range(nkids):
                    out.extend([self.rng.choice([0, 8, 64, 160]), self.rng.choice([8, 32, 96])])
        return out

    def arity(self, tag):
        fixed = len([1 for _, k in self.sig[tag] if k == "FChild"])
        vec = any(k in ("FChildren", "FSpans") for _, k in self.sig[tag])
        return fixed, vec

    def new(self, lim, tag, kids):
        cand = 1 + sum(self.size(k) for k in kids)
        self.steps.append("N %s %s [ %s ] %s" % ("-" if lim is None else lim, tag,
                                                  " ".join(str(a) for a in self.attrs_for(tag, len(kids))),
                                                  " ".join(str(k) for k in kids)))
        if lim is not None and cand > lim:
            self.trees.append(("Value", (), 1))
        else:
            self.trees.append((tag, tuple(self.trees[k] for k in kids), cand))
        self.is_tc.append(False)
        return len(self.trees) - 1

    def new_any(self, lim, tag, pool, nvec=None):
        fixed, vec = self.arity(tag)
        n = fixed + ((self.rng.randrange(0, 4) if nvec is None else nvec) if vec else 0)
        return self.new(lim, tag, [self.rng.choice(pool) for _ in range(n)])

    def leaf(self, lim=None):
        r = self.rng.random()
        if r < 0.4:
            return self.new(lim, "KnownData", [])
        if r < 0.6:
            return self.new(lim, "Value", [])
        return self.new(lim, self.rng.choice(LEAVES), [])

    def _fold(self, t):
        tag, kids, _ = t
        k2 = tuple(self._fold(k) for k in kids)
        if tag in self.foldable and all(k[0] == "KnownData" for k in k2):
            return ("KnownData", (), 1)
        return (tag, k2, 1 + sum(k[2] for k in k2))

    def fold(self, i):
        self.steps.append("F %d" % i)
        self.trees.append(self._fold(self.trees[i]))
        self.is_tc.append(self.is_tc[i])
        return len(self.trees) - 1

    def ident(self, i):
        self.steps.append("I %d" % i)
        self.trees.append(self.trees[i])
        self.is_tc.append(self.is_tc[i])
        return len(self.trees) - 1

    def _repl(self, t, tag, r):
        if t[0] == tag:
            return r
        k2 = tuple(self._repl(k, tag, r) for k in t[1])
        return (t[0], k2, 1 + sum(k[2] for k in k2))

    def repl(self, i, tag, j):
        self.steps.append("R %d %s %d" % (i, tag, j))
        self.trees.append(self._repl(self.trees[i], tag, self.trees[j]))
        self.is_tc.append(False)
        return len(self.trees) - 1

    def tc(self, i):
        self.steps.append("X %d" % i)
        self.trees.append(self.trees[i])
        self.is_tc.append(True)
        return len(self.trees) - 1

    def tags_in(self, i):
        seen, st = set(), [self.trees[i]]
        n = 0
        while st and n < 300:
            t = st.pop()
            n += 1
            seen.add(t[0])
            st.extend(t[1])
        return sorted(seen)

    def post(self, i):
        """a few transformers applied to register i"""
        rng = self.rng
        for _ in range(rng.randrange(1, 4)):
            if self.printed() > 6000:
                return
            r = rng.random()
            if r < 0.35:
                i2 = self.fold(i)
            elif r < 0.5:
                i2 = self.ident(i)
            elif r < 0.85 and not self.is_tc[i]:
                rr = self.rregs()
                j = rng.choice(rr)
                if self.size(j) > 40:
                    j = rr[0]
                i2 = self.repl(i, rng.choice(self.tags_in(i)), j)
            elif not self.is_tc[i]:
                i2 = self.tc(i)
            else:
                i2 = self.fold(i)
            if rng.random() < 0.5:
                i = i2


def boundary_limits(rng, n_random):
    ls = [1, 2, 3, 4, 5, 6, 7, 8, 9, 15, 16, 17, 31, 32, 33, 63, 64, 65, 100, 127, 128, 129, 249, 250, 251, 255, 256, 257,
          499, 500, 511, 512, 999, 1000]
    return ls + [rng.randrange(1, 1001) for _ in range(n_random)]


def gen_scripts(ctx, sig, foldable):
    rng = ctx.rng
    out = collections.OrderedDict()

    def add(s, cls):
        out.setdefault(s.text(), cls)

    # 0. minimal hand-shaped scripts: cull, derive from the culled value, fold, transform, rebuild
    for L in (1, 2, 3, 4):
        for op in ("Not", "Sha3", "IsZero"):
            s = Script(sig, foldable, rng)
            x = s.new(L, "KnownData", [])
            for _ in range(L + 1):
                x = s.new(L, op, [x])
            y = s.new(L + 2, "Add", [x, x])
            s.fold(y)
            s.ident(y)
            s.tc(y)
            s.repl(y, "Value", 0)
            add(s, "minimal")
    for tag in ("Create2", "Log", "CallWithValue", "Packed", "MappingIndex", "CallData"):
        s = Script(sig, foldable, rng)
        a = s.new(None, "Caller", [])
        b = s.new(None, "Not", [a])
        fixed, vec = s.arity(tag)
        v = s.new(None, tag, [a, b] * 3 if vec and not fixed else ([a, b, b, a, b, a][:fixed] + ([b, a] if vec else [])))
        s.fold(v)
        s.ident(v)
        s.tc(v)
        add(s, "minimal")
    # 1. every constructor, with the limit exactly at / one below / one above the candidate size
    for rep in range(2 if ctx.quick else 8):
        for tag in sig:
            s = Script(sig, foldable, rng)
            pool = [s.leaf() for _ in range(3)]
            pool.append(s.new_any(None, rng.choice(["Add", "Multiply", "Not", "IsZero", "Sha3"]), pool))
            pool.append(s.new_any(rng.choice([None, 2, 3, 5]), rng.choice(["Add", "Concat", "Exp", "Create2"]), pool))
            fixed, vec = s.arity(tag)
            kids = [rng.choice(pool) for _ in range(fixed + (rng.randrange(0, 4) if vec else 0))]
            cand = 1 + sum(s.size(k) for k in kids)
            for lim in (cand, cand - 1, cand + 1, None):
                if lim is None or lim >= 0:
                    i = s.new(lim, tag, kids)
            s.post(i)
            s.post(rng.choice(s.rregs()))
            add(s, "every-constructor")
    # 2. boundaries: candidate trees of exactly limit-1, limit, limit+1 nodes
    for L in boundary_limits(rng, 6 if ctx.quick else 60):
        s = Script(sig, foldable, rng)
        a = s.leaf(L)
        b = s.leaf(L)
        for k in (L - 2, L - 1, L):
            if k >= 0:
                s.new(L, "Concat", [rng.choice([a, b]) for _ in range(k)])
        if L >= 3 and (L <= 300 or not ctx.quick or rng.random() < 0.3):
            big = s.new(L, "Concat", [a] * (L - 3))          # L-2 nodes
            n1 = s.new(L, "Not", [big])                       # L-1
            n2 = s.new(L, "Add", [big, b])                    # L
            n3 = s.new(L, "Add", [n1, b])                     # L+1: culled
            n4 = s.new(L, "IsZero", [n2])                     # L+1: culled
            n5 = s.new(L, "Add", [n3, n4])                    # 3 nodes over two culled values
            s.post(n2)
            s.post(n5)
        add(s, "boundary")
    # 3. chains deriving from culled values
    for _ in range(60 if ctx.quick else 600):
        L = rng.choice([1, 2, 3, 4, 5, 7, 8, 10, 16, 31, 32, 33, 64, 100, 250, rng.randrange(1, 1001)])
        s = Script(sig, foldable, rng)
        x = s.leaf(L)
        y = s.leaf(L)
        culls = 0
        for _ in range(40):
            if s.printed() > 5000 or culls >= 3:
                break
            r = rng.random()
            before = s.size(x)
            if r < 0.45:
                x = s.new(L, rng.choice(["Multiply", "Add", "Exp", "And", "SLoad", "LeftShift"]), [x, x])
            elif r < 0.7:
                x = s.new(L, rng.choice(["Add", "Subtract", "Equals", "StorageWrite"]), rng.choice([[x, y], [y, x]]))
            elif r < 0.85:
                x = s.new(L, rng.choice(["Not", "IsZero", "Sha3", "Balance"]), [x])
            elif r < 0.93:
                x = s.new(L, "Create2", [x, y, x])
            else:
                x = s.new(None, rng.choice(["Concat", "Add"]), [x, x])
            if s.size(x) == 1 and before >= 1 and s.trees[x][0] == "Value":
                culls += 1
                if rng.random() < 0.7:
                    s.post(x)
            elif rng.random() < 0.15:
                s.post(x)
        add(s, "culled-chain")
    # 4. random scripts over all constructors
    tags = list(sig.keys())
    for _ in range(350 if ctx.quick else 10000):
        s = Script(sig, foldable, rng)
        L = rng.choice([None, 0, 1, 2, 3, 4, 6, 9, 14, 25, 40])
        for _ in range(rng.randrange(2, 5)):
            s.leaf(L)
        for _ in range(rng.randrange(3, 14)):
            if s.printed() > 2500:
                break
            rr = s.rregs()
            r = rng.random()
            if r < 0.7:
                lim = L if rng.random() < 0.8 else rng.choice([None, 1, 5, 12, 30])
                pool = rr if rng.random() < 0.5 else rr[-4:]
                s.new_any(lim, rng.choice(tags), [p for p in pool if s.size(p) < 600] or rr[:1])
            else:
                s.post(rng.randrange(len(s.trees)))
        add(s, "random")
    return out


# ------------------------------------------------------------------------------------------ programs

def P(*parts):
    return b"".join(bytes([p]) if isinstance(p, int) else p for p in parts).hex()


CHAIN_BODIES = {
    1: [bytes([0x80, 0x80, 0x02])],                                   # DUP1 DUP1 MUL
    2: [bytes([0x80, 0x60, 0x01, 0x01]), bytes([0x80, 0x60, 0x07, 0x03])],   # DUP1 PUSH1 c ADD/SUB
    3: [bytes([0x80, 0x5f, 0x52, 0x60, 0x20, 0x5f, 0x20])],          # DUP1 PUSH0 MSTORE PUSH1 32 PUSH0 SHA3
    4: [bytes([0x80, 0x19]), bytes([0x80, 0x15])],                    # DUP1 NOT / DUP1 ISZERO
}
RUNNING_BODIES = [bytes([0x80, 0x02]), bytes([0x80, 0x01]), bytes([0x60, 0x01, 0x01]), bytes([0x5f, 0x52, 0x60, 0x20, 0x5f, 0x20]),
                  bytes([0x80, 0x0a]), bytes([0x80, 0x02, 0x80, 0x01]), bytes([0x80, 0x1b]), bytes([0x19]),
                  bytes([0x80, 0x02, 0x5f, 0x52, 0x60, 0x20, 0x5f, 0x20]), bytes([0x80, 0x54, 0x01]), bytes([0x80, 0x80, 0x80, 0x55, 0x02])]
STARTS = [bytes([0x60, 0x03]), bytes([0x33]), bytes([0x34]), bytes([0x5f, 0x35])]


def loop_prog(start, body):
    # start ; JUMPDEST ; body ; PUSH1 <dest> ; JUMP
    dest = len(start)
    return (start + bytes([0x5b]) + body + bytes([0x60, dest, 0x56])).hex()


def gen_programs(ctx):
    rng = ctx.rng
    out = collections.OrderedDict()

    def add(hexs, limit, iters, fam, cls):
        out.setdefault("%s %d %d %d" % (hexs, limit, iters, fam), cls)

    limits = boundary_limits(rng, 4 if ctx.quick else 40)
    # chain families: every intermediate value stays on the stack
    for fam, bodies in CHAIN_BODIES.items():
        for body in bodies:
            for L in limits:
                if fam != 1 and L > (33 if ctx.quick else 128):
                    continue
                start = rng.choice(STARTS[:3])
                if fam == 1:
                    iters = min(3 * (L.bit_length() + 2), 40)
                else:
                    iters = min(2 * L + 5, 70 if ctx.quick else 150)
                add(loop_prog(start, body), L, iters, fam, "chain-loop")
                if L <= 20 or fam == 1:
                    k = min(iters, 30)
                    add((start + body * k + b"\x00").hex(), L, 3, fam, "chain-unrolled")
    # loops over a running value (nothing kept on the stack), all limits 1..1000 at the boundaries
    for body in RUNNING_BODIES:
        for L in (limits if not ctx.quick else rng.sample(limits, 14)):
            start = rng.choice(STARTS)
            add(loop_prog(start, body), L, rng.choice([5, 20, 60]), 0, "running-loop")
    # two running values combined
    for L in rng.sample(limits, 10 if ctx.quick else len(limits)):
        add(P(0x60, 3, 0x33, 0x5b, 0x80, 0x02, 0x90, 0x81, 0x01, 0x90, 0x60, 3, 0x56), L, 30, 0, "two-values")
    # values allocated by the VM state: SLOAD towers (without the limit the tree doubles per SLOAD: the deep ones
    # are run in their own process under a short timeout, see check()), SSTORE of large values, memory slices
    for n in (1, 2, 3, 5, 8, 12):
        for L in (1, 3, 10, 250):
            add(P(0x5f, bytes([0x54]) * n, 0x00), L, 5, 0, "sload-tower")
    for L in (2, 5, 20, 250):
        add(P(0x33, 0x80, 0x02, 0x80, 0x02, 0x80, 0x80, 0x55, 0x00), L, 5, 0, "sstore-large")
        add(P(0x33, 0x80, 0x02, 0x80, 0x5f, 0x52, 0x80, 0x60, 0x20, 0x52, 0x60, 0x40, 0x52, 0x60, 0x60, 0x5f, 0x20, 0x60, 0x60, 0x5f, 0xf3),
            L, 5, 0, "memory-slice")
    # a key of 2^(k+1)-1 nodes (k rounds of DUP1 ADD on an environment value); a word of each provenance stored under it
    # (pushed constant, environment value, call-data word, computed); then loaded back: the SLoad wrapper has key.size + 2
    # nodes, so it must be culled whenever the key alone nearly fills the limit
    for k in (0, 1, 2, 3, 4):
        ksize = 2 ** (k + 1) - 1
        for L in sorted(set([max(1, ksize - 1), ksize, ksize + 1, ksize + 2, ksize + 3])):
            for stored in (bytes([0x60, 0x2a]), bytes([0x33]), bytes([0x5f, 0x35]), bytes([0x60, 1, 0x60, 2, 0x01]), bytes([0x7f]) + bytes(range(32))):
                # CALLER (DUP1 ADD)^k <stored> DUP2 SSTORE SLOAD STOP
                add(P(0x33, bytes([0x80, 0x01]) * k, stored, 0x81, 0x55, 0x54, 0x00), L, 3, 0, "store-then-load-at-large-key")
    # the compiler-produced contracts that ship with the repository
    import gen
    for name, h in gen.real_contracts():
        for L in ([rng.choice([3, 5, 17, 250])] if ctx.quick else [1, 3, 5, 17, 64, 250, 1000]):
            for it in ([2] if ctx.quick else [2, 5]):
                add(h, L, it, 0, "real-contract")
    # random straight-line programs over value-producing opcodes
    ops = [0x01, 0x02, 0x03, 0x04, 0x05, 0x06, 0x07, 0x0a, 0x0b, 0x10, 0x11, 0x12, 0x13, 0x14, 0x15, 0x16, 0x17, 0x18, 0x19,
           0x1a, 0x1b, 0x1c, 0x1d, 0x20, 0x30, 0x31, 0x32, 0x33, 0x34, 0x35, 0x36, 0x3a, 0x3b, 0x3f, 0x40, 0x41, 0x42, 0x43,
           0x44, 0x45, 0x46, 0x47, 0x48, 0x51, 0x52, 0x54, 0x55, 0x59, 0x5a, 0x80, 0x80, 0x81, 0x82, 0x90, 0x91]
    for _ in range(250 if ctx.quick else 8000):
        L = rng.choice([1, 2, 3, 4, 5, 6, 8, 12, 20, 50])
        prog = bytearray()
        for _ in range(rng.randrange(3, 6)):
            prog += rng.choice(STARTS + [bytes([0x60, rng.randrange(0, 96)])])
        sloads = 0
        for _ in range(rng.randrange(4, 40)):
            o = rng.choice(ops)
            if o == 0x54:
                sloads += 1
                if sloads > 6:
                    continue
            prog.append(o)
            if rng.random() < 0.25:
                prog += rng.choice(STARTS + [bytes([0x60, rng.randrange(0, 96)])])
        prog.append(0x00)
        add(bytes(prog).hex(), L, 3, 0, "random-straight-line")
    return out


def run_streaming(hb, cmd, keys, per_input_timeout=20, max_hangs=4):
    """Runs the harness on `keys`, reading one flushed line per input.  An input that produces no line within
    `per_input_timeout` seconds is recorded as a hang, the child is killed and the run resumes after it.
    Returns (lines aligned with keys -- None for hung / unrun inputs, hung keys, stderr tail)."""
    import queue
    import subprocess
    import threading
    lines = [None] * len(keys)
    hangs = []
    pos = 0
    err_tail = ""
    while pos < len(keys) and len(hangs) <= max_hangs:
        p = subprocess.Popen([hb, cmd], stdin=subprocess.PIPE, stdout=subprocess.PIPE, stderr=subprocess.PIPE, text=True)
        batch = keys[pos:]

        def feed(proc=p, data="\n".join(batch) + "\n"):
            try:
                proc.stdin.write(data)
                proc.stdin.close()
            except Exception:
                pass
        threading.Thread(target=feed, daemon=True).start()
        q = queue.Queue()

        def pump(proc=p, qq=q):
            for l in proc.stdout:
                qq.put(l.rstrip("\n"))
            qq.put(None)
        threading.Thread(target=pump, daemon=True).start()
        got = 0
        hung = False
        while got < len(batch):
            try:
                l = q.get(timeout=per_input_timeout)
            except queue.Empty:
                hung = True
                break
            if l is None:
                break
            lines[pos + got] = l
            got += 1
        p.kill()
        try:
            err_tail = (p.stderr.read() or "")[-300:]
        except Exception:
            pass
        if hung:
            hangs.append(keys[pos + got])
            pos = pos + got + 1
        elif got < len(batch):      # the child died (abort / stack overflow) on this input
            hangs.append(keys[pos + got])
            pos = pos + got + 1
        else:
            pos = len(keys)
    return lines, hangs, err_tail


def deep_towers(ctx, hb):
    """`PUSH0; SLOAD x n; STOP` for large n, each in its own process: before cf7bfb0 this took time 2^n"""
    n_run = 0
    lines = []
    for n, L in ((20, 250), (30, 250), (70, 250), (70, 3), (200, 1000)):
        inp = "%s %d 5 0" % (P(0x5f, bytes([0x54]) * n, 0x00), L)
        n_run += 1
        try:
            rc, out, err = vlib.run_harness(hb, ["vm-sizes"], inp + "\n", timeout=15)
            if rc != 0 or not out.startswith("mk_vcase"):
                ctx.oblige("harness:vm-sizes-deep", "correspondence", False, "rc=%s %s %s" % (rc, out[:200], err[-200:]))
            else:
                lines.append((inp, out.strip()))
        except Exception:
            ctx.violate("C18:hang:sload-tower-%d" % n, "the VM did not finish %d chained SLOADs within 15 s (limit %d): "
                        "values grow without bound" % (n, L),
                        {"suite": "vm-sizes", "input": inp, "code": "timeout",
                         "how": "printf '%s\\n' <input> | timeout 15 build/harness-target/debug/slxh vm-sizes"})
    return n_run, lines


def check(ctx):
    vlib.translate(ctx)
    # the case evaluator must exist even when a proof no longer goes through
    rc_sc, out_sc = vlib.coq_make(["SizeCases.vo"])
    ctx.oblige("build:SizeCases.vo", "correspondence", rc_sc == 0, out_sc[-1500:])
    vlib.prove(ctx, "props/C18.v", ["SizeCases.vo"])
    ctx.log('proved')
    hb = vlib.harness_bin(ctx)
    ctx.log('harness built')
    sig, foldable = signature()
    scripts = gen_scripts(ctx, sig, foldable)
    progs = gen_programs(ctx)
    try:
        for l in open(vlib.ROOT + "/corpus/C18.txt"):
            l = l.split("#")[0].strip()
            if l.startswith("script:"):
                scripts.setdefault(l[7:].strip(), "corpus")
            elif l.startswith("program:"):
                progs.setdefault(l[8:].strip(), "corpus")
    except FileNotFoundError:
        pass
    if ctx.replay_in:
        rp = json.load(open(ctx.replay_in))["replay"]
        scripts = {rp["input"]: "replay"} if rp["suite"] == "sv-size" else {}
        progs = {rp["input"]: "replay"} if rp["suite"] == "vm-sizes" else {}
        if rp.get("code") == "timeout" and hb:
            progs = {}
            try:
                vlib.run_harness(hb, ["vm-sizes"], rp["input"] + "\n", timeout=15)
            except Exception:
                ctx.violate("C18:hang:replay", "the VM did not finish within 15 s: %s" % rp["input"][:200], rp)
    header = ("From Coq Require Import String.\nFrom SLX Require Import Base gen.ValueSig SymVal SizedVal SizeCases.\n"
              "Open Scope string_scope. Open Scope N_scope.\n")
    if hb:
        # ---------------- scripts through the real constructors
        keys = list(scripts.keys())
        slines, shangs, err = run_streaming(hb, "sv-size", keys, per_input_timeout=30) if keys else ([], [], "")
        for k in shangs:    # a script on which the real constructors never return / kill the process is a failing input
            ctx.violate("C18:hang:%s" % k[:80], "building / transforming values did not return within 30 s or killed the process "
                        "(sizes not bounding the work?); script: %s" % k[:300],
                        {"suite": "sv-size", "input": k, "code": "timeout",
                         "how": "printf '%s\\n' <input> | timeout 30 build/harness-target/debug/slxh sv-size"})
        keys = [k for k, l in zip(keys, slines) if l is not None]
        lines = [l for l in slines if l is not None]
        rc = 0
        ok = not shangs and len(lines) == len(keys)
        bad_in = [k for k, l in zip(keys, lines) if l.startswith("BADINPUT")]
        ctx.oblige("harness:sv-size", "correspondence", ok and not bad_in,
                   "rc=%s lines=%d/%d badinput=%s %s" % (rc, len(lines), len(keys), bad_in[:2], err[-300:]))
        s_nodes = 0
        ctx.log('sv-size ran: %d scripts' % len(keys))
        if ok:
            pairs = [(k, l) for k, l in zip(keys, lines) if not l.startswith("BADINPUT")]
            for k, l in pairs:
                if l.startswith("PANIC"):
                    ctx.violate("C18:panic:%s" % k[:64], "panic while building/transforming values: %s" % l[:200],
                                {"suite": "sv-size", "input": k, "impl": l[:500],
                                 "how": "printf '%s\\n' <input> | build/harness-target/debug/slxh sv-size"})
            pairs = [(k, l) for k, l in pairs if not l.startswith("PANIC")]
            s_nodes = sum(l.count("SNode") for _, l in pairs)
            bad = run_balanced(ctx, "sv-size", header, pairs, "check_scase", "mk_scase [] (SRes [])")
            disagreements = []
            for idx, code in bad:
                k = pairs[idx][0]
                if code >= 10:
                    ctx.violate("C18:%s:%s" % (code, k[:64]), "%s; script: %s" % (S_CODES.get(code, code), k[:300]),
                                {"suite": "sv-size", "input": k, "code": code, "meaning": S_CODES.get(code),
                                 "impl": pairs[idx][1][:3000],
                                 "how": "printf '%s\\n' <input> | build/harness-target/debug/slxh sv-size"})
                else:
                    disagreements.append("%s: %s" % (k[:200], S_CODES.get(code, code)))
            ctx.oblige("correspondence:sv-size", "correspondence", not disagreements, "\n".join(disagreements[:6]))
        ctx.log('sv-size cases evaluated')
        # ---------------- programs through the real VM
        pkeys = list(progs.keys())
        plines, hangs, err = run_streaming(hb, "vm-sizes", pkeys) if pkeys else ([], [], "")
        for k in hangs:     # an input on which the VM never returns (or kills the process) is a failing input
            ctx.violate("C18:hang:%s" % k[:80], "the VM did not return within 20 s (values growing without bound?); "
                        "program/limit/iterations/family: %s" % k[:300],
                        {"suite": "vm-sizes", "input": k, "code": "timeout",
                         "how": "printf '%s\\n' <input> | timeout 20 build/harness-target/debug/slxh vm-sizes"})
        unrun = len([1 for l in plines if l is None]) - len(hangs)
        pkeys = [k for k, l in zip(pkeys, plines) if l is not None]
        plines = [l for l in plines if l is not None]
        okp = True
        bad_in = [k for k, l in zip(pkeys, plines) if l.startswith("BADINPUT")]
        ctx.oblige("harness:vm-sizes", "correspondence", not hangs and unrun == 0 and not bad_in,
                   "hung/crashed=%d unrun=%d badinput=%s %s" % (len(hangs), unrun, [(k, l) for k, l in zip(pkeys, plines) if l.startswith("BADINPUT")][:2], err[-300:]))
        ctx.log('vm-sizes ran: %d programs' % len(pkeys))
        v_nodes = 0
        outcome = collections.Counter()
        maxrec = 0
        n_deep, deep = deep_towers(ctx, hb) if not ctx.replay_in else (0, [])
        if okp:
            pairs = [(k, l) for k, l in zip(pkeys, plines) if not l.startswith("BADINPUT")] + deep
            for _, l in pairs:
                m = re.match(r"mk_vcase \d+ \d+ (VOk|\(VErrs \d+\)|\(VPanic \"(?:[^\"]|\"\")*\"\)) (\d+) (\d+)", l)
                outcome[m.group(1).strip("(").split()[0] if m else "?"] += 1
                v_nodes += int(m.group(2)) if m else 0
                maxrec = max(maxrec, int(m.group(3)) if m else 0)
            bad = [(pairs, b) for b in run_balanced(ctx, "vm-sizes", header, pairs, "check_vcase",
                                                    "mk_vcase 1 0 VOk 0 0 [] [] [] [] []")]
            disagreements = []
            for pool, (idx, code) in bad:
                k = pool[idx][0]
                if code >= 10:
                    ctx.violate("C18:%s:%s" % (code, k[:80]), "%s; program/limit/iterations/family: %s" % (V_CODES.get(code, code), k[:300]),
                                {"suite": "vm-sizes", "input": k, "code": code, "meaning": V_CODES.get(code),
                                 "impl": pool[idx][1][:3000],
                                 "how": "printf '%s\\n' <input> | build/harness-target/debug/slxh vm-sizes"})
                else:
                    disagreements.append("%s: %s" % (k[:200], V_CODES.get(code, code)))
            ctx.oblige("correspondence:vm-sizes", "correspondence", not disagreements, "\n".join(disagreements[:6]))
        ctx.log('vm-sizes cases evaluated')
        cls = collections.Counter(scripts.values())
        pcls = collections.Counter(progs.values())
        ctors_used = set()
        for k in scripts:
            for st in k.split(";"):
                t = st.split()
                if t and t[0] == "N":
                    ctors_used.add(t[2])
        ctx.coverage.update({
            "evaluations": len(scripts) + len(progs),
            "distinct_nontrivial": len([k for k in scripts if k.count(";") >= 4]) + len([k for k in progs if len(k.split()[0]) >= 12]),
            "real_contracts": len(set(k.split()[0] for k, c in progs.items() if c == "real-contract")),
            "scripts": len(scripts), "programs": len(progs) + n_deep if hb else 0,
            "script_nodes_checked_in_coq": s_nodes, "vm_distinct_nodes_inspected": v_nodes,
            "constructors_exercised": "%d/%d" % (len(ctors_used & set(sig)), len(sig)),
            "input_classes": {"scripts": dict(cls), "programs": dict(pcls)},
            "impl_outcomes": dict(outcome), "vm_max_recorded_size": maxrec,
            "limits": "1..1000 at the boundaries " + str(boundary_limits(ctx.rng, 0)),
            "exhaustive": False,
        })
    ctx.violations.sort(key=lambda v: len(v.replay.get("input", "")))
    samples = list(scripts.keys())[:2] + list(progs.keys())[:3]
    return vlib.finish(ctx, rule="inputs are distinct script texts / (program, limit, iterations, family) tuples (dict keys); "
                       "non-trivial = script with >= 5 steps or program of >= 6 bytes", samples=samples)
