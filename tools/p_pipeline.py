"""PIPELINE -- support suite: the composed model of the WHOLE analysis (coq/Pipeline.v `analyze_model`: disassemble -> VM ->
all_values -> nine lifting passes -> registration -> 16 rules -> unification -> abi_type_for -> layout) against the real
`Extractor::analyze`, end to end, on the same programs.

Not a property of its own: it proves props/Pipeline.v (end-to-end theorems composed from the stage theorems) and ties the
composition -- the glue between the stage models -- to the code: the real analysis and the model must return the same
layout (or the same kind of failure) on every program; the dumps after each stage say which stage differs first."""
import collections
import json
import os
import re

import gen
import vlib

MANIFEST = {
    "not_applicable": "support suite for the end-to-end composition (C04/C05/C06/C11/C12 searched the composition; this "
                      "suite models it); run by itself or through those checks",
    "text": "One executable Coq function for the whole analysis, composed from the stage models without re-modelling any "
            "stage (Disasm, VM, PassesSlots, PassesPacking, Register, Rules, Unify on C19's union-find, Abi, Layout) plus the "
            "glue the Rust code has between them (ExecutionResult::all_values in the order of the hook verif::order, unique(), "
            "the polled loops of lift / assign_vars / infer / every round of unify / the layout loop as instances of "
            "PolledLoop.v, state -> forest -> abi environment).  Theorems for ALL programs, "
            "configurations and iteration-order modes: pipeline_layout_sorted, pipeline_storage_free_empty, "
            "pipeline_literal_key_row; the watchdog end to end (pipeline_never_stop_interval_irrelevant, pipeline_stop_is_error, "
            "pipeline_stops_within_bound with B = poll_every + 1) and the two error modes "
            "(pipeline_strict_success_same_as_permissive, pipeline_permissive_errors_subset).  The real analysis (deterministic identities; iteration orders sorted / "
            "sorted-reversed / seeded shuffle, the same mode on both sides) and the model are run on the same programs and "
            "the final layouts AND the number of watchdog polls compared inside Coq (the watchdog stopped at every poll index "
            "of small programs, intervals 1 / 3 / 7 / 100; strict / permissive pairs); intermediate dumps attribute a "
            "disagreement to a stage; the end-to-end properties are also evaluated on the implementation's own output.",
    "note": "Trusted: Coq kernel + vm_compute; the translator steps of the stage models; harness cmd_pipeline.rs (real entry "
            "points + staged dump + keccak oracle by the sha3 crate); the slot table is the implementation's own export, "
            "cross-checked against an independent keccak; the sort key of the storage / symbolic-memory hooks is the Display "
            "text, modelled in Coq and compared on random trees.  Out of scope of the hook (reported as class 55, not as a "
            "disagreement): states with two storage keys whose Display texts coincide -- the hook's sort is then stable over "
            "the hash map's order.",
    "technique": "Coq proofs composing stage theorems over a composed executable model; differential end-to-end "
                 "correspondence with stage attribution, evaluated inside Coq",
}

CODES = {1: "different kind of outcome or stage reached (no dumped stage disagrees), or staged run != analyze run",
         2: "the values handed to the type checker differ (VM / all_values / unique)",
         3: "the lifted values differ (nine lifting passes)",
         4: "the number of type variables after assign_vars differs (registration)",
         5: "the inference sets after infer differ (inference rules)",
         6: "all dumped stages agree but the final result differs (unification / abi_type_for / layout)",
         7: "same outcome but a different number of watchdog polls (a polled loop is modelled wrongly)",
         8: "the keccak oracle misses a byte string the model hashes",
         9: "halting differs (out of fuel on one side only)",
         55: "outside the scope of the sorted hook (equal sort keys in one state): an intermediate order differs, same final result",
         56: "outside the scope of the sorted hook (equal sort keys in one state): the final results differ",
         57: "unification needs more rounds than the evaluation fuel of the model (not compared)"}

PROPS = {10: "the layout is not sorted by (slot index, bit offset) [pipeline_layout_sorted]",
         11: "no SLOAD / SSTORE instruction in the stream, yet a non-empty layout [pipeline_storage_free_empty]",
         12: "a literal storage key of a retired state of the model's VM run has no row in the layout "
             "[pipeline_literal_key_row]",
         13: "the watchdog had turned to stop (more polls made than the stop index) yet the analysis did not end with the "
             "StoppedByWatchdog error [pipeline_stop_is_error]",
         14: "more than poll_every + 1 polls were made after the watchdog had turned to stop [pipeline_stops_within_bound]",
         15: "strict mode returned a layout, permissive mode did not return the same layout "
             "[pipeline_strict_success_same_as_permissive]",
         16: "an error reported in permissive mode is not among those of strict mode [pipeline_permissive_errors_subset]"}

CLASSES = {0: "layout", 1: "structured error", 2: "panic", 3: "unification does not halt (K2), both sides",
           4: "model out of fuel"}

DEFAULT = (30000000, 10, 50, 250, 394)


def programs(ctx):
    """{(code, cfg6, poll_every, stop_at, order): class}, distinct; order = sorted | sortedrev | seed:<n> (hook H1)"""
    import p_c06
    import p_passes_slots
    rng = ctx.rng
    bw = gen.boundary_words()
    q = ctx.quick
    out = collections.OrderedDict()

    def add(code, cls, cfg=None, poll=100, stop=None):
        if not code or len(code) > 700:
            return
        perm = rng.choice([0, 0, 1])
        c = (cfg or DEFAULT) + (perm,)
        order = rng.choice(["sorted"] * 5 + ["sortedrev"] * 3 + ["seed:%d" % rng.randrange(1, 1000)] * 2)
        out.setdefault((bytes(code), c, poll, stop, order), cls)

    try:
        for l in open(os.path.join(vlib.ROOT, "corpus", "PIPELINE.txt")):
            l = l.split("#")[0].strip()
            if l:
                f = l.split()
                code = bytes.fromhex(f[0])
                order = f[9] if len(f) >= 10 else "sorted"
                if len(f) >= 9:
                    out.setdefault((code, tuple(int(x) for x in f[1:7]), int(f[7]), None if int(f[8]) < 0 else int(f[8]), order), "corpus")
                else:
                    for order in ("sorted", "sortedrev", "seed:7"):
                        out.setdefault((code, DEFAULT + (0,), 100, None, order), "corpus")
    except FileNotFoundError:
        pass

    n = 1 if q else 12
    for c in p_c06.key_programs(rng, bw, 350 * n):
        add(c, "literal-keys")
    for c, cls in p_passes_slots.idiom_programs(ctx, 350 * n):
        add(c, "idiom:" + cls)
    for _ in range(220 * n):
        vs = gen.random_vars(rng, rng.randrange(1, 4))
        add(gen.compile_layout(vs, rng, rng.choice(["selector", "selector", "chain"])), "compile_layout")
    for c in gen.hashing_programs(rng, bw, 250 * n, True):
        add(c, "hashing+storage")
    for c in gen.hashing_programs(rng, bw, 150 * n, False):
        add(c, "hashing-no-storage")
    for c in gen.mask_shift_programs(rng, bw, 300 * n):
        add(c, "mask-shift")
    for c in gen.evidence_programs(rng, bw, 300 * n):
        add(c, "evidence")
    for c in gen.cyclic_evidence_programs(rng, 40 * n):
        add(c, "cyclic-evidence")
    for p in gen.c07_programs(rng, bw, 250 * n):
        add(p[0] if isinstance(p, tuple) else p, "c07-fragment")
    for _ in range(250 * n):
        add(gen.random_program(rng, bw, n_ops=rng.randrange(4, 40)), "random-program", cfg=(30000000, 4, 3, 250, 394))
    for c in gen.error_programs(rng, bw, 120 * n):
        add(c, "error-mix", cfg=(30000000, 4, 3, 250, 394))
    for c in gen.loop_programs(rng, bw, 80 * n):
        add(c, "loops", cfg=(rng.choice([3000, 30000000]), 3, 2, 250, 394))
    for c in gen.hostile_programs(rng, bw, 150 * n):
        add(c, "hostile", cfg=(30000000, 4, 3, rng.choice([20, 250]), 394))
    # the watchdog: stop at a small poll index, small intervals (stops inside VM / lift / assign_vars / infer, or later)
    base = [k for k in out if out[k] in ("literal-keys", "evidence", "mask-shift", "hashing+storage")]
    for k in rng.sample(base, min(len(base), 160 * n)):
        out.setdefault((k[0], k[1], rng.choice([1, 2, 3, 7]), rng.randrange(0, 60), k[4]), "watchdog:" + out[k])
    for k in rng.sample(base, min(len(base), 6)):
        out.setdefault((k[0], k[1], 0, None, k[4]), "poll-interval-zero")
    return out


STOPK_INTERVALS = [1, 3, 7, 100]


def stopk_programs(ctx):
    """small programs that spend time in every polled loop (VM main loop, a bulk copy, lift, assign_vars, infer, several
    rounds of unify, the layout loop with several constant slots)"""
    rng = ctx.rng
    out = []
    a = gen.Asm()       # two slots, an address mask, a mapping access, a code copy
    a.op("CALLER").push(0).op("SSTORE").push(0).op("SLOAD").push(2 ** 160 - 1).op("AND").push(1).op("SSTORE")
    a.push(0x20).push(0).push(0).op("CODECOPY")
    a.push(2).push(0x20).op("MSTORE").push(4).op("CALLDATALOAD").push(0).op("MSTORE").push(0x40).push(0).op("SHA3").op("SLOAD").op("POP").op("STOP")
    out.append(a.assemble())
    out.append(bytes.fromhex("335f5573ffffffffffffffffffffffffffffffffffffffff5f541660015500"))
    out.append(bytes.fromhex("60015460010160015560ff545034610056575f5050600354600455005b60055460065500"[:72]))
    if not ctx.quick:
        vs = gen.random_vars(rng, 2)
        out.append(gen.compile_layout(vs, rng, "selector"))
        out += gen.evidence_programs(rng, gen.boundary_words(), 12)
        out += gen.mask_shift_programs(rng, gen.boundary_words(), 8)
    else:
        out += [c for c in gen.mask_shift_programs(rng, gen.boundary_words(), 4) if len(c) < 60][:1]
    return [c for c in out if c and len(c) < 400]


def stopk_keys(ctx, hb):
    """every poll index k (0 .. total + 1) of the small programs, for each interval: {key: class}"""
    rng = ctx.rng
    progs = stopk_programs(ctx)
    base = []
    for code in progs:
        for p in STOPK_INTERVALS:
            order = rng.choice(["sorted", "sortedrev", "seed:%d" % rng.randrange(1, 1000)])
            base.append((code, DEFAULT + (rng.choice([0, 1]),), p, None, order))
    ok, outl, diag = vlib.run_harness_sharded(hb, ["pipeline"], [pline(k) for k in base], timeout=600)
    ctx.oblige("harness:pipeline-unmonitored", "correspondence", ok, diag[-400:])
    keys = collections.OrderedDict()
    for k, l in zip(base, outl):
        m = re.match(r"^\[.*?\] \(XR (\d+) (\[.*?\]) (\[.*?\]) (\d+)\) \(mk_xdump", l)
        if not m or m.group(1) not in ("0", "1"):
            continue
        total = int(m.group(4))
        keys[k] = "stop-at-k:unmonitored"
        ks = range(0, total + 2) if total <= (120 if ctx.quick else 1500) else sorted(set(
            [0, 1, 2, total - 1, total, total + 1] + [rng.randrange(0, total + 1) for _ in range(40 if ctx.quick else 400)]))
        for stop in ks:
            keys[(k[0], k[1], k[2], stop, k[4])] = "stop-at-k:interval-%d" % k[2]
    return keys


def pline(k, upto=None):
    code, cfg, poll, stop, order = k
    return gen.vm_line(code, cfg, poll_every=poll, stop_at=stop) + (" " + upto if upto else "") + " " + order


def mode_term(order):
    return {"sorted": "MSorted", "sortedrev": "MSortedRev"}.get(order) or "(MSeeded %s)" % order.split(":")[1]


def hexify(line):
    return re.sub(r"\b\d{10,}\b", lambda m: hex(int(m.group(0))), line)


RULE = ("inputs are distinct (bytecode, configuration, poll interval, stop index) tuples; every one is analysed by the real "
        "library (entry points of Extractor::analyze, hooks H1 sorted + H2) and by Pipeline.analyze_trace inside Coq with the "
        "implementation's slot table and the harness' keccak values; non-trivial = both return the same NON-EMPTY layout")


def check(ctx):
    samples = suite(ctx)
    return vlib.finish(ctx, rule=RULE, samples=samples or [],
                       checker_cmd="make -f Makefile.coq props/Pipeline.vo PipelineCases.vo (coqc 8.16.1) + coqc Print Assumptions")


def suite(ctx, translate=True, codes=None, cov_key=None, only=None, part=None, focus=None):
    """everything but the verdict (other checks may call this after translating themselves).
    part = (k, n): every n-th program from k;  focus = "watchdog": only the stop-at-k and watchdog programs (C13);
    focus = "modes": (almost) only the strict/permissive pairs (C17)"""
    import p_passes_slots
    if ctx.replay_in and vlib.stage_replay(ctx) != "pipeline":
        return None
    if translate:
        vlib.translate(ctx)
        ctx.log("translated")
    vlib.prove(ctx, "props/Pipeline.v", ["PipelineCases.vo"], only=only)
    rc, out = vlib.coq_make(["PipelineCases.vo"])
    ctx.oblige("build:PipelineCases.vo", "build", rc == 0, out[-1500:])
    ctx.log("proved")
    hb = vlib.harness_bin(ctx)
    if not hb:
        return None
    tdir, table = p_passes_slots.export_table(ctx, hb)
    if not tdir:
        return None

    # ---- the sort key of the storage / symbolic-memory hooks: Display text, model against implementation
    g = p_passes_slots.Gen(ctx, table)
    trees = collections.OrderedDict()
    for _ in range(600 if ctx.quick else 6000):
        trees.setdefault(g.tree(ctx.rng.choice([1, 2, 3, 4, 5])), 1)
    for _ in range(200 if ctx.quick else 2000):
        trees.setdefault(g.idiom()[0], 1)
    ok, dl, diag = vlib.run_harness_sharded(hb, ["pipeline", "display"], list(trees))
    good = [l for l in dl if l.startswith("(")]
    ctx.oblige("harness:pipeline-display", "correspondence", ok and len(good) == len(trees), diag[-400:])
    dheader = ("From Coq Require Import String.\nFrom SLX Require Import Base gen.ValueSig SymVal Pipeline PipelineCases.\n"
               "Open Scope string_scope. Open Scope N_scope.\n")
    def hex_term(l):        # never rewrite digits inside the expected text
        i = l.rindex(', "')
        return hexify(l[:i]) + l[i:]

    dbad = vlib.run_cases(ctx, "display", dheader, [hex_term(l) for l in good], per_shard=max(20, (len(good) + 15) // 16),
                          fn="check_display")
    ctx.oblige("correspondence:display-text", "correspondence", not dbad,
               "; ".join("%s" % good[i][:300] for i, _ in dbad[:4]))
    ctx.log("display text: %d trees, %d differ" % (len(good), len(dbad)))

    # ---- whole programs
    progs = programs(ctx)
    keys = list(progs)
    if ctx.replay_in:
        rp = json.load(open(ctx.replay_in))["replay"]
        f = rp["line"].split()
        keys = [(bytes.fromhex(f[0]), tuple(int(x) for x in f[1:7]), int(f[7]), None if int(f[8]) < 0 else int(f[8]),
                 f[9] if len(f) > 9 else "sorted")]
        progs = {keys[0]: "replay"}
    if not ctx.replay_in:
        mode_pool = [k for k in keys if k[3] is None and k[2] == 100 and progs[k].split(":")[0] in
                     ("error-mix", "random-program", "loops", "c07-fragment", "literal-keys")]
        if focus == "watchdog":
            keys = [k for k in keys if progs[k].startswith("watchdog") or progs[k] == "poll-interval-zero"]
        if focus == "modes":
            keys = keys[:16]
        ctx.rng.shuffle(keys)          # the slow classes spread over the shards
        if part:  # a property check runs its share of the programs: part = (k, n) -> every n-th from k
            keys = keys[part[0]::part[1]]
        # the watchdog stopped at EVERY poll index of small programs (the whole suite, or C13's share of it)
        if focus == "watchdog" or (focus is None and part is None):
            sk = stopk_keys(ctx, hb)
            for k, cls in sk.items():
                if k not in progs:
                    progs[k] = cls
                    keys.append(k)
            ctx.rng.shuffle(keys)
    lines = [pline(k) for k in keys]
    ok, outl, diag = vlib.run_harness_sharded(hb, ["pipeline"], lines, timeout=1500)
    bad_lines = [l[:200] for l in outl if not l.startswith("[")]
    ctx.oblige("harness:pipeline", "correspondence", ok and not bad_lines, (diag + " " + " | ".join(bad_lines[:3]))[-600:])
    # quick tier: every program is compared on its final result; the stage dumps (bulky terms: parsing them costs more
    # than running the model) are compared on a sample, and on every program whose final result differs
    cases, lite, kept = [], [], []
    skipped_large = 0
    for k, l in zip(keys, outl):
        if not l.startswith("["):
            continue
        mv = re.search(r"\]\) \(Some (\d+)\) ", l)      # type variables after assign_vars
        if ctx.quick and mv and int(mv.group(1)) > 1200:      # the list-based model is quadratic in them: thorough tier only
            skipped_large += 1
            continue
        code, cfg, poll, stop, order = k
        pre = "(PC %s %s (%s) " % (mode_term(order), vlib.coq_bytes(code), gen.coq_config(cfg, poll_every=poll, stop_at=stop))
        h = hexify(l)
        cases.append(pre + h + ")")
        i, j = h.index("(mk_xdump "), h.rindex("(XR ")
        lite.append(pre + h[:i] + "(mk_xdump false None None None None " + h[j:] + ")")
        kept.append((k, l))
    n_full = len(cases) if not ctx.quick else min(len(cases), 700)
    full_ix = set(ctx.rng.sample(range(len(cases)), n_full))
    ctx.log("%d programs through the real analysis" % len(cases))

    # the genuine `analyze <line> all sorted` command on the programs that finished: same final result
    fin = [(k, l) for k, l in kept if not re.search(r"^\[.*?\] \(XR 3 ", l)]
    ok, aout, diag = vlib.run_harness_sharded(hb, ["analyze"], [pline(k, "all") for k, _ in fin], timeout=1500)
    ctx.oblige("harness:analyze", "correspondence", ok, diag[-400:])
    differ = []
    for (k, l), a in zip(fin, aout):
        m = re.match(r"^\[.*?\] \(XR (\d+) (\[.*?\]) (\[.*?\]) (\d+)\) \(mk_xdump", l)
        ma = re.match(r"^XA (\d+) (\[.*?\]) (\[.*?\]) (\d+) ", a)
        if not m or not ma:
            differ.append(pline(k)[:200] + " unparsable")
        elif m.group(1) != ma.group(1) or (m.group(1) == "0" and m.group(2) != ma.group(2)) or \
                (m.group(1) in "01" and m.group(4) != ma.group(4)):
            differ.append("%s: pipeline %s vs analyze %s" % (pline(k)[:300], m.group(0)[-200:], a[:200]))
    ctx.coverage["analyze_command_cross_checked"] = len(fin)
    ctx.coverage["analyze_command_differs"] = len(differ)
    ctx.analyze_differ = differ

    header = ('From Coq Require Import String.\nAdd LoadPath "%s" as SLXT.\nFrom SLXT Require Import SlotTable.\n'
              "From SLX Require Import Base gen.ValueSig gen.WordUseTable SymVal Disasm VM TypeExpr AbiT Pipeline PipelineCases.\n"
              "Open Scope string_scope. Open Scope N_scope.\n"
              "Definition slot_index : trie := build_index slot_table.\n" % tdir)
    per = max(8, (len(cases) + 31) // 32)
    res = vlib.run_cases(ctx, "pipeline", header, [cases[i] if i in full_ix else lite[i] for i in range(len(cases))],
                         per_shard=per, fn="check_case_cov slot_index", timeout=1700)
    redo = [i for i, v in res if v < 1000 and v not in PROPS and i not in full_ix]
    if redo:
        res2 = dict(vlib.run_cases(ctx, "pipeline-stages", header, [cases[i] for i in redo], per_shard=max(4, (len(redo) + 15) // 16),
                                   fn="check_case_cov slot_index", timeout=1700))
        res = [(i, v) for i, v in res if i not in set(redo)] + [(i, res2.get(n, 0)) for n, i in enumerate(redo)]
    got = dict(res)
    ctx.log("cases evaluated")
    hist = collections.Counter()
    class_hist = collections.Counter()
    per_gen = collections.defaultdict(collections.Counter)
    disagreements = []
    nontrivial = 0
    undetermined = 0
    for i, (k, l) in enumerate(kept):
        v = got.get(i, 0)
        cls = progs[k]
        if v >= 1000:
            c = v - 1000
            if c >= 10:
                undetermined += 1
            name = CLASSES.get(c % 10, str(c))
            class_hist[name] += 1
            per_gen[cls.split(":")[0]][name] += 1
            if c % 10 == 0 and re.search(r"\(XR 0 \[\(", l):
                nontrivial += 1
            hist["agree"] += 1
        else:
            hist[CODES.get(v, PROPS.get(v, str(v)))] += 1
            per_gen[cls.split(":")[0]]["code %d" % v] += 1
            if v in (55, 56, 57):
                continue
            if v in PROPS:
                if codes is not None and v not in codes:
                    continue
                m = re.match(r"^\[.*?\] (\(XR .*?\)) \(mk_xdump", l)
                ctx.violate("PIPELINE:%d:%s" % (v, k[0].hex()[:48]),
                            "%s: program %s (%s); the implementation returned %s" % (PROPS[v], k[0].hex()[:200], cls, (m.group(1) if m else l)[:400]),
                            {"suite": "pipeline", "line": pline(k), "code": v, "meaning": PROPS[v],
                             "how": "echo '<line>' | build/harness-target/debug/slxh pipeline   (or: ... analyze, with ` all sorted` appended)"})
                continue
            disagreements.append((v, k, l))
    # an analyze/pipeline difference on a program whose model order is determined is an implementation nondeterminism
    for d in ctx.analyze_differ[:3]:
        ctx.log("analyze command differs from the pipeline command: " + d[:400])
    detail = []
    for v, k, l in disagreements[:6]:
        m = re.match(r"^\[.*?\] (\(XR .*?\)) \(mk_xdump", l)
        detail.append("code %d (%s) [%s]: echo '%s' | build/harness-target/debug/slxh pipeline   -- real result %s"
                      % (v, CODES.get(v, "?"), progs[k], pline(k), (m.group(1) if m else l)[:300]))
    ctx.oblige("correspondence:pipeline", "correspondence", not disagreements,
               "%d programs disagree; " % len(disagreements) + "\n".join(detail))
    if disagreements:
        os.makedirs(vlib.REPLAY, exist_ok=True)
        v, k, l = disagreements[0]
        json.dump({"property": "PIPELINE", "kind": "model-implementation-disagreement", "code": v, "meaning": CODES.get(v),
                   "replay": {"suite": "pipeline", "line": pline(k), "class": progs[k]},
                   "others": [pline(kk) for _, kk, _ in disagreements[1:20]]},
                  open(os.path.join(vlib.REPLAY, "PIPELINE_%s_disagreement.json" % ctx.tier), "w"), indent=1)
        ctx.log("first disagreeing program: " + detail[0])

    # ---- C17: the same program in strict and in permissive mode (both through the real analysis and the model)
    mode_stats = {}
    if not ctx.replay_in and (focus == "modes" or (focus is None and part is None)):
        nm = (160 if focus == "modes" else 100) if ctx.quick else 4000
        pool = ctx.rng.sample(mode_pool, min(len(mode_pool), nm))
        lines = []
        for k in pool:
            for perm in (0, 1):
                lines.append(pline((k[0], k[1][:5] + (perm,), k[2], k[3], k[4])))
        ok, mout, diag = vlib.run_harness_sharded(hb, ["pipeline"], lines, timeout=1500)
        ctx.oblige("harness:pipeline-modes", "correspondence", ok, diag[-400:])
        mterms, mkept = [], []
        for n_, k in enumerate(pool):
            ls, lp = mout[2 * n_], mout[2 * n_ + 1]
            ms = re.match(r"^(\[.*?\]) (\(XR \d+ \[.*?\] \[.*?\] \d+\)) \(mk_xdump", ls)
            mp = re.match(r"^(\[.*?\]) (\(XR \d+ \[.*?\] \[.*?\] \d+\)) \(mk_xdump", lp)
            if not ms or not mp:
                continue
            gas, it, fk, sz, mem = k[1][:5]
            mterms.append(hexify("(MC %s %s (mk_limits %d %d %d %d %d %d None) (%s ++ %s) %s %s)" % (
                mode_term(k[4]), vlib.coq_bytes(k[0]), gas, it, fk, sz, mem, k[2], ms.group(1), mp.group(1), ms.group(2), mp.group(2))))
            mkept.append((k, ms.group(2), mp.group(2)))
        mres = dict(vlib.run_cases(ctx, "pipeline-modes", header, mterms, per_shard=max(4, (len(mterms) + 15) // 16),
                                   fn="check_modes slot_index", timeout=1700))
        mdis = []
        mhist = collections.Counter()
        for i, (k, xs, xp) in enumerate(mkept):
            v = mres.get(i, 0)
            cs, cp = xs.split(" ")[1], xp.split(" ")[1]
            mhist["strict %s / permissive %s" % (cs, cp)] += 1
            if v == 0 or v in (55, 56, 57):
                continue
            if v in PROPS:
                if codes is None or v in codes:
                    ctx.violate("PIPELINE:%d:%s" % (v, k[0].hex()[:48]),
                                "%s: program %s (%s); strict %s, permissive %s" % (PROPS[v], k[0].hex()[:200], progs[k], xs[:300], xp[:300]),
                                {"suite": "pipeline", "line": pline(k), "code": v, "meaning": PROPS[v],
                                 "how": "echo '<line>' | build/harness-target/debug/slxh pipeline   with the permissive field 0 and 1"})
                continue
            mdis.append("code %d (%s) [%s]: %s -- strict %s, permissive %s" % (v, CODES.get(v, "?"), progs[k], pline(k), xs[:200], xp[:200]))
        ctx.oblige("correspondence:pipeline-modes", "correspondence", not mdis, "%d pairs disagree; " % len(mdis) + "\n".join(mdis[:5]))
        mode_stats = {"pairs": len(mkept), "outcomes": dict(mhist),
                      "flag_mattered": len([1 for _, xs, xp in mkept if xs.split(" ")[1] != xp.split(" ")[1]])}
        ctx.log("strict/permissive pairs: %d, %d disagree" % (len(mkept), len(mdis)))

    cov = ctx.coverage if cov_key is None else ctx.coverage.setdefault(cov_key, {})
    cov.update({
        "strict_permissive_pairs": mode_stats,
        "evaluations": len(kept),
        "distinct_inputs": len(keys),
        "distinct_nontrivial": nontrivial,
        "agreeing": hist["agree"],
        "outcome_histogram": dict(hist),
        "agreeing_by_model_outcome": dict(class_hist),
        "order_not_determined_by_hook_but_agreeing": undetermined,
        "input_classes": dict(collections.Counter(progs[k] for k, _ in kept).most_common(40)),
        "iteration_orders": dict(collections.Counter(k[4].split(":")[0] for k, _ in kept)),
        "per_generator": {g_: dict(c) for g_, c in per_gen.items()},
        "stage_dumps_compared": n_full,
        "skipped_too_many_type_variables_for_the_quick_tier": skipped_large,
        "display_trees": len(good),
        "traces_validated_against_impl": len(kept),
        "exhaustive": False,
    })
    return [pline(k)[:200] for k, _ in kept[:3]]
