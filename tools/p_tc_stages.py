"""TC_STAGES -- support suite for the type-checker stages between lifting and the layout: registration
(type-variable assignment with stable-value sharing), the 16 inference rules, abi_type_for and the layout loop.

Not a property of its own: the theorems of coq/props/TcStages.v are the stage lemmas C01 / C06 / C11 / C12 / C04 use,
and the suites below tie the hand-written model (coq/Register.v, Rules.v, Abi.v) to the code stage by stage, on random
value trees over all constructors, on the values the real pipeline produces, and on prepared class tables."""
import collections
import json
import os
import re
import subprocess
import sys

import gen
import vlib

MANIFEST = {
    "not_applicable": "support suite for C01/C06/C11/C12; run through those checks",
    "text": "Stage theorems for registration, the inference rules and abi_type_for over a faithful Coq model; correspondence of "
            "the model with TypeCheckerState::register, InferenceRules::infer and TypeChecker::unify (trivial unification + "
            "abi_type_for + layout loop), evaluated inside Coq on random trees, pipeline-produced values and class tables.",
    "note": "Trusted: Coq kernel + vm_compute; translator T9 (tools/tr_rules.py); harness commands register / rules / abi / tc-classes.",
    "technique": "Coq proofs over a hand model whose table-like parts are regenerated from the source; differential correspondence",
}

CFG = "30000000 10 50 250 394 0 100 -1"

CODES = {
    "register": {1: "model count differs", 2: "model root trees differ", 3: "model expression table differs", 4: "malformed output",
                 10: "a sub-term of a registered value has no variable / is not in the expression table",
                 11: "a stably typed value has two type variables", 12: "panic in register",
                 13: "a value without stable part shares its type variable", 14: "a variable without inference set"},
    "order": {4: "malformed output", 12: "panic in register", 15: "permuting the value list is not a renaming of the variables"},
    "rule": {11: "a rule returned Err", 12: "panic in a rule",
             16: "the judgement sets depend on the order in which the rule set is walked"},
    "rulesperm": {11: "a rule returned Err", 12: "panic in a rule",
                  17: "the judgement sets of a permuted value list are not a renaming of each other"},
    "rules": {1: "variable count differs", 2: "judgement sets differ", 3: "model does not return Ok", 11: "a rule returned Err",
              12: "panic in a rule"},
    "abi": {1: "layout differs from the model", 2: "error kind differs", 3: "panic/no-panic differs from the model",
            20: "panic in unify/abi_type_for on a closed state", 21: "no layout row for a constant storage slot",
            22: "row beyond the slot although the span discipline holds", 23: "did not finish (poll budget)",
            24: "layout not sorted", 25: "process died (abort / native stack overflow)"},
    "classes": {5: "model abi_type_for on the dumped classes differs from the layout rows",
                62: "nested packed encoding reported beyond the slot (pinned abi_type_for without the in-word guard: the class of "
                    "former finding C12:K-nested)",
                74: "row at or beyond bit 256", 75: "row ends beyond bit 256",
                76: "row beyond the slot although the span discipline holds",
                77: "row beyond the slot although the slot's own class satisfies the hypotheses of abi_rows_in_slot", 79: "panic"},
}

HEADER = ("From Coq Require Import String.\nFrom SLX Require Import Base gen.ValueSig gen.WordUseTable SymVal TypeExpr AbiT "
          "Register Rules Abi TcCases.\nOpen Scope string_scope. Open Scope N_scope.\n")


# ------------------------------------------------------------------------------------------------ generators
def constructors():
    sys.path.insert(0, os.path.join(vlib.ROOT, "tools"))
    import tr_valuesig as VS
    from translate import read
    variants = VS.parse_enum(read(vlib.REPO, "src/vm/value/mod.rs"))
    return [(n, [(f, VS.KINDS[t]) for f, t in fs]) for n, fs in variants]


USIZES = [0, 1, 7, 8, 16, 31, 32, 128, 160, 248, 255, 256, 257, 2 ** 32, 2 ** 56, 2 ** 56 - 1, 2 ** 63, 2 ** 64 - 1]
WORDS = [0, 1, 2, 5, 7, 8, 31, 32, 255, 256, 257, 2 ** 32, 2 ** 61, 2 ** 64 - 1, 2 ** 64, 2 ** 64 + 8, 2 ** 128, 2 ** 255, 2 ** 256 - 1]


class TreeGen:
    def __init__(self, rng, ctors):
        self.rng = rng
        self.ctors = ctors
        self.by = dict(ctors)
        self.leaves = [n for n, fs in ctors if not any(k in ("FChild", "FChildren", "FSpans") for _, k in fs)]
        self.used = collections.Counter()

    def leaf(self):
        r = self.rng
        x = r.random()
        if x < 0.35:
            return self.node("KnownData", 0)
        if x < 0.6:
            return self.node("Value", 0)
        return self.node(r.choice(self.leaves), 0)

    def node(self, name, depth):
        r = self.rng
        self.used[name] += 1
        attrs, kids = [], []
        for f, k in self.by[name]:
            if k == "FChild":
                kids.append(self.tree(depth - 1))
            elif k == "FChildren":
                for _ in range(r.randrange(0, 4)):
                    kids.append(self.tree(depth - 1))
            elif k == "FSpans":
                for _ in range(r.randrange(0, 4)):
                    attrs += [str(r.choice(USIZES)), str(r.choice(USIZES))]
                    kids.append(self.tree(depth - 1))
            elif k == "FId":
                attrs.append(str(r.randrange(0, 4)))
            elif k == "FWord":
                attrs.append(str(r.choice(WORDS) if r.random() < 0.7 else r.randrange(0, 6)))
            elif k == "FUsize":
                attrs.append(str(r.choice(USIZES)))
            elif k == "FOptUsize":
                if r.random() < 0.3:
                    attrs.append("0")
                else:
                    attrs += ["1", str(r.choice(USIZES))]
        return "(%s [%s]%s)" % (name, " ".join(attrs), "".join(" " + k for k in kids))

    def tree(self, depth, name=None):
        r = self.rng
        if name is None:
            if depth <= 0 or r.random() < 0.2:
                return self.leaf()
            name = r.choice(self.ctors)[0]
        return self.node(name, depth)

    # shapes the rules look for
    def shaped(self):
        r = self.rng
        k = lambda: "(KnownData [%d])" % r.choice([0, 1, 2, 5, 2 ** 255, 2 ** 256 - 1])
        slot = lambda inner: "(StorageSlot [] %s)" % inner
        sub = lambda: self.tree(1)
        c = r.randrange(9)
        if c == 0:
            return "(StorageWrite [] %s %s)" % (slot("(DynamicArrayIndex [] %s %s)" % (slot(k()), sub())), sub())
        if c == 1:
            p = r.choice(["0", "1 %d" % r.choice(USIZES)])
            return slot("(MappingIndex [%s] %s %s)" % (p, slot(k()), sub()))
        if c == 2:
            return "(SubWord [%d %d] (SLoad [] %s %s))" % (r.choice(USIZES), r.choice(USIZES), slot(k()), sub())
        if c == 3:
            n = r.randrange(0, 4)
            at = " ".join("%d %d" % (r.choice(USIZES), r.choice(USIZES)) for _ in range(n))
            return "(StorageWrite [] %s (Packed [%s]%s))" % (slot(k()), at, "".join(" " + sub() for _ in range(n)))
        if c == 4:
            size = r.choice(["(KnownData [%d])" % r.choice(WORDS), "(Add [] (KnownData [%d]) (KnownData [%d]))" % (r.choice(WORDS), r.choice(WORDS)),
                             "(LeftShift [] (KnownData [%d]) (KnownData [1]))" % r.choice([1, 60, 61, 64, 255, 256]), sub()])
            return "(CallData [%d] %s %s)" % (r.randrange(3), sub(), size)
        if c == 5:
            return "(SignExtend [] %s %s)" % (r.choice(["(KnownData [%d])" % r.choice(WORDS), sub()]), sub())
        if c == 6:
            return "(SLoad [] %s %s)" % (slot(k()), sub())
        if c == 7:
            return "(StorageWrite [] %s %s)" % (slot(k()), sub())
        return "(Create2 [] %s %s %s)" % (sub(), sub(), sub())

    def value_list(self):
        r = self.rng
        n = r.randrange(1, 6)
        out = []
        for _ in range(n):
            x = r.random()
            if x < 0.4:
                out.append(self.shaped())
            elif x < 0.5 and out:
                out.append(r.choice(out))          # the same value registered again
            else:
                out.append(self.tree(r.randrange(1, 4)))
        return out


def programs(ctx):
    rng = ctx.rng
    bw = gen.boundary_words()
    progs = collections.OrderedDict()
    try:
        for l in open(vlib.ROOT + "/corpus/TC_STAGES.txt"):
            l = l.split("#")[0].strip()
            if l:
                progs.setdefault(bytes.fromhex(l.split()[0]), "corpus")
    except FileNotFoundError:
        pass
    q = ctx.quick
    for c in gen.mask_shift_programs(rng, bw, 40 if q else 600):
        progs.setdefault(c, "mask-shift")
    for _ in range(25 if q else 400):
        progs.setdefault(gen.compile_layout(gen.random_vars(rng, rng.randrange(1, 6)), rng), "idioms")
    for c in gen.hashing_programs(rng, bw, 20 if q else 300, True):
        progs.setdefault(c, "hashing")
    for _ in range(30 if q else 400):
        progs.setdefault(gen.random_program(rng, bw, n_ops=rng.randrange(5, 40), hostile=0.2, loops=False), "random")
    return progs


TE_WIDTHS = ["-", "0", "7", "8", "32", "128", "160", "192", "255", "256", "257", str(2 ** 64 - 1)]
USAGES = ["Bytes", "Numeric", "UnsignedNumeric", "SignedNumeric", "Bool", "Address", "Selector", "Function"]


def rand_te(rng, nvars, wild=0.05):
    def v():
        return rng.randrange(0, nvars + 3) if rng.random() < wild else rng.randrange(0, nvars)
    c = rng.randrange(10)
    if c == 0:
        return "Any"
    if c == 1:
        return "Bytes"
    if c <= 3:
        u = rng.choice(USAGES)
        w = rng.choice(TE_WIDTHS)
        if rng.random() < 0.5:
            w = {"Bool": "8", "Address": "160", "Selector": "32", "Function": "192"}.get(u, w)
        return "W:%s:%s" % (w, u)
    if c == 4:
        return "F:%d:%d" % (v(), rng.choice(WORDS))
    if c == 5:
        return "M:%d:%d" % (v(), v())
    if c == 6:
        return "D:%d" % v()
    n = rng.randrange(0, 4)
    spans = "/".join("%d,%d,%d" % (v(), rng.choice(USIZES), rng.choice(USIZES)) for _ in range(n))
    return "P:%d:%s" % (rng.randrange(2), spans)


def abi_cases(ctx):
    rng = ctx.rng
    out = collections.OrderedDict()

    def add(keys, js, cls):
        out.setdefault(" ".join(str(k) for k in keys) + " | " + " ".join("%d=%s" % j for j in js), cls)

    # fixed: cycles, deep chains, the seen-set peculiarity, nested offsets
    add([5], [(1, "M:1:1")], "cycle")
    add([5, 6], [(1, "D:3"), (3, "D:1")], "cycle")
    add([5, 6], [(1, "P:0:3,0,128/3,128,128"), (3, "M:1:3")], "cycle")
    add([1, 2, 3], [(1, "M:3:5"), (3, "D:0"), (5, "D:0")], "repeated-constructor")
    add([0, 1, 2], [(1, "P:0:3,128,128"), (3, "P:0:5,128,128"), (5, "W:128:Bytes")], "nested-offset")
    add([0, 1, 2], [(1, "P:0:3,%d,256" % (2 ** 64 - 1)), (3, "P:0:5,8,8"), (5, "W:8:Bytes")], "offset-overflow")
    add([0, 1], [(1, "P:0:3,8,0")], "empty-span")
    add([0], [(1, "Eq:1")], "self-equal")
    for n in ((8, 20, 40) if ctx.quick else (10, 40, 120)):
        add(list(range(n)), [(2 * i + 1, "D:%d" % (2 * i + 3)) for i in range(n - 1)], "deep")
        add(list(range(n)), [(2 * i + 1, "P:0:%d,1,1" % (2 * i + 3)) for i in range(n - 1)], "deep")
    nrand = 500 if ctx.quick else 6000
    for _ in range(nrand):
        n = rng.randrange(1, 6)
        keys = [rng.choice(WORDS) if rng.random() < 0.7 else rng.randrange(0, 4) for _ in range(n)]
        nv = 2 * len(set(keys))
        vars_ = [v for v in range(nv) if rng.random() < 0.7]
        if rng.random() < 0.03:
            vars_.append(nv + rng.randrange(0, 3))
        js = [(v, rand_te(rng, nv)) for v in vars_]
        add(keys, js, "random")
    # disciplined packed nests: spans that fit, so that the in-slot property is exercised non-vacuously
    for _ in range(150 if ctx.quick else 2000):
        n = rng.randrange(2, 6)
        keys = list(range(n))
        js = []
        width = {1: 256}
        for i in range(n):
            v = 2 * i + 1
            w = width.get(v, rng.choice([8, 16, 64, 128, 256]))
            kids = [2 * j + 1 for j in range(i + 1, n) if 2 * j + 1 not in width]
            if kids and w >= 8 and rng.random() < 0.7:
                spans, off = [], 0
                for kd in kids[:rng.randrange(1, 4)]:
                    sz = rng.choice([x for x in (8, 16, 32, 64, 128) if x <= w - off] or [0])
                    if sz == 0:
                        break
                    off += rng.choice([0, 0, 8]) if off + sz + 8 <= w else 0
                    spans.append("%d,%d,%d" % (kd, off, sz))
                    width[kd] = sz
                    off += sz
                js.append((v, "P:%d:%s" % (rng.randrange(2), "/".join(spans))))
            else:
                js.append((v, "W:%d:%s" % (w if w in (8, 16, 64, 128, 256) else 8, rng.choice(["Bytes", "Numeric", "UnsignedNumeric"]))))
        add(keys, js, "disciplined")
    return out


# ------------------------------------------------------------------------------------------------ running
def run_lines(ctx, hb, cmd, lines, name, scale=1):
    """harness over lines in sharded children; a line that kills its child is reported as DIED"""
    ok, out, diag = vlib.run_harness_sharded(hb, cmd, lines, timeout=600)
    if not ok:
        fixed = []
        for l, o in zip(lines, out):
            if o == "CHILD-DIED" or o is None:
                try:
                    rc, o1, _ = vlib.run_harness(hb, cmd, l + "\n", timeout=60)
                    o = o1.strip().split("\n")[0] if rc == 0 and o1.strip() else "DIED"
                except subprocess.TimeoutExpired:
                    o = "DIED"
            fixed.append(o)
        out = fixed
    bad = [l + " -> " + o for l, o in zip(lines, out) if o.startswith("BADINPUT") and "pipeline error" not in o]
    ctx.oblige("harness:" + name, "correspondence", not bad, "\n".join(bad[:3]))
    lim = (30000 if ctx.quick else 400000) * scale
    return [o if len(o) <= lim else "BADINPUT too large for this tier" for o in out]


LAST_CODES = {}    # suite -> {input line: code} of the last evaluate() call
FILTER = None      # None: report every violation code; else {suite prefix: set of codes} belonging to the calling property


def _mine(suite, code):
    return FILTER is None or code in FILTER.get(suite.split("-")[0], ())


def evaluate(ctx, suite, fn, lines, outs, classes, per_shard=60):
    """evaluates fn on every case term inside Coq; returns the histogram of codes"""
    idx = [i for i, o in enumerate(outs) if not o.startswith("BADINPUT") and o != "DIED"]
    terms = [vlib_hex("(%s)" % outs[i]) for i in idx]
    bad = vlib.run_cases(ctx, suite, HEADER, terms, per_shard=per_shard, fn=fn) if terms else []
    hist = collections.Counter()
    disagreements = []
    LAST_CODES[suite] = {}
    for k, code in bad:
        i = idx[k]
        hist[code] += 1
        LAST_CODES[suite][lines[i]] = code
        what = CODES[suite.split("-")[0]].get(code, str(code))
        if code == 62 and _mine(suite, 62):
            # only produced when the translator selected the pinned (unguarded) flattening: a violation with a replay
            ctx.violate("C12:62:%s" % lines[i].split(" ")[0][:48], "%s: program %s" % (what, lines[i][:160]),
                        {"suite": suite, "input": lines[i], "code": lines[i].split(" ")[0], "meaning": what, "impl": outs[i][:1500],
                         "how": "echo '<input>' | build/harness-target/debug/slxh tc-classes"})
        elif code >= 10 and code != 62:
            if not _mine(suite, code):
                continue
            ctx.violate("TC_STAGES:%s:%d:%s" % (suite, code, lines[i][:60]), "%s: %s on %s" % (suite, what, lines[i][:300]),
                        {"suite": suite, "input": lines[i], "code": code, "meaning": what, "impl": outs[i][:1500],
                         "how": "printf '%%s\\n' '<input>' | build/harness-target/debug/slxh %s" % suite.split("-")[0]})
        elif code < 10:
            disagreements.append("%s: %s" % (lines[i][:200], what))
    for i, o in enumerate(outs):
        if o == "DIED":
            hist[25] += 1
            if not _mine(suite, 25):
                continue
            ctx.violate("TC_STAGES:%s:25:%s" % (suite, lines[i][:60]), "%s: the process died (abort / native stack overflow) on %s" % (suite, lines[i][:300]),
                        {"suite": suite, "input": lines[i], "code": 25})
    ctx.oblige("correspondence:" + suite, "correspondence", not disagreements, "\n".join(disagreements[:8]))
    ctx.log("suite %s: %d cases evaluated, codes %s" % (suite, len(terms), dict(hist)))
    return hist


def vlib_hex(term):
    import re
    return re.sub(r"\b(\d{20,})\b", lambda m: hex(int(m.group(1))), term)


RULE = "cases are distinct input lines; non-trivial = abi rows checked + runs whose slot classes contain a Packed class"


def check(ctx):
    r = suite(ctx)
    return vlib.finish(ctx, rule=RULE, samples=r or [])


ALL_PARTS = ("register", "order", "rules", "rule-order", "rulesperm", "rules-single", "abi", "classes")


def suite(ctx, translate=True, parts=ALL_PARTS, codes=None, cov_key=None, only=None):
    """everything but the verdict.  C01 / C06 / C11 / C12 call this with the sub-suites and the violation codes that
    belong to them: codes = {suite: {code, ...}}."""
    global FILTER
    FILTER = codes
    if ctx.replay_in and vlib.stage_replay(ctx) not in ALL_PARTS + ("rules-single",):
        return None
    if translate:
        vlib.translate(ctx)
    vlib.prove(ctx, "props/TcStages.v", ["TcCases.vo"], only=only)
    ctx.log("proved")
    hb = vlib.harness_bin(ctx)
    if not hb:
        return None
    ctx.log("harness built")
    rng = ctx.rng
    tg = TreeGen(rng, constructors())
    q = ctx.quick
    cov = {}
    # ---- value lists: random trees over all constructors + rule-shaped trees
    lists = collections.OrderedDict()
    for _ in range(700 if q else 8000):
        lists.setdefault("vals " + " ;; ".join(tg.value_list()), "random")
    progs = programs(ctx)
    prog_lines = ["prog %s %s" % (c.hex(), CFG) for c in progs]
    if ctx.replay_in:
        rp = json.load(open(ctx.replay_in))["replay"]
        lists = {rp["input"]: "replay"} if rp.get("suite", "").startswith(("register", "rules", "order")) else {}
        prog_lines = []
    reg_lines = list(lists.keys()) + prog_lines
    rng.shuffle(reg_lines)
    # register
    if "register" in parts:
        outs = run_lines(ctx, hb, ["register"], reg_lines, "register")
        h = evaluate(ctx, "register", "check_register", reg_lines, outs, None, per_shard=max(1, len(reg_lines) // 32 + 1))
        cov["register"] = {"cases": len(reg_lines), "from_pipeline": len(prog_lines), "codes": dict(h)}
    # order: the same list in two orders
    olines, oterms = [], []
    base = [l for l in lists.keys()][: (250 if q else 3000)]
    perm_lines = []
    perms = []
    for l in base:
        vs = [x.strip() for x in l[5:].split(";;")]
        p = list(range(len(vs)))
        rng.shuffle(p)
        perms.append(p)
        perm_lines.append("vals " + " ;; ".join(vs[i] for i in p))
    if base and "order" in parts:
        o1 = run_lines(ctx, hb, ["register"], base, "order-a")
        o2 = run_lines(ctx, hb, ["register"], perm_lines, "order-b")
        for l, p, a, b in zip(base, perms, o1, o2):
            if a.startswith("RC ") and b.startswith("RC "):
                ins = a[3:a.index("] (RR") + 1] if "] (RR" in a else None
                if ins is None:
                    continue
                ra, rb = a[len("RC " + ins) + 1:], b[b.index("] (RR") + 2:] if "] (RR" in b else "RPanic"
                olines.append(l + "   ## perm " + str(p))
                oterms.append("OC %s [%s] %s %s" % (ins, ";".join("%d%%nat" % i for i in p), ra, rb))
        h = evaluate(ctx, "order", "check_order", olines, oterms, None, per_shard=max(1, len(oterms) // 16 + 1))
        cov["order"] = {"cases": len(oterms), "codes": dict(h)}
    # rules: all together, and one by one
    if "rules" in parts:
        outs = run_lines(ctx, hb, ["rules"], reg_lines, "rules")
        h = evaluate(ctx, "rules", "check_rules", reg_lines, outs, None, per_shard=max(1, len(reg_lines) // 32 + 1))
        cov["rules"] = {"cases": len(reg_lines), "codes": dict(h)}
    # C02: the rule set walked in two orders (hook H1 at tc.rules: sorted / sortedrev / the set's own hash order)
    if "rule-order" in parts:
        ro_lines = reg_lines[: (300 if q else 3000)]
        modes = ["sorted", "sortedrev", "natural", "seed:7"]
        om = run_lines(ctx, hb, ["rules", "*", ",".join(modes)], ro_lines, "rule-order", scale=len(modes))
        ro_l, ro_t = [], []
        for l, o in zip(ro_lines, om):
            parts_ = o.split(" ||| ")
            if len(parts_) != len(modes) or not parts_[0].startswith("UC "):
                continue
            for mode, b in zip(modes[1:], parts_[1:]):
                ro_l.append(l + "   ## rule order sorted vs " + mode)
                ro_t.append("RO (%s) (%s)" % (parts_[0], b))
        h = evaluate(ctx, "rule-order", "check_rule_order", ro_l, ro_t, None, per_shard=max(1, len(ro_t) // 32 + 1))
        cov["rule_order"] = {"cases": len(ro_t), "modes": ["sorted vs sortedrev", "sorted vs natural (hash order)", "sorted vs seed:7"], "codes": dict(h)}
    # C02: the value list registered and typed in two orders: tables equal up to renaming
    if base and "rulesperm" in parts:
        u1 = run_lines(ctx, hb, ["rules"], base, "rulesperm-a")
        u2 = run_lines(ctx, hb, ["rules"], perm_lines, "rulesperm-b")
        pl, pt = [], []
        for l, p, a, b in zip(base, perms, u1, u2):
            if a.startswith("UC ") and b.startswith("UC "):
                ma, mb = re.match(r'UC "\*" (\[.*\]) (\(UR .*\)|UPanic|\(UErr .*\))$', a), re.match(r'UC "\*" (\[.*\]) (\(UR .*\)|UPanic|\(UErr .*\))$', b)
                if not (ma and mb):
                    continue
                pl.append(l + "   ## perm " + str(p))
                pt.append("OU %s [%s] %s %s" % (ma.group(1), ";".join("%d%%nat" % i for i in p), ma.group(2), mb.group(2)))
        h = evaluate(ctx, "rulesperm", "check_rules_perm", pl, pt, None, per_shard=max(1, len(pt) // 16 + 1))
        cov["rules_perm"] = {"cases": len(pt), "with_fresh": len([t for t in pt if "Mapping" in t]), "codes": dict(h)}
    rule_names = ["ArithmeticOperationRule", "BitShiftRule", "BooleanOpsRule", "CallDataRule", "CreateContractRule",
                  "DynamicArrayWriteRule", "EnvironmentCodesRule", "ExtCodeRule", "ExternalCallRule", "HashRule", "MappingAccessRule",
                  "MaskedWordRule", "OffsetSizeRule", "PackedEncodingRule", "SLoadIsInnerTypesRule", "StorageKeyRule", "StorageWriteRule"]
    sample = list(lists.keys())[: (60 if q else 1500)] if "rules-single" in parts else []
    per_rule = {}
    all_lines, all_outs = [], []
    for rn in (rule_names if sample else []):
        o = run_lines(ctx, hb, ["rules", rn], sample, "rules-" + rn)
        all_lines += ["[%s] %s" % (rn, l) for l in sample]
        all_outs += o
        per_rule[rn] = {"cases": len(sample),
                        "nonempty": len([x for x in o if "(UR " in x and any(k in x[x.index("(UR "):] for k in ("Word", "Equal", "Packed", "Mapping", "DynamicArray"))])}
    if "rules-single" in parts:
        h = evaluate(ctx, "rules-single", "check_rules", all_lines, all_outs, None, per_shard=max(1, len(all_lines) // 16 + 1))
        per_rule["codes"] = dict(h)
        cov["rules_single"] = per_rule
    # abi
    ac = abi_cases(ctx) if "abi" in parts else {}
    alines = list(ac.keys())
    rng.shuffle(alines)
    if ctx.replay_in:
        rp = json.load(open(ctx.replay_in))["replay"]
        alines = [rp["input"]] if rp.get("suite") == "abi" else []
    outs = run_lines(ctx, hb, ["abi"], alines, "abi") if alines else []
    h = evaluate(ctx, "abi", "check_abi", alines, outs, None, per_shard=max(1, len(alines) // 32 + 1)) if alines else {}
    res = collections.Counter(o.split(" (")[-1].split(" ")[0].strip(")") if o.startswith("AC") else o for o in outs)
    cov["abi"] = {"cases": len(alines), "classes": dict(collections.Counter(ac.values())), "impl_results": dict(res), "codes": dict(h),
                  "rows_checked": sum(o.count("(AT") for o in outs)}
    # whole runs: classes reachable from the constant slots, model abi on the real final state
    clines = ["%s %s all sorted" % (c.hex(), CFG) for c in progs] if "classes" in parts else []
    if ctx.replay_in:
        rp = json.load(open(ctx.replay_in))["replay"]
        clines = [rp["input"]] if rp.get("suite") == "classes" else []
    outs = run_lines(ctx, hb, ["tc-classes"], clines, "tc-classes") if clines else []
    h = evaluate(ctx, "classes", "c12_class_code", clines, outs, None, per_shard=max(1, len(clines) // 32 + 1)) if clines else {}
    cov["classes"] = {"cases": len(clines), "with_slots": len([o for o in outs if o.startswith("KC 0") and "Some" in o]),
                      "codes": dict(h), "known_nested": h.get(62, 0)}
    cov["constructors_generated"] = len(tg.used)
    cov["evaluations"] = len(reg_lines) * 2 + len(oterms) + len(alines) + len(clines) + len(sample) * len(rule_names)
    cov["distinct_nontrivial"] = len([o for o in outs if "Packed" in o]) + cov["abi"]["rows_checked"]
    (ctx.coverage if cov_key is None else ctx.coverage.setdefault(cov_key, {})).update(cov)
    return reg_lines[:2] + alines[:3]
