"""PASSES_PACKING -- support suite for C04 / C12: the three packing lifting passes (sub_word, mul_shifted,
packed_encoding) as a Coq model, its theorems, and the pass-by-pass correspondence with the real passes."""
import collections
import json
import os
import re

import gen
import vlib

MANIFEST = {
    "not_applicable": "support suite for C04/C12; run through those checks",
    "text": "Coq theorems for ALL value trees and ALL 256-bit constants about the faithful model of the lifting passes "
            "sub_word, mul_shifted and packed_encoding: get_region_spec (every contiguous mask (2^n-1)*2^o gives (o, n); "
            "for any mask the lowest run of ones), subword_in_slot / shifted_in_slot / packed_spans_in_slot (every node a "
            "pass creates lies inside the 256-bit word; spans ordered and disjoint), packing_no_panic, lift_packed_fields / "
            "lift_packed_rmw / address_mask (compiler-style packings lift to exactly their (offset, size) pairs). The fit "
            "checks are re-read from the source text on every run (tools/tr_packing.py -> gen/PackingAnchors.v); the pinned "
            "texts select defective terms for which the refutations are proved. The real passes are run on generated trees "
            "and on trees produced by the real VM and every result is evaluated inside Coq.",
    "note": "Trusted: Coq kernel + vm_compute; tr_packing.py's reading of the six anchored expressions as Gallina terms; "
            "the hand-written model of the rest of the three closures and of transform (tied by the differential run); "
            "Fold.constant_fold (C09); std's stable sort; the harness and generators.",
    "technique": "Coq proof over a hand-written model with translated anchor expressions; differential correspondence "
                 "and property evaluation inside Coq",
}

M = 2 ** 256
PASSES = ["sub_word", "mul_shifted", "packed_encoding", "packing3"]
CODES = {
    1: "model computes another tree than the implementation", 2: "model panics, implementation does not",
    3: "implementation panics outside the no-panic hypothesis but the model does not", 9: "constant out of range (generator)",
    10: "a created SubWord has size 0 or ends beyond bit 256", 11: "the pass panicked",
    12: "a created Shifted has offset >= 256", 13: "a created Packed has a span that ends beyond bit 256",
    14: "a created Packed has unordered or overlapping spans",
    15: "a ground-truth packing / mask was not recovered with exactly its (offset, size) pairs",
    16: "the pass returned Err", 17: "a created Shifted does not wrap a SubWord",
}
HDR = ("From Coq Require Import String.\nFrom SLX Require Import Base Word256 gen.ValueSig SymVal PassesPacking PassesPackingCases.\n"
       "Open Scope N_scope.\n")


def K(w):
    return "(KnownData [0x%x])" % (w % M)


def term_to_text(t):
    """`(Node T_Add [] [(Node T_Value [1] []);...])` -> `(Add [] (Value [1] ) ...)`"""
    return t.replace("Node T_", "").replace(";", " ").replace("] [", "] ").replace("])", ")")


def impl_output(line):
    """the tree inside `(POk ...)` of a case line, as a Coq term (None when the pass did not return one)"""
    i = line.find("(POk ")
    if i < 0:
        return None
    j = i + 5
    depth = 0
    for k in range(j, len(line)):
        if line[k] == "(":
            depth += 1
        elif line[k] == ")":
            depth -= 1
            if depth == 0:
                return line[j:k + 1]
    return None


class Gen:
    def __init__(self, ctx):
        self.rng = ctx.rng
        self.quick = ctx.quick
        self.shifts = list(range(0, 9)) + [15, 16, 31, 32, 63, 64, 96, 128, 159, 160, 161, 200, 247, 248, 249, 254, 255, 256, 257,
                                           299, 300, 511, 2 ** 16, 2 ** 32 - 1, 2 ** 32, 2 ** 63, 2 ** 64 - 256, 2 ** 64 - 9,
                                           2 ** 64 - 8, 2 ** 64 - 1, 2 ** 64, 2 ** 64 + 1, 2 ** 64 + 8, 2 ** 64 + 255, 2 ** 65,
                                           2 ** 128, 2 ** 255, 2 ** 255 + 8, M - 256, M - 8, M - 1]
        self.ids = 0

    # ---- leaves
    def leaf(self):
        r = self.rng
        c = r.randrange(8)
        if c == 0:
            return "(Value [%d])" % r.randrange(1, 9)
        if c == 1:
            return "(Caller [])"
        if c == 2:
            return "(CallData [%d] %s %s)" % (r.randrange(1, 5), K(4 + 32 * r.randrange(4)), K(32))
        if c == 3:
            return "(CallValue [])"
        if c == 4:
            return self.sload(r.randrange(0, 4))
        if c == 5:
            return "(Value [%d])" % r.randrange(1, 5)
        if c == 6:
            return "(Sha3 [] (Value [%d]))" % r.randrange(1, 5)
        return "(Add [] (Value [%d]) %s)" % (r.randrange(1, 5), K(r.randrange(1, 5)))

    def sload(self, k):
        return "(SLoad [] %s (UnwrittenStorageValue [] %s))" % (K(k), K(k))

    def shift_amount(self):
        r = self.rng
        c = r.randrange(10)
        if c < 4:
            return r.choice(self.shifts)
        if c < 7:
            return r.randrange(0, 300)
        if c == 7:
            return 8 * r.randrange(0, 33)
        if c == 8:
            return 2 ** 64 + r.randrange(-300, 300)
        return r.getrandbits(r.choice([8, 9, 64, 65, 256]))

    def mask(self):
        """(constant, class)"""
        r = self.rng
        c = r.randrange(12)
        if c < 4:
            n = r.randrange(1, 257)
            o = r.randrange(0, 257 - n)
            return ((2 ** n - 1) << o, "contiguous")
        if c < 6:
            n = 8 * r.randrange(1, 33)
            o = 8 * r.randrange(0, (256 - n) // 8 + 1)
            return ((2 ** n - 1) << o, "contiguous-bytes")
        if c == 6:
            n = r.randrange(1, 257)
            return ((2 ** n - 1) << (256 - n), "contiguous-top")
        if c == 7:
            return (r.choice([0, 1, M - 1, 2 ** 255, 2 ** 255 - 1, 2 ** 160 - 1, 2 ** 64, 2 ** 64 - 1, M - 2 ** 160, 0xff00ff, 0xb, 5]), "special")
        if c == 8:
            n = r.randrange(1, 250)
            o = r.randrange(0, 250 - n)
            return (M - 1 - ((2 ** n - 1) << o), "inverted")
        if c == 9:
            return (r.getrandbits(256), "random")
        if c == 10:
            return (r.getrandbits(256) & r.getrandbits(256) & r.getrandbits(256), "sparse")
        return (r.getrandbits(r.choice([8, 16, 64, 128])) << r.randrange(0, 128), "random-low")

    def mask_expr(self, w):
        """the constant as a tree: literally, or as an expression that folds to it"""
        r = self.rng
        c = r.randrange(8)
        n = w.bit_length()
        if c == 0 and w == 2 ** n - 1 and 0 < n < 256:
            return "(Subtract [] (LeftShift [] %s %s) %s)" % (K(n), K(1), K(1))
        if c == 1 and w == 2 ** n - 1 and 0 < n < 256:
            return "(Subtract [] (Exp [] %s %s) %s)" % (K(2), K(n), K(1))
        if c == 2:
            return "(Not [] %s)" % K(M - 1 - w)
        if c == 3 and w % 2 == 0 and w > 0:
            tz = (w & -w).bit_length() - 1
            return "(LeftShift [] %s %s)" % (K(tz), K(w >> tz))
        return K(w)

    def shifted_value(self, x):
        """(tree, class) : x behind one of the right-shift forms get_shift knows (and some it does not)"""
        r = self.rng
        c = r.randrange(14)
        s = self.shift_amount()
        if c < 3:
            return x, "plain"
        if c < 6:
            return "(RightShift [] %s %s)" % (K(s), x), "shr-const"
        if c == 6:
            return "(RightShift [] (Add [] %s %s) %s)" % (K(s // 2), K(s - s // 2), x), "shr-folding"
        if c == 7:
            return "(RightShift [] (Value [7]) %s)" % x, "shr-symbolic"
        if c == 8:
            k = r.randrange(0, 256)
            return "(Divide [] %s %s)" % (x, K(2 ** k)), "div-pow2"
        if c == 9:
            return "(Divide [] %s %s)" % (x, K(r.choice([0, 3, 6, 10, 12, 20, 24, 40, 2 ** 200 + 2 ** 10, 5 * 2 ** 100, r.getrandbits(64)]))), "div-const"
        if c == 10:
            return "(Divide [] %s (Exp [] %s %s))" % (x, K(r.choice([2, 2, 2, 3, 2 ** 64 + 2])), K(s)), "div-exp"
        if c == 11:
            return "(Divide [] %s (LeftShift [] %s %s))" % (x, K(s), K(r.choice([1, 1, 1, 2, 2 ** 64 + 1]))), "div-shl"
        if c == 12:
            return "(Divide [] %s (Exp [] (Value [3]) %s))" % (x, K(s)), "div-exp-symbolic"
        return "(ArithmeticRightShift [] %s %s)" % (K(s), x), "sar"

    def masked(self, depth=0):
        """(tree, class): one `value & mask` form"""
        r = self.rng
        w, mc = self.mask()
        x = self.leaf()
        if depth < 2 and r.random() < 0.3:
            x, _ = self.masked(depth + 1)
        if r.random() < 0.08:
            x = K(r.getrandbits(64))
        v, sc = self.shifted_value(x)
        m = self.mask_expr(w)
        t = "(And [] %s %s)" % ((v, m) if r.random() < 0.5 else (m, v))
        return t, "mask:%s/%s" % (mc, sc)

    def seg_raw(self):
        """a shifted-in field before any lifting: (tree, class)"""
        r = self.rng
        t, c = self.masked()
        k = r.randrange(5)
        s = self.shift_amount()
        if k == 0:
            return t, c
        if k == 1:
            p = r.randrange(0, 256)
            return ("(Multiply [] %s %s)" % ((t, K(2 ** p)) if r.random() < 0.5 else (K(2 ** p), t))), c + "*2^k"
        if k == 2:
            return "(LeftShift [] %s %s)" % (K(s), t), c + "<<k"
        if k == 3:
            return "(Multiply [] %s %s)" % (t, K(r.choice([0, 1, 3, 6, 10, 12, 20, 2 ** 255, 5 * 2 ** 100, M - 1, r.getrandbits(64)]))), c + "*const"
        return "(LeftShift [] (Value [5]) %s)" % t, c + "<<sym"

    def seg_lifted(self):
        """a SubWord / Shifted(SubWord) node with arbitrary payload, occasionally ill-formed"""
        r = self.rng

        def num():
            c = r.randrange(10)
            if c < 5:
                return 8 * r.randrange(0, 33)
            if c < 8:
                return r.randrange(0, 300)
            return r.choice([2 ** 32, 2 ** 63, 2 ** 64 - 1, 2 ** 64 - 8, 2 ** 64 - 256, 257, 256, 255, 0])
        inner = self.leaf()
        sw = "(SubWord [%d %d] %s)" % (num(), num(), inner)
        c = r.randrange(10)
        if c < 4:
            return sw
        if c < 9:
            return "(Shifted [%d] %s)" % (num(), sw)
        return "(Shifted [%d] %s)" % (num(), self.leaf())      # ill-formed: outside the no-panic hypothesis

    def or_tree(self, leaves):
        r = self.rng
        if len(leaves) == 1:
            return leaves[0]
        k = r.randrange(1, len(leaves))
        return "(Or [] %s %s)" % (self.or_tree(leaves[:k]), self.or_tree(leaves[k:]))

    # ---- ground truth
    def fields(self, nf):
        """nf fields at byte boundaries of one word: [(offset_bits, size_bits)], consecutive from a random start,
        possibly leaving a gap at the top"""
        r = self.rng
        cuts = sorted(r.sample(range(1, 32), nf - 1)) if nf > 1 else []
        bounds = [0] + cuts + [32]
        fs = [(8 * bounds[i], 8 * (bounds[i + 1] - bounds[i])) for i in range(nf)]
        if r.random() < 0.3 and fs[-1][1] > 8:      # unused bytes at the top
            o, n = fs[-1]
            fs[-1] = (o, 8 * r.randrange(1, n // 8))
        return fs

    def field_src(self, i):
        r = self.rng
        return r.choice(["(Value [%d])" % (10 + i), "(CallData [%d] %s %s)" % (i + 1, K(4 + 32 * i), K(32)), "(Caller [])", "(CallValue [])",
                         "(Add [] (Value [%d]) (Value [%d]))" % (20 + i, 30 + i)])

    def seg_gt(self, o, n, x, style):
        m = K(2 ** n - 1)
        a = "(And [] %s %s)" % ((x, m) if self.rng.random() < 0.5 else (m, x))
        if o == 0 and style != "shl0":
            return a
        if style == "mul":
            return "(Multiply [] %s %s)" % ((a, K(2 ** o)) if self.rng.random() < 0.5 else (K(2 ** o), a))
        return "(LeftShift [] %s %s)" % (K(o), a)

    def ground_truth(self, fs, style):
        """full write of all fields: (tree, expected attrs)"""
        segs = []
        for i, (o, n) in enumerate(fs):
            st = style if style != "mixed" else self.rng.choice(["mul", "shl"])
            segs.append(self.seg_gt(o, n, self.field_src(i), st))
        key = K(self.rng.choice([0, 1, 7, 77, 2 ** 200 + 5]))
        tree = "(StorageWrite [] %s %s)" % (key, self.or_tree(segs))
        return tree, [x for f in fs for x in f]

    def ground_truth_rmw(self, o, n, style):
        """read-modify-write of one field with an inverted mask"""
        r = self.rng
        slot = r.choice([0, 1, 7, 77, 2 ** 200 + 5])
        key = K(slot)
        inv = M - 1 - ((2 ** n - 1) << o)
        invm = K(inv) if r.random() < 0.6 else "(Not [] %s)" % K((2 ** n - 1) << o)
        old = self.sload(slot)
        cleared = "(And [] %s %s)" % ((old, invm) if r.random() < 0.5 else (invm, old))
        seg = self.seg_gt(o, n, self.field_src(0), style)
        body = "(Or [] %s %s)" % ((cleared, seg) if r.random() < 0.5 else (seg, cleared))
        return "(StorageWrite [] %s %s)" % (key, body), [o, n]


def all_ctor_tree(g, sig, d):
    """random tree over ALL constructors of SymbolicValueData (field kinds from the source)"""
    r = g.rng
    if d == 0 or r.random() < 0.15:
        c = r.randrange(4)
        if c == 0:
            return K(r.choice([0, 1, 2, 8, 255, 256, 2 ** 8 - 1 << 8, 2 ** 160 - 1, 2 ** 64, M - 1, r.getrandbits(256)]))
        return g.leaf()
    if r.random() < 0.45:      # bias towards the constructors the passes look at
        name = r.choice(["And", "And", "Or", "Or", "Multiply", "LeftShift", "RightShift", "Divide", "StorageWrite", "SubWord", "Shifted",
                         "Packed", "SLoad", "Exp", "Not", "Subtract"])
        fields = dict(sig)[name]
    else:
        name, fields = r.choice(sig)
    attrs, kids = [], []
    small = lambda: r.choice([r.randrange(0, 33) * 8, r.randrange(0, 300), 2 ** 64 - 1, 2 ** 64 - 8, 0, 256])
    for fn, ft in fields:
        k = KINDS.get(ft, "FUsize")
        if k == "FChild":
            kids.append(all_ctor_tree(g, sig, d - 1))
        elif k == "FChildren":
            for _ in range(r.randrange(0, 3)):
                kids.append(all_ctor_tree(g, sig, d - 1))
        elif k == "FId":
            attrs.append(str(r.randrange(1, 6)))
        elif k == "FWord":
            attrs.append("0x%x" % r.choice([0, 1, 255, 0xff00, 2 ** 160 - 1, r.getrandbits(256)]))
        elif k == "FUsize":
            attrs.append(str(small()))
        elif k == "FOptUsize":
            attrs += r.choice([["0"], ["1", str(r.randrange(0, 4))]])
        elif k == "FSpans":
            for _ in range(r.randrange(0, 3)):
                attrs += [str(small()), str(small())]
                kids.append(all_ctor_tree(g, sig, d - 1))
    return "(%s [%s]%s)" % (name, " ".join(attrs), "".join(" " + k for k in kids))


KINDS = {}


def ctor_sig():
    import translate
    import tr_valuesig
    KINDS.update(tr_valuesig.KINDS)
    return tr_valuesig.parse_enum(translate.read(vlib.REPO, "src/vm/value/mod.rs"))


# ---------------------------------------------------------------------------------------- VM programs

def asm(e):
    """expression -> stack code leaving one word; e = int | ("OP", args...) with args[0] ending on top of the stack"""
    if isinstance(e, int):
        return gen.push(e % M)
    op, args = e[0], e[1:]
    out = b""
    for a in reversed(args):
        out += asm(a)
    return out + bytes([gen.OPS[op]])


def vm_programs(g, n):
    r = g.rng
    progs = collections.OrderedDict()

    def src():
        c = r.randrange(4)
        if c == 0:
            return ("SLOAD", r.randrange(0, 3))
        if c == 1:
            return ("CALLDATALOAD", 4 + 32 * r.randrange(0, 3))
        if c == 2:
            return ("CALLER",)
        return ("CALLVALUE",)

    def masked(d=0):
        w, _ = g.mask()
        x = src() if d >= 2 or r.random() < 0.7 else masked(d + 1)
        c = r.randrange(8)
        s = g.shift_amount()
        if c < 2:
            v = x
        elif c < 5:
            v = ("SHR", s, x)
        elif c == 5:
            v = ("DIV", x, 2 ** r.randrange(0, 256))
        elif c == 6:
            v = ("DIV", x, ("EXP", 2, s))
        else:
            v = ("DIV", x, ("SHL", s, 1))
        return ("AND", v, w) if r.random() < 0.5 else ("AND", w, v)

    def seg():
        t = masked()
        c = r.randrange(4)
        if c == 0:
            return t
        if c == 1:
            return ("MUL", t, 2 ** r.randrange(0, 256)) if r.random() < 0.5 else ("MUL", 2 ** r.randrange(0, 256), t)
        if c == 2:
            return ("SHL", g.shift_amount(), t)
        return ("MUL", t, r.choice([10, 6, 20, 3]))

    def ors(k):
        e = seg()
        for _ in range(k - 1):
            e = ("OR", e, seg()) if r.random() < 0.5 else ("OR", seg(), e)
        return e

    # the recorded witnesses
    progs["5f5461012c1c60ff1660015500"] = "F8 witness"
    for _ in range(n):
        c = r.randrange(4)
        slot = r.randrange(0, 3)
        if c == 0:
            body, cls = masked(), "vm:mask"
        elif c == 1:
            body, cls = ors(r.randrange(2, 5)), "vm:or-of-segments"
        elif c == 2:       # compiler-style read-modify-write at a byte boundary
            nb = r.randrange(1, 32)
            ob = r.randrange(0, 33 - nb)
            o, nn = 8 * ob, 8 * nb
            inv = M - 1 - ((2 ** nn - 1) << o)
            val = ("AND", src() if r.random() < 0.8 else ("CALLDATALOAD", 4), 2 ** nn - 1)
            sh = val if o == 0 else (("SHL", o, val) if r.random() < 0.5 else ("MUL", val, 2 ** o))
            body, cls = ("OR", ("AND", ("SLOAD", slot), inv), sh), "vm:rmw"
        else:
            body, cls = seg(), "vm:segment"
        code = asm(body) + asm(slot) + bytes([gen.OPS["SSTORE"], gen.OPS["STOP"]])
        progs.setdefault(code.hex(), cls)
    return progs


# ---------------------------------------------------------------------------------------- the check

def build_inputs(ctx, sig):
    g = Gen(ctx)
    r = ctx.rng
    q = ctx.quick
    ins = collections.OrderedDict()          # (pass, expect, tree) -> class
    raw = collections.OrderedDict()          # tree -> class : inputs that are also chained pass by pass

    def add(p, e, t, cls):
        ins.setdefault((p, e, t), cls)

    # corpus first
    try:
        for l in open(vlib.ROOT + "/corpus/PASSES_PACKING.txt"):
            l = l.split("#")[0].strip()
            f = l.split(" ", 2)
            if len(f) == 3 and f[0] in PASSES:
                add(f[0], f[1], f[2], "corpus")
    except FileNotFoundError:
        pass
    # the recorded witnesses and idioms
    w300 = "(And [] (RightShift [] %s %s) %s)" % (K(300), g.sload(0), K(255))
    raw[w300] = "F8 witness"
    raw["(StorageWrite [] %s %s)" % (K(1), w300)] = "F8 witness"
    raw["(Multiply [] (And [] %s %s) %s)" % (g.sload(0), K(2 ** 160 - 1), K(2 ** 255))] = "sub-word times 2^255"
    raw["(StorageWrite [] %s (Or [] (And [] (Value [1]) %s) (Multiply [] (And [] (Value [2]) %s) %s)))" % (K(0), K(255), K(2 ** 160 - 1), K(2 ** 255))] = "sub-word times 2^255"
    raw["(And [] (RightShift [] %s %s) %s)" % (K(2 ** 64 - 1), g.sload(0), K(0xff00))] = "F7 witness"
    add("packed_encoding", "-", "(StorageWrite [] %s (Or [] (SubWord [%d 16] (Value [1])) (SubWord [0 8] (Value [2]))))" % (K(0), 2 ** 64 - 8), "F7 witness")
    add("packed_encoding", "-", "(StorageWrite [] %s (Shifted [3] (Value [1])))" % K(0), "ill-formed Shifted")
    add("mul_shifted", "-", "(Multiply [] (SubWord [0 8] (Value [1])) %s)" % K(10), "times 10")
    # address masks and byte masks, both operand orders
    for nb in ([20, 1, 4, 32] if q else range(1, 33)):
        for x in (g.leaf(), "(Value [1])", "(CallData [1] %s %s)" % (K(4), K(32))):
            if "SLoad" in x and nb == 32:
                pass
            m = K(2 ** (8 * nb) - 1)
            for t in ("(And [] %s %s)" % (x, m), "(And [] %s %s)" % (m, x)):
                add("sub_word", "S:0,%d" % (8 * nb), t, "address/byte mask")
                add("packing3", "S:0,%d" % (8 * nb), t, "address/byte mask")
    # every contiguous mask position (the domain of get_region_spec) -- sampled in quick, all 32896 in thorough
    pos = [(o, n) for n in range(1, 257) for o in range(0, 257 - n)]
    for o, n in (r.sample(pos, 300) if q else pos):
        add("sub_word", "S:%d,%d" % (o, n), "(And [] (Value [1]) %s)" % K((2 ** n - 1) << o), "contiguous mask (o,n)")
    # masks and shifts anywhere in 0..2^256
    for _ in range(700 if q else 12000):
        t, c = g.masked()
        raw.setdefault(t, c)
    for s in g.shifts + list(range(240, 272)):
        for mk in (0xff, 0xff00, 2 ** 255, (2 ** 8 - 1) << 248):
            raw.setdefault("(And [] (RightShift [] %s %s) %s)" % (K(s), g.sload(0), K(mk)), "mask:every boundary shift")
    for _ in range(400 if q else 6000):
        t, c = g.seg_raw()
        raw.setdefault(t, "seg:" + c)
    for s in g.shifts + list(range(240, 272)):
        raw.setdefault("(LeftShift [] %s (And [] (Value [1]) %s))" % (K(s), K(0xffff)), "seg:every boundary shl")
        add("mul_shifted", "-", "(LeftShift [] %s (SubWord [0 16] (Value [1])))" % K(s), "seg:every boundary shl")
    for p in range(0, 256):
        add("mul_shifted", "-", "(Multiply [] %s (SubWord [0 8] (Value [1])))" % K(2 ** p), "seg:every power of two")
    # nested packed encodings: stores of or-trees of raw segments / of already lifted segments
    for _ in range(300 if q else 5000):
        k = r.randrange(1, 6)
        segs = [g.seg_raw()[0] for _ in range(k)]
        if r.random() < 0.3:
            segs.append("(And [] %s %s)" % (g.sload(0), K(g.mask()[0])))
        r.shuffle(segs)
        body = g.or_tree(segs)
        if r.random() < 0.2:       # a store inside a store
            body = "(Or [] %s (StorageWrite [] %s %s))" % (body, K(3), g.or_tree([g.seg_raw()[0] for _ in range(2)]))
        key = K(0) if r.random() < 0.7 else "(Sha3 [] (StorageWrite [] %s %s))" % (K(9), g.seg_raw()[0])
        raw.setdefault("(StorageWrite [] %s %s)" % (key, body), "store of raw segments")
    for _ in range(500 if q else 8000):
        k = r.randrange(1, 6)
        segs = [g.seg_lifted() for _ in range(k)]
        if r.random() < 0.2:
            segs.append(g.leaf())
        body = g.or_tree(segs)
        t = "(StorageWrite [] %s %s)" % (K(r.randrange(0, 4)), body)
        add("packed_encoding", "-", t, "store of lifted segments")
        add("packing3", "-", t, "store of lifted segments")
    # ground truth: 2-6 fields at byte boundaries; every boundary occurs; both styles; read-modify-write
    for nf in range(2, 7):
        for _ in range(25 if q else 400):
            fs = g.fields(nf)
            for style in ("mul", "shl", "mixed"):
                t, exp = g.ground_truth(fs, style)
                add("packing3", "P:" + ",".join(map(str, exp)), t, "ground truth %d fields %s" % (nf, style))
                raw.setdefault(t, "ground truth chained")
    for b in range(1, 32):           # every byte boundary as a 2-field split
        for style in ("mul", "shl"):
            t, exp = g.ground_truth([(0, 8 * b), (8 * b, 256 - 8 * b)], style)
            add("packing3", "P:" + ",".join(map(str, exp)), t, "ground truth every boundary")
    for ob in range(0, 32):
        for nb in ([1, 2, 20, 32 - ob] if q else range(1, 33 - ob)):
            if nb < 1 or ob + nb > 32 or (ob == 0 and nb == 32):
                continue
            for style in ("mul", "shl"):
                t, exp = g.ground_truth_rmw(8 * ob, 8 * nb, style)
                add("packing3", "P:" + ",".join(map(str, exp)), t, "ground truth rmw")
    # random trees over all constructors
    for _ in range(1000 if q else 10000):
        t = all_ctor_tree(g, sig, r.choice([2, 3, 3, 4]))
        p = r.choice(PASSES)
        add(p, "-", t, "random over all constructors")
    return g, ins, raw


def run_lines(ctx, hb, lines, what):
    ok, out, diag = vlib.run_harness_sharded(hb, ["lift-packing"], lines, timeout=600)
    bad = len([l for l in out if l.startswith("BADINPUT") or l == "CHILD-DIED"])
    ctx.oblige("harness:lift-packing:" + what, "correspondence", ok and bad == 0 and len(out) == len(lines),
               "lines=%d/%d bad=%d %s %s" % (len(out), len(lines), bad, diag[-300:], [l for l in out if l.startswith("BADINPUT")][:3]))
    return out


def check(ctx):
    r = suite(ctx)
    if r is None:
        return vlib.finish(ctx)
    return vlib.finish(ctx, rule=r[0], samples=r[1])


def suite(ctx, translate=True, codes=None, cov_key=None, only=None):
    """everything but the verdict; C04 / C12 / C01 call this from their own check(ctx) with the violation codes
    that belong to them (C12: 10 12 13 14 17; C04: 15; C01: 11 16)."""
    if ctx.replay_in and vlib.stage_replay(ctx) != "packing":
        return None
    if translate:
        vlib.translate(ctx)
        ctx.log("translated")
    vlib.prove(ctx, "props/PassesPacking.v", ["PassesPackingCases.vo"], only=only)
    rc, out = vlib.coq_make(["PassesPackingCases.vo"])
    ctx.oblige("build:PassesPackingCases.vo", "build", rc == 0, out[-1500:])
    ctx.log("proved")
    hb = vlib.harness_bin(ctx)
    if not hb:
        return None
    sig = ctor_sig()
    g, ins, raw = build_inputs(ctx, sig)
    if ctx.replay_in:
        rp = json.load(open(ctx.replay_in))["replay"]
        ins = collections.OrderedDict([((rp["pass"], rp.get("expect", "-"), rp["input"]), "replay")])
        raw = collections.OrderedDict()
    else:
        # trees produced by the REAL VM from generated mask-and-shift programs
        progs = vm_programs(g, 150 if ctx.quick else 3000)
        out = run_lines(ctx, hb, ["prog " + h for h in progs], "vm")
        nvm = 0
        for h, l in zip(progs, out):
            if not l.startswith("VALUES"):
                continue
            for t in l.split("\t")[1:]:
                if t:
                    raw.setdefault(term_to_text(t), progs[h])
                    nvm += 1
        (ctx.coverage if cov_key is None else ctx.coverage.setdefault(cov_key, {})).update({"vm_programs": len(progs), "vm_trees": nvm})
        ctx.log("vm trees: %d from %d programs" % (nvm, len(progs)))
    # pass-by-pass chain on the raw trees: sub_word on the tree, mul_shifted on the implementation's result,
    # packed_encoding on the implementation's result of that; and packing3 on the tree
    cases = []            # (pass, expect, tree, class, line)
    stage = [(t, c) for t, c in raw.items()]
    for t, c in stage:
        ins.setdefault(("packing3", "-", t), c)
    for p in ("sub_word", "mul_shifted", "packed_encoding"):
        keys = [(p, "-", t) for t, _ in stage]
        out = run_lines(ctx, hb, ["%s %s %s" % k for k in keys], "chain:" + p)
        nxt = []
        for (t, c), k, l in zip(stage, keys, out):
            cases.append((k[0], k[1], k[2], "chain:" + c, l))
            o = impl_output(l)
            if o is not None:
                nxt.append((term_to_text(o), c))
        stage = nxt
    keys = list(ins.keys())
    out = run_lines(ctx, hb, ["%s %s %s" % k for k in keys], "direct")
    for k, l in zip(keys, out):
        cases.append((k[0], k[1], k[2], ins[k], l))
    cases = [c for c in cases if c[4].startswith("(mk_pcase")]
    ctx.log("cases: %d" % len(cases))
    terms = [re.sub(r"\b\d{10,}\b", lambda m: hex(int(m.group(0))), c[4]) for c in cases]
    bad = vlib.run_cases(ctx, "lift-packing", HDR, terms, per_shard=max(100, (len(terms) + 15) // 16) if ctx.quick else 600, timeout=900)
    ctx.log("cases evaluated")
    disagreements = []
    for i, code in bad:
        p, e, t, cls, line = cases[i]
        what = CODES.get(code, str(code))
        if code >= 10:
            if codes is not None and code not in codes:
                continue
            ctx.violate("PASSES_PACKING:%s:%d:%s" % (p, code, t[:80]),
                        "%s: %s on input `%s`; implementation returned %s" % (p, what, t[:400], (impl_output(line) or line)[:400]),
                        {"pass": p, "expect": e, "input": t, "code": code, "meaning": what, "class": cls, "impl": line[:4000],
                         "how": "printf '%%s\\n' '%s %s <input>' | build/harness-target/debug/slxh lift-packing" % (p, e)})
        else:
            disagreements.append("%s %s: %s (impl %s)" % (p, t[:200], what, (impl_output(line) or line)[:200]))
    ctx.oblige("correspondence:lift-packing", "correspondence", not disagreements, "\n".join(disagreements[:10]))
    outcomes = collections.Counter()
    for p, e, t, cls, line in cases:
        o = impl_output(line)
        if o is None:
            outcomes["%s:%s" % (p, "panic" if "PPanic" in line else "err")] += 1
        else:
            changed = ("(POk %s)" % o) != "(POk %s)" % line[len("(mk_pcase P_%s " % p):line.find(" (POk ")]
            kind = "Packed" if "T_Packed" in o and "T_Packed" not in t else ("changed" if changed else "unchanged")
            outcomes["%s:%s" % (p, kind)] += 1
    distinct = set((c[0], c[2]) for c in cases)
    cov = ctx.coverage if cov_key is None else ctx.coverage.setdefault(cov_key, {})
    cov.update({
        "evaluations": len(cases),
        "distinct_inputs": len(distinct),
        "distinct_nontrivial": len(set((c[0], c[2]) for c in cases if impl_output(c[4]) is not None and
                                       ("(POk %s)" % impl_output(c[4])) != "(POk %s)" % c[4][len("(mk_pcase P_%s " % c[0]):c[4].find(" (POk ")])),
        "traces_validated_against_impl": len(cases),
        "input_classes": dict(collections.Counter(re.sub(r"/.*", "", c[3]) for c in cases).most_common(60)),
        "per_pass": dict(collections.Counter(c[0] for c in cases)),
        "impl_outcomes": dict(outcomes),
        "exhaustive": False,
        "exhaustive_note": "thorough: all 32896 contiguous masks (o, n); every byte boundary as a 2-field split and every byte-aligned "
                           "read-modify-write field in both tiers; the rest is sampled (the theorems cover all trees)",
    })
    return ("inputs are distinct (pass, tree) pairs; non-trivial = the real pass changed the tree; every case is run through "
                       "the real pass and evaluated in Coq by PassesPackingCases.check_case (model = implementation, and the in-slot / ordering / "
                       "no-panic / ground-truth predicates on the implementation's own output)",
            [" ".join(c[:3])[:300] for c in cases[:3]] + [" ".join(c[:3])[:300] for c in cases if c[1] != "-"][:2])
