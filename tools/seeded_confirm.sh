#!/bin/sh
# seeded_confirm.sh <worktree> <outdir> <Cxx>: my own confirmation of a sub-agent's change in its scratch worktree:
# suite green with the patch, demonstration fails with it, passes without it.  Writes <outdir>/verify_summary.txt
# and removes the build output afterwards.
set -u
W=$1; O=$2; P=$3
cd "$W" || exit 2
git checkout -q -- . ; rm -f tests/demo_$P.rs
export CARGO_TARGET_DIR=$W/target CARGO_NET_OFFLINE=true
git apply "$O/patch.diff" || { echo "patch does not apply" > "$O/verify_summary.txt"; exit 2; }
cargo test --workspace --offline --no-fail-fast > "$O/confirm_suite.log" 2>&1; S=$?
OKG=$(grep -c '^test result: ok' "$O/confirm_suite.log"); BAD=$(grep -c '^test result: FAILED' "$O/confirm_suite.log")
cp "$O/demo/demo_$P.rs" tests/
cargo test --offline --test demo_$P -- --test-threads=1 > "$O/confirm_demo_with.log" 2>&1; D1=$?
git checkout -q -- src
cargo test --offline --test demo_$P -- --test-threads=1 > "$O/confirm_demo_without.log" 2>&1; D2=$?
rm -f tests/demo_$P.rs; git checkout -q -- .
rm -rf "$W/target"
echo "$P: suite_with_patch rc=$S ($OKG ok groups, $BAD failed groups); demo_with_patch rc=$D1; demo_without_patch rc=$D2" | tee "$O/verify_summary.txt"
