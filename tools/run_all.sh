#!/bin/sh
# Runs every claimed check (quick tier) on the CLEAN /repo tree and reports; evidence files are only worth committing from this.
cd "$(dirname "$0")/.."
if [ -n "$(git -C /repo status --short)" ]; then echo "/repo has local modifications: refusing"; exit 2; fi
for p in $(python3 -c "import json; print(' '.join(c['property_id'] for c in json.load(open('MANIFEST.json'))['checks']))"); do
  ./check $p --tier quick > build/runall_$p.log 2>&1; rc=$?
  echo "$p rc=$rc $(grep 'done:' build/runall_$p.log | tail -1)"
done
